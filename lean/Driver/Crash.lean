/-
  Driver/Crash.lean — fault injection runs (C20): header
  `<id> crash <job> <n> <batchmode> <config> <stage> <at>`; implementation lines:
  `fired <host | -1>`, `host <h> ok|panicked sinks <none|some:<len>>,…`, `host <h> blocked`, `infra`.
  The exact set of panicking hosts outside the required ones is schedule dependent, so there is no
  model diff here (`out` echoes the implementation); the verdict is the oracle, which is the
  statement of Props/C20.lean read on the observation points of the property:
  * no host blocks (all workers unwind: `terminal_resolved` / `step_decreases`);
  * `execute_blocking` fails on the host of the failed replica and on the host running the
    downstream sink replica (host 0: sinks have replication One) (`downstream_fails`);
  * no sink downstream of the fault publishes anything on any host (`no_publish_downstream_of_crash`);
  * when the fault does not fire the run is a normal run (complete results, exactly once).
-/
import Driver.Proto
import NoirVerif.Model.Jobs
namespace Noir.Driver.Crash
open Noir Noir.Driver Noir.Jobs

/-- sinks that are downstream of the user function of stage `stage` -/
def affected (job : String) (stage : Nat) (nsinks : Nat) : List Nat :=
  match job with
  | "multi_sink" => if stage == 0 then [0] else [1]
  | _ => List.range nsinks

structure Host where
  id : Nat
  status : String          -- ok | panicked | blocked
  sinks : List String

def parseHost (l : String) : Option Host :=
  match words l with
  | ["host", h, "blocked"] => h.toNat?.map fun h => ⟨h, "blocked", []⟩
  | ["host", h, st, "sinks", ss] => h.toNat?.map fun h => ⟨h, st, ss.splitOn ","⟩
  | ["host", h, st, "sinks"] => h.toNat?.map fun h => ⟨h, st, []⟩
  | _ => none

def handle (c : Case) : Verdict :=
  match c.header with
  | [_, _, job, n, bm, cfg, stage, at_] =>
    match n.toInt?, stage.toNat? with
    | some n, some stage =>
      if c.ops.isEmpty then { out := [], oracle := none, nontrivial := false } else
      if c.implOut == ["infra"] then { out := c.implOut, oracle := none, nontrivial := false, tags := ["infra"] } else
      let firstWords := (c.implOut.head?.map words).getD []
      let fired : Option Int := match firstWords with | "fired" :: h :: _ => h.toInt? | _ => none
      -- hosts running a replica downstream of the failed one (computed by the harness from the
      -- execution graph of the same job; see `downstream_hosts` in harness/src/jobs.rs)
      let downstream : List Nat := match firstWords with
        | ["fired", _, "downstream", hs] => (hs.splitOn ",").filterMap String.toNat?
        | _ => []
      let hosts := c.implOut.drop 1 |>.filterMap parseHost
      match fired, sinks job n with
      | some fired, some exp =>
        let nsinks := exp.length
        let ctx := s!"job {job} n={n} {bm} {cfg} stage={stage} at={at_}"
        let blocked := hosts.filter (·.status == "blocked")
        let oracle : Option String :=
          if hosts.length + 1 != c.implOut.length then some s!"[C20] {ctx}: unparsable output {c.implOut}"
          else if !blocked.isEmpty then some s!"[C20] {ctx}: hosts {blocked.map (·.id)} did not return (workers blocked instead of unwinding)"
          else if fired < 0 then
            -- normal run: every host ok, every sink published exactly once with its full length
            if hosts.any (·.status != "ok") then some s!"[C20] {ctx}: fault did not fire but a host failed: {c.implOut}"
            else
              let bad := (List.range nsinks).filter fun i =>
                let pubs := hosts.filterMap fun h => (h.sinks[i]?).bind fun s => if s == "none" then none else some s
                pubs != [s!"some:{(exp[i]?.getD []).length}"]
              if bad.isEmpty then none else some s!"[C20] {ctx}: fault did not fire but sinks {bad} are not published exactly once completely: {c.implOut}"
          else
            let aff := affected job stage nsinks
            let mustFail : List Nat := (fired.toNat :: downstream).eraseDups
            let notFailed := mustFail.filter fun h => hosts.any fun x => x.id == h && x.status != "panicked"
            let published := hosts.flatMap fun h => aff.filterMap fun i =>
              match h.sinks[i]? with | some s => if s != "none" then some (h.id, i, s) else none | none => none
            if !notFailed.isEmpty then some s!"[C20] {ctx}: execute_blocking did not fail on hosts {notFailed} (fault fired on host {fired}): {c.implOut}"
            else if !published.isEmpty then some s!"[C20] {ctx}: a sink downstream of the fault published a result: {published}"
            else none
        { out := c.implOut, oracle, nontrivial := fired ≥ 0,
          tags := ["nodiff", job, cfg, bm, if fired ≥ 0 then "fired" else "notfired", s!"stage{stage}"] }
      | _, _ => { out := [], oracle := some "[C20] bad output or unknown job", nontrivial := false }
    | _, _ => { out := [], oracle := some "bad header", nontrivial := false }
  | _ => { out := [], oracle := some "bad header", nontrivial := false }

end Noir.Driver.Crash
