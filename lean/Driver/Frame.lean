/-
  Driver/Frame.lean — framing cases (C02).
  header: `<id> frame <block> <host> <prev_block>` (the receiving `DemuxCoord`)
  ops:    `f <sb>.<sh>.<sr> <dest replica> <prev block> <payload hex | -> <elem>*`, `r <k>+`, `cut <n>`
  outputs: `bytes <len> <cksum>`, `tx <size> <replica> <sender block> <payload len> <payload cksum>`*,
           `rx <b>.<h>.<r> <prev> <sb>.<sh>.<sr> <elem>*`*, then `eof` | `panic:recv`.
-/
import Driver.Proto
import NoirVerif.Model.Framing
namespace Noir.Driver.Frame
open Noir Noir.Driver Noir.Framing

def hexVal (c : Char) : Option Nat :=
  if '0' ≤ c ∧ c ≤ '9' then some (c.toNat - '0'.toNat)
  else if 'a' ≤ c ∧ c ≤ 'f' then some (c.toNat - 'a'.toNat + 10)
  else none

def parseHex (s : String) : Option (List UInt8) :=
  if s == "-" then some [] else
  let rec go : List Char → List UInt8 → Option (List UInt8)
    | [], acc => some acc.reverse
    | [_], _ => none
    | a :: b :: rest, acc => do
      let x ← hexVal a
      let y ← hexVal b
      go rest (UInt8.ofNat (x * 16 + y) :: acc)
  go s.toList []

/-- one `f` op: sender text, frame, batch text -/
structure Sent where
  sender : String
  fr : Framing.Frame
  elems : List String

def parseOp : List String → Option Sent
  | "f" :: sender :: rep :: prev :: hex :: elems => do
    let rep ← rep.toNat?
    let prev ← prev.toNat?
    let payload ← parseHex hex
    pure ⟨sender, ⟨rep, prev, payload⟩, elems⟩
  | _ => none

def rxLine (block host : String) (replica prev : Nat) (sender : String) (elems : List String) : String :=
  " ".intercalate ([s!"rx", s!"{block}.{host}.{replica}", toString prev, sender] ++ elems)

/-- how many of the frames with the given lengths lie completely inside the first `budget` bytes -/
def completeFrames (budget : Nat) : List Nat → Nat
  | [] => 0
  | l :: ls => if l ≤ budget then 1 + completeFrames (budget - l) ls else 0

def handle (c : Case) : Verdict :=
  match c.header with
  | [_, _, block, host, _prev] =>
    let sent := c.ops.filterMap parseOp
    let cut : Option Nat := (c.ops.filterMap fun w => match w with | ["cut", n] => n.toNat? | _ => none).getLast?
    let full := sent.flatMap (fun s => frame s.fr)
    let stream := match cut with | some n => full.take n | none => full
    let txLines := sent.map fun s =>
      let h := decodeHeader ((frame s.fr).take Noir.Consts.HEADER_SIZE)
      s!"tx {h.size} {h.replica} {h.senderBlock} {s.fr.payload.length} {checksum s.fr.payload}"
    let (frames, rest) := deframe stream
    -- the payload is opaque to the model: the decoded batch of the i-th frame is looked up in
    -- the op list by position, guarded by equality of the payload bytes
    let rxLines := (frames.zip (List.range frames.length)).map fun (fr, i) =>
      match sent[i]? with
      | some s => if s.fr.payload == fr.payload then rxLine block host fr.replica fr.senderBlock s.sender s.elems
                  else rxLine block host fr.replica fr.senderBlock "?" ["payload-differs"]
      | none => rxLine block host fr.replica fr.senderBlock "?" ["no-such-frame"]
    let last := if rest.length < Noir.Consts.HEADER_SIZE then "eof" else "panic:recv"
    let out := [s!"bytes {stream.length} {checksum stream}"] ++ txLines ++ rxLines ++ [last]
    -- spec-side oracle: what was received is what was sent, frame by frame (dest endpoint,
    -- sender, batch), all of it when the whole stream arrived, a prefix of it otherwise
    let implRx := c.implOut.filter (·.startsWith "rx ")
    let wantRx := sent.map fun s => rxLine block host s.fr.replica s.fr.senderBlock s.sender s.elems
    let complete := cut.isNone || stream.length == full.length
    -- spec side of the `cut` case (the `deframe_prefix` statement): with the frame lengths
    -- `HEADER_SIZE + |payload|` known from the op lines, the number `j` of frames that lie completely
    -- inside the first `stream.length` bytes is determined; exactly those must have been decoded, and
    -- the stream must end in a clean end-of-stream iff fewer than `HEADER_SIZE` bytes are left over
    let lens := sent.map fun s => Noir.Consts.HEADER_SIZE + s.fr.payload.length
    let j := completeFrames stream.length lens
    let used := (lens.take j).foldl (· + ·) 0
    let leftover := stream.length - used
    let wantLast := if leftover < Noir.Consts.HEADER_SIZE then "eof" else "panic:recv"
    let oracle :=
      if implRx.length < j then some s!"only {implRx.length} of the {j} complete frames before the cut were decoded"
      else if implRx != wantRx.take j then some s!"received frames differ from the {j} complete frames that arrived (got {implRx.length})"
      else if c.implOut.getLast? != some wantLast then some s!"stream must end with {wantLast}"
      else none
    let maxPayload := sent.foldl (fun m s => max m s.fr.payload.length) 0
    let dests := (sent.map (·.fr.replica)).eraseDups.length
    { out, oracle, nontrivial := sent.length ≥ 2,
      tags := [s!"frames{min sent.length 4}", s!"dests{min dests 3}",
               s!"size{if maxPayload ≥ 65536 then "3B" else if maxPayload ≥ 256 then "2B" else "1B"}",
               s!"cut{if complete then "no" else if rest.length < Noir.Consts.HEADER_SIZE then "hdr" else "payload"}"] }
  | _ => { out := [], oracle := some "bad header", nontrivial := false }

end Noir.Driver.Frame
