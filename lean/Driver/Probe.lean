/-
  Driver/Probe.lean — C05 at engine level: the kinds of the elements observed by probe operators behind
  EVERY operator of real, randomly generated pipelines (sources, stateless / re-partitioning / stateful /
  binary stages, `Replay` / `Iterate` heads and loop-body ends, loop state and items streams, in front of
  the sinks), per replica. See harness/src/bin/probe.rs for the pipeline language.

  header: `<id> probe <config> <batch> <iter|par> <n> <nots|ts<k>> <sink>`; ops: `s <stage> …`,
  `loop <replay|iterate> <max> <stop>`, `endloop <state|items|both>`;
  outputs: `p <probe> <position> <replica> <sequence>` (position `after:<op>` or `after:<op>/in-loop:<l1>.<l2>`,
  sequence = comma separated tokens I T<ts> W<ts> FB FAR TERM, `tok*n` = n times), `loop <id> <kind> <parent|-> <max>
  <stop> execs <e> rounds <r> calls <c>`, or `blocked` / `panic:<class>` / `infra`.

  The interleaving of a real run is scheduler dependent: there is no model output to compare with, the
  implementation's lines are echoed (tag `nodiff`) and only the oracle decides. The oracle is the
  property, per probe line:
   (a) the sequence matches `((Item|Timestamped|Watermark|FlushBatch)* FlushAndRestart)+ Terminate`
       (`Noir.grammarOk`, the definition the C05 theorems are about);
   (b) Terminate exactly once, as last element;
   (c) the number of FlushAndRestart is exactly 1 outside loops and exactly R(L) inside the body of loop L,
       where R(L) = the TOTAL number of rounds loop L executed = the sum of the round counters carried by
       the final states that came out of L's state stream (the loop state counts its rounds; the harness
       prints that sum as `rounds`). For a loop nested in loop M this is (rounds per execution) × (rounds
       of M): the driver checks `execs(L) = R(M)` (1 for an outermost loop), `rounds = calls` (as often as
       `loop_condition` ran) and `rounds(L) = execs(L) × min(max, max(stop,1))` (what bound and condition give);
   (d) all replicas of one probe saw the same number of FlushAndRestart;
   (e) no Item / Timestamped / Watermark after the last FlushAndRestart.
  A run cut off by the watchdog (`blocked`) is reported as `[C04] …` (termination is C04's subject;
  `[C04] known:F18-iterate-shuffle-cross-replica-deadlock` in the region of the known findings F17/F18: an
  `iterate` body with an all-to-all connection or an expanding stage, a small batch mode and more than 16
  batches of content per round); of its truncated traces
  only the prefix forms are checked: nothing after Terminate, not more FlushAndRestart than rounds started. A panic is a plain C05 failure.
  C06 (second oracle, failures tagged `[C06]`): every probe line is watermark-safe (`Noir.wmSafeOk`): within
  an iteration, after Watermark(w) no Timestamped(_, t) with t <= w and no Watermark(w') with w' <= w; the
  message names the probe position and the offending pair.
  F11 (known finding): the only defect of a sequence is FlushBatch between the LAST FlushAndRestart and
  Terminate (removing exactly those makes (a) hold; (b)–(e) hold as they are) — classified
  `known:F11-flushbatch-between-last-far-and-terminate` like Driver/Start.lean does. Anything else is a plain failure.
-/
import Driver.Proto
namespace Noir.Driver.Probe
open Noir Noir.Driver

/-- `I`, `T<ts>`, `W<ts>`, `FB`, `FAR`, `TERM` (bare `T` / `W` of case files written before the
    timestamps were recorded: timestamp 0, the C06 oracle skips such lines) -/
def kindElem (s : String) : Option (Elem Unit) :=
  match s with
  | "I" => some (.item ())
  | "T" => some (.ts () 0)
  | "W" => some (.wm 0)
  | "FB" => some .flushBatch
  | "FAR" => some .far
  | "TERM" => some .term
  | _ =>
    match s.toList with
    | 'T' :: r => (String.ofList r).toInt?.map fun t => .ts () t
    | 'W' :: r => (String.ofList r).toInt?.map fun t => .wm t
    | _ => none

def decodeSeq (s : String) : Option (List (Elem Unit)) :=
  if s == "-" then some [] else
  ((s.splitOn ",").mapM fun (tok : String) =>
    match tok.splitOn "*" with
    | [k] => (kindElem k).map fun e => [e]
    | [k, n] => do
      let e ← kindElem k
      let n ← n.toNat?
      pure (List.replicate n e)
    | _ => none).map List.flatten

/-- does the raw sequence contain `T` / `W` tokens without a timestamp? -/
def hasBareTs (s : String) : Bool :=
  (s.splitOn ",").any fun (tok : String) =>
    let k := (tok.splitOn "*").headD ""
    k == "T" || k == "W"

/-- first violation of watermark safety (`Noir.wmSafeGo` with a witness): the last watermark of the
    current iteration and the offending element -/
def wmViolation : Option Int → List (Elem Unit) → Option String
  | _, [] => none
  | w, .ts _ t :: rest =>
    match w with
    | some w => if w < t then wmViolation (some w) rest
                else some s!"Watermark({w}) is followed by Timestamped(_, {t}) in the same iteration"
    | none => wmViolation none rest
  | w, .wm t :: rest =>
    match w with
    | some w => if w < t then wmViolation (some t) rest
                else some s!"Watermark({w}) is followed by Watermark({t}) in the same iteration"
    | none => wmViolation (some t) rest
  | _, .far :: rest => wmViolation none rest
  | w, _ :: rest => wmViolation w rest

structure PLine where
  id : Nat
  pos : String
  /-- enclosing loops, outermost first -/
  path : List Nat
  replica : String
  seq : List (Elem Unit)
  raw : String

structure LLine where
  id : Nat
  kind : String
  parent : Option Nat
  max : Nat
  stop : Nat
  execs : Nat
  rounds : Nat
  calls : Nat

def parsePath (pos : String) : Option (List Nat) :=
  match pos.splitOn "/in-loop:" with
  | [_] => some []
  | [_, p] => (p.splitOn ".").mapM String.toNat?
  | _ => none

def parseP (l : String) : Option PLine :=
  match words l with
  | ["p", id, pos, rep, sq] => do
    pure { id := ← id.toNat?, pos, path := ← parsePath pos, replica := rep, seq := ← decodeSeq sq, raw := sq }
  | _ => none

def parseL (l : String) : Option LLine :=
  match words l with
  | ["loop", id, kind, parent, mx, stop, "execs", e, "rounds", r, "calls", c] => do
    let parent ← if parent == "-" then some none else parent.toNat?.map some
    pure { id := ← id.toNat?, kind, parent, max := ← mx.toNat?, stop := ← stop.toNat?,
           execs := ← e.toNat?, rounds := ← r.toNat?, calls := ← c.toNat? }
  | _ => none

def isFb : Elem Unit → Bool
  | .flushBatch => true
  | _ => false

def isDataOrWm : Elem Unit → Bool
  | .item _ => true
  | .ts _ _ => true
  | .wm _ => true
  | _ => false

/-- the sequence without the FlushBatch elements directly in front of a final Terminate -/
def stripTailFb (s : List (Elem Unit)) : List (Elem Unit) :=
  match s.reverse with
  | .term :: rest => (rest.dropWhile isFb).reverse ++ [.term]
  | _ => s

def farCount (s : List (Elem Unit)) : Nat := (s.filter Elem.isFar).length

def afterLastFar (s : List (Elem Unit)) : List (Elem Unit) :=
  (s.reverse.takeWhile fun e => !e.isFar).reverse

def f11sig : String := "known:F11-flushbatch-between-last-far-and-terminate"

def shorten (s : String) : String :=
  if s.length ≤ 160 then s else String.ofList (s.toList.take 160) ++ "…"

/-- failures of one probe line: (is the known finding F11, message) -/
def checkLine (expected : Nat) (p : PLine) : List (Bool × String) :=
  let wh := s!"probe {p.id} ({p.pos}) replica {p.replica}"
  let a : List (Bool × String) :=
    if grammarOk p.seq then []
    else if grammarOk (stripTailFb p.seq) then
      [(true, s!"{f11sig} {wh}: FlushBatch between the last FlushAndRestart and Terminate: {shorten p.raw}")]
    else [(false, s!"{wh}: sequence violates the stream grammar: {shorten p.raw}")]
  let nTerm := (p.seq.filter Elem.isTerm).length
  let b : List (Bool × String) :=
    if nTerm == 1 && p.seq.getLast? == some .term then []
    else [(false, s!"{wh}: Terminate must appear exactly once and last (seen {nTerm} times): {shorten p.raw}")]
  let c : List (Bool × String) :=
    if farCount p.seq == expected then []
    else [(false, s!"{wh}: {farCount p.seq} FlushAndRestart, expected {expected}: {shorten p.raw}")]
  let e : List (Bool × String) :=
    if farCount p.seq > 0 && (afterLastFar p.seq).any isDataOrWm then
      [(false, s!"{wh}: data after the last FlushAndRestart: {shorten p.raw}")]
    else []
  a ++ b ++ c ++ e

/-- rounds of one execution of a loop: `loop_condition` increments the counter and continues while it
    is `< stop`; the leader stops at `max` -/
def perExec (l : LLine) : Nat := min l.max (max l.stop 1)

def stageTags (ops : List (List String)) : List String :=
  let names : List String := ops.filterMap fun w =>
    match w with
    | "s" :: n :: _ => some n
    | "loop" :: k :: _ => some k
    | _ => none
  let cat (n : String) : String :=
    if ["map", "filter", "flatmap", "inspect", "richmap", "stmap", "dropts"].contains n then "stateless"
    else if ["shuffle", "bcast", "repl"].contains n then "repart"
    else if ["fold", "folda", "reduce", "reducea"].contains n then "fold"
    else if ["kfold", "kreduce", "gbcount", "gbfold", "gbreduce", "keyby"].contains n then "keyed-fold"
    else if ["cwin", "cwinall"].contains n then "count-window"
    else if ["etwin", "etwinall"].contains n then "event-time-window"
    else n
  (names.map cat).eraseDups

def isStatefulTag (t : String) : Bool :=
  ["fold", "keyed-fold", "count-window", "event-time-window", "reorder", "zip", "join", "ivjoin", "replay", "iterate"].contains t

/-- nesting depth of the `loop` … `endloop` lines (as the harness parses them) -/
def maxDepth (ops : List (List String)) : Nat :=
  (ops.foldl (fun (acc : Nat × Nat) w =>
    match w with
    | "loop" :: _ => if acc.1 < 2 then (acc.1 + 1, max acc.2 (acc.1 + 1)) else acc
    | "endloop" :: _ => (acc.1 - 1, acc.2)
    | _ => acc) (0, 0)).2

/-- batch size in elements if the batch mode is a small one (single, fixed <= 3, adaptive <= 8) -/
def smallBatch (bm : String) : Option Nat :=
  if bm == "single" then some 1 else
  match bm.toList with
  | 'f' :: r => (String.ofList r).toNat?.filter (· ≤ 3)
  | 'a' :: r => (((String.ofList r).splitOn ":").headD "").toNat?.filter (· ≤ 8)
  | _ => none

/-- stages that keep every element inside its replica and emit at most one output per input -/
def localStage (n : String) : Bool :=
  ["map", "filter", "inspect", "richmap", "stmap", "dropts", "keyby"].contains n

/-- does the body of some `iterate` (nested ones included; parsed like the harness does) contain a stage
    with an all-to-all connection (shuffle, broadcast, group_by, joins, the `shuffle(auto)` behind a
    single-replica stage) or an expanding stage? -/
def iterateHasExchange (ops : List (List String)) : Bool :=
  (ops.foldl (fun (acc : List String × Bool) w =>
    match w with
    | "loop" :: k :: _ => if acc.1.length < 2 then (k :: acc.1, acc.2) else acc
    | "endloop" :: _ => (acc.1.drop 1, acc.2)
    | "s" :: n :: _ => if acc.1.contains "iterate" && !localStage n then (acc.1, true) else acc
    | _ => acc) ([], false)).2

/-- largest number of data elements one iteration of the sequence carries -/
def maxSeg (s : List (Elem Unit)) : Nat :=
  (s.foldl (fun (acc : Nat × Nat) e =>
    match e with
    | .far => (0, acc.2)
    | .item _ => (acc.1 + 1, max acc.2 (acc.1 + 1))
    | .ts _ _ => (acc.1 + 1, max acc.2 (acc.1 + 1))
    | _ => acc) (0, 0)).2

def handle (c : Case) : Verdict :=
  match c.header with
  | [_, _, cfg, bm, src, n, ts, sink] =>
    let special := c.implOut.filter fun l => l == "blocked" || l == "infra" || l.startsWith "panic:"
    let pls := c.implOut.filterMap parseP
    let lls := c.implOut.filterMap parseL
    let unparsed := c.implOut.filter fun l =>
      !(special.contains l) && (parseP l).isNone && (parseL l).isNone
    let roundsOf (id : Nat) : Option Nat := (lls.find? fun l => l.id == id).map (·.rounds)
    let expectedOf (p : PLine) : Option Nat :=
      match p.path.getLast? with
      | none => some 1
      | some l => roundsOf l
    let incomplete := special.any fun l => l == "blocked" || l.startsWith "panic:"
    -- (a) (b) (c) (e) per line; a run that was cut off (watchdog, panic) has truncated traces: only
    -- prefix properties can be decided for them
    let lineFails : List (Bool × String) := pls.flatMap fun p =>
      if incomplete then
        -- prefix forms of (b) and (c): nothing after Terminate; not more FlushAndRestart than rounds
        -- can have started (every round's FlushAndRestart precedes its `loop_condition` call, one round
        -- may be in flight)
        let bound : Nat := match p.path.getLast? with
          | none => 1
          | some l => ((lls.find? fun x => x.id == l).map (·.calls + 1)).getD 1
        (if (p.seq.dropWhile fun e => !e.isTerm).length > 1 then
          [(false, s!"probe {p.id} ({p.pos}) replica {p.replica}: elements after Terminate: {shorten p.raw}")]
        else []) ++
        (if farCount p.seq > bound then
          [(false, s!"probe {p.id} ({p.pos}) replica {p.replica}: {farCount p.seq} FlushAndRestart although at most {bound} rounds can have started: {shorten p.raw}")]
        else [])
      else
      match expectedOf p with
      | some ex => checkLine ex p
      | none => [(false, s!"probe {p.id} is inside loop {p.path.getLast?} for which the harness printed no `loop` line")]
    -- (d) replicas of one probe agree on the number of FlushAndRestart
    let ids := (pls.map (·.id)).eraseDups
    let agreeFails : List (Bool × String) := if incomplete then [] else ids.filterMap fun id =>
      let cs := ((pls.filter (·.id == id)).map fun p => farCount p.seq).eraseDups
      if cs.length ≤ 1 then none
      else some (false, s!"probe {id}: the replicas disagree on the number of FlushAndRestart: {cs}")
    -- the harness' loop accounting
    let loopFails : List (Bool × String) := if incomplete then [] else lls.flatMap fun l =>
      let wantExecs : Option Nat := match l.parent with
        | none => some 1
        | some m => roundsOf m
      (if l.rounds != l.calls then
        [(false, s!"loop {l.id}: the final states count {l.rounds} rounds, loop_condition ran {l.calls} times")] else []) ++
      (if some l.execs != wantExecs then
        [(false, s!"loop {l.id}: {l.execs} final states, expected {wantExecs} (one per round of the enclosing loop)")] else []) ++
      (if l.rounds != l.execs * perExec l then
        [(false, s!"loop {l.id}: {l.rounds} rounds in {l.execs} executions, bound {l.max} and condition (stop {l.stop}) give {perExec l} per execution")] else [])
    let runFails : List (Bool × String) :=
      ((special.filter fun l => l.startsWith "panic:").map fun l =>
        (false, s!"the job panicked ({l}): no complete trace")) ++
      (unparsed.take 2).map (fun l => (false, s!"unparsable line `{shorten l}`")) ++
      (if pls.isEmpty && special.isEmpty then [(false, "no probe line")] else [])
    -- a job that never finishes is C04's subject (termination), not a statement about the grammar: it is
    -- reported under C04 (`bin/check C05` does not count it), its truncated traces are still checked above
    -- F17/F18 (known C04 findings): the feedback cycle of an `iterate` is drained only from Iterate::next;
    -- with small batches, an all-to-all connection or an expanding stage inside the body and more than
    -- CHANNEL_CAPACITY = 16 batches of content per round the cycle of bounded channels fills up
    let iterIds := (lls.filter (·.kind == "iterate")).map (·.id)
    let inIterMax := (pls.filter fun p => p.path.any iterIds.contains).foldl (fun m p => max m (maxSeg p.seq)) 0
    let f18region : Bool := match smallBatch bm with
      | some bsz => iterateHasExchange c.ops && inIterMax > 16 * bsz
      | none => false
    let c04 : List String :=
      if special.contains "blocked" then
        if f18region then
          [s!"[C04] known:F18-iterate-shuffle-cross-replica-deadlock blocked: iterate body with an all-to-all connection / expanding stage, batch mode {bm}, up to {inIterMax} elements per round and replica (> 16 batches)"]
        else ["[C04] the job did not finish within the watchdog time (blocked)"]
      else []
    -- C06: watermark safety of every probe line (`Noir.wmSafeOk`, the recogniser the C06 theorems are
    -- about; it restarts at every FlushAndRestart). A safety property: truncated traces are checked too.
    let c06 : List String := (pls.filter fun p => !hasBareTs p.raw).filterMap fun p =>
      if wmSafeOk p.seq then none
      else some s!"[C06] probe {p.id} ({p.pos}) replica {p.replica}: {(wmViolation none p.seq).getD "watermark safety violated"}: {shorten p.raw}"
    let fails := runFails ++ lineFails ++ agreeFails ++ loopFails
    let plain := fails.filter (!·.1)
    let known := fails.filter (·.1)
    let parts : List String :=
      c04 ++ c06.take 3 ++
      (if !plain.isEmpty then (plain.take 4).map fun f => "[C05] " ++ f.2
       else match known with
        | [] => []
        | f :: _ => [s!"[C05] {f.2}" ++ (if known.length > 1 then s!" (+{known.length - 1} more probe lines)" else "")])
    let oracle : Option String := if parts.isEmpty then none else some (" ;; ".intercalate parts)
    -- some probe saw Watermark(w) directly after Timestamped(_, w)
    let rec adj : List (Elem Unit) → Bool
      | .ts _ t :: .wm w :: rest => t == w || adj (.wm w :: rest)
      | _ :: rest => adj rest
      | [] => false
    let wmAtTs := pls.any fun p => adj p.seq
    let stags := stageTags c.ops
    let maxRep := ids.foldl (fun m id => max m (pls.filter (·.id == id)).length) 0
    let nNat := n.toNat?.getD 0
    let tags :=
      ["nodiff"] ++ stags ++
      [s!"cfg:{cfg}", s!"bm:{(String.ofList (bm.toList.takeWhile fun ch => !ch.isDigit))}", s!"src:{src}",
       (if nNat == 0 then "n:0" else if nNat == 1 then "n:1" else if nNat < 20 then "n:few" else "n:hundreds"),
       (if ts == "nots" then "plain-source" else "timestamped-source"), s!"sink:{sink}",
       s!"replicas{min maxRep 4}", s!"probes{min (ids.length / 10 * 10) 40}+"] ++
      (if maxDepth c.ops ≥ 2 then ["nested-loop"] else []) ++
      (if !lls.isEmpty then [s!"loop-rounds{min ((lls.map (·.rounds)).foldl max 0) 9}"] else []) ++
      (if !known.isEmpty then ["F11-seen"] else []) ++
      (if pls.any (fun p => p.seq.any isFb) then ["flushbatch-seen"] else []) ++
      (if pls.any (fun p => p.seq.any fun e => match e with | .wm _ => true | _ => false) then ["watermark-seen"] else []) ++
      (if wmAtTs then ["watermark-at-element-timestamp"] else []) ++
      (if (pls.filter fun p => !p.path.isEmpty).any (fun p => p.seq.any fun e => match e with | .wm _ => true | _ => false) then ["watermark-in-loop"] else []) ++
      (let nwm := (pls.filter fun p => (p.seq.any fun e => match e with | .wm _ => true | _ => false)).length
       [s!"wm-probe-lines{if nwm == 0 then "0" else if nwm < 10 then "1-9" else if nwm < 50 then "10-49" else "50+"}"]) ++
      (if special.contains "infra" then ["infra"] else []) ++
      (if special.contains "blocked" then ["blocked"] else []) ++
      (if f18region then ["F18-region"] else [])
    { out := c.implOut, oracle,
      nontrivial := maxRep ≥ 2 && stags.any isStatefulTag && special.isEmpty,
      tags }
  | _ => { out := [], oracle := some "[C05] bad header", nontrivial := false }

end Noir.Driver.Probe
