/-
  Driver/Term.lean — whole-engine termination runs (C04): header `<id> term <job> <n> <batchmode> <config>`;
  implementation outputs: `sink <i> <len> <sum mod 1e9+7> [<sorted list> if len ≤ 40]`, or `blocked`,
  `panic:<class>`, `infra`. The expected lines are computed from the sequential reference semantics
  (`Noir.Jobs.sinks`). Oracle (C04): the run terminated on every host, did not panic, and every sink
  was published exactly once with its complete result.
-/
import Driver.Proto
import NoirVerif.Model.Jobs
namespace Noir.Driver.Term
open Noir Noir.Driver Noir.Jobs

def lexLt : List Int → List Int → Bool
  | [], [] => false
  | [], _ => true
  | _, [] => false
  | a :: as, b :: bs => if a < b then true else if a > b then false else lexLt as bs

def sortLists (l : List (List Int)) : List (List Int) :=
  (l.toArray.qsort lexLt).toList

def fmtSink (idx : Nat) (v : List (List Int)) : String :=
  let v := sortLists v
  let len := v.length
  let sum : Int := (v.foldl (fun acc e => acc + e.foldl (· + ·) 0) 0) % 1000000007
  if len ≤ 40 then
    let items := v.map fun e => "(" ++ ",".intercalate (e.map toString) ++ ")"
    s!"sink {idx} {len} {sum} [{",".intercalate items}]"
  else s!"sink {idx} {len} {sum}"

def expected (job : String) (n : Int) : Option (List String) :=
  (sinks job n).map fun ss => (ss.zipIdx).map fun (v, i) => fmtSink i v

def handle (c : Case) : Verdict :=
  match c.header with
  | [_, _, job, n, bm, cfg] =>
    match n.toInt? with
    | some n =>
      if c.ops.isEmpty then { out := [], oracle := none, nontrivial := false } else
      if c.implOut == ["infra"] then { out := ["infra"], oracle := none, nontrivial := false, tags := ["infra"] } else
      match expected job n with
      | none => { out := [], oracle := some "unknown job", nontrivial := false }
      | some exp =>
        -- known finding F18 (known_findings.json): an `iterate` whose body has an all-to-all connection
        -- (shuffle, or the hash shipping of a join) on >= 2 replicas can deadlock across replicas once more
        -- than a channel's worth (CHANNEL_CAPACITY = 16) of batches is in flight. A `blocked` run is
        -- attributed to it ONLY for those jobs, on >= 2 replicas, with more than 16 batches per round;
        -- every other `blocked` outcome is a plain failure.
        let iterShuffleJob := job == "iterate" || job == "side_input" || job == "side_left_join"
        let nEff : Int := if job == "iterate" then min n 2000 else min n 200
        let batch : Int := match bm with
          | "single" | "fixed1" => 1 | "fixed3" => 3 | "adaptive" => 64 | _ => 1024
        let f18 := iterShuffleJob && cfg != "L1" && nEff > 16 * batch
        let oracle : Option String :=
          if c.implOut.any (· == "blocked") then
            some s!"[C04] {if f18 then "known:F18-iterate-shuffle-cross-replica-deadlock " else ""}job {job} n={n} {bm} {cfg}: a host did not terminate (watchdog)"
          else if c.implOut.any (fun l => l.startsWith "panic:") then some s!"[C04] job {job} n={n} {bm} {cfg}: execute_blocking panicked: {c.implOut}"
          else if c.implOut != exp then some s!"[C04] job {job} n={n} {bm} {cfg}: sinks differ from the complete result: impl={c.implOut} expected={exp}"
          else none
        let big := n ≥ 400
        { out := exp, oracle, nontrivial := true,
          tags := [job, bm, cfg, if n == 0 then "empty" else if big then "over-capacity" else "small"]
            ++ (if f18 then ["f18-region"] else []) }
    | none => { out := [], oracle := some "bad header", nontrivial := false }
  | _ => { out := [], oracle := some "bad header", nontrivial := false }

end Noir.Driver.Term
