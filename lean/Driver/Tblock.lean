/-
  Driver/Tblock.lean — the real `Start` + `End` with k downstream replicas, event by event (C18).
  header: `<id> tblock <n> <k> <upstreams>`; ops: `b <u> <elem>…` | `pb <u> <elem>…` | `sleep` | `w`
  (see harness/src/bin/tblock.rs for the timing of each op); outputs: `<op#> <dest> <elem>…` per batch
  received downstream, `<op#> FB`, `<op#> idle`.
  Model: `Noir.Latency.KBlock` (Model/Latency.lean) with `delta` = 60 ms, pace 24 ms, sleep 96 ms.
-/
import Driver.Proto
import NoirVerif.Model.Latency
namespace Noir.Driver.Tblock
open Noir Noir.Driver Noir.Latency

def DELTA : Nat := 60
def PACE : Nat := 24
def SLEEP : Nat := 96

/-- destination of a payload `(dest, value)` under `GroupBy` with `k` replicas -/
def destOf (k : Nat) (v : Val) : Nat :=
  match v with
  | .tup (.int d :: _) => d.toNat % k
  | .int d => d.toNat % k
  | _ => 0

/-- the harness drains the downstream replicas in replica order: stable sort by destination -/
def byDest (k : Nat) (l : List (Nat × List (Elem Val))) : List (Nat × List (Elem Val)) :=
  (List.range k).flatMap fun d => l.filter (·.1 == d)

def fmtBatch (i : Nat) (p : Nat × List (Elem Val)) : String :=
  s!"{i} {p.1}" ++ String.join (p.2.map fun e => " " ++ elemToStr e)

structure MSt where
  b : KBlock (Elem Val)
  out : List String := []

def routed (k : Nat) (es : List (Elem Val)) : List (Nat × Elem Val) :=
  es.filterMap fun e => match e.value with | some v => some (destOf k v, e) | none => none

def modelOp (n k ups : Nat) (m : MSt) (iop : List String × Nat) : MSt :=
  let (op, i) := iop
  let mode := Batcher.Mode.adaptive n
  match op with
  | "b" :: u :: es | "pb" :: u :: es =>
    match u.toNat? with
    | some u =>
      let batch := es.filterMap parseElem
      if u ≥ ups || batch.isEmpty then m
      else
        let b0 := if op.head? == some "pb" then m.b.pass PACE else m.b
        let r := KBlock.recv mode DELTA b0 (routed k batch)
        { b := r.1, out := ((byDest k r.2).map (fmtBatch i)).reverse ++ m.out }
    | none => m
  | ["sleep"] => { m with b := m.b.pass SLEEP }
  | ["w"] =>
    if m.b.idle then { m with out := s!"{i} idle" :: m.out }
    else
      let r := KBlock.timeout DELTA m.b
      { b := r.1.pass PACE, out := ((byDest k r.2).map (fmtBatch i)).reverse ++ (s!"{i} FB" :: m.out) }
  | _ => m

/-- Spec-side oracle (the property, not the model), on the implementation's lines:
    * per destination, the elements received are a prefix of the elements routed to it, in order
      (nothing lost, duplicated, misrouted, reordered);
    * after an op `w` that returned `FB` (the block then waits without timeout) NOTHING is withheld:
      every destination has received everything routed to it so far (`idle_block_is_flushed`);
    * full-strength C18 (bounded delay): no element is still withheld when more than
      2·delta = 120 ms of scripted time have passed since it was handed to the block — violated by
      finding F12, classified `known:` when the only withheld elements sit in batchers of destinations
      that received nothing since, while the block kept receiving paced batches for other destinations. -/
structure OSt where
  routedTo : List (List (Elem Val))     -- per destination, in order
  got : List (List (Elem Val))
  /-- per destination: scripted ms since the oldest element not yet received was handed over -/
  waiting : List Nat
  err : Option String := none
  f12 : Bool := false

def upd (l : List β) (i : Nat) (f : β → β) : List β := l.zipIdx.map fun (x, j) => if j == i then f x else x

def parseOutBatch (s : String) : Option (Nat × Nat × List (Elem Val)) :=
  match words s with
  | i :: d :: es =>
    match i.toNat?, d.toNat? with
    | some i, some d => some (i, d, es.filterMap parseElem)
    | _, _ => none
  | _ => none

def oracle (k ups : Nat) (ops : List (List String)) (impl : List String) : Option String :=
  let step (o : OSt) (iop : List String × Nat) : OSt :=
    let (op, i) := iop
    let mine := impl.filter fun l => (words l).head? == some (toString i)
    let batches := mine.filterMap parseOutBatch
    let addTime (o : OSt) (ms : Nat) : OSt :=
      { o with waiting := (o.waiting.zip (o.routedTo.zip o.got)).map fun (w, r, g) => if g.length < r.length then w + ms else 0 }
    let recvAll (o : OSt) : OSt :=
      batches.foldl (fun o (_, d, es) => { o with got := upd o.got d (· ++ es) }) o
    let check (o : OSt) : OSt :=
      if o.err.isSome then o else
      match (o.routedTo.zip o.got).zipIdx.find? (fun ((r, g), _) => !(g.length ≤ r.length && r.take g.length == g)) with
      | some (_, d) => { o with err := some s!"op {i}: destination {d} received something that was not routed to it next" }
      | none => o
    match op with
    | "b" :: u :: es | "pb" :: u :: es =>
      match u.toNat? with
      | some u =>
        let batch := es.filterMap parseElem
        if u ≥ ups || batch.isEmpty then o
        else
          let o := if op.head? == some "pb" then addTime o PACE else o
          let o := batch.foldl (fun o e => match e.value with
            | some v => { o with routedTo := upd o.routedTo (destOf k v) (· ++ [e]) }
            | none => o) o
          let o := check (recvAll o)
          -- bounded delay under continued input
          match (o.waiting.zipIdx.find? fun (w, _) => w > 2 * DELTA) with
          | some (w, d) =>
            if o.err.isSome then o
            else { o with f12 := true, err := some s!"known:F12-starved-batcher-under-continued-input op {i}: an element for destination {d} is withheld for {w} ms (max_delay 60 ms) while the block keeps receiving input for other destinations" }
          | none => o
      | none => o
    | ["sleep"] => o     -- the block is not scheduled: no claim about delays across a `sleep`
    | ["w"] =>
      if mine.contains s!"{i} idle" then o
      else
        let o := check (recvAll o)
        if o.err.isSome && !o.f12 then o
        else if !mine.contains s!"{i} FB" then { o with err := some s!"op {i}: no timeout FlushBatch", f12 := false }
        else if o.routedTo != o.got then
          { o with err := some s!"op {i}: the block waits without timeout but still withholds elements", f12 := false }
        else { o with waiting := o.waiting.map fun _ => 0 }
    | _ => o
  let o := ops.zipIdx.foldl step
    { routedTo := List.replicate k [], got := List.replicate k [], waiting := List.replicate k 0 }
  o.err.map ("[C18] " ++ ·)

def handle (c : Case) : Verdict :=
  match c.header with
  | [_, _, n, k, ups] =>
    match n.toNat?, k.toNat?, ups.toNat? with
    | some n, some k, some ups =>
      let m := c.ops.zipIdx.foldl (modelOp n k ups) { b := KBlock.init k }
      -- a run whose timing was disturbed by the machine (harness self-check) carries no information
      let disturbed := c.implOut == ["disturbed"]
      let out := if disturbed then ["disturbed"] else m.out.reverse
      let orc := if disturbed then none else oracle k ups c.ops c.implOut
      let nFB := (out.filter (·.endsWith " FB")).length
      { out, oracle := orc, nontrivial := out.length ≥ 2 && !disturbed,
        tags := [s!"n{n}", s!"k{k}", s!"ups{ups}", s!"fb{min nFB 3}",
                 if c.ops.any (·.head? == some "pb") then "paced" else "unpaced",
                 if (orc.getD "").startsWith "[C18] known:F12" then "f12" else "nof12"] ++ (if disturbed then ["nodiff"] else []) }
    | _, _, _ => { out := [], oracle := some "bad header", nontrivial := false }
  | _ => { out := [], oracle := some "bad header", nontrivial := false }

end Noir.Driver.Tblock
