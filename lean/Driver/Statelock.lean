/-
  Driver/Statelock.lean — the real `IterationStateLock` against Model/StateLock.lean (C10).
  header: `<id> statelock`; ops: `lock` | `unlock` | `wait <generation>`
  outputs: `<i> ok` | `<i> panic` (case ends) | `<i> passed` | `<i> blocked` | `<i> woke <j>`.
  Waiters are only re-evaluated by `unlock` (`notify_all`, mod.rs:186); `lock` does not notify.
-/
import Driver.Proto
import NoirVerif.Model.StateLock
namespace Noir.Driver.Statelock
open Noir Noir.Driver Noir.StateLock

inductive LOp where
  | lock
  | unlock
  | wait (g : Nat)

def parseOps (ops : List (List String)) : List (Nat × LOp) :=
  (ops.zipIdx).filterMap fun (w, i) =>
    match w with
    | ["lock"] => some (i, .lock)
    | ["unlock"] => some (i, .unlock)
    | ["wait", g] => g.toNat?.map fun g => (i, .wait g)
    | _ => none

/-- model run -/
def modelOut (ops : List (Nat × LOp)) : List String := Id.run do
  let mut l := Lock.new
  let mut pending : List (Nat × Nat) := []
  let mut out : List String := []
  let mut dead := false
  for (i, op) in ops do
    if dead then continue
    match op with
    | .lock =>
      l := l.lock
      out := out ++ [s!"{i} ok"]
    | .unlock =>
      match l.unlock with
      | none =>
        out := out ++ [s!"{i} panic"]
        dead := true
      | some l' =>
        l := l'
        out := out ++ [s!"{i} ok"]
        for (j, g) in pending do
          if l.passes g then out := out ++ [s!"{i} woke {j}"]
        pending := pending.filter fun (_, g) => !l.passes g
    | .wait g =>
      if l.passes g then out := out ++ [s!"{i} passed"]
      else
        out := out ++ [s!"{i} blocked"]
        pending := pending ++ [(i, g)]
  return out

/-- spec side: the generation is `2·(completed unlocks) + (1 if locked)`; a waiter for `g` has
    returned iff some moment at which it was (re)evaluated had `g ≤ generation`. Checks every
    implementation line against that; returns the first discrepancy. -/
def oracle (ops : List (Nat × LOp)) (impl : List String) : Option String := Id.run do
  let mut unlocks := 0
  let mut locked := false
  let mut bad : Option String := none
  let mut dead := false
  let has (s : String) : Bool := impl.contains s
  for (i, op) in ops do
    if dead || bad.isSome then continue
    let gen := 2 * unlocks + (if locked then 1 else 0)
    match op with
    | .lock =>
      locked := true
      if !has s!"{i} ok" then bad := some s!"op {i}: lock did not return"
    | .unlock =>
      if locked then
        locked := false
        unlocks := unlocks + 1
        if !has s!"{i} ok" then bad := some s!"op {i}: unlock of a locked lock did not succeed"
      else
        dead := true
        if !has s!"{i} panic" then bad := some s!"op {i}: unlock of an unlocked lock did not panic"
    | .wait g =>
      if g ≤ gen then
        if !has s!"{i} passed" then bad := some s!"op {i}: wait_for_update({g}) blocked at generation {gen}"
      else
        if !has s!"{i} blocked" then bad := some s!"op {i}: wait_for_update({g}) passed at generation {gen}"
  -- every `woke` line: the generation right after that unlock reaches the waiter's generation, and the
  -- waiter had been blocked
  for line in impl do
    match words line with
    | [i, "woke", j] =>
      match i.toNat?, j.toNat? with
      | some i, some j =>
        let g := (ops.find? fun p => p.1 == j).map fun p => match p.2 with | .wait g => g | _ => 0
        let unl := (ops.filter fun p => p.1 ≤ i && (match p.2 with | .unlock => true | _ => false)).length
        -- generation right after the (successful) unlock number `unl` is `2·unl`
        if !(impl.contains s!"{j} blocked") || g.getD 0 > 2 * unl then
          bad := bad <|> some s!"waiter of op {j} woke after op {i} although the generation is {2 * unl}"
      | _, _ => bad := bad <|> some s!"unparsable line {line}"
    | _ => pure ()
  return bad

def handle (c : Case) : Verdict :=
  let ops := parseOps c.ops
  let out := modelOut ops
  let oracle := if c.implOut == ["blocked"] then some "[C10] the lock harness blocked"
    else (oracle ops c.implOut).map fun m => "[C10] " ++ m
  let nWait := (ops.filter fun p => match p.2 with | .wait _ => true | _ => false).length
  { out, oracle, nontrivial := ops.length ≥ 3 && nWait ≥ 1,
    tags := [s!"waits{min nWait 3}", if out.any (fun s => s.endsWith "panic") then "panic" else "nopanic",
             if out.any (fun s => (words s).contains "woke") then "woke" else "nowoke",
             if out.any (fun s => s.endsWith "blocked") then "blocked" else "noblocked"] }

end Noir.Driver.Statelock
