/-
  Driver/Cwin.lean — count-window cases (C12).
  header: `<id> cwin <N> <S> <exact>`; ops: `e <elem>`; outputs: `<idx> <elem-with-list-payload>`.
-/
import Driver.Proto
import NoirVerif.Model.CountWindow
namespace Noir.Driver.Cwin
open Noir Noir.Driver Noir.CountWindow

def fmtOut (p : Nat × Result Val) : String :=
  let v := Val.list p.2.items
  match p.2.ts with
  | some t => s!"{p.1} {elemToStr (.ts v t)}"
  | none => s!"{p.1} {elemToStr (.item v)}"

/-- Spec-side expectation for the oracle (independent of the manager model): per iteration,
    the groups at their completing indices, then the end-of-iteration behaviour. Only the
    (index, content) part is checked by the oracle; timestamps are checked by the model diff. -/
partial def specOut (c : Cfg) (es : List (Elem Val)) : List (Nat × List Val) :=
  let rec go (base : Nat) (i : Nat) (curData : List Val) (dataStart : Option Nat)
      (es : List (Elem Val)) (acc : List (Nat × List Val)) : List (Nat × List Val) :=
    match es with
    | [] => acc.reverse
    | e :: rest =>
      match e with
      | .item v | .ts v _ =>
        let cur := curData ++ [v]
        -- a group completes iff (|cur| ≥ N) ∧ (|cur| - N) % S = 0
        let acc := if cur.length ≥ c.size ∧ (cur.length - c.size) % c.slide = 0
          then (i, (cur.drop (cur.length - c.size))) :: acc else acc
        go base (i + 1) cur dataStart rest acc
      | .far | .term =>
        let r := residual c.size c.slide curData
        let acc := if !c.exact ∧ !r.isEmpty then (i, r) :: acc else acc
        go base (i + 1) [] none rest acc
      | _ => go base (i + 1) curData dataStart rest acc
  go 0 0 [] none es []

def parseOutIdx (s : String) : Option (Nat × List Val) :=
  match words s with
  | [i, e] => do
    let i ← i.toNat?
    let e ← parseElem e
    match e.value with
    | .some (.list l) => pure (i, l)
    | _ => .none
  | _ => .none

def handle (c : Case) : Verdict :=
  match c.header with
  | [_, _, n, s, ex] =>
    match n.toNat?, s.toNat?, ex.toNat? with
    | some n, some s, some ex =>
      let cfg : Cfg := ⟨n, s, ex == 1⟩
      let es := c.ops.filterMap fun w => match w with | ["e", e] => parseElem e | _ => none
      let out := (run cfg es).map fmtOut
      let spec := specOut cfg es
      let impl := c.implOut.filterMap parseOutIdx
      let oracle :=
        if impl.length ≠ c.implOut.length then some "unparsable implementation output"
        else if impl == spec then none
        else some s!"groups differ: impl={impl.map fun p => (p.1, Val.list p.2)} spec={spec.map fun p => (p.1, Val.list p.2)}"
      let nData := (es.filter Elem.isData).length
      { out, oracle, nontrivial := nData ≥ n && nData > 0,
        tags := [s!"N{if n == s then "=S" else if n % s == 0 then "%S=0" else "%S!=0"}",
                 if n ≥ 8 then "N>=8" else "N<8", s!"slots{min ((n + s - 1) / s) 6}",
                 s!"emits{min out.length 3}"] }
    | _, _, _ => { out := [], oracle := some "bad header", nontrivial := false }
  | _ => { out := [], oracle := some "bad header", nontrivial := false }

end Noir.Driver.Cwin
