/-
  Driver/E2e.lean — whole-engine end-to-end cases (C01).
  header: `<id> e2e <config> <batchmode>`; ops: `n <id> <kind> <@inputs…> <params…>` (the job, see
  harness/src/e2e.rs), optional `tag <t>`; outputs: `sink <id> <sorted list>` per sink, or
  `panic:<class>` | `blocked` | `infra`.
  The property is an equation (engine result = sequential meaning), so the model output and the
  oracle coincide: `seqEval` of the job, sorted per sink. Additionally `parEval` is run with a few
  pseudo-random oracles / replica counts; a disagreement with `seqEval` is reported as
  `[C01] model-internal …`.
-/
import Driver.Proto
import NoirVerif.Model.Pipe
namespace Noir.Driver.E2e
open Noir Noir.Driver Noir.Pipe

partial def toV : Val → V
  | .int n => .int n
  | .tup l => .tup (V.ofList (l.map toV))
  | .list l => .list (V.ofList (l.map toV))
  | .none => .none
  | .some v => .some (toV v)
  | .left v => toV v
  | .right v => toV v
  | .leftEnd => .none
  | .rightEnd => .none

partial def ofV : V → Val
  | .int n => .int n
  | .none => .none
  | .some v => .some (ofV v)
  | .nil => .list []
  | .cons h t => .list ((h :: t.toList).map ofV)
  | .tup s => .tup (s.toList.map ofV)
  | .list s => .list (s.toList.map ofV)

def sortedStr (l : List V) : String :=
  let ss := (l.map fun v => (ofV v).toStr).toArray.qsort (fun a b => a < b)
  "[" ++ ",".intercalate ss.toList ++ "]"

/-! ### parsing (mirror of `Node::parse`) -/

abbrev P (α : Type) := List String → Option (α × List String)

def tok : P String
  | [] => none
  | w :: ws => some (w, ws)

def pInt : P Int := fun ws => do let (w, r) ← tok ws; let n ← w.toInt?; pure (n, r)
def pNat : P Nat := fun ws => do let (w, r) ← tok ws; let n ← w.toNat?; pure (n, r)

def parseRef (s : String) : Option Ref :=
  if s.startsWith "@" then
    match (s.drop 1).toString.splitOn "." with
    | [a] => do let a ← a.toNat?; pure ⟨a, 0⟩
    | [a, b] => do let a ← a.toNat?; let b ← b.toNat?; pure ⟨a, b⟩
    | _ => none
  else none

def pRef : P Ref := fun ws => do let (w, r) ← tok ws; let x ← parseRef w; pure (x, r)

def mapFn : String → Option MapFn
  | "add" => some .add | "mul" => some .mul | "mod" => some .mod | "neg" => some .neg
  | "pair" => some .pair | "swap" => some .swap | "fst" => some .fst | "snd" => some .snd
  | "opt" => some .opt | "wrap" => some .wrap | "id" => some .id | _ => none
def predFn : String → Option PredFn
  | "even" => some .even | "odd" => some .odd | "lt" => some .lt | "ge" => some .ge
  | "modz" => some .modz | "modnz" => some .modnz | "true" => some .true | "isint" => some .isint
  | _ => none
def flatFn : String → Option FlatFn
  | "dup" => some .dup | "rangex" => some .rangex | "unlist" => some .unlist
  | "optflat" => some .optflat | "nil" => some .nil | _ => none
def keyFn : String → Option KeyFn
  | "kmod" => some .kmod | "kself" => some .kself | "kfst" => some .kfst | "kconst" => some .kconst
  | "kpair" => some .kpair | _ => none
def aggFn : String → Option Agg
  | "sum" => some .sum | "cnt" => some .cnt | "summod" => some .summod | "sumsq" => some .sumsq
  | "min" => some .min | "max" => some .max | _ => none
def jvar : String → Option JVar
  | "inner" => some .inner | "left" => some .left | "outer" => some .outer | _ => none
def shipFn : String → Option Ship
  | "hash" => some .hash | "bcast" => some .bcast | _ => none
def repFn (s : String) : Option Rep :=
  if s == "u" then some .u else if s == "one" then some .one else if s == "host" then some .host else
  match s.toNat? with
  | some k => if k > 0 then some (.lim k) else none
  | none => none

def pOf {α} (f : String → Option α) : P α := fun ws => do let (w, r) ← tok ws; let x ← f w; pure (x, r)

partial def pLoop (depth : Nat) (hasSide : Bool) : P LoopSpec := fun ws => do
  if depth > 4 then none
  let (iters, ws) ← pNat ws
  let (init, ws) ← pInt ws
  let (agg, ws) ← pOf aggFn ws
  let (cp, ws) ← pOf predFn ws
  let (ck, ws) ← pInt ws
  let (b, ws) ← tok ws
  if b != "body" then none
  let (n, ws) ← pNat ws
  let rec stages (n : Nat) (ws : List String) (acc : List BStage) : Option (List BStage × List String) :=
    match n with
    | 0 => some (acc.reverse, ws)
    | n + 1 => do
      let (k, ws) ← tok ws
      match k with
      | "map" => do let (f, ws) ← pOf mapFn ws; let (c, ws) ← pInt ws; stages n ws (.map f c :: acc)
      | "filter" => do let (f, ws) ← pOf predFn ws; let (c, ws) ← pInt ws; stages n ws (.filter f c :: acc)
      | "fmap" => do let (f, ws) ← pOf flatFn ws; let (c, ws) ← pInt ws; stages n ws (.fmap f c :: acc)
      | "shuffle" => stages n ws (.shuffle :: acc)
      | "addst" => do let (c, ws) ← pInt ws; stages n ws (.addst c :: acc)
      | "gbsum" => do let (f, ws) ← pOf keyFn ws; let (c, ws) ← pInt ws; stages n ws (.gbsum f c :: acc)
      | "reduce" => do let (g, ws) ← pOf aggFn ws; stages n ws (.reduce g :: acc)
      | "replay" => do let (l, ws) ← pLoop (depth + 1) hasSide ws; stages n ws (.replay l :: acc)
      | "iterate" => do let (l, ws) ← pLoop (depth + 1) hasSide ws; stages n ws (.iterate l :: acc)
      | "iteritems" => do let (l, ws) ← pLoop (depth + 1) hasSide ws; stages n ws (.iteritems l :: acc)
      | "iterboth" => do let (l, ws) ← pLoop (depth + 1) hasSide ws; stages n ws (.iterboth l :: acc)
      | "gbwin" => do
        let (f, ws) ← pOf keyFn ws; let (c, ws) ← pInt ws; let (w, ws) ← pNat ws; let (sl, ws) ← pNat ws
        if w == 0 || sl == 0 then none else stages n ws (.gbwin f c w sl :: acc)
      | "gbfold" => do
        let (f, ws) ← pOf keyFn ws; let (c, ws) ← pInt ws; let (g, ws) ← pOf aggFn ws
        stages n ws (.gbfold f c g :: acc)
      | "joinside" => do
        if !hasSide then none
        let (f1, ws) ← pOf keyFn ws; let (c1, ws) ← pInt ws; let (f2, ws) ← pOf keyFn ws; let (c2, ws) ← pInt ws
        stages n ws (.joinside f1 c1 f2 c2 :: acc)
      | "mergeside" => if !hasSide then none else stages n ws (.mergeside :: acc)
      | _ => none
  let (body, ws) ← stages n ws []
  pure (.mk iters init agg cp ck body, ws)

def parseRoutePred (s : String) : Option (PredFn × Int) :=
  match s.splitOn ":" with
  | [f, k] => do let f ← predFn f; let k ← k.toInt?; pure (f, k)
  | _ => none

def parseKind (kind : String) (ws : List String) : Option (Kind × List String) :=
  match kind with
  | "iter" => do
    let (w, ws) ← tok ws
    match Val.parse w with
    | some (.list l) => pure (.iter (l.map toV), ws)
    | _ => none
  | "par" => do let (a, ws) ← pInt ws; let (b, ws) ← pInt ws; pure (.par a b, ws)
  | "paru" => do let (a, ws) ← pNat ws; let (b, ws) ← pNat ws; pure (.par a b, ws)
  | "map" => do let (a, ws) ← pRef ws; let (f, ws) ← pOf mapFn ws; let (k, ws) ← pInt ws; pure (.map a f k, ws)
  | "filter" => do let (a, ws) ← pRef ws; let (f, ws) ← pOf predFn ws; let (k, ws) ← pInt ws; pure (.filter a f k, ws)
  | "fmap" => do let (a, ws) ← pRef ws; let (f, ws) ← pOf flatFn ws; let (k, ws) ← pInt ws; pure (.fmap a f k, ws)
  | "shuffle" => do let (a, ws) ← pRef ws; pure (.shuffle a, ws)
  | "repl" => do let (a, ws) ← pRef ws; let (r, ws) ← pOf repFn ws; pure (.repl a r, ws)
  | "repart" => do
    let (a, ws) ← pRef ws; let (r, ws) ← pOf repFn ws; let (f, ws) ← pOf keyFn ws; let (k, ws) ← pInt ws
    pure (.repart a r f k, ws)
  | "bcast" => do let (a, ws) ← pRef ws; let (g, ws) ← pOf aggFn ws; pure (.bcast a g, ws)
  | "groupby" => do let (a, ws) ← pRef ws; let (f, ws) ← pOf keyFn ws; let (k, ws) ← pInt ws; pure (.groupBy a f k, ws)
  | "keyby" => do let (a, ws) ← pRef ws; let (f, ws) ← pOf keyFn ws; let (k, ws) ← pInt ws; pure (.keyBy a f k, ws)
  | "kmap" => do let (a, ws) ← pRef ws; let (f, ws) ← pOf mapFn ws; let (k, ws) ← pInt ws; pure (.kmap a f k, ws)
  | "kfilter" => do let (a, ws) ← pRef ws; let (f, ws) ← pOf predFn ws; let (k, ws) ← pInt ws; pure (.kfilter a f k, ws)
  | "kfold" => do let (a, ws) ← pRef ws; let (g, ws) ← pOf aggFn ws; pure (.kfold a g, ws)
  | "kreduce" => do let (a, ws) ← pRef ws; let (g, ws) ← pOf aggFn ws; pure (.kreduce a g, ws)
  | "unkey" => do let (a, ws) ← pRef ws; pure (.unkey a, ws)
  | "dropkey" => do let (a, ws) ← pRef ws; pure (.dropKey a, ws)
  | "fold" => do let (a, ws) ← pRef ws; let (g, ws) ← pOf aggFn ws; pure (.fold a g, ws)
  | "folda" => do let (a, ws) ← pRef ws; let (g, ws) ← pOf aggFn ws; pure (.foldA a g, ws)
  | "reduce" => do let (a, ws) ← pRef ws; let (g, ws) ← pOf aggFn ws; pure (.reduce a g, ws)
  | "reducea" => do let (a, ws) ← pRef ws; let (g, ws) ← pOf aggFn ws; pure (.reduceA a g, ws)
  | "gbfold" => do
    let (a, ws) ← pRef ws; let (f, ws) ← pOf keyFn ws; let (k, ws) ← pInt ws; let (g, ws) ← pOf aggFn ws
    pure (.gbFold a f k g, ws)
  | "gbreduce" => do
    let (a, ws) ← pRef ws; let (f, ws) ← pOf keyFn ws; let (k, ws) ← pInt ws; let (g, ws) ← pOf aggFn ws
    pure (.gbReduce a f k g, ws)
  | "gbsum" => do let (a, ws) ← pRef ws; let (f, ws) ← pOf keyFn ws; let (k, ws) ← pInt ws; pure (.gbSum a f k, ws)
  | "gbcount" => do let (a, ws) ← pRef ws; let (f, ws) ← pOf keyFn ws; let (k, ws) ← pInt ws; pure (.gbCount a f k, ws)
  | "kwin" => do
    let (a, ws) ← pRef ws; let (n, ws) ← pNat ws; let (s, ws) ← pNat ws; let (g, ws) ← pOf aggFn ws
    if n == 0 || s == 0 then none else pure (.kwin a n s g, ws)
  | "merge" => do let (a, ws) ← pRef ws; let (b, ws) ← pRef ws; pure (.merge a b, ws)
  | "zip" => do let (a, ws) ← pRef ws; let (b, ws) ← pRef ws; pure (.zip a b, ws)
  | "join" => do
    let (a, ws) ← pRef ws; let (b, ws) ← pRef ws; let (v, ws) ← pOf jvar ws; let (s, ws) ← pOf shipFn ws
    let (l, ws) ← tok ws
    if l != "lh" && l != "sm" then none
    let (f1, ws) ← pOf keyFn ws; let (k1, ws) ← pInt ws; let (f2, ws) ← pOf keyFn ws; let (k2, ws) ← pInt ws
    -- ship_broadcast_right offers no outer variant: the harness builds `left` (build_join)
    let v := if s == .bcast && v == .outer then JVar.left else v
    pure (.join a b v s f1 k1 f2 k2, ws)
  | "kjoin" => do
    let (a, ws) ← pRef ws; let (b, ws) ← pRef ws; let (v, ws) ← pOf jvar ws
    -- the keyed API offers inner and outer only: anything but `inner` is built as `join_outer`
    pure (.kjoin a b (if v == .inner then .inner else .outer), ws)
  | "kmerge" => do let (a, ws) ← pRef ws; let (b, ws) ← pRef ws; pure (.kmerge a b, ws)
  | "route" => do
    let (a, ws) ← pRef ws
    let ps ← ws.mapM parseRoutePred
    pure (.route a ps, [])
  | "replay" => do
    let (a, ws) ← pRef ws
    let (sd, ws) := match pRef ws with | some (b, r) => (some b, r) | none => (none, ws)
    let (l, ws) ← pLoop 0 sd.isSome ws; pure (.replay a sd l, ws)
  | "iterate" => do
    let (a, ws) ← pRef ws
    let (sd, ws) := match pRef ws with | some (b, r) => (some b, r) | none => (none, ws)
    let (l, ws) ← pLoop 0 sd.isSome ws; pure (.iterate a sd l, ws)
  | "sink" => do let (a, ws) ← pRef ws; pure (.sink a, ws)
  | _ => none

def parseNode (ws : List String) : Option Node :=
  match ws with
  | "n" :: id :: kind :: rest => do
    let id ← id.toNat?
    let (k, rest) ← parseKind kind rest
    if rest.isEmpty then pure ⟨id, k⟩ else none
  | _ => none

def parseJob (ops : List (List String)) : Job := ops.filterMap parseNode

def sinkLines (l : List (Nat × List V)) : List String :=
  l.map fun (id, vs) => s!"sink {id} {sortedStr vs}"

def kindName : Kind → String
  | .iter _ => "iter" | .par .. => "par" | .map .. => "map" | .filter .. => "filter" | .fmap .. => "fmap"
  | .shuffle _ => "shuffle" | .repl .. => "repl" | .repart .. => "repart" | .bcast .. => "bcast"
  | .groupBy .. => "groupby" | .keyBy .. => "keyby" | .kmap .. => "kmap" | .kfilter .. => "kfilter"
  | .kfold .. => "kfold" | .kreduce .. => "kreduce" | .unkey _ => "unkey" | .dropKey _ => "dropkey"
  | .fold .. => "fold" | .foldA .. => "folda" | .reduce .. => "reduce" | .reduceA .. => "reducea"
  | .gbFold .. => "gbfold" | .gbReduce .. => "gbreduce" | .gbSum .. => "gbsum" | .gbCount .. => "gbcount"
  | .kwin .. => "kwin" | .merge .. => "merge" | .zip .. => "zip"
  | .join _ _ v s .. => s!"join-{repr v}-{repr s}".replace "Noir.Pipe.JVar." "" |>.replace "Noir.Pipe.Ship." ""
  | .kjoin .. => "kjoin" | .kmerge .. => "kmerge" | .route .. => "route" | .replay .. => "replay" | .iterate .. => "iterate"
  | .sink _ => "sink"

partial def bodyTags (pre : String) : List BStage → List String
  | [] => []
  | s :: ss =>
    (match s with
     | .gbwin .. => ["body:gbwin"] | .gbfold .. => ["body:gbfold"] | .joinside .. => ["body:joinside"]
     | .mergeside => ["body:mergeside"]
     | .replay (.mk _ _ _ _ _ b) => [s!"body:replay-in-{pre}"] ++ bodyTags "replay" b
     | .iterate (.mk _ _ _ _ _ b) => [s!"body:iterate-in-{pre}", "body:inner-iterate-state"] ++ bodyTags "iterate" b
     | .iteritems (.mk _ _ _ _ _ b) =>
       [s!"body:iterate-in-{pre}", "body:inner-iterate-items"] ++ bodyTags "iterate" b
     | .iterboth (.mk _ _ _ _ _ b) =>
       [s!"body:iterate-in-{pre}", "body:inner-iterate-items+state"] ++ bodyTags "iterate" b
     | _ => []) ++ bodyTags pre ss

/-- the code path that established the co-partitioning of the keyed stream `r` -/
partial def keyedPath (job : Job) (r : Ref) : String :=
  match job.find? (·.id == r.id) with
  | none => "?"
  | some n => match n.kind with
    | .kmap a .. | .kfilter a .. | .kfold a _ | .kreduce a _ | .kwin a .. => keyedPath job a
    | .groupBy .. => "groupby"
    | .gbFold .. | .gbReduce .. | .gbSum .. | .gbCount .. => "aggregate"
    | .join .. => "joinhash"
    | .keyBy .. => "keyby"
    | .kjoin .. | .kmerge .. => "kbin"
    | _ => "?"

/-- distribution tags of the newer generator features -/
def featureTags (job : Job) : List String :=
  (job.flatMap fun n => match n.kind with
    | .replay _ sd (.mk _ _ _ _ _ b) => (if sd.isSome then ["loop:side-input"] else []) ++ bodyTags "replay" b
    | .iterate _ sd (.mk _ _ _ _ _ b) => (if sd.isSome then ["loop:side-input"] else []) ++ bodyTags "iterate" b
    | .repl _ .host | .repart _ .host _ _ => ["rep:host"]
    | .repl _ (.lim _) => ["rep:limited-forward"]
    | .kwin _ _ _ g => [if g == .cnt then "kwin:cnt" else "kwin:ordered-agg"]
    | .kjoin a b _ => ["kbin", s!"kbin:{keyedPath job a}+{keyedPath job b}"]
    | .kmerge a b => ["kbin", s!"kbin:{keyedPath job a}+{keyedPath job b}", "kbin:merge"]
    | _ => []).eraseDups

/-! ### the region of the known engine defect F18 (`iterate` + all-to-all stage in its body) -/

/-- does the stage (or a loop nested in it) contain an all-to-all connection? -/
partial def allToAll : BStage → Bool
  | .shuffle | .gbsum .. | .gbfold .. | .gbwin .. | .joinside .. => true
  | .replay (.mk _ _ _ _ _ b) | .iterate (.mk _ _ _ _ _ b) | .iteritems (.mk _ _ _ _ _ b)
  | .iterboth (.mk _ _ _ _ _ b) => b.any allToAll
  | _ => false

mutual
/-- output of a body stage (as `evalStage`) and the largest number of elements that enter, in some
    round, an `iterate` whose body contains an all-to-all stage -/
partial def stageLoad (side : List V) (s : BStage) (st : Int) (xs : List V) : List V × Nat :=
  match s with
  | .replay l => let r := loopLoad false side l xs; ([V.int r.1.1], r.2)
  | .iterate l => let r := loopLoad true side l xs; ([V.int r.1.1], r.2)
  | .iteritems l => let r := loopLoad true side l xs; (r.1.2, r.2)
  | .iterboth l => let r := loopLoad true side l xs; (r.1.2 ++ [V.int r.1.1], r.2)
  | s => (evalStage side 1 s st xs, 0)

partial def bodyLoad (side : List V) (body : List BStage) (st : Int) (xs : List V) : List V × Nat :=
  body.foldl (fun acc s => let r := stageLoad side s st acc.1; (r.1, max acc.2 r.2)) (xs, 0)

/-- mirrors `loopRun` -/
partial def loopLoad (fb : Bool) (side : List V) (l : LoopSpec) (xs : List V) : (Int × List V) × Nat :=
  match l with
  | .mk iters init agg cp ck body =>
    let risky := fb && body.any allToAll
    let rec go (n : Nat) (st : Int) (xs : List V) (load : Nat) : (Int × List V) × Nat :=
      match n with
      | 0 => ((st, xs), load)
      | n + 1 =>
        let load := if risky then max load xs.length else load
        let r := bodyLoad side body st xs
        let out := r.1
        let load := max load r.2
        let st' := agg.glob st ((projs out).foldl agg.loc 0)
        if cp.eval ck (.int st') && n != 0 then go n st' (if fb then out else xs) load
        else ((st', out), load)
    go (max iters 1) init xs 0
end

/-! ### executions of nested loops: which stop through their CONDITION before `max` rounds? -/

/-- one execution of a nested loop: position in the body tree, rounds run, max, stopped by the condition -/
structure LoopEv where
  path : String
  rounds : Nat
  max : Nat
  condStop : Bool

mutual
partial def stageEv (path : String) (side : List V) (s : BStage) (st : Int) (xs : List V) : List V × List LoopEv :=
  match s with
  | .replay l => let r := loopEv true path false side l xs; ([V.int r.1.1], r.2)
  | .iterate l => let r := loopEv true path true side l xs; ([V.int r.1.1], r.2)
  | .iteritems l => let r := loopEv true path true side l xs; (r.1.2, r.2)
  | .iterboth l => let r := loopEv true path true side l xs; (r.1.2 ++ [V.int r.1.1], r.2)
  | s => (evalStage side 1 s st xs, [])

partial def bodyEv (path : String) (side : List V) (body : List BStage) (st : Int) (xs : List V) :
    List V × List LoopEv :=
  (body.zipIdx.foldl (fun acc (s, i) =>
    let r := stageEv s!"{path}.{i}" side s st acc.1; (r.1, acc.2 ++ r.2)) (xs, []))

/-- mirrors `loopRun`; `nested`: record this execution -/
partial def loopEv (nested : Bool) (path : String) (fb : Bool) (side : List V) (l : LoopSpec) (xs : List V) :
    (Int × List V) × List LoopEv :=
  match l with
  | .mk iters init agg cp ck body =>
    let mx := max iters 1
    let rec go (n : Nat) (st : Int) (xs : List V) (evs : List LoopEv) : (Int × List V) × List LoopEv :=
      match n with
      | 0 => ((st, xs), evs)
      | n + 1 =>
        let r := bodyEv path side body st xs
        let out := r.1
        let evs := evs ++ r.2
        let st' := agg.glob st ((projs out).foldl agg.loc 0)
        let c := cp.eval ck (.int st')
        if c && n != 0 then go n st' (if fb then out else xs) evs
        else ((st', out), if nested then evs ++ [⟨path, mx - n, mx, !c⟩] else evs)
    go mx init xs []
end

/-- all executions of nested loops of the job, in order -/
def nestedLoopEvents (job : Job) : List LoopEv :=
  let st := seqRun job
  let inp := fun (r : Ref) => (st.get r (some false)).getD []
  let sideOf := fun (sd : Option Ref) => match sd with | some b => inp b | none => []
  job.flatMap fun n => match n.kind with
    | .replay a sd l => (loopEv false s!"n{n.id}" false (sideOf sd) l (inp a)).2
    | .iterate a sd l => (loopEv false s!"n{n.id}" true (sideOf sd) l (inp a)).2
    | _ => []

/-- `nested:inner-cond-stop`: some nested loop execution ends through its condition before `max`
    rounds; `nested:inner-cond-stop-overrun`: moreover the rounds accumulated over consecutive
    executions of that loop exceed its `max` — a round counter that is not reset when a loop ends
    through its condition (seed C01-4) then cuts a later execution short -/
def nestedTags (job : Job) : List String :=
  let evs := nestedLoopEvents job
  let early := evs.any fun e => e.condStop && e.rounds < e.max
  let paths := (evs.map (·.path)).eraseDups
  let overrun := paths.any fun p =>
    ((evs.filter (·.path == p)).foldl (fun (acc : Nat × Bool) e =>
      let bad := acc.2 || (acc.1 > 0 && acc.1 + e.rounds > e.max)
      let total := acc.1 + e.rounds
      (if e.condStop && total < e.max then total else 0, bad)) (0, false)).2
  (if early then ["nested:inner-cond-stop"] else []) ++
  (if overrun then ["nested:inner-cond-stop-overrun"] else [])

/-- the largest content entering a risky `iterate` anywhere in the job (0 = no risky iterate) -/
def f18Load (job : Job) : Nat :=
  let st := seqRun job
  let inp := fun (r : Ref) => (st.get r (some false)).getD []
  let sideOf := fun (sd : Option Ref) => match sd with | some b => inp b | none => []
  job.foldl (fun acc n => match n.kind with
    | .replay a sd l => max acc (loopLoad false (sideOf sd) l (inp a)).2
    | .iterate a sd l => max acc (loopLoad true (sideOf sd) l (inp a)).2
    | _ => acc) 0

/-- elements per batch of a batch-mode token, if the mode is "small" (≤ 8) -/
def smallBatch (bm : String) : Option Nat :=
  if bm == "single" then some 1
  else if bm.startsWith "f" then ((bm.drop 1).toString.toNat?).filter (· ≤ 8)
  else if bm.startsWith "a" then
    (((bm.drop 1).toString.splitOn ":").head?.bind String.toNat?).filter (· ≤ 8)
  else none

def totalReplicas (cfg : String) : Nat :=
  if cfg.startsWith "L" then ((cfg.drop 1).toString.toNat?).getD 1
  else (((cfg.drop 1).toString.splitOn ":").filterMap String.toNat?).foldl (· + ·) 0

/-- (a)-(d) of the narrow classification of F18: a risky iterate exists and receives, in some round
    of the sequential semantics, more than CHANNEL_CAPACITY = 16 batches of a small batch mode, on a
    deployment with at least 2 replicas -/
def inF18Region (job : Job) (cfg bm : String) : Bool :=
  match smallBatch bm with
  | none => false
  | some b => totalReplicas cfg ≥ 2 && f18Load job > 16 * b

def mix (a b c : Nat) : Nat :=
  let x := (a * 1000003 + b * 7919 + c * 104729 + 12345) % 4294967291
  (x * 48271 + (x / 65536)) % 2147483647

def mkOrc (seed : Nat) : Orc :=
  { hash := fun v => mix seed ((ofV v).toStr.hash.toNat % 1000003) 1,
    route := fun id i => mix seed id (i + 17),
    merge := fun id i => mix (seed + 1) id i }

def canon (l : List (Nat × List V)) : List String := sinkLines l

/-- no order-sensitive stage anywhere in the job -/
def parCheckable (job : Job) : Bool :=
  job.all fun n => match n.kind with
    | .kwin .. | .zip .. => false   -- order sensitive: the arbitrary arrival order of parEval is too liberal
    | _ => true

/-- sanity of the executable model (not a proof): `parEval` under 5 replica counts / pseudo-random
    schedules (hash function, routing choices, arrival orders, order of the loop-state deltas) must
    give the sequential sink multisets
    * on ALL sinks of a job without order-sensitive stages (a superset of what the theorem covers:
      also keyed joins, `key_by` as generated, …), and
    * on the sinks covered by `parEval_perm_seqEval_covered` (`coveredSinks`) of every other job.
    All node kinds take part, loops included (parallel loop protocol `parLoopRun`). -/
def parCheck (seed : Nat) (job : Job) (seq : List (Nat × List V)) : Option String :=
  let keep : List (Nat × List V) → List (Nat × List V) :=
    if parCheckable job then id else
      let cov := coveredSinks job
      fun l => l.filter fun p => cov.contains p.1
  let want := canon (keep seq)
  let trials : List (Nat × Nat) := [(1, seed), (2, seed + 1), (3, seed + 2), (4, seed + 3), (7, seed + 4)]
  match trials.find? (fun t => canon (keep (parEval ⟨t.1, 1 + t.2 % 4⟩ (mkOrc t.2) job)) != want) with
  | some t => some s!"[C01] model-internal parEval(par={t.1}) differs from seqEval: {(canon (keep (parEval ⟨t.1, 1 + t.2 % 4⟩ (mkOrc t.2) job))).take 2} vs {want.take 2}"
  | none => none

def handle (c : Case) : Verdict :=
  let job := parseJob c.ops
  let seq := seqEval job
  let model := sinkLines seq
  let cfg := (c.header.drop 2).headD "?"
  let bm := (c.header.drop 3).headD "?"
  let cfgClass := if cfg.startsWith "R" then "remote" else "local"
  let kinds := (job.map fun n => kindName n.kind).eraseDups
  let hosts := if cfg.startsWith "R" then (cfg.splitOn ":").length else 1
  let tags := [s!"cfg:{cfgClass}", s!"batch:{(bm.takeWhile Char.isAlpha).toString}"] ++
    (if hosts ≥ 4 then ["cfg:hosts4"] else []) ++
    (if bm.startsWith "a" then [s!"batch:{bm}"] else []) ++
    (kinds.filter (· != "sink")).map (s!"op:{·}") ++ featureTags job ++ nestedTags job
  let nontrivial := seq.any fun p => !p.2.isEmpty
  if c.implOut == ["blocked"] && inF18Region job cfg bm then
    -- known engine defect F18 (tracked under C04): the run yields no sinks, nothing is compared
    { out := c.implOut,
      oracle := some s!"[C04] known:F18-iterate-shuffle-cross-replica-deadlock engine blocked ({cfg} {bm}); {f18Load job} elements enter an iterate with an all-to-all stage in its body",
      nontrivial := false, tags := ["f18-region", "nodiff"] }
  else if c.implOut == ["infra"] then
    -- the engine did not run (address clash): nothing to compare; `out` merely echoes the harness
    { out := c.implOut, oracle := none, nontrivial := false, tags := ["infra", "nodiff"] }
  else
    let firstDiff := (model.zip c.implOut).find? fun p => p.1 != p.2
    let engine :=
      if c.implOut == model then none
      else match firstDiff with
        | some (m, i) => some s!"[C01] engine result differs from the sequential meaning ({cfg} {bm}): engine `{(i.take 300).toString}` sequential `{(m.take 300).toString}`"
        | none => some s!"[C01] engine outcome {c.implOut.take 3} vs {model.length} sinks of the sequential meaning ({cfg} {bm})"
    let seed := ((c.header.headD "").hash.toNat) % 1000003
    let internal := parCheck seed job seq
    let oracle := match engine, internal with
      | none, none => none
      | some a, none => some a
      | none, some b => some b
      | some a, some b => some (a ++ " ;; " ++ b)
    let ncov := (coveredSinks job).length
    let tags := tags ++ (if inF18Region job cfg bm then ["f18-risk"] else [])
    let tags := tags ++ [if orderInsensitive job then "theorem:all-sinks-covered"
                         else if ncov > 0 then "theorem:some-sinks-covered" else "theorem:no-sink-covered"]
    { out := model, oracle, nontrivial, tags }

end Noir.Driver.E2e
