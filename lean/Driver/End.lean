/-
  Driver/End.lean — the `End` operator on a fake topology (C03).
  header: `<id> end <OnlyOne|Random|GroupBy|All> <me b.h.r> <feedback block | ->`
  ops: `next <b.h.r> <fragile>`, `ignore <block>`, `e <elem>` (payload `(hash,value)`).
  outputs: `<step> <elem> <receiver,…>` | `<step> <elem> R <block>:<count>,…`.
-/
import Driver.Proto
import NoirVerif.Model.Router
namespace Noir.Driver.End
open Noir Noir.Driver Noir.Placement Noir.Router

def parseCoord (s : String) : Option Coord :=
  match s.splitOn "." with
  | [b, h, r] => do pure ⟨← b.toNat?, ← h.toNat?, ← r.toNat?⟩
  | _ => none

def coordStr (c : Coord) : String := s!"{c.block}.{c.host}.{c.replica}"

/-- the `u64` the keyer returns: the first component of the payload, as 64 bits -/
def hashOf : Val → Nat
  | .tup (.int h :: _) => if h < 0 then (h + 18446744073709551616).toNat else h.toNat
  | .int h => if h < 0 then (h + 18446744073709551616).toNat else h.toNat
  | _ => 0

def parseStrategy : String → Strategy
  | "OnlyOne" => .onlyOne
  | "Random" => .random
  | "GroupBy" => .groupBy
  | _ => .all

def coordLe (a b : Coord) : Bool := lexLe a.key b.key

def insertSorted (c : Coord) : List Coord → List Coord
  | [] => [c]
  | d :: ds => if coordLe c d then c :: d :: ds else d :: insertSorted c ds

def sortCoords (l : List Coord) : List Coord := l.foldr insertSorted []

def dedupCoords : List (Coord × Bool) → List (Coord × Bool)
  | [] => []
  | p :: ps => p :: (dedupCoords ps).filter (·.1 != p.1)

/-- one output line of a step -/
def fmtStep (strat : Strategy) (i : Nat) (e : Elem Val) (recv : List Coord) : String :=
  if strat == .random && e.isData then
    let blocks := (recv.map (·.block)).eraseDups
    let t := blocks.map fun b => s!"{b}:{(recv.filter (·.block == b)).length}"
    s!"{i} {elemToStr e} R {",".intercalate t}"
  else s!"{i} {elemToStr e} {",".intercalate ((sortCoords recv).map coordStr)}"

structure ImplLine where
  step : Nat
  elem : String
  random : Bool
  recv : List Coord := []
  counts : List (Nat × Nat) := []

def parseImplLine (s : String) : Option ImplLine :=
  match words s with
  | [i, e, cs] => do
    pure { step := ← i.toNat?, elem := e, random := false, recv := ← (cs.splitOn ",").mapM parseCoord }
  | [i, e, "R", cs] => do
    let counts ← (cs.splitOn ",").mapM fun t =>
      match t.splitOn ":" with
      | [b, k] => do pure (← b.toNat?, ← k.toNat?)
      | _ => none
    pure { step := ← i.toNat?, elem := e, random := true, counts }
  | _ => none

def sameSet {α : Type} [BEq α] (a b : List α) : Bool :=
  a.length == b.length && a.all b.contains && b.all a.contains

/-- what the oracle keeps of one producer's data deliveries: (key hash, receivers) -/
abbrev Deliveries := List (Nat × List Coord)

structure Producer where
  modelOut : List String
  fails : List String
  connected : List Coord
  deliveries : Deliveries
  malformed : Bool
  nData : Nat

/-- model run + spec-side oracle for one producer replica (`lines` = its implementation lines) -/
def producer (cfg : Cfg) (me : Coord) (next : List (Coord × Bool)) (es : List (Elem Val))
    (implLines : List String) (tag : String) : Producer := Id.run do
  let strat := cfg.strategy
  -- model
  let st0 := setup cfg me.block next
  let ok := setupOk strat st0.groups
  let mut st := st0
  let mut out : List String := []
  let mut i := 0
  for e in es do
    let (st', sent) := step cfg hashOf 0 st e
    st := st'
    unless sent.isEmpty do
      out := out ++ [tag ++ fmtStep strat i e (sent.filterMap fun (k, _) => st0.senders[k]?.map (·.coord))]
    i := i + 1
  let modelOut :=
    if !ok then ["panic:other:assertion_`left_==_right`_failed___left:"]
    else if st.panicked then ["panic:index"] else out
  -- spec-side oracle on the implementation's lines
  let connected := (next.filter fun p => !p.2 && !cfg.ignore.contains p.1.block).map (·.1)
  let blocks := (connected.map (·.block)).eraseDups
  -- an element after `Terminate` that `End` would forward (anything but `FlushBatch`): the
  -- senders are gone, the code panics iff at least one replica is connected
  let afterTerm := ((es.dropWhile (!·.isTerm)).drop 1).any fun e => e != Elem.flushBatch
  let malformed := (afterTerm && !connected.isEmpty) ||
    (strat == .onlyOne && blocks.any fun b => (connected.filter (·.block == b)).length != 1)
  let mut fails : List String := []
  let lines := implLines.filterMap parseImplLine
  if lines.length ≠ implLines.length then fails := fails ++ ["unparsable implementation output"]
  let mut deliveries : Deliveries := []
  let mut k := 0
  for e in es do
    let ls := lines.filter (·.step == k)
    let estr := elemToStr e
    if ls.any (·.elem != estr) then fails := fails ++ [s!"{tag}step {k}: a receiver got a different element"]
    if ls.length > 1 then fails := fails ++ [s!"{tag}step {k}: several output groups"]
    let recv := ls.flatMap (·.recv)
    match e with
    | .item a | .ts a _ =>
      if strat == .random then
        let counts := ls.flatMap (·.counts)
        unless sameSet counts (blocks.map fun b => (b, 1)) do
          fails := fails ++ [s!"{tag}step {k}: shuffle must reach exactly one replica of every downstream block, got {counts}"]
      else if strat == .all then
        unless sameSet recv connected do
          fails := fails ++ [s!"{tag}step {k}: broadcast reached {recv.map coordStr} of {connected.map coordStr}"]
      else
        unless recv.all connected.contains do
          fails := fails ++ [s!"{tag}step {k}: delivered to a replica that is not connected"]
        for b in blocks do
          unless (recv.filter (·.block == b)).length == 1 do
            fails := fails ++ [s!"{tag}step {k}: block {b} got the element {(recv.filter (·.block == b)).length} times"]
        if strat == .groupBy then deliveries := deliveries ++ [(hashOf a, recv)]
    | .wm _ | .far =>
      unless sameSet recv connected do
        fails := fails ++ [s!"{tag}step {k}: {estr} reached {recv.map coordStr} of {connected.map coordStr}"]
    | .term =>
      let expected := connected.filter fun co => some co.block != cfg.feedback
      unless sameSet recv expected do
        fails := fails ++ [s!"{tag}step {k}: TERM reached {recv.map coordStr}, expected {expected.map coordStr}"]
    | .flushBatch =>
      unless recv.isEmpty do fails := fails ++ [s!"{tag}step {k}: FlushBatch was forwarded"]
    k := k + 1
  if lines.any (·.step ≥ es.length) then fails := fails ++ ["output for a step that does not exist"]
  return { modelOut, fails, connected, deliveries, malformed, nData := (es.filter Elem.isData).length }

/-- "equal key hash ⇒ same consumer coordinate", inside every downstream block whose connected
    replicas are the same for the two deliveries' producers (`conn` gives them per delivery) -/
def keyConsistency (ds : List (Nat × List Coord × List Coord)) : List String := Id.run do
  let mut fails : List String := []
  let mut seen : List (Nat × List Coord × List Coord) := []
  for (h, recv, conn) in ds do
    for (h', recv', conn') in seen do
      if h == h' then
        for b in (conn.map (·.block)).eraseDups do
          if sameSet (conn.filter (·.block == b)) (conn'.filter (·.block == b)) then
            unless sameSet (recv.filter (·.block == b)) (recv'.filter (·.block == b)) do
              fails := fails ++ [s!"equal keys (hash {h}) were delivered to different replicas of block {b}: {(recv.filter (·.block == b)).map coordStr} vs {(recv'.filter (·.block == b)).map coordStr}"]
    unless seen.any (fun x => x.1 == h && x.2.1 == recv && x.2.2 == conn) do
      seen := seen ++ [(h, recv, conn)]
  return fails

def handle (c : Case) : Verdict := Id.run do
  match c.header with
  | _ :: _ :: strat :: me :: fb :: rest =>
    let strat := parseStrategy strat
    let me := (parseCoord me).getD default
    let me2 := rest.head?.bind parseCoord
    let cfg : Cfg := {
      strategy := strat, feedback := fb.toNat?,
      ignore := c.ops.filterMap fun w => match w with | ["ignore", b] => b.toNat? | _ => none }
    let nextOf (kw : String) := dedupCoords (c.ops.filterMap fun w =>
      match w with
      | [k, co, f] => if k == kw then (parseCoord co).map fun co => (co, f == "1") else none
      | _ => none)
    let esOf (kw : String) := c.ops.filterMap fun w =>
      match w with | [k, e] => if k == kw then parseElem e else none | _ => none
    let isPanic := match c.implOut with | [l] => l.startsWith "panic" | _ => false
    let impl1 := if isPanic then [] else c.implOut.filter fun l => !l.startsWith "P2 "
    let impl2 := if isPanic then [] else
      (c.implOut.filter fun l => l.startsWith "P2 ").map fun l => (l.drop 3).toString
    let p1 := producer cfg me (nextOf "next") (esOf "e") impl1 ""
    let p2 := me2.map fun me2 => producer cfg me2 (nextOf "next2") (esOf "e2") impl2 "P2 "
    -- a panic of either producer replaces the whole output
    let firstPanic := ((p1.modelOut ++ (p2.map (·.modelOut)).getD []).filter (·.startsWith "panic")).head?
    let modelOut := match firstPanic with
      | some p => [p]
      | none => p1.modelOut ++ (p2.map (·.modelOut)).getD []
    let malformed := p1.malformed || (p2.map (·.malformed)).getD false
    let mut fails : List String := []
    if isPanic then
      unless malformed do fails := fails ++ [s!"unexpected {c.implOut.headD ""}"]
    else
      fails := p1.fails ++ (p2.map (·.fails)).getD []
      -- equal key hash ⇒ same consumer coordinate, within and ACROSS producers
      fails := fails ++ keyConsistency
        (p1.deliveries.map (fun d => (d.1, d.2, p1.connected)) ++
         ((p2.map fun p => p.deliveries.map fun d => (d.1, d.2, p.connected)).getD []))
    let oracle := match fails with | [] => none | f :: _ => some s!"{f} ({fails.length} failures)"
    let blocks := (p1.connected.map (·.block)).eraseDups
    let shared : Nat := match p2 with
      | some p => (blocks.filter fun b =>
          sameSet (p1.connected.filter fun (x : Coord) => x.block == b)
            (p.connected.filter fun (x : Coord) => x.block == b)).length
      | none => 0
    return { out := modelOut, oracle,
             nontrivial := p1.nData > 0 && !p1.connected.isEmpty && !isPanic,
             tags := [c.header.getD 2 "?", s!"blocks{blocks.length}"] ++
               (if cfg.feedback.isSome then ["feedback"] else []) ++
               (if !cfg.ignore.isEmpty then ["ignore"] else []) ++
               (if (nextOf "next").any (·.2) then ["fragile"] else []) ++
               (if p2.isSome then [s!"two-producers-shared{shared}"] else []) ++
               (if malformed then ["malformed"] else []) ++
               (if isPanic then ["panic"] else []) }
  | _ => return { out := [], oracle := some "bad header", nontrivial := false }

end Noir.Driver.End
