/-
  Driver/End.lean — the `End` operator on a fake topology (C03).
  header: `<id> end <OnlyOne|Random|GroupBy|All> <me b.h.r> <feedback block | ->`
  ops: `next <b.h.r> <fragile>`, `ignore <block>`, `e <elem>` (payload `(hash,value)`).
  outputs: `<step> <elem> <receiver,…>` | `<step> <elem> R <block>:<count>,…`.
-/
import Driver.Proto
import NoirVerif.Model.Router
namespace Noir.Driver.End
open Noir Noir.Driver Noir.Placement Noir.Router

def parseCoord (s : String) : Option Coord :=
  match s.splitOn "." with
  | [b, h, r] => do pure ⟨← b.toNat?, ← h.toNat?, ← r.toNat?⟩
  | _ => none

def coordStr (c : Coord) : String := s!"{c.block}.{c.host}.{c.replica}"

/-- the `u64` the keyer returns: the first component of the payload, as 64 bits -/
def hashOf : Val → Nat
  | .tup (.int h :: _) => if h < 0 then (h + 18446744073709551616).toNat else h.toNat
  | .int h => if h < 0 then (h + 18446744073709551616).toNat else h.toNat
  | _ => 0

def parseStrategy : String → Strategy
  | "OnlyOne" => .onlyOne
  | "Random" => .random
  | "GroupBy" => .groupBy
  | _ => .all

def coordLe (a b : Coord) : Bool := lexLe a.key b.key

def insertSorted (c : Coord) : List Coord → List Coord
  | [] => [c]
  | d :: ds => if coordLe c d then c :: d :: ds else d :: insertSorted c ds

def sortCoords (l : List Coord) : List Coord := l.foldr insertSorted []

def dedupCoords : List (Coord × Bool) → List (Coord × Bool)
  | [] => []
  | p :: ps => p :: (dedupCoords ps).filter (·.1 != p.1)

/-- one output line of a step -/
def fmtStep (strat : Strategy) (i : Nat) (e : Elem Val) (recv : List Coord) : String :=
  if strat == .random && e.isData then
    let blocks := (recv.map (·.block)).eraseDups
    let t := blocks.map fun b => s!"{b}:{(recv.filter (·.block == b)).length}"
    s!"{i} {elemToStr e} R {",".intercalate t}"
  else s!"{i} {elemToStr e} {",".intercalate ((sortCoords recv).map coordStr)}"

structure ImplLine where
  step : Nat
  elem : String
  random : Bool
  recv : List Coord := []
  counts : List (Nat × Nat) := []

def parseImplLine (s : String) : Option ImplLine :=
  match words s with
  | [i, e, cs] => do
    pure { step := ← i.toNat?, elem := e, random := false, recv := ← (cs.splitOn ",").mapM parseCoord }
  | [i, e, "R", cs] => do
    let counts ← (cs.splitOn ",").mapM fun t =>
      match t.splitOn ":" with
      | [b, k] => do pure (← b.toNat?, ← k.toNat?)
      | _ => none
    pure { step := ← i.toNat?, elem := e, random := true, counts }
  | _ => none

def sameSet {α : Type} [BEq α] (a b : List α) : Bool :=
  a.length == b.length && a.all b.contains && b.all a.contains

def handle (c : Case) : Verdict := Id.run do
  match c.header with
  | [_, _, strat, me, fb] =>
    let strat := parseStrategy strat
    let me := (parseCoord me).getD default
    let cfg : Cfg := {
      strategy := strat, feedback := fb.toNat?,
      ignore := c.ops.filterMap fun w => match w with | ["ignore", b] => b.toNat? | _ => none }
    let next := dedupCoords (c.ops.filterMap fun w =>
      match w with
      | ["next", co, f] => (parseCoord co).map fun co => (co, f == "1")
      | _ => none)
    let es := c.ops.filterMap fun w => match w with | ["e", e] => parseElem e | _ => none
    -- model
    let st0 := setup cfg me.block next
    let ok := setupOk strat st0.groups
    let mut st := st0
    let mut out : List String := []
    let mut i := 0
    for e in es do
      let (st', sent) := step cfg hashOf 0 st e
      st := st'
      unless sent.isEmpty do
        out := out ++ [fmtStep strat i e (sent.filterMap fun (k, _) => st0.senders[k]?.map (·.coord))]
      i := i + 1
    let modelOut :=
      if !ok then ["panic:other:assertion_`left_==_right`_failed___left:"]
      else if st.panicked then ["panic:index"] else out
    -- spec-side oracle on the implementation's lines
    let connected := (next.filter fun p => !p.2 && !cfg.ignore.contains p.1.block).map (·.1)
    let blocks := (connected.map (·.block)).eraseDups
    let afterTerm := ((es.dropWhile (!·.isTerm)).drop 1).length > 0
    let malformed := afterTerm ||
      (strat == .onlyOne && blocks.any fun b => (connected.filter (·.block == b)).length != 1)
    let isPanic := match c.implOut with | [l] => l.startsWith "panic" | _ => false
    let mut fails : List String := []
    if isPanic then
      unless malformed do fails := fails ++ [s!"unexpected {c.implOut.headD ""}"]
    else
      let lines := c.implOut.filterMap parseImplLine
      if lines.length ≠ c.implOut.length then fails := fails ++ ["unparsable implementation output"]
      let mut byHash : List (Nat × List Coord) := []
      let mut k := 0
      for e in es do
        let ls := lines.filter (·.step == k)
        let estr := elemToStr e
        if ls.any (·.elem != estr) then fails := fails ++ [s!"step {k}: a receiver got a different element"]
        if ls.length > 1 then fails := fails ++ [s!"step {k}: several output groups"]
        let recv := ls.flatMap (·.recv)
        match e with
        | .item a | .ts a _ =>
          if strat == .random then
            let counts := ls.flatMap (·.counts)
            unless sameSet counts (blocks.map fun b => (b, 1)) do
              fails := fails ++ [s!"step {k}: shuffle must reach exactly one replica of every downstream block, got {counts}"]
          else if strat == .all then
            unless sameSet recv connected do
              fails := fails ++ [s!"step {k}: broadcast reached {recv.map coordStr} of {connected.map coordStr}"]
          else
            unless recv.all connected.contains do
              fails := fails ++ [s!"step {k}: delivered to a replica that is not connected"]
            for b in blocks do
              unless (recv.filter (·.block == b)).length == 1 do
                fails := fails ++ [s!"step {k}: block {b} got the element {(recv.filter (·.block == b)).length} times"]
            if strat == .groupBy then
              let h := hashOf a
              match byHash.find? (·.1 == h) with
              | some (_, r) =>
                unless sameSet r recv do
                  fails := fails ++ [s!"step {k}: equal keys were delivered to different replicas"]
              | none => byHash := (h, recv) :: byHash
        | .wm _ | .far =>
          unless sameSet recv connected do
            fails := fails ++ [s!"step {k}: {estr} reached {recv.map coordStr} of {connected.map coordStr}"]
        | .term =>
          let expected := connected.filter fun co => some co.block != cfg.feedback
          unless sameSet recv expected do
            fails := fails ++ [s!"step {k}: TERM reached {recv.map coordStr}, expected {expected.map coordStr}"]
        | .flushBatch =>
          unless recv.isEmpty do fails := fails ++ [s!"step {k}: FlushBatch was forwarded"]
        k := k + 1
      if lines.any (·.step ≥ es.length) then fails := fails ++ ["output for a step that does not exist"]
    let oracle := match fails with | [] => none | f :: _ => some s!"{f} ({fails.length} failures)"
    let nData := (es.filter Elem.isData).length
    return { out := modelOut, oracle,
             nontrivial := nData > 0 && !connected.isEmpty && !isPanic,
             tags := [c.header.getD 2 "?", s!"blocks{blocks.length}"] ++
               (if cfg.feedback.isSome then ["feedback"] else []) ++
               (if !cfg.ignore.isEmpty then ["ignore"] else []) ++
               (if next.any (·.2) then ["fragile"] else []) ++
               (if malformed then ["malformed"] else []) ++
               (if isPanic then ["panic"] else []) }
  | _ => return { out := [], oracle := some "bad header", nontrivial := false }

end Noir.Driver.End
