/-
  Driver/Loops.lean — whole-engine `replay` / `iterate` / nested-replay jobs (C10).
  header: `<id> loops <kind> <hosts> <cores> <max> <body> <fold> <cond> <init> <delay> <maxInner>` (`delay` is opaque here)
  ops:    `i <x>`
  outputs: `state <list>`, `items <sorted list>` (iterate), `obs <o|i> <round> <distinct observed states…>`.
  Everything is recomputed from the op lines with the sequential reference semantics
  (`Noir.SeqLoop`); the oracle is the property itself: every state observed by a body replica while
  processing data of round k equals the reference state S_k (0-based: the state produced by the
  previous round), the final state / items equal `seqReplay` / `seqIterate`.
-/
import Driver.Proto
import NoirVerif.Model.SeqLoop
namespace Noir.Driver.Loops
open Noir Noir.Driver Noir.SeqLoop

def M : Int := 1000

/-- body library (mirrors `body_*` in harness/src/bin/loops.rs); multiset semantics -/
def bodyFn (kind : String) (S : Int) (xs : List Int) : List Int :=
  match kind with
  | "map" | "shmap" => xs.map fun x => (x + S) % M
  | "mapsh" => xs.map fun x => (2 * ((x + S) % M) + S) % M
  | "filt" => (xs.filter fun x => (x + S) % 3 != 0).map fun x => (x + 1) % M
  | "group" =>
    ([0, 1, 2] : List Int).filterMap fun k =>
      let g := xs.filter fun x => x % 3 == k
      if g.isEmpty then none else some ((g.foldl (· + ·) 0 % 50 + S) % M)
  | "kf2" =>
    let ys := xs.map fun x => (x + S) % M
    ([0, 1, 2] : List Int).filterMap fun k =>
      let g := ys.filter fun x => x % 3 == k
      if g.isEmpty then none else some ((g.foldl (· + ·) 0 % 50 + S) % M)
  | "join" =>
    let ls := xs.map fun x => (x + S) % M
    ls.flatMap fun l => (xs.filter fun r => l % 4 == r % 4).map fun r => (l + r + S) % M
  | _ => xs

def localFold (kind : String) (d x : Int) : Int :=
  match kind with
  | "sum" => d + x
  | "cnt" => d + 1
  | "max" => max d x
  | _ => d

def globalFold (kind : String) (s d : Int) : Int :=
  match kind with
  | "sum" | "cnt" => s + d
  | "max" => max s d
  | _ => s + 1

def loopCond (kind : String) : Option (Int → Bool × Int) :=
  match kind.splitOn ":" with
  | ["T"] => some fun s => (true, s)
  | ["F"] => some fun s => (false, s)
  | ["lt", b] => b.toInt?.map fun b => fun s => (decide (s < b), s)
  | ["dec"] => some fun s => (true, s - 1)
  | ["ltm", b] => b.toInt?.map fun b => fun s => (decide (s + 1 < b), s + 1)
  | _ => none

/-- distribution of a round's output over the `n` end replicas: the library folds do not depend on
    it beyond the number of replicas (every replica sends one delta, the default one if it saw nothing) -/
def split (n : Nat) (xs : List Int) : List (List Int) := xs :: List.replicate (n - 1) []

def isNest (kind : String) : Bool :=
  ["nested", "nestri", "nestir", "nestrx", "nestrm", "nestix", "nestim"].contains kind
/-- the OUTER loop feeds its output back (iterate) -/
def outerFeed (kind : String) : Bool := ["iterate", "nestir", "nestix", "nestim"].contains kind
/-- the INNER loop feeds its output back (iterate) -/
def innerFeed (kind : String) : Bool := ["nestri", "nestrx", "nestrm", "nestix", "nestim"].contains kind
/-- what the outer body returns: `F` the final inner state (one element, mod 1000), `X` the inner
    iterate's ITEMS (the elements of its last round), `M` both (merged) -/
def outMode (kind : String) : String :=
  if kind == "nestrx" || kind == "nestix" then "X" else if kind == "nestrm" || kind == "nestim" then "M" else "F"

def outerOut (kind : String) (F : Int) (items : List Int) : List Int :=
  match outMode kind with
  | "X" => items
  | "M" => (F % 1000) :: items
  | _ => [F % 1000]

def innerLoop (maxInner : Nat) (So : Int) : Loop Int Int Int :=
  { init := 1, maxIter := maxInner, body := fun Si xs => xs.map fun x => (x + So + Si) % M,
    delta0 := 0, localFold := fun d x => d + x, global := fun s d => s + d, cond := fun s => (true, s) }

/-- final state of the inner loop (replay or iterate) and the output of its last round -/
def innerResult (kind : String) (maxInner n : Nat) (So : Int) (xs : List Int) : Int × List Int :=
  lastD (trace (innerLoop maxInner So) (innerFeed kind) (split n) xs) (1, [])

def mkLoop (kind body fold : String) (cond : Int → Bool × Int) (init : Int) (mx maxInner n : Nat) : Loop Int Int Int :=
  { init, maxIter := mx,
    body := if isNest kind then fun So xs => let r := innerResult kind maxInner n So xs; outerOut kind r.1 r.2
            else bodyFn body,
    delta0 := 0, localFold := localFold fold, global := globalFold fold, cond }

def ints (l : List Int) : String := toString (Val.ofInts l)

def sortInts (l : List Int) : List Int := (l.toArray.qsort (· < ·)).toList

/-- Does a read happen in a round with this input? (all library bodies read the state for every
    element that reaches the reading operator; `group`/`kf2` read once per non-empty key as well) -/
def readsIn (inp : List Int) : Bool := !inp.isEmpty

structure Ref where
  state : Int
  items : Option (List Int)
  /-- (level, ko, ki, expected state) for every round in which a read happens -/
  obs : List (String × Nat × Nat × Int)
  /-- nested kinds: (ko, ki, x, So, Si) per element of the inner body -/
  rds : List (Nat × Nat × Int × Int × Int)

def reference (kind : String) (l : Loop Int Int Int) (maxInner n : Nat) (input : List Int) : Ref :=
  let feed := outerFeed kind
  let tr := trace l feed (split n) input
  let sts := states l feed (split n) input
  -- input of round k
  let inputs : List (List Int) := if feed then input :: tr.map (·.2) else tr.map fun _ => input
  let perRound := (List.range tr.length).zip (sts.zip inputs)
  let outer : List (String × Nat × Nat × Int) :=
    perRound.filterMap fun (k, S, inp) => if readsIn inp then some ("o", k, 0, S) else none
  -- inner rounds: (ko, ki, Si, input of the inner round, So)
  let innerRounds : List (Nat × Nat × Int × List Int × Int) :=
    if !isNest kind then [] else
      perRound.flatMap fun (ko, So, inp) =>
        let il := innerLoop maxInner So
        let itr := trace il (innerFeed kind) (split n) inp
        let ists := states il (innerFeed kind) (split n) inp
        let iinputs : List (List Int) := if innerFeed kind then inp :: itr.map (·.2) else itr.map fun _ => inp
        ((List.range itr.length).zip (ists.zip iinputs)).map fun (ki, Si, iinp) => (ko, ki, Si, iinp, So)
  let inner := innerRounds.filterMap fun (ko, ki, Si, iinp, _) => if readsIn iinp then some ("i", ko, ki, Si) else none
  let rds := innerRounds.flatMap fun (ko, ki, Si, iinp, So) => (sortInts iinp).map fun x => (ko, ki, x, So, Si)
  let last := lastD tr (l.init, [])
  { state := last.1, items := if feed then some (sortInts last.2) else none, obs := outer ++ inner, rds }

def fmtObs (o : String × Nat × Nat × Int) : String :=
  if o.1 == "o" then s!"obs o {o.2.1} {o.2.2.2}" else s!"obs i {o.2.1}.{o.2.2.1} {o.2.2.2}"

def fmtRd (r : Nat × Nat × Int × Int × Int) : String :=
  s!"rd {r.1}.{r.2.1} {r.2.2.1} {r.2.2.2.1} {r.2.2.2.2}"

/-- predicted lines; the placement metadata (`at …`) cannot be predicted and is taken over -/
def render (r : Ref) (implOut : List String) : List String :=
  [s!"state {ints [r.state]}"] ++ (match r.items with | some xs => [s!"items {ints xs}"] | none => []) ++
    r.obs.map fmtObs ++ r.rds.map fmtRd ++ implOut.filter fun l => l.startsWith "at "

/-- parse an `obs` line: (level, ko, ki, states) -/
def parseObs (s : String) : Option (String × Nat × Nat × List Int) :=
  match words s with
  | "obs" :: lvl :: rd :: sts => do
    let sts ← sts.mapM String.toInt?
    match rd.splitOn "." with
    | [ko] => do pure (lvl, ← ko.toNat?, 0, sts)
    | [ko, ki] => do pure (lvl, ← ko.toNat?, ← ki.toNat?, sts)
    | _ => none
  | _ => none

/-- `rd <ko>.<ki> <x> <So> <Si>` -/
def parseRd (s : String) : Option (Nat × Nat × Int × Int × Int) :=
  match words s with
  | ["rd", rd, x, so, si] =>
    match rd.splitOn "." with
    | [ko, ki] => do pure (← ko.toNat?, ← ki.toNat?, ← x.toInt?, ← so.toInt?, ← si.toInt?)
    | _ => none
  | _ => none

/-- `at o <ko> <state> <hosts…>` -/
def parseAt (s : String) : Option (Nat × Int × List Nat) :=
  match words s with
  | "at" :: "o" :: ko :: st :: hs => do pure (← ko.toNat?, ← st.toInt?, ← hs.mapM String.toNat?)
  | _ => none

/-! ### F9 explanation: the sequential reference with the observed stale reads substituted

The run is re-computed from what the inner body REALLY read: in outer round `ko` every element must
have read the inner state of the re-computed run and, as outer state, either the re-computed `S_ko` or
(stale, F9) the re-computed `S_(ko-1)`. Outputs, inner states, outer states, the number of rounds and the
final result follow from these reads alone; anything else the engine printed that disagrees with the
re-computation is a plain failure. -/

structure Subst where
  state : Int
  items : List Int
  /-- (outer round, stale state) of the stale reads -/
  stale : List (Nat × Int)
  fails : List String
  /-- number of `rd` records consumed -/
  used : Nat
  deriving Inhabited

partial def substRun (kind : String) (l : Loop Int Int Int) (maxInner n : Nat) (input : List Int)
    (rds : List (Nat × Nat × Int × Int × Int)) : Subst :=
  let innerRounds := max 1 maxInner
  let rec outer (ko : Nat) (So : Int) (prev : Option Int) (inp : List Int)
      (stale : List (Nat × Int)) (fails : List String) (used : Nat) : Subst :=
    -- the inner loop of this outer round
    let rec inner (ki : Nat) (Si : Int) (iinp : List Int) (stale : List (Nat × Int)) (fails : List String)
        (used : Nat) : Int × List Int × List (Nat × Int) × List String × Nat :=
      let recs := rds.filter fun r => r.1 == ko && r.2.1 == ki
      let f1 := if sortInts (recs.map (·.2.2.1)) == sortInts iinp then []
        else [s!"round {ko}.{ki}: the inner body processed {ints (sortInts (recs.map (·.2.2.1)))}, its input is {ints (sortInts iinp)}"]
      let f2 := recs.filterMap fun r =>
        if r.2.2.2.2 == Si then none
        else some s!"round {ko}.{ki}: inner state read {r.2.2.2.2}, expected {Si}"
      let f3 := recs.filterMap fun r =>
        if r.2.2.2.1 == So || (prev == some r.2.2.2.1) then none
        else some s!"round {ko}.{ki}: outer state read {r.2.2.2.1}, expected {So}"
      let st := recs.filterMap fun r =>
        if r.2.2.2.1 != So && prev == some r.2.2.2.1 then some (ko, r.2.2.2.1) else none
      let outs := recs.map fun r => (r.2.2.1 + r.2.2.2.1 + r.2.2.2.2) % M
      let Si' := Si + outs.foldl (· + ·) 0
      let fails := fails ++ f1 ++ (f2 ++ f3).take 2
      if ki + 1 < innerRounds then
        inner (ki + 1) Si' (if innerFeed kind then outs else iinp) (stale ++ st) fails (used + recs.length)
      else (Si', outs, stale ++ st, fails, used + recs.length)
    let (F, lastOuts, stale, fails, used) := inner 0 1 inp stale fails used
    let out := outerOut kind F lastOuts
    let r := l.cond (foldRound l So (split n out))
    if r.1 && ko + 1 < l.maxIter then
      outer (ko + 1) r.2 (some So) (if outerFeed kind then out else input) stale fails used
    else { state := r.2, items := out, stale, fails, used }
  outer 0 l.init none input [] [] 0

def handle (c : Case) : Verdict :=
  match c.header with
  | [_, _, kind, hosts, cores, mx, body, fold, cond, init, delay, maxInner] =>
    match hosts.toNat?, cores.toNat?, mx.toNat?, loopCond cond, init.toInt?, maxInner.toNat? with
    | some hosts, some cores, some mx, some condf, some init, some maxInner =>
      let n := hosts * cores
      let input := c.ops.filterMap fun w => match w with | ["i", x] => x.toInt? | _ => none
      let l := mkLoop kind body fold condf init mx maxInner n
      let r := reference kind l maxInner n input
      let out := render r c.implOut
      -- oracle: the property, evaluated on the implementation's lines
      let expState (lvl : String) (ko ki : Nat) : Option Int :=
        (r.obs.find? fun o => o.1 == lvl && o.2.1 == ko && o.2.2.1 == ki).map (·.2.2.2)
      let sts := states l (outerFeed kind) (split n) input
      let fails : List String := c.implOut.flatMap fun line =>
        match words line with
        | ["blocked"] => ["[C10] the job did not finish within 20 s (blocked)"]
        | [w] => if w.startsWith "panic:" then [s!"[C10] the job panicked ({w})"] else [s!"[C10] unexpected line {line}"]
        | ["state", v] =>
          if v == ints [r.state] then [] else [s!"[C10] final state {v}, sequential semantics gives {ints [r.state]}"]
        | ["items", v] =>
          if some v == r.items.map ints then [] else [s!"[C10] items of the last round {v}, sequential semantics gives {r.items.map ints}"]
        | "at" :: _ => []
        | "rd" :: _ =>
          match parseRd line with
          | none => [s!"[C10] unparsable line {line}"]
          | some rd => if r.rds.contains rd then [] else [s!"[C10] read `{line}` is not a read of the sequential semantics"]
        | "obs" :: _ =>
          match parseObs line with
          | none => [s!"[C10] unparsable line {line}"]
          | some (lvl, ko, ki, seen) =>
            -- reference state of that round even when the reference predicts no read there
            let want : Option Int :=
              match expState lvl ko ki with
              | some s => some s
              | none => if lvl == "o" then sts[ko]? else none
            match want with
            | none => [s!"[C10] state read in a round that does not exist: {line}"]
            | some w =>
              seen.filterMap fun s =>
                if s == w then none
                else some s!"[C10] level {lvl} round {ko}.{ki}: a replica observed state {s}, expected {w}"
        | _ => [s!"[C10] unexpected line {line}"]
      let implRds := c.implOut.filterMap parseRd
      let fails := if isNest kind && implRds.length < r.rds.length && c.implOut != ["blocked"]
        then fails ++ [s!"[C10] {r.rds.length - implRds.length} reads of the sequential semantics did not happen"] else fails
      let fails := if (c.implOut.filter fun l => l.startsWith "state").isEmpty && c.implOut != ["blocked"]
        then fails ++ ["[C10] no final state line"] else fails
      -- F9 (nested loops, >= 2 hosts, shuffle inside the INNER body): accepted as the known finding only if the
      -- whole output is explained by the reads the inner body really made, all deviating reads being reads
      -- of the previous outer round's state S_(k-1)
      let f9 : Option String :=
        if fails.isEmpty || !isNest kind || hosts < 2 || !(body == "n1" || body == "n3")
            || c.implOut.any (fun l => l == "blocked" || l.startsWith "panic:") then none else
        let sub := substRun kind l maxInner n input implRds
        let ats := c.implOut.filterMap parseAt
        let leaderHost : Nat := ((c.implOut.filterMap fun l => match words l with
          | ["at", "leader", h] => h.toNat? | _ => none).head?).getD 0
        -- hosts on which the stale reads happened (reported only: the leader's own host is not exempt — its
        -- loop heads receive the feedback through the same `wait_sync_state` path as every other host's)
        let staleHosts : List Nat := (sub.stale.flatMap fun (ko, s) =>
          match ats.find? fun a => a.1 == ko && a.2.1 == s with
          | some a => a.2.2
          | none => []).eraseDups
        -- the printed summary lines must be those of the re-computed run
        let implObs := c.implOut.filterMap parseObs
        let obsOk := implObs.all fun (lvl, ko, ki, seen) =>
          let fromRd := implRds.filter fun rd => rd.1 == ko && (lvl == "o" || rd.2.1 == ki)
          let vals := fromRd.map fun rd => if lvl == "o" then rd.2.2.2.1 else rd.2.2.2.2
          seen.all (vals.contains ·) && vals.all (seen.contains ·)
        let stateOk := c.implOut.contains s!"state {ints [sub.state]}"
        let itemsOk := !outerFeed kind || c.implOut.contains s!"items {ints (sortInts sub.items)}"
        if !sub.stale.isEmpty && sub.fails.isEmpty && sub.used == implRds.length && obsOk && stateOk && itemsOk then
          let (ko, s) := sub.stale.headD (0, 0)
          some s!"[C10] known:F9-nested-outer-state-stale {sub.stale.length} elements of the inner body read the OUTER state of the previous outer round (first: outer round {ko}, state {s}; hosts {staleHosts}, outer leader on host {leaderHost}); inner states, rounds and the final state {sub.state} are exactly what these reads give"
        else none
      let (fails, nodiff) := match f9 with
        | some m => ([m], true)
        | none => (fails, false)
      let oracle : Option String :=
        if fails.isEmpty then none else some (" ;; ".intercalate (fails.take 4))
      let rounds := (trace l (outerFeed kind) (split n) input).length
      -- a trace explained by F9 is a behaviour of the (nondeterministic) nested protocol model, see
      -- Props/C10.lean `nested_outer_state_stale_counterexample`: it is echoed (tag `nodiff`)
      { out := if nodiff then c.implOut else out, oracle, nontrivial := rounds ≥ 2 && !input.isEmpty,
        tags := [kind, s!"hosts{hosts}", s!"cores{cores}", s!"body:{body}", s!"fold:{fold}",
                 s!"cond:{(cond.splitOn ":").headD "?"}", s!"delay:{delay}", s!"rounds{min rounds 6}",
                 if rounds < max 1 mx then "stopsEarly" else "reachesBound"] ++ (if nodiff then ["nodiff"] else []) }
    | _, _, _, _, _, _ => { out := [], oracle := some "bad header", nontrivial := false }
  | _ => { out := [], oracle := some "bad header", nontrivial := false }

end Noir.Driver.Loops
