/-
  Driver/Loops.lean — whole-engine `replay` / `iterate` / nested-replay jobs (C10).
  header: `<id> loops <kind> <hosts> <cores> <max> <body> <fold> <cond> <init> <delay> <maxInner>` (`delay` is opaque here)
  ops:    `i <x>`
  outputs: `state <list>`, `items <sorted list>` (iterate), `obs <o|i> <round> <distinct observed states…>`.
  Everything is recomputed from the op lines with the sequential reference semantics
  (`Noir.SeqLoop`); the oracle is the property itself: every state observed by a body replica while
  processing data of round k equals the reference state S_k (0-based: the state produced by the
  previous round), the final state / items equal `seqReplay` / `seqIterate`.
-/
import Driver.Proto
import NoirVerif.Model.SeqLoop
namespace Noir.Driver.Loops
open Noir Noir.Driver Noir.SeqLoop

def M : Int := 1000

/-- body library (mirrors `body_*` in harness/src/bin/loops.rs); multiset semantics -/
def bodyFn (kind : String) (S : Int) (xs : List Int) : List Int :=
  match kind with
  | "map" | "shmap" => xs.map fun x => (x + S) % M
  | "mapsh" => xs.map fun x => (2 * ((x + S) % M) + S) % M
  | "filt" => (xs.filter fun x => (x + S) % 3 != 0).map fun x => (x + 1) % M
  | "group" =>
    ([0, 1, 2] : List Int).filterMap fun k =>
      let g := xs.filter fun x => x % 3 == k
      if g.isEmpty then none else some ((g.foldl (· + ·) 0 % 50 + S) % M)
  | _ => xs

def localFold (kind : String) (d x : Int) : Int :=
  match kind with
  | "sum" => d + x
  | "cnt" => d + 1
  | "max" => max d x
  | _ => d

def globalFold (kind : String) (s d : Int) : Int :=
  match kind with
  | "sum" | "cnt" => s + d
  | "max" => max s d
  | _ => s + 1

def loopCond (kind : String) : Option (Int → Bool × Int) :=
  match kind.splitOn ":" with
  | ["T"] => some fun s => (true, s)
  | ["F"] => some fun s => (false, s)
  | ["lt", b] => b.toInt?.map fun b => fun s => (decide (s < b), s)
  | ["dec"] => some fun s => (true, s - 1)
  | ["ltm", b] => b.toInt?.map fun b => fun s => (decide (s + 1 < b), s + 1)
  | _ => none

/-- distribution of a round's output over the `n` end replicas: the library folds do not depend on
    it beyond the number of replicas (every replica sends one delta, the default one if it saw nothing) -/
def split (n : Nat) (xs : List Int) : List (List Int) := xs :: List.replicate (n - 1) []

def innerLoop (maxInner : Nat) (So : Int) : Loop Int Int Int :=
  { init := 1, maxIter := maxInner, body := fun Si xs => xs.map fun x => (x + So + Si) % M,
    delta0 := 0, localFold := fun d x => d + x, global := fun s d => s + d, cond := fun s => (true, s) }

def mkLoop (kind body fold : String) (cond : Int → Bool × Int) (init : Int) (mx maxInner n : Nat) : Loop Int Int Int :=
  { init, maxIter := mx,
    body := if kind == "nested" then fun So xs => [seqReplay (innerLoop maxInner So) (split n) xs % M]
            else bodyFn body,
    delta0 := 0, localFold := localFold fold, global := globalFold fold, cond }

def ints (l : List Int) : String := toString (Val.ofInts l)

def sortInts (l : List Int) : List Int := (l.toArray.qsort (· < ·)).toList

/-- Does a read happen in a round with this input? (all library bodies read the state for every
    element that reaches the reading operator; `group` reads once per non-empty key) -/
def readsIn (inp : List Int) : Bool := !inp.isEmpty

structure Ref where
  state : Int
  items : Option (List Int)
  /-- (level, ko, ki, expected state) for every round in which a read happens -/
  obs : List (String × Nat × Nat × Int)

def reference (kind : String) (l : Loop Int Int Int) (maxInner n : Nat) (input : List Int) : Ref :=
  let feed := kind == "iterate"
  let tr := trace l feed (split n) input
  let sts := states l feed (split n) input
  -- input of round k
  let inputs : List (List Int) := if feed then input :: tr.map (·.2) else tr.map fun _ => input
  let outer : List (String × Nat × Nat × Int) :=
    ((List.range tr.length).zip (sts.zip inputs)).filterMap fun (k, S, inp) =>
      if readsIn inp then some ("o", k, 0, S) else none
  let inner : List (String × Nat × Nat × Int) :=
    if kind != "nested" then [] else
      ((List.range tr.length).zip sts).flatMap fun (ko, So) =>
        let il := innerLoop maxInner So
        let itr := trace il false (split n) input
        let ists := states il false (split n) input
        if readsIn input then ((List.range itr.length).zip ists).map fun (ki, Si) => ("i", ko, ki, Si) else []
  let last := lastD tr (l.init, [])
  { state := last.1, items := if feed then some (sortInts last.2) else none, obs := outer ++ inner }

def fmtObs (o : String × Nat × Nat × Int) : String :=
  if o.1 == "o" then s!"obs o {o.2.1} {o.2.2.2}" else s!"obs i {o.2.1}.{o.2.2.1} {o.2.2.2}"

def render (r : Ref) : List String :=
  [s!"state {ints [r.state]}"] ++ (match r.items with | some xs => [s!"items {ints xs}"] | none => []) ++
    r.obs.map fmtObs

/-- parse an `obs` line: (level, ko, ki, states) -/
def parseObs (s : String) : Option (String × Nat × Nat × List Int) :=
  match words s with
  | "obs" :: lvl :: rd :: sts => do
    let sts ← sts.mapM String.toInt?
    match rd.splitOn "." with
    | [ko] => do pure (lvl, ← ko.toNat?, 0, sts)
    | [ko, ki] => do pure (lvl, ← ko.toNat?, ← ki.toNat?, sts)
    | _ => none
  | _ => none

def handle (c : Case) : Verdict :=
  match c.header with
  | [_, _, kind, hosts, cores, mx, body, fold, cond, init, delay, maxInner] =>
    match hosts.toNat?, cores.toNat?, mx.toNat?, loopCond cond, init.toInt?, maxInner.toNat? with
    | some hosts, some cores, some mx, some condf, some init, some maxInner =>
      let n := hosts * cores
      let input := c.ops.filterMap fun w => match w with | ["i", x] => x.toInt? | _ => none
      let l := mkLoop kind body fold condf init mx maxInner n
      let r := reference kind l maxInner n input
      let out := render r
      -- oracle: the property, evaluated on the implementation's lines
      let expState (lvl : String) (ko ki : Nat) : Option Int :=
        (r.obs.find? fun o => o.1 == lvl && o.2.1 == ko && o.2.2.1 == ki).map (·.2.2.2)
      let sts := states l (kind == "iterate") (split n) input
      let fails : List String := c.implOut.flatMap fun line =>
        match words line with
        | ["blocked"] => ["[C10] the job did not finish within 20 s (blocked)"]
        | ["state", v] =>
          if v == ints [r.state] then [] else [s!"[C10] final state {v}, sequential semantics gives {ints [r.state]}"]
        | ["items", v] =>
          if some v == r.items.map ints then [] else [s!"[C10] items of the last round {v}, sequential semantics gives {r.items.map ints}"]
        | "obs" :: _ =>
          match parseObs line with
          | none => [s!"[C10] unparsable line {line}"]
          | some (lvl, ko, ki, seen) =>
            -- reference state of that round even when the reference predicts no read there
            let want : Option Int :=
              match expState lvl ko ki with
              | some s => some s
              | none => if lvl == "o" then sts[ko]? else none
            match want with
            | none => [s!"[C10] state read in a round that does not exist: {line}"]
            | some w =>
              seen.filterMap fun s =>
                if s == w then none
                else some s!"[C10] level {lvl} round {ko}.{ki}: a replica observed state {s}, expected {w}"
        | _ => [s!"[C10] unexpected line {line}"]
      let fails := if (c.implOut.filter fun l => l.startsWith "state").isEmpty && c.implOut != ["blocked"]
        then fails ++ ["[C10] no final state line"] else fails
      -- F9 explanation predicate (nested loops, >= 2 hosts, shuffle inside the INNER body): the first
      -- outer round whose observations deviate from the reference is a round k >= 1 in which every
      -- deviating observation of the OUTER state is exactly the previous round's state S_(k-1) (stale
      -- read), everything before it agrees with the reference; all later deviations are consequences.
      let implObs := c.implOut.filterMap parseObs
      let okAt (lvl : String) (ko ki : Nat) (seen : List Int) : Bool :=
        match expState lvl ko ki with
        | some w => seen.all (· == w)
        | none => false
      let badOuter := (implObs.filter fun o => o.1 == "o" && !okAt "o" o.2.1 0 o.2.2.2).map (·.2.1)
      let firstBad := badOuter.foldl min (badOuter.headD 0)
      let f9 : Bool :=
        kind == "nested" && hosts ≥ 2 && (body == "n1" || body == "n3") && !badOuter.isEmpty && firstBad ≥ 1 &&
        (implObs.all fun o => o.2.1 ≥ firstBad || okAt o.1 o.2.1 o.2.2.1 o.2.2.2) &&
        (implObs.all fun o => !(o.1 == "o" && o.2.1 == firstBad) ||
          o.2.2.2.all fun s => some s == sts[firstBad]? || some s == sts[firstBad - 1]?) &&
        c.implOut != ["blocked"]
      let fails := if f9 then
          [s!"[C10] known:F9-nested-outer-state-stale outer round {firstBad}: a replica of the inner body observed the OUTER state S_{firstBad - 1} = {(sts[firstBad - 1]?).getD 0} instead of S_{firstBad} = {(sts[firstBad]?).getD 0}; consequences: {fails.length} deviating lines"]
        else fails
      let oracle : Option String :=
        if fails.isEmpty then none else some (" ;; ".intercalate (fails.take 4))
      let rounds := (trace l (kind == "iterate") (split n) input).length
      -- a trace explained by F9 is a behaviour of the (nondeterministic) nested protocol model, see
      -- Props/C10.lean `nested_outer_state_stale_counterexample`: no model/implementation diff is reported for it
      { out := if f9 then c.implOut else out, oracle, nontrivial := rounds ≥ 2 && !input.isEmpty,
        tags := [kind, s!"hosts{hosts}", s!"cores{cores}", s!"body:{body}", s!"fold:{fold}",
                 s!"cond:{(cond.splitOn ":").headD "?"}", s!"delay:{delay}", s!"rounds{min rounds 6}",
                 if rounds < max 1 mx then "stopsEarly" else "reachesBound"] }
    | _, _, _, _, _, _ => { out := [], oracle := some "bad header", nontrivial := false }
  | _ => { out := [], oracle := some "bad header", nontrivial := false }

end Noir.Driver.Loops
