/-
  Driver/Range.lean — parallel iterator source over integer ranges (C15).
  header: `<id> range <ty> <start> <end> <peers>`; ops: `i <index>`;
  outputs (one per op): `<index> <first> <end_exclusive>` | `<index> empty` | `<index> panic:<class>`.
-/
import Driver.Proto
import NoirVerif.Model.Range
namespace Noir.Driver.Range
open Noir Noir.Driver Noir.Range

def parseTy : String → Option Ty
  | "u8" => some .u8 | "u16" => some .u16 | "u32" => some .u32 | "usize" => some .usize
  | "i8" => some .i8 | "i16" => some .i16 | "i32" => some .i32 | "i64" => some .i64
  | "isize" => some .isize
  | _ => none

/-- run the model of the implementation selected by the type name -/
def runModel (ty : String) (s e : Int) (index peers : Nat) : Res :=
  if ty == "u64" then genU64 s e index peers
  else match parseTy ty with
    | some t => genMacro t s e index peers
    | none => .unwrap

def fmtRes (index : Nat) : Res → String
  | .overflow => s!"{index} panic:overflow"
  | .divzero => s!"{index} panic:other:attempt_to_divide_by_zero"
  | .unwrap => s!"{index} panic:unwrap"
  | .range a b => if a < b then s!"{index} {a} {b}" else s!"{index} empty"

/-- What the implementation reported for one replica index. -/
inductive Obs where
  | empty
  | chunk (first endx : Int)
  | panic (cls : String)

def parseObs (s : String) : Option (Nat × Obs) :=
  match words s with
  | [i, "empty"] => do pure (← i.toNat?, .empty)
  | [i, a, b] => do pure (← i.toNat?, .chunk (← a.toInt?) (← b.toInt?))
  | [i, p] => if p.startsWith "panic:" then do pure (← i.toNat?, .panic (p.drop 6).toString) else none
  | _ => none

def TWO62 : Int := 4611686018427387904

/-- Property oracle (spec side; does not use the model): reversed or empty range ⇒ every replica yields
    nothing and does not panic; forward range ⇒ no replica panics, the non-empty chunks lie inside
    `[start,end)`, are disjoint and ordered by replica index, and — when every index `0..peers-1` was
    queried — tile `[start,end)` exactly. Returns the failures. -/
def oracle (ty : String) (s e : Int) (peers : Nat) (obs : List (Nat × Obs)) : List String :=
  if e ≤ s then
    obs.filterMap fun (i, o) =>
      match o with
      | .empty => none
      | .chunk a b => some s!"replica {i} of the reversed/empty range {s}..{e} yields {a}..{b}"
      | .panic c => some s!"replica {i} of the reversed/empty range {s}..{e} panics ({c})"
  else
    let panics := obs.filterMap fun (i, o) =>
      match o with
      | .panic c => some s!"replica {i} of {s}..{e} ({ty}, {peers} replicas) panics ({c})"
      | _ => none
    if !panics.isEmpty then panics else
    let sorted := obs.toArray.qsort (fun a b => a.1 < b.1) |>.toList
    let idxs := sorted.map (·.1)
    let dup := idxs.zip (idxs.drop 1) |>.any fun (a, b) => a == b
    let outOfRange := idxs.any (· ≥ peers)
    if dup ∨ outOfRange then [] else   -- not a well-formed query set (shrunk case): nothing to check
    let chunks := sorted.filterMap fun (i, o) =>
      match o with | .chunk a b => some (i, a, b) | _ => none
    let inside := chunks.filterMap fun (i, a, b) =>
      if s ≤ a ∧ a < b ∧ b ≤ e then none
      else some s!"replica {i} yields {a}..{b} outside {s}..{e}"
    let ordered := (chunks.zip (chunks.drop 1)).filterMap fun ((i, _, b), (j, a', _)) =>
      if b ≤ a' then none
      else some s!"replicas {i} and {j} overlap or are out of order: ..{b} vs {a'}.."
    let complete := idxs.length == peers
    let cover :=
      if !complete then [] else
      -- the non-empty chunks, in index order, must chain from `start` to `end` without gaps
      let rec chain (pos : Int) : List (Nat × Int × Int) → Option String
        | [] => if pos == e then none else some s!"elements {pos}..{e} are yielded by no replica"
        | (i, a, b) :: rest =>
          if a == pos then chain b rest
          else some s!"replica {i} starts at {a}, expected {pos} (gap or duplicate)"
      match chain s chunks with
      | none => []
      | some m => [m]
    inside ++ ordered ++ cover

def handle (c : Case) : Verdict :=
  match c.header with
  | [_, _, ty, s, e, p] =>
    match s.toInt?, e.toInt?, p.toNat? with
    | some s, some e, some peers =>
      let idxs := c.ops.filterMap fun w => match w with | ["i", i] => i.toNat? | _ => none
      let res := idxs.map fun i => (i, runModel ty s e i peers)
      let out := res.map fun (i, r) => fmtRes i r
      let obs := c.implOut.filterMap parseObs
      -- outside C15's quantifier (more than 2^62 elements / replicas): `Range<u64>` loses the tail when
      -- `n + peers - 1` saturates; the oracle is not applied there (the model diff still is)
      let beyond := s < e ∧ (e - s > TWO62 ∨ (peers : Int) > TWO62)
      let fails := if beyond then [] else oracle ty s e peers obs
      let oracleMsg : Option String :=
        if obs.length ≠ c.implOut.length then some "unparsable implementation output"
        else match fails with
          | [] => none
          | m :: _ => some s!"{fails.length} failure(s), first: {m}"
      let shape := if e < s then "reversed" else if e == s then "empty" else if beyond then "beyond" else "forward"
      let len := (e - s).toNat
      let pcls := if peers == 1 then "p=1" else if s < e ∧ len < peers then "len<p" else if s < e ∧ len == peers then "len=p"
                  else if s < e ∧ len % peers == 0 then "p|len" else "p∤len"
      let anyPanic := res.any (·.2.isPanic)
      let anyEmpty := res.any fun (_, r) => match r with | .range a b => decide (b ≤ a) | _ => false
      { out, oracle := oracleMsg,
        nontrivial := !idxs.isEmpty && s != e && !beyond,
        tags := [s!"ty:{ty}", s!"shape:{shape}", pcls] ++ (if anyPanic then ["model-panic"] else [])
                ++ (if anyEmpty then ["some-empty"] else []) ++ (if peers > 64 then ["huge-peers"] else []) }
    | _, _, _ => { out := [], oracle := some "bad header", nontrivial := false }
  | _ => { out := [], oracle := some "bad header", nontrivial := false }

end Noir.Driver.Range
