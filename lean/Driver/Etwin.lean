/-
  Driver/Etwin.lean — event-time window cases (C13).
  header: `<id> etwin <mode> <size> <slide>`, mode `mgr` (one manager; payload `<id>`; outputs
  `<op idx> T:[..]:<end>`) or `op` (keyed WindowOperator; payload `(<key>,<id>)`; outputs = the
  operator's output elements, data lines between two control lines sorted).
  ops: `e <elem>`.
-/
import Driver.Proto
import NoirVerif.Model.EventTimeWindow
namespace Noir.Driver.Etwin
open Noir Noir.Driver Noir.EventTimeWindow

def sortStr (l : List String) : List String := (l.toArray.qsort (· < ·)).toList

/-- sort the data lines between two control lines (same as `canon` in harness/src/bin/etwin.rs) -/
def canon (l : List (Bool × String)) : List String :=
  let rec go (l : List (Bool × String)) (unit : List String) (acc : List String) : List String :=
    match l with
    | [] => acc ++ sortStr unit.reverse
    | (true, s) :: rest => go rest (s :: unit) acc
    | (false, s) :: rest => go rest [] (acc ++ sortStr unit.reverse ++ [s])
  go l [] []

def keyOf : Val → String
  | .tup (k :: _) => k.toStr
  | v => v.toStr

def keyVal : Val → Val
  | .tup (k :: _) => k
  | v => v

/-- the script as `ScriptOp` replays it and the harness consumes it: up to the first `TERM`
    (a `TERM` is supplied if the script has none) -/
def cutAtTerm : List (Elem Val) → List (Elem Val)
  | [] => [.term]
  | .term :: _ => [.term]
  | e :: es => e :: cutAtTerm es

def fmtRes (idx : Nat) (r : Res Val) : String :=
  let v := Val.list (r.val.map (·.1))
  match r.ts with
  | some t => s!"{idx} {elemToStr (.ts v t)}"
  | none => s!"{idx} {elemToStr (.item v)}"

def fmtOpElem (e : Elem (String × List (Val × Int))) : Bool × String :=
  match e with
  | .ts (_, items) t =>
    let k := match items with | (v, _) :: _ => keyVal v | [] => Val.none
    (true, elemToStr (.ts (.tup [k, .list (items.map (·.1))]) t))
  | .item (_, items) =>
    let k := match items with | (v, _) :: _ => keyVal v | [] => Val.none
    (true, elemToStr (.item (.tup [k, .list (items.map (·.1))])))
  | .wm t => (false, elemToStr (.wm t))
  | .flushBatch => (false, "FB")
  | .term => (false, "TERM")
  | .far => (false, "FAR")

def keyed (es : List (Elem Val)) : List (Elem (String × Val)) := es.map (Elem.map fun v => (keyOf v, v))

/-! ### what the implementation emitted, in a mode-independent shape -/

/-- a result: index of the input element that triggered it, key, items, stamp -/
structure ImplRes where
  idx : Nat
  key : Option Val
  items : List Val
  stamp : Option Int

def isCtrlIn : Elem Val → Bool
  | .item _ => false
  | .ts _ _ => false
  | _ => true

/-- `mgr` mode line `<idx> T:[..]:t` -/
def parseMgrLine (s : String) : Option ImplRes :=
  match words s with
  | [i, e] => do
    let i ← i.toNat?
    let e ← parseElem e
    match e with
    | .ts (.list l) t => pure ⟨i, .none, l, .some t⟩
    | .item (.list l) => pure ⟨i, .none, l, .none⟩
    | _ => .none
  | _ => .none

/-- `op` mode: attribute every data line to the input position of the next control line
    (the j-th control output is the forwarded j-th control input). -/
def parseOpLines (es : List (Elem Val)) (lines : List String) : Option (List ImplRes × List (Elem Val)) := do
  let outs ← lines.mapM parseElem
  let ctrlPos : List Nat := ((List.range es.length).zip es).filterMap fun (i, e) => if isCtrlIn e then some i else none
  let rec go (outs : List (Elem Val)) (ctrl : List Nat) (acc : List ImplRes) : Option (List ImplRes) :=
    match outs with
    | [] => some acc.reverse
    | o :: rest =>
      match o with
      | .ts (.tup [k, .list l]) t =>
        match ctrl with
        | i :: _ => go rest ctrl (⟨i, some k, l, some t⟩ :: acc)
        | [] => none
      | .item (.tup [k, .list l]) =>
        match ctrl with
        | i :: _ => go rest ctrl (⟨i, some k, l, none⟩ :: acc)
        | [] => none
      | .ts _ _ | .item _ => none
      | _ => match ctrl with
        | _ :: ctrl' => go rest ctrl' acc
        | [] => none
  let rs ← go outs ctrlPos []
  pure (rs, outs)

/-- the output stream in `mgr` mode as the WindowOperator would forward it: results of input `i`,
    then input `i` itself if it is a watermark / FlushAndRestart / Terminate -/
def mgrStream (es : List (Elem Val)) (rs : List ImplRes) : List (Elem Val) :=
  ((List.range es.length).zip es).flatMap fun (i, e) =>
    ((rs.filter (·.idx == i)).map fun r => match r.stamp with
      | some t => Elem.ts (Val.list r.items) t
      | none => Elem.item (Val.list r.items)) ++
    (match e with | .wm w => [Elem.wm w] | .far => [Elem.far] | .term => [Elem.term] | .flushBatch => [Elem.flushBatch] | _ => [])

/-! ### the property oracle (spec side) -/

/-- a data element of the input: position, payload, timestamp, iteration, last watermark of its
    iteration before it -/
structure InData where
  pos : Nat
  v : Val
  t : Int
  iter : Nat
  lw : Option Int
  glw : Option Int       -- max watermark seen so far in the whole script (a lone manager never forgets)

def inData (es : List (Elem Val)) : List InData :=
  let rec go (es : List (Elem Val)) (pos iter : Nat) (lw glw : Option Int) (acc : List InData) : List InData :=
    match es with
    | [] => acc.reverse
    | e :: rest =>
      match e with
      | .ts v t => go rest (pos + 1) iter lw glw (⟨pos, v, t, iter, lw, glw⟩ :: acc)
      | .wm w => go rest (pos + 1) iter (optMax lw (some w)) (optMax glw (some w)) acc
      | .far => go rest (pos + 1) (iter + 1) none glw acc
      | _ => go rest (pos + 1) iter lw glw acc
  go es 0 0 none none []

def iterOf (es : List (Elem Val)) (pos : Nat) : Nat := ((es.take pos).filter Elem.isFar).length

/-- late with respect to the watermark: `ts ≤` a watermark seen before it in its iteration -/
def InData.late (d : InData) : Bool := match d.lw with | some w => decide (d.t ≤ w) | none => false

/-- watermark-safety without the reset at `far` (input contract of a lone manager in `mgr` mode) -/
def wmSafeNoReset : Option Int → List (Elem Val) → Bool
  | _, [] => true
  | w, .ts _ t :: rest => (match w with | some w => decide (w < t) | none => true) && wmSafeNoReset w rest
  | w, .wm t :: rest => (match w with | some w => decide (w < t) | none => true) && wmSafeNoReset (some t) rest
  | w, _ :: rest => wmSafeNoReset w rest

/-- the lax contract without the reset at `far` (lone manager): elements `≥`, watermarks `>` -/
def wmSafeLaxNoReset : Option Int → List (Elem Val) → Bool
  | _, [] => true
  | w, .ts _ t :: rest => (match w with | some w => decide (w ≤ t) | none => true) && wmSafeLaxNoReset w rest
  | w, .wm t :: rest => (match w with | some w => decide (w < t) | none => true) && wmSafeLaxNoReset (some t) rest
  | w, _ :: rest => wmSafeLaxNoReset w rest

/-- input classes: `strict` = watermark-safe (C06 contract); `lax` = only violated by elements
    stamped exactly the last watermark (accepted by `assert!(ts >= last_watermark)`; the output
    must still be watermark-safe, `etwin_preserves_wmsafe_lax`); `violation` = anything else -/
def inputClass (opMode : Bool) (es : List (Elem Val)) : String :=
  if (if opMode then wmSafeOk es else wmSafeNoReset none es) then "strict"
  else if (if opMode then wmSafeLaxOk es else wmSafeLaxNoReset none es) then "lax"
  else "violation"

/-- all violations of watermark safety in an output stream: (stamp, last watermark, is a result) -/
def wmViolations : Option Int → List (Elem Val) → List (Int × Int × Bool)
  | _, [] => []
  | w, .ts _ t :: rest =>
    (match w with | some w => if w < t then [] else [(t, w, true)] | none => []) ++ wmViolations w rest
  | w, .wm t :: rest =>
    (match w with | some w => if w < t then [] else [(t, w, false)] | none => []) ++ wmViolations (some t) rest
  | _, .far :: rest => wmViolations none rest
  | w, _ :: rest => wmViolations w rest

def ceilDiv (a b : Int) : Int := (a + b - 1) / b

/-- a failure of the oracle -/
structure Failure where
  msg : String

structure OracleIn where
  opMode : Bool
  cfg : Cfg
  es : List (Elem Val)
  rs : List ImplRes
  stream : List (Elem Val)

def oracle (o : OracleIn) : List Failure :=
  let ds := inData o.es
  let size := o.cfg.size
  let slide := o.cfg.slide
  -- (a) one key, one interval, own iteration, arrived before the result
  let a : List Failure := o.rs.flatMap fun r =>
    (if r.items.isEmpty then [⟨s!"empty result at op {r.idx}"⟩] else []) ++
    (match r.stamp with
     | none => [⟨s!"result without timestamp at op {r.idx}"⟩]
     | some stop => r.items.flatMap fun v =>
       match ds.find? (fun d => d.v == v) with
       | none => [⟨s!"result at op {r.idx} contains {v} which is not an input element"⟩]
       | some d =>
         (if d.pos < r.idx ∧ d.iter == iterOf o.es r.idx then [] else
            [⟨s!"result at op {r.idx} contains {v} of another iteration / a later element"⟩]) ++
         (if stop - size ≤ d.t ∧ d.t < stop then [] else
            [⟨s!"one-interval: result stamped {stop} (window [{stop - size},{stop})) contains {v} with ts {d.t}"⟩]) ++
         (match r.key with
          | some k => if keyVal v == k then [] else [⟨s!"one-key: result of key {k} contains {v}"⟩]
          | none => []))
  -- no element twice in one result
  let dup : List Failure := o.rs.flatMap fun r =>
    if r.items.any (fun v => (r.items.filter (· == v)).length > 1) then
      [⟨s!"no-dup: result at op {r.idx} contains an element twice: {Val.list r.items}"⟩] else []
  -- (b) tumbling: exactly one result per non-late element; sliding: between 1 and ceil(size/slide)
  let maxN : Int := if slide ≤ size then ceilDiv size slide else 1
  let minN : Int := if slide ≤ size then 1 else 0
  let b : List Failure := ds.flatMap fun d =>
    let n : Int := ((o.rs.map fun r => (r.items.filter (· == d.v)).length).foldl (· + ·) 0 : Nat)
    (if n > maxN then [⟨s!"cover: element {d.v} (ts {d.t}) is in {n} results, more than ceil(size/slide)={maxN}"⟩] else []) ++
    (if !d.late ∧ n < minN then
      [⟨s!"element {d.v} (ts {d.t}, not late: last watermark {d.lw}) is in no result"⟩]
     else [])
  -- (c) watermark safety of the output (given a watermark-safe input), fire bounds
  -- (the code accepts `ts = last watermark`; the output must be watermark-safe for that lax
  --  contract too; only a real contract violation of the input makes the clause inapplicable,
  --  and such cases are tagged `in-contract-violation`)
  let c : List Failure :=
    if inputClass o.opMode o.es == "violation" then [] else
    let vs := wmViolations none o.stream
    (vs.map fun (t, w, isRes) =>
      ⟨if isRes then s!"wmsafe: result stamped {t} emitted after Watermark({w})" else s!"wmsafe: Watermark({t}) after Watermark({w})"⟩) ++
    (if vs.isEmpty ∧ !wmSafeOk o.stream then [⟨"wmsafe: recogniser rejects the output stream"⟩] else [])
  let fire : List Failure := o.rs.flatMap fun r =>
    match r.stamp with
    | none => []
    | some stop =>
      let trig := o.es.getD r.idx .flushBatch
      let okTrig := match trig with
        | .far => true | .term => true
        | .wm w => decide (stop ≤ w)
        | _ => false
      let firstPos := (r.items.filterMap fun v => (ds.find? (fun d => d.v == v)).map (·.pos)).foldl min r.idx
      let it := iterOf o.es r.idx
      let early := ((List.range o.es.length).zip o.es).any fun (j, e) =>
        match e with
        | .wm w => decide (firstPos < j ∧ j < r.idx ∧ stop < w) && iterOf o.es j == it
        | _ => false
      (if okTrig then [] else [⟨s!"fire-bounds: result stamped {stop} emitted at op {r.idx} ({elemToStr trig}), before a watermark reached its end"⟩]) ++
      (if early then [⟨s!"fire-bounds: result stamped {stop} emitted at op {r.idx}, later than the first watermark beyond its end"⟩] else [])
  a ++ dup ++ b ++ c ++ fire

/-- every failure is a plain `FAIL` (the former F2/F3 patterns were fixed in /repo and are no
    longer classified as known findings) -/
def verdictOf (fs : List Failure) : Option String :=
  match fs with
  | [] => none
  | f :: _ => some s!"{f.msg} ({fs.length} failures)"

/-- a panic is acceptable only on a malformed input -/
def malformed (opMode : Bool) (es : List (Elem Val)) : Bool :=
  es.any (fun e => match e with | .item _ => true | _ => false) ||
  (inData es).any (fun d => match (if opMode then d.lw else d.glw) with | some w => decide (d.t < w) | none => false)

def slideClass (c : Cfg) : String :=
  if c.slide == c.size then "tumbling" else if c.slide > c.size then "slide>size"
  else if c.size % c.slide == 0 then "slide|size" else "slide∤size"

def handle (c : Case) : Verdict :=
  match c.header with
  | [_, _, mode, size, slide] =>
    match size.toInt?, slide.toInt? with
    | some size, some slide =>
      let cfg : Cfg := ⟨size, slide⟩
      let opMode := mode == "op"
      let es0 := c.ops.filterMap fun w => match w with | ["e", e] => parseElem e | _ => none
      let es := if opMode then cutAtTerm es0 else es0
      -- model
      let (out, panic) : List String × Option String :=
        if opMode then
          let m := mgr (α := Val) cfg
          let kes := keyed es
          let units := WindowOp.runUnits m WindowOp.State.init kes
          let fin := WindowOp.stateAfter m WindowOp.State.init kes
          (canon (units.flatten.map fmtOpElem), fin.panic)
        else
          ((run cfg es).map fun p => fmtRes p.1 p.2, firstPanic cfg State.init es)
      let out := match panic with | some cls => [s!"panic:{cls}"] | none => out
      let baseTags := [mode, slideClass cfg]
      -- implementation
      match c.implOut with
      | [l] =>
        if l.startsWith "panic:" then
          let ok := malformed opMode es
          { out, oracle := if ok then none else some s!"{l} on a well-formed input", nontrivial := false,
            tags := baseTags ++ ["panic"] }
        else handleOut cfg opMode es out baseTags c.implOut
      | _ => handleOut cfg opMode es out baseTags c.implOut
    | _, _ => { out := [], oracle := some "bad header", nontrivial := false }
  | _ => { out := [], oracle := some "bad header", nontrivial := false }
where
  handleOut (cfg : Cfg) (opMode : Bool) (es : List (Elem Val)) (out : List String)
      (baseTags : List String) (implOut : List String) : Verdict :=
    let parsed : Option (List ImplRes × List (Elem Val)) :=
      if opMode then parseOpLines es implOut
      else (implOut.mapM parseMgrLine).map fun rs => (rs, mgrStream es rs)
    match parsed with
    | none => { out, oracle := some "unparsable implementation output", nontrivial := false, tags := baseTags }
    | some (rs, stream) =>
      let fs := oracle ⟨opMode, cfg, es, rs, stream⟩
      let orc := verdictOf fs
      let ds := inData es
      let cls := inputClass opMode es
      { out, oracle := orc, nontrivial := rs.length ≥ 1 && ds.length ≥ 2,
        tags := baseTags ++ [if cls == "strict" then "in-wmsafe" else if cls == "lax" then "in-lax-only" else "in-contract-violation",
           s!"res{min rs.length 3}"] ++
          (if ds.any (fun d => d.lw == some d.t) then ["ts=wm"] else []) ++
          (if ds.any (·.late) then ["late"] else []) ++
          -- boundary classes of the two fixed defects: an arrival earlier than an earlier one of
          -- its key (backward allocation), a result fired by a watermark equal to its end
          (if ds.any (fun d => ds.any fun d' => decide (d'.pos < d.pos ∧ d.t < d'.t) && d'.iter == d.iter &&
              keyOf d'.v == keyOf d.v) then ["out-of-order"] else []) ++
          (if rs.any (fun r => match es.getD r.idx .flushBatch with | .wm w => r.stamp == some w | _ => false)
            then ["wm=end"] else []) ++
          (if (es.filter Elem.isFar).length > 1 then ["multi-iter"] else []) }

end Noir.Driver.Etwin
