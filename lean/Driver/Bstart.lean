/-
  Driver/Bstart.lean — `Start<BinaryStartReceiver>` with and without a cached side
  (C11, binary-start part of C05, merge part of C09).
  header: `<id> bstart <nL> <nR> <N|L|R>` (replicas per side; which side is cached)
  ops:    `b <L|R> <replica> <elem>…`  one batch is sent on that side, then the harness pulls `next()` until
                                       the protocol's timeout `FlushBatch` (not printed) or `Terminate`
          `q <L|R> <replica> <elem>…`  one batch is sent, nothing is pulled (the batch stays in the channel)
          (lines with a replica ≥ n or without a parsable element are skipped on both sides)
  outputs: `<op index> <elem>` (payloads `L<v>`, `R<v>`, `LE`, `RE`); `<op index> blocked` when the pull of
          that op never returns (receive without timeout on channels that stay empty); a panic replaces the
          whole output by `panic:<class>`.
-/
import Driver.Proto
import NoirVerif.Model.BinaryStart
import NoirVerif.Model.StartSpec
namespace Noir.Driver.Bstart
open Noir Noir.Driver Noir.BinaryStart Noir.StartSpec

structure Line where
  idx : Nat
  pump : Bool
  left : Bool
  r : Nat
  elems : List (Elem Val)

def parseLines (nL nR : Nat) (ops : List (List String)) : List Line :=
  (ops.zipIdx).filterMap fun (w, i) =>
    match w with
    | k :: s :: r :: es =>
      if k != "b" && k != "q" then none else
      match r.toNat? with
      | some r =>
        let left := s == "L"
        let elems := es.filterMap parseElem
        if elems.isEmpty || r ≥ (if left then nL else nR) then none
        else some ⟨i, k == "b", left, r, elems⟩
      | none => none
    | _ => none

def binToVal : Bin Val → Val
  | .left v => .left v
  | .right v => .right v
  | .leftEnd => .leftEnd
  | .rightEnd => .rightEnd

/-- model ops with, for every op, the index of the line it comes from -/
def toOps (ls : List Line) : List (Op Val) × List Nat :=
  ls.foldr (fun l (ops, ix) =>
    if l.pump then (.enq l.left l.r l.elems :: .pump :: ops, l.idx :: l.idx :: ix)
    else (.enq l.left l.r l.elems :: ops, l.idx :: ix)) ([], [])

structure ModelRun where
  out : List String
  outcome : Outcome
  /-- number of two-sided `select`s that found both channels non-empty (choice unspecified) -/
  ambig : Nat
  /-- the lines whose batch has been received by the end of the run (per side a prefix of what was sent) -/
  consumed : List Line

def modelRun (ch : Nat → Bool) (nL nR : Nat) (lc rc : Bool) (ls : List Line) : ModelRun :=
  let (ops, ix) := toOps ls
  let (st, out, oc, stop) := runFrom ch (init nL nR lc rc) 0 ops
  let line (i : Nat) : Nat := ix.getD i 0
  let lines := out.map fun (i, e) => s!"{line i} {elemToStr (e.map binToVal)}"
  let lines := match oc with
    | .blocked => lines ++ [s!"{line stop} blocked"]
    | .panic => ["panic:overflow"]
    | .fuel => lines ++ [s!"{line stop} out-of-fuel"]
    | _ => lines
  -- lines after a pump that did not return / returned Terminate are never sent
  let sentLs := match oc with | .idle => ls | _ => ls.filter (fun l => l.idx ≤ line stop)
  let nl := (sentLs.filter (·.left)).length - st.qL.length
  let nr := (sentLs.filter (fun l => !l.left)).length - st.qR.length
  let consumed := (sentLs.foldl (fun (acc : List Line × Nat × Nat) l =>
      if l.left then (if acc.2.1 < nl then (l :: acc.1, acc.2.1 + 1, acc.2.2) else acc)
      else (if acc.2.2 < nr then (l :: acc.1, acc.2.1, acc.2.2 + 1) else acc)) ([], 0, 0)).1.reverse
  { out := lines, outcome := oc, ambig := st.ambig, consumed }

/-! ## Input contract (spec side): each side is a contract-respecting block input
    (`StartSpec.inStep`), the two sides advance in lock step, a cached side has one iteration and
    the loop side starts round `j+1` only when the cached side has terminated. -/

structure InputInfo where
  valid : Bool
  complete : Bool
  roundsL : Nat
  roundsR : Nat
  /-- no iteration is open on the left / right side at the end of the history -/
  idleL : Bool
  idleR : Bool
  /-- data sent per side and iteration: `(left?, iteration, element)` -/
  sent : List (Bool × Nat × Elem Val)

def checkInput (nL nR : Nat) (lc rc : Bool) (ls : List Line) : InputInfo := Id.run do
  let mut sl := InSt.init nL
  let mut sr := InSt.init nR
  let mut ok := nL ≥ 1 && nR ≥ 1
  let mut sent : List (Bool × Nat × Elem Val) := []
  for l in ls do
    -- loop side next to a cached side: a batch ends at its FlushAndRestart and a Terminate travels in a
    -- batch of its own (`End` flushes at FlushAndRestart and at Terminate, src/operator/end.rs:223-228)
    if (if l.left then rc else lc) then
      let farLast := (l.elems.dropLast.all (fun e => !e.isFar))
      let termAlone := !(l.elems.any Elem.isTerm) || l.elems.all Elem.isTerm
      if !(farLast && termAlone) then ok := false
    for e in l.elems do
      let me := if l.left then sl else sr
      let other := if l.left then sr else sl
      let meCached := if l.left then lc else rc
      let otherCached := if l.left then rc else lc
      if !e.isTerm then
        -- lock step / cached side has a single iteration / loop side waits for the cached side's end
        let viol :=
          if meCached then me.completed != 0
          else if otherCached then me.completed ≥ 1 && !complete other
          else decide (other.completed < me.completed)
        if viol then ok := false
      if e.isData then sent := (l.left, me.completed, e) :: sent
      match inStep me l.r e with
      | some s' => if l.left then sl := s' else sr := s'
      | none => ok := false
  return { valid := ok, complete := complete sl && complete sr, roundsL := sl.completed,
           roundsR := sr.completed, idleL := idle sl, idleR := idle sr, sent := sent.reverse }

/-! ## Oracles (spec side, on the implementation's outputs) -/

def parseImpl (l : List String) : Option (List (Elem Val)) :=
  l.mapM fun s => match words s with | [_, e] => parseElem e | _ => none

/-- split at `FlushAndRestart`: the complete rounds and what follows the last `FlushAndRestart` -/
def splitRounds (es : List (Elem Val)) : List (List (Elem Val)) × List (Elem Val) :=
  let rec go (es : List (Elem Val)) (cur : List (Elem Val)) (acc : List (List (Elem Val))) :=
    match es with
    | [] => (acc.reverse, cur.reverse)
    | .far :: rest => go rest [] (cur.reverse :: acc)
    | e :: rest => go rest (e :: cur) acc
  go es [] []

def isSideData (left : Bool) : Elem Val → Bool
  | .item (.left _) | .ts (.left _) _ => left
  | .item (.right _) | .ts (.right _) _ => !left
  | _ => false

def isEndMarker (left : Bool) : Elem Val → Bool
  | .item .leftEnd => left
  | .item .rightEnd => !left
  | _ => false

def unwrap : Elem Val → Elem Val
  | .item (.left v) | .item (.right v) => .item v
  | .ts (.left v) t | .ts (.right v) t => .ts v t
  | e => e

def sideData (left : Bool) (seg : List (Elem Val)) : List (Elem Val) := (seg.filter (isSideData left)).map unwrap

def sortStrs (l : List String) : List String := (l.toArray.qsort (· < ·)).toList

def sameMultiset (a b : List (Elem Val)) : Bool :=
  sortStrs (a.map elemToStr) == sortStrs (b.map elemToStr)

def sideName (left : Bool) : String := if left then "left" else "right"

/-- C11 for a cached side `cl` (true = left). -/
def c11Failures (cl : Bool) (info : InputInfo) (impl : List (Elem Val)) : List String := Id.run do
  let (rounds, tail) := splitRounds impl
  let mut bad : List String := []
  let loopRounds := if cl then info.roundsR else info.roundsL
  let cachedRounds := if cl then info.roundsL else info.roundsR
  let expected := if cachedRounds == 0 then 0 else loopRounds
  if rounds.length != expected then
    bad := bad ++ [s!"{rounds.length} rounds were closed by FlushAndRestart, {expected} expected"]
  match rounds with
  | [] => pure ()
  | r1 :: rest =>
    let c1 := sideData cl r1
    let sentC := (info.sent.filter (fun (l, _, _) => l == cl)).map (·.2.2)
    if !sameMultiset c1 sentC then
      bad := bad ++ [s!"round 1 presents {c1.length} elements of the cached side, {sentC.length} were sent (or the content differs)"]
    let mut j := 2
    for r in rest do
      if sideData cl r != c1 then
        bad := bad ++ [s!"round {j} presents the cached side differently from round 1 ({(sideData cl r).length} vs {c1.length} elements)"]
      j := j + 1
    j := 1
    for r in rounds do
      let nEnd := (r.filter (isEndMarker cl)).length
      if nEnd != 1 then
        bad := bad ++ [s!"round {j} contains the cached side's End marker {nEnd} times"]
      else if ((r.dropWhile (fun e => !isEndMarker cl e)).any (isSideData cl)) then
        bad := bad ++ [s!"round {j}: cached-side data after its End marker"]
      -- the loop side's content of the round is what was sent for that round
      let sentS := (info.sent.filter (fun (l, it, _) => l != cl && it + 1 == j)).map (·.2.2)
      if !sameMultiset (sideData (!cl) r) sentS then
        bad := bad ++ [s!"round {j}: loop-side content differs from what was sent for that round"]
      j := j + 1
  -- what follows the last FlushAndRestart is an open round only if the loop side has opened one
  let loopIdle := if cl then info.idleR else info.idleL
  let tailC := tail.filter (fun e => isSideData cl e || isEndMarker cl e)
  let want1 := (rounds.headD []).filter (fun e => isSideData cl e || isEndMarker cl e)
  if !rounds.isEmpty && !loopIdle && !(tailC.isPrefixOf want1) then
    bad := bad ++ [s!"the open round presents the cached side differently from round 1"]
  if !rounds.isEmpty && loopIdle && !tailC.isEmpty then
    bad := bad ++ [s!"the cached ({sideName cl}) side is presented after the last FlushAndRestart ({(tail.filter (fun e => isSideData cl e || isEndMarker cl e)).length} elements)"]
  let nTerm := (impl.filter Elem.isTerm).length
  if info.complete && (nTerm != 1 || impl.getLast? != some .term) then
    bad := bad ++ [s!"all inputs terminated but Terminate appears {nTerm} times / is not last"]
  if !info.complete && nTerm != 0 then
    bad := bad ++ ["Terminate emitted although an input has not terminated"]
  return bad

/-- C05 at the output of the binary start. -/
def c05Failures (info : InputInfo) (impl : List (Elem Val)) : List String := Id.run do
  let (rounds, tail) := splitRounds impl
  let mut bad : List String := []
  if info.complete && !grammarOk impl then
    bad := bad ++ ["output violates the stream grammar"]
  if !info.complete && impl.any Elem.isTerm then
    bad := bad ++ ["Terminate before all inputs terminated"]
  let mut j := 1
  for r in rounds do
    for side in [true, false] do
      let n := (r.filter (isEndMarker side)).length
      if n != 1 then bad := bad ++ [s!"iteration {j}: End marker of the {sideName side} side appears {n} times"]
    j := j + 1
  if info.complete && tail.any (fun e => e.isData) then
    bad := bad ++ [s!"{(tail.filter Elem.isData).length} data elements after the last FlushAndRestart"]
  return bad

/-- C09 (merge, no cache): per iteration the output is the multiset union of both inputs. -/
def c09Failures (info : InputInfo) (impl : List (Elem Val)) : List String := Id.run do
  let (rounds, tail) := splitRounds impl
  let mut bad : List String := []
  let mut j := 0
  for r in rounds do
    for side in [true, false] do
      let sent := (info.sent.filter (fun (l, it, _) => l == side && it == j)).map (·.2.2)
      if !sameMultiset (sideData side r) sent then
        bad := bad ++ [s!"iteration {j + 1}: the {sideName side} side's elements in the output differ from what was sent"]
    j := j + 1
  if info.complete && tail.any Elem.isData then bad := bad ++ ["data after the last FlushAndRestart"]
  if rounds.length != min info.roundsL info.roundsR then
    bad := bad ++ [s!"{rounds.length} iterations closed, {min info.roundsL info.roundsR} expected"]
  return bad

def handle (c : Case) : Verdict :=
  match c.header with
  | [_, _, nL, nR, mode] =>
    match nL.toNat?, nR.toNat? with
    | some nL, some nR =>
      let lc := mode == "L"
      let rc := mode == "R"
      let ls := parseLines nL nR c.ops
      -- Which channel a two-sided `select` takes when both are non-empty is unspecified: the model run is
      -- parametrised by an oracle (one bit per such `select`; the theorems hold for every oracle). Take the
      -- default (left first); if the implementation disagrees and such a choice occurred, look for the
      -- resolution the implementation took (at most 6 choices are resolved, 64 runs).
      let m0 := modelRun (fun _ => true) nL nR lc rc ls
      let oracleOf (bits : Nat) : Nat → Bool := fun i => i ≥ 6 || (bits >>> i) % 2 == 0
      let m := if m0.out == c.implOut || m0.ambig == 0 then m0 else
        match (List.range 64).find? (fun bits => (modelRun (oracleOf bits) nL nR lc rc ls).out == c.implOut) with
        | some bits => modelRun (oracleOf bits) nL nR lc rc ls
        | none => m0
      -- the contract is judged on everything that was sent, the expectations (rounds, completeness,
      -- content) on what the receiver has taken out of the channels by the end of the run
      let valid := (checkInput nL nR lc rc ls).valid
      -- the hypothesis of the theorems of Props/C11.lean (`contractL`, left side cached), evaluated on what was sent
      let leanContract := (lc && contractL nL nR (toOps ls).1) || (rc && contractR nL nR (toOps ls).1)
      let info := { checkInput nL nR lc rc m.consumed with valid := valid }
      let special := c.implOut.any (fun s => s.startsWith "panic:" || s.endsWith "blocked")
      let oracle : Option String :=
        if !info.valid || special then none else
        match parseImpl c.implOut with
        | none => some "unparsable implementation output"
        | some impl =>
          let f11 := if lc || rc then c11Failures lc info impl else []
          let f05 := c05Failures info impl
          let f09 := if lc || rc then [] else c09Failures info impl
          -- every history the driver accepts (left side cached) must satisfy the theorems' hypothesis
          let fc := if (lc || rc) && !leanContract then ["[C11] input accepted by the driver's contract check but not by contractL/contractR (Props/C11.lean)"] else []
          let all := fc ++ f11.map (fun s => s!"[C11] {s}") ++ f05.map (fun s => s!"[C05] {s}")
            ++ f09.map (fun s => s!"[C09] {s}")
          if all.isEmpty then none else some (" ;; ".intercalate all)
      let rounds := if lc then info.roundsR else if rc then info.roundsL else min info.roundsL info.roundsR
      let nCacheData := if lc || rc then (info.sent.filter (fun (l, _, _) => l == lc)).length else 0
      let nq := (ls.filter (fun l => !l.pump)).length
      { out := m.out, oracle,
        nontrivial := info.valid && ls.length ≥ 4 && (rounds ≥ 2 || (!(lc || rc) && rounds ≥ 1 && !info.sent.isEmpty)),
        tags := [s!"mode{mode}", s!"nL{min nL 4}", s!"nR{min nR 4}", if info.valid then "valid" else "invalid",
                 if info.complete then "complete" else "incomplete", s!"rounds{min rounds 5}",
                 s!"outcome-{match m.outcome with | .idle => "idle" | .done => "done" | .blocked => "blocked" | .panic => "panic" | .fuel => "fuel"}"]
              ++ (if lc || rc then [s!"cache{min nCacheData 3}"] else [])
              ++ (if nq > 0 then ["queued"] else [])
              ++ (if leanContract then [if lc then "contractL" else "contractR"] else [])
              ++ (if m.consumed.length < ls.length then ["leftover"] else [])
              ++ (if m.ambig > 0 then ["ambiguous"] else [])
              ++ (if m.ambig > 0 && m.out != m0.out then ["ambiguous-other-order"] else [])
              ++ (match oracle with
                  | some _ => ["oraclefail"]
                  | none => []) }
    | _, _ => { out := [], oracle := some "bad header", nontrivial := false }
  | _ => { out := [], oracle := some "bad header", nontrivial := false }

end Noir.Driver.Bstart
