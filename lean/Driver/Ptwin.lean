/-
  Driver/Ptwin.lean — processing-time-window cases (C14).
  header: `<id> ptwin <size_ns> <slide_ns> <t|s>` (`slide = size`: tumbling; `t` = built with
  `ProcessingTimeWindow::tumbling(size)`, `s` = with `sliding(size, slide)` — same manager); ops: `e <now_ns> <elem>`
  (`now` = frozen clock offset of that `process` call, non-decreasing);
  outputs: `<op idx> I:[…]` per emitted result, in emission order.
-/
import Driver.Swin
import NoirVerif.Model.ProcTimeWindow
namespace Noir.Driver.Ptwin
open Noir Noir.Driver Noir.Driver.TimeWin Noir.ProcTimeWindow

/-- Spec side (independent of the manager model), per iteration, on the implementation's results:
    * no result is empty; every result is a subsequence of the iteration's input (arrival order kept,
      nothing from another iteration, nothing of this iteration emitted after its end marker);
    * every element occurs in at least one (for `slide ≤ size`) and at most `ceil(size/slide)` results;
    * tumbling (`slide = size`): the concatenation of the results is the input;
    * the elements of one result arrived within less than `size` of each other.
    Elements are identified by value: the generator uses pairwise distinct values. -/
def checkSeg (size slide : Nat) (impl : List (Nat × List Val)) (s : Seg) : Option String :=
  let res := resultsOf impl s
  let vals := s.data.map (·.2)
  let k := (size + slide - 1) / slide
  let lo := if slide ≤ size && s.complete then 1 else 0
  let where_ := s!"iteration ops {s.lo}..{s.hi}"
  let timeOf (v : Val) : Option Nat := (s.data.find? (·.2 == v)).map (·.1)
  if res.any List.isEmpty then some s!"empty result in {where_}"
  else if res.any (fun r => !isSubseq r vals) then
    some s!"a result is not a subsequence of the input of {where_}: results={showLL res} input={Val.list vals}"
  else
    match vals.find? (fun v => let n := (res.filter (·.contains v)).length; n < lo || n > k) with
    | some v =>
      some s!"element {v} of {where_} occurs in {(res.filter (·.contains v)).length} results, allowed {lo}..{k}: results={showLL res}"
    | none =>
      if slide == size && s.complete && res.flatten != vals then
        some s!"tumbling: not a partition in {where_}: results={showLL res} input={Val.list vals}"
      else if slide == size && !s.complete && res.flatten != vals.take res.flatten.length then
        some s!"tumbling: results of open {where_} are not a prefix of the input: results={showLL res} input={Val.list vals}"
      else if res.any (fun r =>
          let ts := r.filterMap timeOf
          match ts.max?, ts.min? with
          | some mx, some mn => mx - mn ≥ size
          | _, _ => false) then
        some s!"a result of {where_} spans at least the window size: results={showLL res}"
      else none

def handle (c : Case) : Verdict :=
  match c.header with
  | [_, _, sz, sl, _ctor] =>
    match sz.toNat?, sl.toNat? with
    | some size, some slide =>
      if size == 0 || slide == 0 then
        -- the constructors assert `!is_zero()`; the harness prints the panic class
        { out := [if size == 0 then "panic:other:window_size_must_be_>_0" else "panic:other:window_slide_must_be_>_0"],
          oracle := none, nontrivial := false, tags := ["malformed"] }
      else
      let cfg : Cfg := ⟨size, slide⟩
      let es := parseOps c.ops
      let out := (run cfg es).map fmtOut
      let impl := c.implOut.filterMap parseOut
      let segs := segments es
      let allVals := segs.flatMap fun s => s.data.map (·.2)
      let distinct := allVals.length == (allVals.eraseDups).length
      let oracle :=
        if impl.length ≠ c.implOut.length then some "unparsable implementation output"
        else if !clockMonotone es then some "case is outside the quantifier: clock not monotone"
        else if !distinct then some "case not usable by the oracle: duplicate values"
        else firstSome segs (checkSeg size slide impl)
      let diffs := segs.flatMap fun s => let ts := s.data.map (·.1); (ts.zip (ts.drop 1)).map fun p => p.2 - p.1
      let nData := allVals.length
      let multi := impl.any fun p => p.2.length ≥ 2
      let tags :=
        [if slide == size then "tumbling" else if slide < size then (if size % slide == 0 then "sliding|" else "sliding∤") else "slide>size"] ++
        (if diffs.any (· == 0) then ["burst"] else []) ++
        (if diffs.any (fun d => d != 0 && d % slide == 0) then ["d=k*slide"] else []) ++
        (if diffs.any (· == size) then ["d=size"] else []) ++
        (if diffs.any (· > 3 * size) then ["longpause"] else []) ++
        [s!"results{min impl.length 4}", s!"iters{min segs.length 4}"]
      { out, oracle, nontrivial := nData ≥ 2 && impl.length ≥ 2 && multi, tags }
    | _, _ => { out := [], oracle := some "bad header", nontrivial := false }
  | _ => { out := [], oracle := some "bad header", nontrivial := false }

end Noir.Driver.Ptwin
