/-
  Driver/Csv.lean — CSV source range alignment (C15).
  header: `<id> csv <n> <has_headers 0|1>`; ops: `bytes <b,b,…>` (content = concatenation of all op lines);
  outputs: one line per replica `0..n`: `<replica> [[b,…],…]` (records = single-field byte lists).
-/
import Driver.Proto
import Driver.File
import NoirVerif.Model.CsvSplit
namespace Noir.Driver.Csv
open Noir Noir.Driver Noir.CsvSplit

/-- Spec-side records of a quote-free one-field CSV file (independent of the model): drop the first line
    if there is a header, split the rest at `'\n'`, strip one trailing `'\r'`, skip empty lines. -/
def specRecords (bytes : List Nat) (hasHeaders : Bool) : List (List Nat) :=
  let rec split (cur : List Nat) : List Nat → List (List Nat)
    | [] => [cur]
    | c :: cs => if c == 10 then cur :: split [] cs else split (cur ++ [c]) cs
  let ls := split [] bytes
  let ls := if hasHeaders then ls.drop 1 else ls
  (ls.map fun l => if l.getLast? == some 13 then l.dropLast else l).filter (!·.isEmpty)

def handle (c : Case) : Verdict :=
  match c.header with
  | [_, _, n, hh] =>
    match n.toNat? with
    | some n =>
      let hasHeaders := hh == "1"
      let bytes := c.ops.flatMap fun w => match w with | ["bytes", b] => File.parseBytes b | _ => []
      let impl := c.implOut.filterMap File.parseOut
      let implOk := impl.length == c.implOut.length ∧ impl.map (·.1) == List.range n
      let model := (List.range n).map fun r => records (replicaBytes bytes hasHeaders n r)
      let out := (List.range n).zip model |>.map fun (r, ls) => s!"{r} {File.showLines ls}"
      -- property oracle: the records emitted across the replicas, in replica order = the records of the file,
      -- header excluded (each exactly once, whole, in order)
      let spec := specRecords bytes hasHeaders
      let oracle : Option String :=
        if !implOk then some "unparsable implementation output"
        else match impl.mapM (fun p => File.valToLines p.2) with
          | none => some "unparsable implementation output"
          | some per =>
            let got := per.flatten
            if got == spec then none
            else some s!"records emitted across replicas {File.showLines got} ≠ records of the file {File.showLines spec}"
      let sz := bytes.length
      let hdr := headerSize bytes hasHeaders
      let active := (model.filter (!·.isEmpty)).length
      { out, oracle, nontrivial := n ≥ 2 && spec.length ≥ 2,
        tags := [s!"n{n}", if hasHeaders then "header" else "no-header",
                 if sz == 0 then "empty-file" else if sz - hdr < n then "body<n" else "body>=n",
                 if bytes.getLast? == some 10 then "final-nl" else "no-final-nl",
                 if bytes.contains 13 then "crlf" else "lf",
                 if spec.any (fun l => n > 0 ∧ l.length > (sz - hdr) / n) then "rec>range" else "recs<=range",
                 s!"active{min active 3}"] }
    | none => { out := [], oracle := some "bad header", nontrivial := false }
  | _ => { out := [], oracle := some "bad header", nontrivial := false }

end Noir.Driver.Csv
