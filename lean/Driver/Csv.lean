/-
  Driver/Csv.lean — CSV source (C15).
  header: `<id> csv <n> <has_headers 0|1>`;
  ops: `bytes <b,b,…>` | `rep <count> <b,b,…>` (content = concatenation of all op lines);
  outputs: one line per replica `0..n`: `<replica> [<record>,…]`, record = `[[b,…],…]` (fields as byte lists).

  Model: range alignment of `CsvSource::setup` (Model/CsvSplit.lean) + the quote-aware record parser applied
  to each replica's byte range. When an aligned boundary falls inside a record (possible only inside a quoted
  field containing a line terminator) the replica's `csv::Reader` parses a *fragment* of a record; the crate's
  behaviour on fragments is not modelled: the implementation output is echoed (tag `nodiff`).
  The property oracle is always evaluated.
-/
import Driver.Proto
import Driver.File
import NoirVerif.Model.CsvSplit
namespace Noir.Driver.Csv
open Noir Noir.Driver Noir.CsvSplit

def parseContent (ops : List (List String)) : List Nat :=
  ops.flatMap fun w =>
    match w with
    | ["bytes", b] => File.parseBytes b
    | ["rep", k, b] => (List.replicate (k.toNat?.getD 0) (File.parseBytes b)).flatten
    | _ => []

def fmtRecord (r : List (List Nat)) : Val := .list (r.map File.fmtLine)
def showRecords (rs : List (List (List Nat))) : String := (Val.list (rs.map fmtRecord)).toStr

def valToRecords : Val → Option (List (List (List Nat)))
  | .list l => l.mapM File.valToLines
  | _ => none

/-- raw records of the whole file with their byte spans `[a, b)` -/
def spans (bytes : List Nat) : List (Nat × Nat × List Nat) :=
  let rec go (off : Nat) : List (List Nat) → List (Nat × Nat × List Nat)
    | [] => []
    | r :: rs => (off, off + r.length, r) :: go (off + r.length) rs
  go 0 (rawRecords bytes)

def parseRaw (r : List Nat) : Option (List (List Nat)) :=
  let t := stripTerm r
  if t.isEmpty then none else some (parseFields .plain [] t)

def handle (c : Case) : Verdict :=
  match c.header with
  | [_, _, n, hh] =>
    match n.toNat? with
    | some n =>
      let hasHeaders := hh == "1"
      let bytes := parseContent c.ops
      let sz := bytes.length
      let impl := c.implOut.filterMap File.parseOut
      let implOk := impl.length == c.implOut.length ∧ impl.map (·.1) == List.range n
      -- specification: records of the whole file by CSV quoting rules, header record excluded
      let sp := spans bytes
      let spBody := if hasHeaders then sp.drop 1 else sp
      let spec := spBody.filterMap fun (_, _, r) => parseRaw r
      -- where the implementation cuts: end of the header, start of every replica ≥ 1
      let cuts := (if hasHeaders then [headerSize bytes true] else []) ++
        ((List.range n).drop 1).map fun i => (csvRange bytes hasHeaders n i).1
      let boundaries := sz :: sp.map (·.1)
      let badCuts := (cuts.filter fun p => !boundaries.contains p).eraseDups
      -- a bad cut lies right after a line feed inside an open quote
      let insideQuoted (p : Nat) : Bool := p > 0 && (bytes.drop (p - 1)).head? == some 10 && oddQuotes (bytes.take p)
      let model := (List.range n).map fun r => records (replicaBytes bytes hasHeaders n r)
      let nodiff := !badCuts.isEmpty
      let out := if nodiff then c.implOut
        else (List.range n).zip model |>.map fun (r, rs) => s!"{r} {showRecords rs}"
      let oracle : Option String :=
        if !implOk then some "unparsable implementation output"
        else match impl.mapM (fun p => valToRecords p.2) with
          | none => some "unparsable implementation output"
          | some per =>
            let got := per.flatten
            if got == spec then none
            else
              -- F13 exactly: ≥ 2 replicas, every cut that is not a record boundary lies inside a quoted
              -- field right after a line terminator, the header is cut correctly, and all other records
              -- are emitted correctly by the right replica
              let headerBad := hasHeaders && badCuts.contains (headerSize bytes true)
              -- replicas whose range starts at a true record boundary must emit exactly the records that
              -- lie completely inside their range (then possibly one fragment, if their end is a bad cut);
              -- a replica that starts inside a quoted field parses garbage: nothing is required of it
              let perOk := (List.range n).zip per |>.all fun (i, got_i) =>
                let r := csvRange bytes hasHeaders n i
                if badCuts.contains r.1 then true else
                let whole := spBody.filterMap fun (a, b, raw) =>
                  if r.1 ≤ a && b ≤ r.2 then parseRaw raw else none
                if badCuts.contains r.2 then got_i.take whole.length == whole else got_i == whole
              let f13 := n ≥ 2 && !badCuts.isEmpty && badCuts.all insideQuoted && !headerBad && perOk
              -- F13b: the same quote-blind `read_until` at its other call site, `header_size`
              -- (csv.rs:298-305): the header record itself contains a quoted line terminator, so the
              -- "header" that is skipped ends inside the quoted field and everything after it is parsed
              -- from inside a quote (even with one replica). Nothing can be required of the rest.
              let f13b := headerBad && insideQuoted (headerSize bytes true)
              let pre := if f13 then "known:F13-csv-quoted-newline-split "
                else if f13b then "known:F13b-csv-header-quoted-newline " else ""
              let msg := s!"records emitted across replicas ≠ records of the file; cuts inside records at offsets {badCuts}"
              let detail := if sz ≤ 200 then s!": got {showRecords got} expected {showRecords spec}" else ""
              some s!"{pre}{msg}{detail}"
      let hdr := headerSize bytes hasHeaders
      let active := (model.filter (!·.isEmpty)).length
      let quotedNl := (sp.any fun (_, _, r) => (FileSplit.splitLines [] r).length > 1)
      { out, oracle, nontrivial := n ≥ 2 && spec.length ≥ 2,
        tags := [s!"n{n}", if hasHeaders then "header" else "no-header",
                 if sz == 0 then "empty-file" else if sz - hdr < n then "body<n" else "body>=n",
                 if sz > 8192 then "large" else "small",
                 if bytes.contains 34 then "quotes" else "no-quotes",
                 if quotedNl then "quoted-terminator" else "no-quoted-terminator",
                 if spec.any (fun r => r.length > 1) then "multi-field" else "single-field",
                 if bytes.contains 13 then "crlf" else "lf",
                 s!"active{min active 3}"] ++ (if nodiff then ["nodiff"] else []) }
    | none => { out := [], oracle := some "bad header", nontrivial := false }
  | _ => { out := [], oracle := some "bad header", nontrivial := false }

end Noir.Driver.Csv
