/-
  Driver/Krmap.lean — `krmap` cases (C07, keyed `rich_map` state): the real chain
  `ScriptOp -> KeyBy -> RichMap` with a running-fold closure. header: `<id> krmap <fn>`; ops:
  `e <elem>` with payloads `(k,v)`; outputs `<idx> <elem>` with payloads `(k,running_acc)`.
-/
import Driver.Kfold
namespace Noir.Driver.Krmap
open Noir Noir.Driver Noir.Driver.Fold Noir.Driver.Kfold

/-- **C07 oracle for keyed rich_map state** (spec side). State is kept PER KEY: for every key,
    the outputs carrying that key, in order, are exactly what one sequential run of the stateful
    function (a running fold started from `init`) produces over that key's sub-stream of the
    WHOLE stream — the state survives `FlushAndRestart` (documented behaviour of `RichMap`) — with
    the element kind and timestamp kept. Hence keys never influence each other and nothing is
    lost, duplicated or reordered per key. Control elements pass through, every element is mapped
    in place, grammar and watermark safety are preserved. -/
def oracle (init : Val) (f : Val → Val → Val) (es : List (Elem Val)) (impl : List (Nat × Elem Val)) :
    Option String :=
  let outEs := impl.map (·.2)
  -- (key, payload, timestamp?) of the data elements of a trace, in order
  let dataOf (l : List (Elem Val)) : List (Val × Val × Option Int) := l.filterMap fun
    | .item (.tup [k, v]) => some (k, v, none)
    | .ts (.tup [k, v]) t => some (k, v, some t)
    | _ => none
  let inD := dataOf es
  let outD := dataOf outEs
  let keys := (inD.map (·.1)).eraseDups
  -- one sequential run of the running fold over one key's sub-stream
  let seqRun (l : List (Val × Val × Option Int)) : List (Val × Option Int) :=
    (l.foldl (fun (acc : Val × List (Val × Option Int)) x =>
      let nv := f acc.1 x.2.1
      (nv, (nv, x.2.2) :: acc.2)) (init, [])).2.reverse
  let perKey := keys.map fun k =>
    let expected := seqRun (inD.filter (·.1 == k))
    let got := (outD.filter (·.1 == k)).map fun x => (x.2.1, x.2.2)
    check (got == expected)
      s!"key {k}: outputs {got.map fun x => (x.1, x.2)} differ from the sequential run over its sub-stream {expected.map fun x => (x.1, x.2)}"
  let isCtl (e : Elem Val) : Bool := !e.isData
  firstFail (perKey ++ [
    check (outD.length == (outEs.filter Elem.isData).length) "an output is not a (key,value) pair",
    check (outD.all fun x => keys.contains x.1) "output for a key that never occurred",
    check (outEs.filter isCtl == es.filter isCtl) "control elements are not passed through unchanged",
    check (impl.map (·.1) == List.range impl.length) "an element is not mapped in place",
    check (grammarOk outEs) "output violates the stream grammar",
    check (!wmSafeOk es || wmSafeOk outEs) "output violates watermark safety"])

def handle (c : Case) : Verdict :=
  match c.header with
  | [_, _, fn] =>
    match lib fn with
    | some (init, f) =>
      let raw := parseOps c
      let es := normalise raw
      match es.mapM elemUnpair with
      | none => { out := [], oracle := some "payload is not a (key,value) pair", nontrivial := false }
      | some kes =>
        let out := ((Noir.KeyedRichMap.runIdx f init [] 0 kes).map fun p => (p.1, p.2.map repair)).map fmtIdx
        let impl := c.implOut.filterMap parseIdxOut
        let wellFormed := grammarOk raw
        let oracle :=
          if impl.length ≠ c.implOut.length then some s!"unparsable implementation output {c.implOut}"
          else if !wellFormed then none
          else oracle init f es impl
        -- a key recurring in a later iteration: the per-key state spans iterations
        let its := iterations es
        let keysOf (it : Iter) := (it.body.filterMap Elem.value).filterMap fun v => (unpair v).map (·.1.s)
        let recurs := (List.range its.length).any fun i =>
          (keysOf (its.getD i ⟨0, [], 0, .term⟩)).any fun k =>
            (its.take i).any fun it => (keysOf it).contains k
        { out, oracle,
          nontrivial := wellFormed && es.any Elem.isData,
          tags := [s!"fn:{fn}", if wellFormed then "grammar" else "malformed",
                   if recurs then "key-recurs" else "no-recurrence"] }
    | none => { out := [], oracle := some "bad header", nontrivial := false }
  | _ => { out := [], oracle := some "bad header", nontrivial := false }

end Noir.Driver.Krmap
