/-
  Driver/Krmap.lean — `krmap` cases (C07, keyed `rich_map` state): the real chain
  `ScriptOp -> KeyBy -> RichMap` with a running-fold closure. header: `<id> krmap <fn>`; ops:
  `e <elem>` with payloads `(k,v)`; outputs `<idx> <elem>` with payloads `(k,running_acc)`.
-/
import Driver.Kfold
namespace Noir.Driver.Krmap
open Noir Noir.Driver Noir.Driver.Fold Noir.Driver.Kfold

/-- **C07 oracle for keyed rich_map state** (spec side): within every iteration the j-th output
    of key `k` is the sequential fold of the first j values of `k` *of that iteration* (state does
    not leak between iterations), every element is mapped in place.
    A mismatch that is exactly "the fold continued from the state left by the earlier iterations"
    is classified `known:richmap-state-survives-far`. -/
def oracle (init : Val) (f : Val → Val → Val) (es : List (Elem Val)) (impl : List (Nat × Elem Val)) :
    Option String :=
  let outEs := impl.map (·.2)
  -- expected under the property (reset per iteration) and under "never reset"
  let rec go (es : List (Elem Val)) (perIter all : List (Val × Val)) (accP accA : List (Elem Val)) :
      List (Elem Val) × List (Elem Val) :=
    match es with
    | [] => (accP.reverse, accA.reverse)
    | e :: rest =>
      let upd (st : List (Val × Val)) (k v : Val) : List (Val × Val) × Val :=
        let cur := ((st.find? (·.1 == k)).map (·.2)).getD init
        let nv := f cur v
        ((k, nv) :: st.filter (fun p => !(p.1 == k)), nv)
      match e with
      | .item (.tup [k, v]) =>
        let (p', pv) := upd perIter k v
        let (a', av) := upd all k v
        go rest p' a' (.item (.tup [k, pv]) :: accP) (.item (.tup [k, av]) :: accA)
      | .ts (.tup [k, v]) t =>
        let (p', pv) := upd perIter k v
        let (a', av) := upd all k v
        go rest p' a' (.ts (.tup [k, pv]) t :: accP) (.ts (.tup [k, av]) t :: accA)
      | .far => go rest [] all (e :: accP) (e :: accA)
      | e => go rest perIter all (e :: accP) (e :: accA)
  let (expP, expA) := go es [] [] [] []
  if outEs == expP then
    firstFail [check (impl.map (·.1) == List.range impl.length) "an output is not produced in place"]
  else if outEs == expA then
    some "known:richmap-state-survives-far per-key state of an earlier iteration leaks into the next one"
  else some s!"outputs {outEs.map elemToStr} expected {expP.map elemToStr}"

def handle (c : Case) : Verdict :=
  match c.header with
  | [_, _, fn] =>
    match lib fn with
    | some (init, f) =>
      let raw := parseOps c
      let es := normalise raw
      match es.mapM elemUnpair with
      | none => { out := [], oracle := some "payload is not a (key,value) pair", nontrivial := false }
      | some kes =>
        let out := ((Noir.KeyedRichMap.runIdx f init [] 0 kes).map fun p => (p.1, p.2.map repair)).map fmtIdx
        let impl := c.implOut.filterMap parseIdxOut
        let wellFormed := grammarOk raw
        let oracle :=
          if impl.length ≠ c.implOut.length then some s!"unparsable implementation output {c.implOut}"
          else if !wellFormed then none
          else oracle init f es impl
        -- a key recurring in a later iteration is what makes the reset observable
        let its := iterations es
        let keysOf (it : Iter) := (it.body.filterMap Elem.value).filterMap fun v => (unpair v).map (·.1.s)
        let recurs := (List.range its.length).any fun i =>
          (keysOf (its.getD i ⟨0, [], 0, .term⟩)).any fun k =>
            (its.take i).any fun it => (keysOf it).contains k
        { out, oracle,
          nontrivial := wellFormed && es.any Elem.isData,
          tags := [s!"fn:{fn}", if wellFormed then "grammar" else "malformed",
                   if recurs then "key-recurs" else "no-recurrence"] }
    | none => { out := [], oracle := some "bad header", nontrivial := false }
  | _ => { out := [], oracle := some "bad header", nontrivial := false }

end Noir.Driver.Krmap
