/-
  Driver/Mux.lean — real multiplexer / demultiplexer over one TCP connection (C02, component `mux`).
  header: `<id> mux <block> <host> <prev_block> <endpoint replica ids csv> <senders h.r csv>`
  ops:    `s <sender idx> <endpoint idx> <elem>*`, `r <endpoint idx>`
  outputs: `rx <k> <sender> <elem>*` | `rx <k> none`, then `fin <k> <sender> <elem>*`, `closed`.

  The model replays the script as `Link` moves: `s` = `.send` followed by `.muxSend` (the mux
  thread writes the frame as soon as it can), `r` = as many `.demux` moves as are enabled (the demux
  thread runs ahead until a channel is full), then `.recv`. At the end everything is drained.
-/
import Driver.Proto
import NoirVerif.Model.Link
namespace Noir.Driver.Mux
open Noir Noir.Driver Noir.Link

structure Cfg where
  eps : Array Endpoint
  senders : Array Coord

def parseCfg (block host prev epsS sndS : String) : Option Cfg := do
  let b ← block.toNat?
  let h ← host.toNat?
  let pv ← prev.toNat?
  let eps ← ((epsS.splitOn ",").filter (· ≠ "")).mapM fun r => do
    pure (⟨b, h, ← r.toNat?, pv⟩ : Endpoint)
  let snd ← ((sndS.splitOn ",").filter (· ≠ "")).mapM fun s =>
    match s.splitOn "." with
    | [sh, sr] => do pure (⟨pv, ← sh.toNat?, ← sr.toNat?⟩ : Coord)
    | _ => none
  pure ⟨eps.toArray, snd.toArray⟩

def fmtCoord (p : Coord) : String := s!"{p.block}.{p.host}.{p.replica}"

def fmtMsg (tag : String) (k : Nat) (m : Msg (Elem Val)) : String :=
  " ".intercalate ([tag, toString k, fmtCoord m.src] ++ m.body.map elemToStr)

/-- let the demux thread of connection `conn` run ahead: at most `fuel` frames -/
def demuxAll (conn : Conn) : Nat → State (Elem Val) → State (Elem Val)
  | 0, s => s
  | fuel + 1, s =>
    let s' := step (fun _ => Batcher.Mode.single) s (.demux conn)
    if (s'.wire conn).length == (s.wire conn).length then s else demuxAll conn fuel s'

def handle (c : Case) : Verdict :=
  match c.header with
  | [_, _, block, host, prev, epsS, sndS] =>
    match parseCfg block host prev epsS sndS with
    | none => { out := [], oracle := some "bad header", nontrivial := false }
    | some cfg =>
      let mode : Coord → Batcher.Mode := fun _ => .single
      -- all the endpoints share one DemuxCoord, all the senders one connection per host; the
      -- harness uses one connection: the model takes the connection of each (sender, endpoint)
      let run1 := fun (acc : State (Elem Val) × List String × Nat) (w : List String) =>
        let (s, out, nsent) := acc
        match w with
        | "s" :: i :: k :: elems =>
          match i.toNat?.bind (cfg.senders[·]?), k.toNat?.bind (cfg.eps[·]?), elems.mapM parseElem with
          | some p, some ep, some body =>
            let s := step mode s (.send p ep body)
            let s := step mode s (.muxSend (connOf p ep))
            (s, out, nsent + 1)
          | _, _, _ => acc
        | ["r", k] =>
          match k.toNat?.bind (fun k => (cfg.eps[k]?).map (k, ·)) with
          | some (k, ep) =>
            -- the demux threads (one per sender host) run ahead
            let s := cfg.senders.foldl (fun s p => demuxAll (connOf p ep) (nsent + 1) s) s
            let before := (s.delivered ep).length
            let s := step mode s (.recv ep)
            match (s.delivered ep)[before]? with
            | some m => (s, out ++ [fmtMsg "rx" k m], nsent)
            | none => (s, out ++ [s!"rx {k} none"], nsent)
          | none => acc
        | _ => acc
      let (s, out, nsent) := c.ops.foldl run1 (State.init, [], 0)
      -- the end: every endpoint is drained until nothing is in flight
      let counts := cfg.eps.toList.map fun ep => (s.delivered ep).length
      let drain := fun (s : State (Elem Val)) =>
        let s := cfg.senders.foldl (fun s p => cfg.eps.foldl (fun s ep => demuxAll (connOf p ep) (nsent + 1) s) s) s
        cfg.eps.foldl (fun s ep => (List.range (Noir.Consts.CHANNEL_CAPACITY + 1)).foldl (fun s _ => step mode s (.recv ep)) s) s
      let sF := (List.range (nsent + 2)).foldl (fun s _ => drain s) s
      let fin := ((cfg.eps.toList.zip counts).zip (List.range cfg.eps.size)).flatMap fun ((ep, n), k) =>
        ((sF.delivered ep).drop n).map (fmtMsg "fin" k)
      let out := out ++ fin ++ ["closed"]
      -- spec-side oracle, from the op lines and the implementation's lines only
      let sentTo := fun (k : Nat) => c.ops.filterMap fun w => match w with
        | "s" :: i :: k' :: elems =>
          if k'.toNat? == some k then (i.toNat?.bind (cfg.senders[·]?)).map fun p => (fmtCoord p, elems) else none
        | _ => none
      let recvAt := fun (k : Nat) => c.implOut.filterMap fun l => match words l with
        | tag :: k' :: snd :: elems =>
          if (tag == "rx" || tag == "fin") && k'.toNat? == some k && snd != "none" then some (snd, elems) else none
        | _ => none
      let ks := List.range cfg.eps.size
      let senders := cfg.senders.toList.map fmtCoord
      let pairErr := ks.findSome? fun k =>
        let r := recvAt k
        let sd := sentTo k
        if r.length != sd.length then
          some s!"endpoint {k}: {r.length} batches received, {sd.length} were sent to it (lost, duplicated or misrouted)"
        else senders.eraseDups.findSome? fun p =>
          if (r.filter (·.1 == p)).map (·.2) != (sd.filter (·.1 == p)).map (·.2) then
            some s!"endpoint {k}: the batches received from {p} are not the batches it sent, in order"
          else none
      -- causality: at every `r`, not more received than sent so far
      let early := Id.run do
        let mut sentSoFar : Array Nat := Array.replicate cfg.eps.size 0
        let mut gotSoFar : Array Nat := Array.replicate cfg.eps.size 0
        let mut rxLines := c.implOut.filter (·.startsWith "rx ")
        let mut bad := false
        for w in c.ops do
          match w with
          | "s" :: i :: k :: _ =>
            match i.toNat?.bind (cfg.senders[·]?), k.toNat? with
            | some _, some k => if k < cfg.eps.size then sentSoFar := sentSoFar.modify k (· + 1)
            | _, _ => pure ()
          | ["r", k] =>
            match k.toNat? with
            | some k =>
              if k < cfg.eps.size then
                match rxLines with
                | l :: rest =>
                  rxLines := rest
                  if !(l.endsWith " none") then
                    gotSoFar := gotSoFar.modify k (· + 1)
                    if gotSoFar[k]! > sentSoFar[k]! then bad := true
                | [] => bad := true
            | none => pure ()
          | _ => pure ()
        return bad
      let oracle :=
        if c.implOut.any (·.startsWith "panic") then some s!"run failed: {c.implOut.filter (·.startsWith "panic")}"
        else if c.implOut.any (·.startsWith "extra") then some "a batch arrived that was never sent (duplicate)"
        else if c.implOut.getLast? != some "closed" then some "the connection did not close cleanly"
        else match pairErr with
          | some e => some e
          | none => if early then some "a receive returned more than had been sent / receive lines missing" else none
      let nSends := (c.ops.filter (·.head? == some "s")).length
      let nNone := (out.filter (·.endsWith " none")).length
      let maxOut := Id.run do
        let mut cur := 0
        let mut mx := 0
        for l in c.ops do
          if l.head? == some "s" then cur := cur + 1 else if l.head? == some "r" && cur > 0 then cur := cur - 1
          mx := max mx cur
        return mx
      let large := c.ops.any fun w => w.any (·.length > 65536)
      let empty := c.ops.any fun w => w.length == 3 && w.head? == some "s"
      let silent := ks.any fun k => (sentTo k).isEmpty
      { out, oracle, nontrivial := nSends ≥ 2,
        tags := [s!"eps{cfg.eps.size}", s!"senders{cfg.senders.size}", s!"sends{min (nSends / 10) 4}0+",
                 s!"none{min nNone 2}", s!"backpressure{if maxOut > Noir.Consts.CHANNEL_CAPACITY then 1 else 0}",
                 s!"large{if large then 1 else 0}", s!"emptyBatch{if empty then 1 else 0}",
                 s!"silentEndpoint{if silent then 1 else 0}"] }
  | _ => { out := [], oracle := some "bad header", nontrivial := false }

end Noir.Driver.Mux
