import Driver.Latency
open Noir.Driver
def main : IO Unit := do
  readCases (← IO.getStdin) fun c => emitVerdict (c.header.headD "?") (Latency.handle c)
