/-
  Driver/Reorder.lean — `reorder` cases (C16, second half): the real `Reorder` operator on a
  scripted upstream. header: `<id> reorder`; ops: `e <elem>`; outputs `<idx> <elem>` (`idx` = index
  of the upstream element whose pull produced the output).
-/
import Driver.Fold
import NoirVerif.Model.Reorder
namespace Noir.Driver.Reorder
open Noir Noir.Driver Noir.Driver.Fold

def nonDecreasing : List Int → Bool
  | a :: b :: rest => decide (a ≤ b) && nonDecreasing (b :: rest)
  | _ => true

/-- **C16 (reorder) oracle**, spec side. Per iteration: the outputs are a permutation of the
    inputs (all element kinds); a timestamped element is released only by a watermark that covers
    it or by the end of the iteration, and not before it arrived; given a watermark-safe input the
    carried timestamps (data and watermarks) are non-decreasing and the output is watermark-safe;
    the output respects the grammar. -/
def oracle (es : List (Elem Val)) (impl : List (Nat × Elem Val)) : Option String :=
  let its := iterations es
  let safe := wmSafeOk es
  let arr := es.toArray
  let perIter := its.map fun it =>
    let outs := outsOf it impl
    let outEs := outs.map (·.2)
    let inEs := it.body ++ [it.marker]
    firstFail [
      check (sortStrs (outEs.map elemToStr) == sortStrs (inEs.map elemToStr))
        s!"iteration ending at {it.stop}: outputs are not a permutation of the inputs",
      check (outs.all fun p => match p.2 with
          | .ts v t =>
            (match arr[p.1]? with
             | some (.wm w) => decide (t ≤ w)
             | some .far => true
             | _ => false) &&
            (((es.drop it.start).take (p.1 + 1 - it.start)).any (· == Elem.ts v t))
          | _ => true)
        s!"iteration ending at {it.stop}: an element was released without a covering watermark / iteration end",
      check (!safe || nonDecreasing (outEs.filterMap Elem.timestamp))
        s!"iteration ending at {it.stop}: timestamps decrease {outEs.map elemToStr}"]
  let outEs := impl.map (·.2)
  firstFail (perIter ++ [
    check (impl.all fun p => its.any fun it => it.start ≤ p.1 && p.1 ≤ it.stop) "output attributed to no iteration",
    check (grammarOk outEs) "output violates the stream grammar",
    check (!safe || wmSafeOk outEs) "output violates watermark safety"])

def handle (c : Case) : Verdict :=
  match c.header with
  | [_, _] =>
    let raw := parseOps c
    let es := normalise raw
    let out := (Noir.Reorder.runIdx [] 0 es).map fmtIdx
    let impl := c.implOut.filterMap parseIdxOut
    let wellFormed := grammarOk raw
    let oracle :=
      if impl.length ≠ c.implOut.length then some s!"unparsable implementation output {c.implOut}"
      else if !wellFormed then none
      else oracle es impl
    let tss := es.filterMap fun | .ts _ t => some t | _ => none
    let outOfOrder := !nonDecreasing tss
    { out, oracle,
      nontrivial := wellFormed && outOfOrder,
      tags := [if wellFormed then "grammar" else "malformed",
               if outOfOrder then "ooo" else "inorder",
               if tss.eraseDups.length < tss.length then "dupts" else "nodup",
               if es.any (fun e => match e with | .wm w => tss.contains w | _ => false) then "wm=ts" else "wm!=ts"]
              ++ kindTag es }
  | _ => { out := [], oracle := some "bad header", nontrivial := false }

end Noir.Driver.Reorder
