/-
  Driver/Etwinjob.lean — engine-level event-time window jobs (C13):
  `stream_par_iter → add_timestamps → group_by → window(EventTimeWindow) → fold → collect_vec`
  on `local(n)`, several source replicas in front of the window's `Start` (watermark = minimum
  over the upstream replicas).
  header: `<id> etwinjob <n> <size> <slide>`; ops: `s <replica> <key> <id> <ts> <wm|->`;
  outputs: `(key,[(key,id,ts,wm),…])`, sorted.

  The interleaving of the source replicas at the window operator is decided by the scheduler and
  the window anchors depend on it, so there is no deterministic model output: `out` echoes the
  implementation's lines (the correspondence of the operator itself is checked by `etwin`), and
  the property oracle is evaluated on them. Every replica's script is watermark-safe on its own;
  since the frontier forwarded by `Start` is the minimum over the replicas' watermarks (C06/C17),
  no element is late at the window, so EVERY input element is subject to the exactly-one /
  cover clause.
-/
import Driver.Etwin
namespace Noir.Driver.Etwinjob
open Noir Noir.Driver

structure In where
  replica : Nat
  key : Int
  id : Int
  ts : Int
  wm : Option Int

def parseOp : List String → Option In
  | ["s", r, k, i, t, w] => do
    let r ← r.toNat?
    let k ← k.toInt?
    let i ← i.toInt?
    let t ← t.toInt?
    let w ← if w == "-" then pure none else (w.toInt?).map some
    pure ⟨r, k, i, t, w⟩
  | _ => none

/-- a result line `(key,[(key,id,ts,wm),…])` → key and the (id, key, ts) of its items -/
def parseRes (s : String) : Option (Int × List (Int × Int × Int)) :=
  match Val.parse s with
  | some (.tup [.int k, .list items]) => do
    let its ← items.mapM fun v => match v with
      | .tup [.int k', .int i, .int t, _] => some (i, k', t)
      | _ => none
    pure (k, its)
  | _ => none

/-- per-replica watermark safety of the scripts (the generator's contract) -/
def replicaSafe (ins : List In) (r : Nat) : Bool :=
  let rec go (l : List In) (lw : Option Int) : Bool :=
    match l with
    | [] => true
    | x :: rest =>
      (match lw with | some w => decide (w < x.ts) | none => true) &&
      (match x.wm, lw with | some w, some w0 => decide (w0 < w) | _, _ => true) &&
      go rest (match x.wm with | some w => some w | none => lw)
  go (ins.filter (·.replica == r)) none

def handle (c : Case) : Verdict :=
  match c.header with
  | [_, _, n, size, slide] =>
    match n.toNat?, size.toInt?, slide.toInt? with
    | some n, some size, some slide =>
      let ins := c.ops.filterMap parseOp
      let out := c.implOut
      let tags := [s!"n{n}", Etwin.slideClass ⟨size, slide⟩]
      match c.implOut with
      | [l] =>
        if l.startsWith "panic:" || l == "hang" then
          { out, oracle := some s!"engine job ended with `{l}`", nontrivial := false, tags := tags ++ ["abnormal"] }
        else body n size slide ins out tags
      | _ => body n size slide ins out tags
    | _, _, _ => { out := [], oracle := some "bad header", nontrivial := false }
  | _ => { out := [], oracle := some "bad header", nontrivial := false }
where
  body (n : Nat) (size slide : Int) (ins : List In) (out : List String) (tags : List String) : Verdict :=
    match out.mapM parseRes with
    | none => { out, oracle := some "unparsable result line", nontrivial := false, tags }
    | some rs =>
      let safe := (List.range n).all (replicaSafe ins)
      -- (a) one key, one interval, only input elements, no element twice in a result
      let a : List String := rs.flatMap fun (k, its) =>
        (if its.isEmpty then [s!"empty result of key {k}"] else []) ++
        (its.flatMap fun (i, k', t) =>
          (match ins.find? (fun x => x.id == i) with
           | none => [s!"result of key {k} contains an element {i} that is not in the input"]
           | some x => if x.key == k ∧ k' == k ∧ x.ts == t then [] else
               [s!"one-key: result of key {k} contains element {i} of key {x.key}"])) ++
        (let tsl := its.map (·.2.2)
         let lo := tsl.foldl min (tsl.headD 0)
         let hi := tsl.foldl max (tsl.headD 0)
         if hi - lo < size then [] else [s!"one-interval: a result of key {k} spans timestamps {lo}..{hi}, window size {size}"]) ++
        (if its.any (fun p => (its.filter (·.1 == p.1)).length > 1) then [s!"no-dup: a result of key {k} contains an element twice"] else [])
      -- (b) exactly one (tumbling) / between 1 and ceil(size/slide) (sliding) results per element
      let maxN : Int := if slide ≤ size then Etwin.ceilDiv size slide else 1
      let minN : Int := if slide ≤ size then 1 else 0
      let b : List String := if !safe then [] else ins.flatMap fun x =>
        let cnt : Int := ((rs.map fun (_, its) => (its.filter (·.1 == x.id)).length).foldl (· + ·) 0 : Nat)
        if cnt < minN then [s!"element {x.id} (key {x.key}, ts {x.ts}, replica {x.replica}) is in no result"]
        else if cnt > maxN then [s!"element {x.id} (key {x.key}, ts {x.ts}) is in {cnt} results, more than {maxN}"]
        else []
      let fs := a ++ b
      let srcs := ((List.range n).filter fun r => ins.any (·.replica == r)).length
      { out,
        oracle := match fs with | [] => none | f :: _ => some s!"{f} ({fs.length} failures)",
        nontrivial := rs.length ≥ 1 && ins.length ≥ 2,
        tags := tags ++ [s!"srcs{srcs}", s!"res{min rs.length 3}"] ++
          (if ins.any (·.wm.isSome) then ["wm"] else []) ++ (if safe then [] else ["script-not-wmsafe"]) }

end Noir.Driver.Etwinjob
