/-
  Driver/Bigmsg.lean — C02, large messages (component `bigmsg`): header `<id> bigmsg <hosts> <k> <size> <batch>`,
  op `run`; the implementation prints `got (i,len,cksum) …` for what the sink collected. The expected line is
  computed here from the header alone: elements 0..k-1, each `size` bytes with byte j = (i + j) mod 251 and the
  Adler-style checksum of the harness. Oracle: every element exactly once with unchanged length and content.
-/
import Driver.Proto
namespace Noir.Driver.Bigmsg
open Noir Noir.Driver

/-- checksum of the bytes `(i + j) mod 251`, `j < size` (same recurrence as the harness) -/
def cksum (i size : Nat) : Nat := Id.run do
  let mut a := 1
  let mut b := 0
  for j in [0:size] do
    a := (a + (i + j) % 251) % 65521
    b := (b + a) % 65521
  return b * 65536 + a

/-- `m` = number of consumer replicas (the stream is broadcast): every element arrives once per replica -/
def expected (k size m : Nat) : String :=
  "got " ++ " ".intercalate ((List.range k).flatMap fun i => List.replicate m s!"({i},{size},{cksum i size})")

def handle (c : Case) : Verdict :=
  match c.header with
  | [_, _, hosts, k, size, batch] =>
    match k.toNat?, size.toNat?, batch.toNat? with
    | some k, some size, some batch =>
      if c.ops.isEmpty then { out := [], oracle := none, nontrivial := false } else
      let m := match hosts.toNat? with | some h => if h ≤ 1 then 2 else h | none => 1
      let exp := expected k size m
      let oracle := if c.implOut == [exp] then none
        else some s!"[C02] a batch of {batch * size} bytes ({hosts} hosts): the sink did not receive every element exactly once per replica and unchanged: {(c.implOut.headD "").take 160}"
      { out := [exp], oracle, nontrivial := hosts != "1",
        tags := [s!"hosts{hosts}", if batch * size ≥ 16777216 then "msg>=16MiB" else "msg<16MiB",
                 if batch * size ≥ 67108864 then "msg>=64MiB" else "msg<64MiB"] }
    | _, _, _ => { out := [], oracle := some "bad header", nontrivial := false }
  | _ => { out := [], oracle := some "bad header", nontrivial := false }

end Noir.Driver.Bigmsg
