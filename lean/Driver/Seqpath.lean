/-
  Driver/Seqpath.lean — single-replica pipelines (C16, first half): header `<id> seqpath <n> <batchmode>`;
  ops `st m <k>` (map x*3+k) | `st f <k>` (filter x % k ≠ 0) | `st d 0` (flat_map [x, x+1000000]) |
  `st s 0` (shuffle = block boundary); output: the collected vector IN ORDER.
-/
import Driver.Proto
namespace Noir.Driver.Seqpath
open Noir Noir.Driver

def applyStage (xs : List Int) : List String → List Int
  | ["st", "m", k] => match k.toInt? with | some k => xs.map (fun x => x * 3 + k) | none => xs
  | ["st", "f", k] => match k.toInt? with | some k => if k == 0 then xs else xs.filter (fun x => x % k != 0) | none => xs
  | ["st", "d", _] => xs.flatMap (fun x => [x, x + 1000000])
  | _ => xs

def handle (c : Case) : Verdict :=
  match c.header with
  | [_, _, n, bm] =>
    match n.toNat? with
    | some n =>
      let stages := c.ops.filter (fun w => w.length == 3 && w.head? == some "st")
      let res := stages.foldl applyStage ((List.range n).map Int.ofNat)
      let exp := "[" ++ ",".intercalate (res.map toString) ++ "]"
      let oracle := if c.implOut == [exp] then none
        else some s!"[C16] single-replica pipeline ({bm}) does not behave like the iterator chain: got {c.implOut.map (·.take 200)} expected {exp.take 200}"
      let boundaries := (stages.filter (fun w => w[1]? == some "s")).length
      { out := [exp], oracle, nontrivial := n ≥ 2 && boundaries ≥ 1,
        tags := [bm, s!"boundaries{min boundaries 3}", if n ≥ 40 then "multi-batch" else "small"]
          ++ (if stages.any (fun w => w[1]? == some "p") then ["slow-producer"] else []) }
    | none => { out := [], oracle := some "bad header", nontrivial := false }
  | _ => { out := [], oracle := some "bad header", nontrivial := false }

end Noir.Driver.Seqpath
