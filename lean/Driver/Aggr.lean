/-
  Driver/Aggr.lean — `aggr` cases (C07, whole engine): every aggregation form through the public
  API on the real engine. header: `<id> aggr <form> <cfg> <bm> <ts> <loop>`; ops `v <k> <x> <t>`;
  outputs (sorted) `r <round> <k> <v> <ts|N>`, for iterate also `f <k> <v> <t>`, for krich
  `r 0 <k> 1 <count> N` / `r 0 <k> 2 <x> <ts|N>` (see harness/src/bin/aggr.rs).
  Model side = the sequential reference (`Model/Aggr.lean`); the oracle checks the property result
  by result: one result per occurring key and round, none otherwise, value = sequential fold of
  the key's values, stamp = the key's maximum timestamp.
-/
import Driver.Proto
import NoirVerif.Model.Aggr
namespace Noir.Driver.Aggr
open Noir Noir.Driver Noir.Aggr

def ltVec : List Int → List Int → Bool
  | [], [] => false
  | [], _ => true
  | _, [] => false
  | a :: as, b :: bs => if a < b then true else if b < a then false else ltVec as bs

def showI (x : Int) : String := if x == NOTS then "N" else toString x

def fmtLine (v : List Int) : String :=
  match v with
  | 0 :: rest => "r " ++ " ".intercalate (rest.map showI)
  | _ :: _ :: rest => "f " ++ " ".intercalate (rest.map showI)
  | _ => "?"

def parseI (s : String) : Option Int := if s == "N" then some NOTS else s.toInt?

/-- back to `[tag, round, …]` -/
def parseLine (s : String) : Option (List Int) :=
  match words s with
  | "r" :: rest => (rest.mapM parseI).map (0 :: ·)
  | "f" :: rest => (rest.mapM parseI).map (fun l => 1 :: 0 :: l)
  | _ => none

def check (ok : Bool) (msg : String) : Option String := if ok then none else some msg
def firstFail (l : List (Option String)) : Option String := l.findSome? id

/-- the property for one application of the aggregation: `res` = `(key, value, stamp)` results
    observed for input `inp` -/
def checkRound (form : String) (ts : Bool) (what : String) (inp : List Elem3)
    (res : List (Int × Int × Int)) (noStamp : Int) : Option String :=
  let keysIn := if isGlobal form then (if inp.isEmpty then [] else [0]) else dedup (inp.map (·.1))
  let keysOut := res.map (·.1)
  let groupOf (k : Int) := if isGlobal form then inp else inp.filter (·.1 == k)
  firstFail ([
    check (dedup keysOut == keysOut || (dedup keysOut).length == keysOut.length)
      s!"{what}: more than one result for a key {keysOut}",
    check (keysOut.all keysIn.contains) s!"{what}: result for a key that does not occur {keysOut} vs {keysIn}",
    check (keysIn.all keysOut.contains) s!"{what}: no result for an occurring key {keysIn} vs {keysOut}"] ++
    res.map fun (k, v, t) =>
      let g := groupOf k
      let expV := foldValues form (g.map (·.2.1))
      let expT := if ts then (maxTs (g.map (·.2.2))).getD noStamp else noStamp
      firstFail [
        check (expV == some v) s!"{what}: key {k}: value {v} is not the sequential fold {expV} of its values",
        check (expT == t) s!"{what}: key {k}: timestamp {showI t} is not the maximum input timestamp {showI expT}"])

def triples (ls : List (List Int)) : Option (List (Int × Int × Int)) :=
  ls.mapM fun | [k, v, t] => some (k, v, t) | _ => none

def oracle (form : String) (ts : Bool) (lp : String) (rounds : Nat) (inp : List Elem3)
    (impl : List (List Int)) : Option String :=
  let rl := impl.filterMap fun | 0 :: rest => some rest | _ => none
  let fl := impl.filterMap fun | 1 :: _ :: rest => some rest | _ => none
  if form == "krich" then
    -- state is per key: the running counts of a key are exactly 1..n_k, every element is mapped once
    let keys := dedup (inp.map (·.1))
    firstFail ((keys.map fun k =>
      let g := inp.filter (·.1 == k)
      let cs := rl.filterMap fun | [_, k', 1, c, _] => if k' == k then some c else none | _ => none
      let xs := rl.filterMap fun | [_, k', 2, x, t] => if k' == k then some [x, t] else none | _ => none
      let expX := g.map fun e => [e.2.1, if ts then e.2.2 else NOTS]
      firstFail [
        check ((cs.toArray.qsort (· < ·)).toList == (List.range g.length).map (fun (c : Nat) => Int.ofNat c + 1))
          s!"key {k}: running counts {cs} are not 1..{g.length}",
        check ((xs.toArray.qsort ltVec).toList == (expX.toArray.qsort ltVec).toList)
          s!"key {k}: mapped elements {xs} differ from the inputs {expX}"]) ++
      [check (rl.all fun | [_, k, _, _, _] => keys.contains k | _ => false) "output for a key that does not occur"])
  else
    let roundRes (r : Nat) : Option (List (Int × Int × Int)) :=
      triples (rl.filterMap fun | r' :: rest => if r' == Int.ofNat r then some rest else none | _ => none)
    let nRounds := if lp == "none" then 1 else rounds
    let noStamp : Int := if lp == "iterate" then 0 else NOTS
    let rec go (fuel r : Nat) (cur : List Elem3) : Option String × List Elem3 :=
      match fuel with
      | 0 => (none, cur)
      | fuel + 1 =>
        let inpR := if lp == "replay" then inp.map fun e => (e.1, e.2.1 + Int.ofNat r, e.2.2) else cur
        match roundRes r with
        | none => (some s!"round {r}: malformed result line", cur)
        | some res =>
          match checkRound form ts s!"round {r}" inpR res noStamp with
          | some m => (some m, cur)
          | none => go fuel (r + 1) (if lp == "iterate" then res else cur)
    let (err, last) := go nRounds 0 inp
    firstFail [err,
      check (rl.all fun | r :: _ => decide (0 ≤ r) && decide (r < Int.ofNat nRounds) | _ => false)
        "result for a round that does not exist",
      check (lp != "iterate" || (match triples fl with
          | some f => (f.toArray.qsort (fun a b => ltVec [a.1, a.2.1, a.2.2] [b.1, b.2.1, b.2.2])).toList ==
                      (last.toArray.qsort (fun a b => ltVec [a.1, a.2.1, a.2.2] [b.1, b.2.1, b.2.2])).toList
          | none => false))
        s!"the stream leaving the loop {fl} is not the last round's result {last.map fun e => [e.1, e.2.1, e.2.2]}"]

def handle (c : Case) : Verdict :=
  match c.header with
  | [_, _, form, cfg, bm, tsS, lpS] =>
    let ts := tsS == "1"
    let (lp, rounds) :=
      if lpS.startsWith "replay" then ("replay", (lpS.drop 6).toString.toNat?.getD 0)
      else if lpS.startsWith "iterate" then ("iterate", (lpS.drop 7).toString.toNat?.getD 0)
      else ("none", 0)
    let inp : List Elem3 := c.ops.filterMap fun w => match w with
      | ["v", k, x, t] => do pure ((← k.toInt?), (← x.toInt?), (← t.toInt?))
      | _ => none
    let ref := ((reference form ts lp rounds inp).toArray.qsort ltVec).toList
    let out := ref.map fmtLine
    let impl := c.implOut.filterMap parseLine
    let oracle :=
      if impl.length ≠ c.implOut.length then some s!"engine failure / unparsable output {c.implOut.take 3}"
      else oracle form ts lp rounds inp impl
    let nkeys := (dedup (inp.map (·.1))).length
    let par := if cfg.startsWith "R" then "remote" else cfg
    { out, oracle,
      nontrivial := inp.length ≥ 2,
      tags := [s!"form:{form}", s!"cfg:{par}", s!"bm:{bm}", if ts then "ts" else "plain", s!"loop:{lp}",
               s!"n:{if inp.isEmpty then "0" else if inp.length < 4 then "1-3" else if inp.length < 13 then "4-12" else "13+"}",
               s!"keys:{if nkeys ≤ 1 then toString nkeys else if nkeys ≤ 4 then "2-4" else "5+"}"] }
  | _ => { out := [], oracle := some "bad header", nontrivial := false }

end Noir.Driver.Aggr
