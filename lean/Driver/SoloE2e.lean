import Driver.E2e
open Noir.Driver
def main : IO Unit := do
  readCases (← IO.getStdin) fun c => emitVerdict (c.header.headD "?") (E2e.handle c)
