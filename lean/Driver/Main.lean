/-
  Driver/Main.lean — `noir_model`: reads cases on stdin, runs the executable model and the
  property oracle of the component named in each case header, prints verdicts on stdout.
-/
import Driver.Proto
import Driver.Cwin
open Noir.Driver

def dispatch (c : Case) : Verdict :=
  match c.header with
  | _ :: "cwin" :: _ => Cwin.handle c
  | _ => { out := [], oracle := some "unknown component", nontrivial := false }

def main : IO Unit := do
  let stdin ← IO.getStdin
  readCases stdin fun c => emitVerdict (c.header.headD "?") (dispatch c)
