/-
  Driver/Latency.lean — whole-engine latency runs (C18).
  header: `<id> latency <d> <p> <delta_ms> <kind>`; ops: `send <v> <pause_ms>` | `trickle <first> <count> <step> <gap_ms>`
  outputs: `a <v> ok` per send, `t <first> ok` per trickle, `result <mode> [sorted outputs]` for
  adaptive / single / fixed1 / fixed1000.

  The model side runs the logical-time pipeline model (`Model/Latency.lean`) with the harness' chains
  (`x ↦ 2x+1` per boundary): the emitted elements with interleaved receives, then the quiescing
  schedule (Adaptive) resp. the end-of-iteration flush (other modes), and prints the sink.
-/
import Driver.Proto
import NoirVerif.Model.Latency
namespace Noir.Driver.Latency
open Noir Noir.Driver Noir.Latency

def fmap (x : Int) : List Int := [2 * x + 1]

def cfgOf (d : Nat) (m : Batcher.Mode) : List (Batcher.Mode × (Int → List Int)) :=
  (m, fun x => [x]) :: List.replicate d (m, fmap)

def inputsOf (ops : List (List String)) : List Int :=
  ops.flatMap fun op =>
    match op with
    | ["send", v, _] => (v.toInt?).toList
    | ["trickle", first, count, step, _] =>
      match first.toInt?, count.toNat?, step.toInt? with
      | some f, some c, some s => (List.range c).map (fun (k : Nat) => f + s * (k : Int))
      | _, _, _ => []
    | _ => []

/-- emit everything, with some receives interleaved (a deterministic "schedule" derived from the
    values, so that batches sit at different depths when the input stops) -/
def emitEvs (d : Nat) (xs : List Int) : List (Ev Int) :=
  xs.flatMap fun x => [Ev.src x [], Ev.recv (x.natAbs % (d + 2)) []]

/-- end of the iteration for modes without timeout: the `FlushAndRestart` travels down the pipeline;
    every `End` flushes when it sees it (C02 `end_flushes_on_control`, C18 `far_flushes_everything`). -/
def closeStages : Nat → List (Stage Int) → List Int → List (Stage Int) × List Int
  | 0, l, sink => (l, sink)
  | _, [], sink => ([], sink)
  | _ + 1, [s], sink =>
    let s := s.flushIdle
    ([{ s with chan := [] }], sink ++ s.chan.flatten)
  | fuel + 1, s :: t :: rest, sink =>
    let s := s.flushIdle
    let r := closeStages fuel (t.feedAll s.chan :: rest) sink
    ({ s with chan := [] } :: r.1, r.2)

def sortInts (l : List Int) : List Int := l.mergeSort (fun a b => decide (a ≤ b))

def fmtList (l : List Int) : String := "[" ++ ",".intercalate (l.map toString) ++ "]"

/-- model result for one batch mode: (sorted sink, everything delivered?) -/
def modelResult (d : Nat) (m : Batcher.Mode) (xs : List Int) : List Int × Bool :=
  let s0 : State Int := State.init (cfgOf d m)
  let s1 := run s0 (emitEvs d xs)
  if isAdaptive m then
    let s2 := run s1 (quiesceSched s1)
    (sortInts s2.sink, quiescentB s2.stages)
  else
    let r := closeStages (d + 2) s1.stages s1.sink
    (sortInts r.2, quiescentB r.1)

/-- spec: every input passes `d` maps `x ↦ 2x+1` -/
def specResult (d : Nat) (xs : List Int) : List Int :=
  sortInts (xs.map fun x => (List.range d).foldl (fun y _ => 2 * y + 1) x)

def modes : List (String × Batcher.Mode) :=
  [("adaptive", .adaptive 1000), ("single", .single), ("fixed1", .fixed 1), ("fixed1000", .fixed 1000)]

def handle (c : Case) : Verdict :=
  match c.header with
  | [_, _, d, p, delta, kind] =>
    match d.toNat?, p.toNat?, delta.toNat? with
    | some d, some p, some delta =>
      let xs := inputsOf c.ops
      let perOp := c.ops.filterMap fun op =>
        match op with
        | ["send", v, _] => some s!"a {v} ok"
        | ["trickle", first, _, _, _] => some s!"t {first} ok"
        | _ => none
      let results := modes.map fun (name, m) =>
        let r := modelResult d m xs
        if r.2 then s!"result {name} {fmtList r.1}" else s!"result {name} model-not-quiescent {fmtList r.1}"
      let out := perOp ++ results
      -- the property, on the implementation's lines
      let spec := fmtList (specResult d xs)
      let lateMsgs := c.implOut.filterMap fun l =>
        match words l with
        | ["a", v, w] => if w == "ok" then none else some s!"element {v}: {w} (bound 4*(d+2)*{delta}ms+400ms, sender still open)"
        | ["t", f, w] => if w == "ok" then none else some s!"trickle from {f}: {w}"
        | ["result", m, r] => if r == spec then none else some s!"result under batch mode {m} is {r}, expected {spec}"
        | _ => some s!"unparsable line `{l}`"
      let nRes := (c.implOut.filter (·.startsWith "result ")).length
      let oracle :=
        if nRes ≠ 4 then some "[C18] missing result lines"
        else match lateMsgs with
          | [] => none
          | m :: _ => some ("[C18] " ++ m)
      { out, oracle, nontrivial := xs.length ≥ 1,
        tags := [s!"d{d}", s!"p{p}", s!"delta{delta}", kind, s!"n{min (xs.length / 5 * 5) 30}"] }
    | _, _, _ => { out := [], oracle := some "bad header", nontrivial := false }
  | _ => { out := [], oracle := some "bad header", nontrivial := false }

end Noir.Driver.Latency
