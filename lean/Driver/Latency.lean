/-
  Driver/Latency.lean — whole-engine latency runs (C18).
  header: `<id> latency <d> <p> <delta_ms> <kind>`; ops: `send <v> <pause_ms>` | `trickle <first> <count> <step> <gap_ms>`
  outputs: `a <v> ok` per send, `t <first> ok` per trickle, `result <mode> [sorted outputs]` for
  adaptive / single / fixed1 / fixed1000.

  The model side runs the logical-time pipeline model (`Model/Latency.lean`) with the harness' chains
  (`x ↦ 2x+1` per boundary): the emitted elements with interleaved receives, then the quiescing
  schedule (Adaptive) resp. the end-of-iteration flush (other modes), and prints the sink.
-/
import Driver.Proto
import NoirVerif.Model.Latency
namespace Noir.Driver.Latency
open Noir Noir.Driver Noir.Latency

def fmap (x : Int) : List Int := [2 * x + 1]

def cfgOf (d : Nat) (m : Batcher.Mode) : List (Batcher.Mode × (Int → List Int)) :=
  (m, fun x => [x]) :: List.replicate d (m, fmap)

def inputsOf (ops : List (List String)) : List Int :=
  ops.flatMap fun op =>
    match op with
    | ["send", v, _] => (v.toInt?).toList
    | ["trickle", first, count, step, _] =>
      match first.toInt?, count.toNat?, step.toInt? with
      | some f, some c, some s => (List.range c).map (fun (k : Nat) => f + s * (k : Int))
      | _, _, _ => []
    | _ => []

/-- emit everything, with some receives interleaved (a deterministic "schedule" derived from the
    values, so that batches sit at different depths when the input stops) -/
def emitEvs (d : Nat) (xs : List Int) : List (Ev Int) :=
  xs.flatMap fun x => [Ev.src x [], Ev.recv (x.natAbs % (d + 2)) []]

/-- end of the iteration for modes without timeout: the `FlushAndRestart` travels down the pipeline;
    every `End` flushes when it sees it (C02 `end_flushes_on_control`, C18 `far_flushes_everything`). -/
def closeStages : Nat → List (Stage Int) → List Int → List (Stage Int) × List Int
  | 0, l, sink => (l, sink)
  | _, [], sink => ([], sink)
  | _ + 1, [s], sink =>
    let s := s.flushIdle
    ([{ s with chan := [] }], sink ++ s.chan.flatten)
  | fuel + 1, s :: t :: rest, sink =>
    let s := s.flushIdle
    let r := closeStages fuel (t.feedAll s.chan :: rest) sink
    ({ s with chan := [] } :: r.1, r.2)

def sortInts (l : List Int) : List Int := l.mergeSort (fun a b => decide (a ≤ b))

def fmtList (l : List Int) : String := "[" ++ ",".intercalate (l.map toString) ++ "]"

/-- model result for one batch mode: (sorted sink, everything delivered?) -/
def modelResult (d : Nat) (m : Batcher.Mode) (xs : List Int) : List Int × Bool :=
  let s0 : State Int := State.init (cfgOf d m)
  let s1 := run s0 (emitEvs d xs)
  if isAdaptive m then
    let s2 := run s1 (quiesceSched s1)
    (sortInts s2.sink, quiescentB s2.stages)
  else
    let r := closeStages (d + 2) s1.stages s1.sink
    (sortInts r.2, quiescentB r.1)

/-- spec: every input passes `d` maps `x ↦ 2x+1` -/
def specResult (d : Nat) (xs : List Int) : List Int :=
  sortInts (xs.map fun x => (List.range d).foldl (fun y _ => 2 * y + 1) x)

/-- modulus of the `group_by` at boundary `b` (1-based) of a pipeline of kind `kind`, if it is one
    (harness: `gb` = group_by(x%3), group_by(x%5) alternating; `mix` = shuffle, group_by(x%5) alternating) -/
def gbModulus (kind : String) (b : Nat) : Option Int :=
  if kind == "gb" then some (if b % 2 == 1 then 3 else 5)
  else if kind == "mix" then (if b % 2 == 0 then some 5 else none)
  else none

def mapTimes (k : Nat) (x : Int) : Int := (List.range k).foldl (fun y _ => 2 * y + 1) x

/-- Signature of finding F12: the element `v` (sent by op number `j`) was buffered for one destination
    of a keyed boundary while a LATER `trickle` with gaps below the maximum delay kept the block busy
    with elements that all belong to other key classes (so none of them is enqueued into the batcher
    that holds `v`), on a deployment with several replicas. -/
def starvedBy (d p delta : Nat) (kind : String) (ops : List (List String)) (j : Nat) (v : Int) : Bool :=
  p ≥ 2 && (ops.drop (j + 1)).any fun op =>
    match op with
    | ["trickle", first, count, step, gap] =>
      match first.toInt?, count.toNat?, step.toInt?, gap.toNat? with
      | some f, some c, some st, some g =>
        g < delta && c ≥ 1 &&
        (List.range d).any fun b0 =>
          -- boundary b = b0 + 1 ≥ 2 is fed by a block with a `Start` (block b0 ≥ 1 holds the batchers)
          b0 ≥ 1 &&
          match gbModulus kind (b0 + 1) with
          | some m =>
            let cls (x : Int) : Int := (mapTimes b0 x) % m
            (List.range c).all fun (k : Nat) => cls (f + st * (k : Int)) != cls v
          | none => false
      | _, _, _, _ => false
    | _ => false

def modes : List (String × Batcher.Mode) :=
  [("adaptive", .adaptive 1000), ("single", .single), ("fixed1", .fixed 1), ("fixed3", .fixed 3),
   ("fixed1000", .fixed 1000), ("adaptive2", .adaptive 2), ("adaptive5", .adaptive 5)]

def handle (c : Case) : Verdict :=
  match c.header with
  | [_, _, d, p, delta, kind] =>
    match d.toNat?, p.toNat?, delta.toNat? with
    | some d, some p, some delta =>
      let xs := inputsOf c.ops
      -- op number of the k-th `send`/`trickle` op (implementation lines `a`/`t` are in op order)
      let opIdx := (c.ops.zipIdx.filter fun (op, _) => op.head? == some "send" || op.head? == some "trickle").map (·.2)
      let implAT := c.implOut.filter fun l => l.startsWith "a " || l.startsWith "t "
      -- Model side. In logical time the model cannot tell whether the receive timeout of a busy block
      -- expires; for an element that `starvedBy` a later trickle BOTH `ok` and `late` are behaviours of
      -- the model (finding F12), so the implementation's answer is echoed when it is one of the two.
      let perOp := (opIdx.zipIdx).filterMap fun (j, k) =>
        match c.ops[j]? with
        | some ["send", v, _] =>
          let impl := implAT[k]?.getD ""
          let may := match v.toInt? with | some x => starvedBy d p delta kind c.ops j x | none => false
          if may && impl == s!"a {v} late" then some impl else some s!"a {v} ok"
        | some ["trickle", first, _, _, _] => some s!"t {first} ok"
        | _ => none
      let results := modes.map fun (name, m) =>
        let r := modelResult d m xs
        if r.2 then s!"result {name} {fmtList r.1}" else s!"result {name} model-not-quiescent {fmtList r.1}"
      let out := perOp ++ results
      -- the property, on the implementation's lines
      let spec := fmtList (specResult d xs)
      -- (message, is it the known finding F12?)
      let atMsgs : List (String × Bool) := (implAT.zip opIdx).filterMap fun (l, j) =>
        match words l with
        | ["a", v, w] =>
          if w == "ok" then none
          else
            let known := w == "late" &&
              (match v.toInt? with | some v => starvedBy d p delta kind c.ops j v | none => false)
            some (s!"element {v}: {w} (bound 4*(d+2)*{delta}ms+400ms, sender still open)", known)
        | ["t", f, w] => if w == "ok" then none else some (s!"trickle from {f}: {w}", false)
        | _ => some (s!"unparsable line `{l}`", false)
      let resMsgs : List (String × Bool) := c.implOut.filterMap fun l =>
        match words l with
        | ["result", m, r] => if r == spec then none else some (s!"result under batch mode {m} is {r}, expected {spec}", false)
        | "result" :: _ => some (s!"unparsable line `{l}`", false)
        | _ => none
      let msgs := atMsgs ++ resMsgs
      let nRes := (c.implOut.filter (·.startsWith "result ")).length
      let oracle :=
        if nRes ≠ modes.length then some "[C18] missing result lines"
        else if implAT.length ≠ opIdx.length then some "[C18] number of verdict lines differs from number of ops"
        else match msgs with
          | [] => none
          | (m, _) :: _ =>
            if msgs.all (·.2) then
              some ("[C18] known:F12-starved-batcher-under-continued-input " ++ "; ".intercalate (msgs.map (·.1)))
            else some ("[C18] " ++ (match msgs.find? (fun x => !x.2) with | some x => x.1 | none => m))
      { out, oracle, nontrivial := xs.length ≥ 1,
        -- `nodiff`: the per-element verdict lines of the model side are constant (`ok`) or echoed
        -- (F12 candidates); only the `result` lines are computed by the pipeline model
        tags := [s!"d{d}", s!"p{p}", s!"delta{delta}", kind, s!"n{min (xs.length / 5 * 5) 30}", "nodiff"] }
    | _, _, _ => { out := [], oracle := some "bad header", nontrivial := false }
  | _ => { out := [], oracle := some "bad header", nontrivial := false }

end Noir.Driver.Latency
