/-
  Driver/Links.lean — whole-engine link cases (C02).
  header: `<id> links <hosts> <cores> <S|F|A> <n> <shuffle|group> <ts>`; ops: `i <source> <value>`.
  outputs: `sent <p> <c> …`, `recv <p> <c> …`, `probe <p> <c> …` (see harness/src/bin/links.rs).

  What the producers hand to the links (`sent` lines) depends on routing and timing and is an
  *input* here. From it the Link model (batchers re-run from the element sequences, every
  message moved through mux → wire → demux → channel → consumer) predicts the `recv` and `probe`
  lines; the oracle compares the implementation's `recv`/`probe` lines with its `sent` lines
  directly (per-pair sequence equality).
-/
import Driver.Proto
import NoirVerif.Model.Link
namespace Noir.Driver.Links
open Noir Noir.Driver Noir.Link

def parseCoord (s : String) : Option Coord :=
  match s.splitOn "." with
  | [b, h, r] => do pure ⟨← b.toNat?, ← h.toNat?, ← r.toNat?⟩
  | _ => none

/-- split a token list at `|` -/
def splitBars (ws : List String) : List (List String) :=
  let r := ws.foldl (fun (acc : List (List String) × List String) w =>
    if w == "|" then (acc.2.reverse :: acc.1, []) else (acc.1, w :: acc.2)) ([], [])
  (r.2.reverse :: r.1).reverse

structure Line where
  p : String
  c : String
  toks : List String

def parseLines (tag : String) (ls : List String) : List Line :=
  ls.filterMap fun l => match words l with
    | t :: p :: c :: toks => if t == tag then some ⟨p, c, toks⟩ else none
    | _ => none

def kindOf : Elem Val → String
  | .item _ => "I"
  | .ts _ t => s!"T:{t}"
  | .wm t => s!"W:{t}"
  | .flushBatch => "FB"
  | .far => "FAR"
  | .term => "TERM"

def payloadOf : Elem Val → Option String
  | .item v => some v.toStr
  | .ts v _ => some v.toStr
  | _ => none

def joinBatches (bs : List (List String)) : List String :=
  match bs with
  | [] => []
  | b :: rest => rest.foldl (fun acc b => acc ++ ["|"] ++ b) b

partial def lastInt : Val → Option Int
  | .int n => some n
  | .tup l => match l.getLast? with | some v => lastInt v | none => none
  | _ => none

/-- batcher calls that reproduce one observed batch: every element is enqueued (`End::next`),
    `FlushAndRestart` flushes, `Terminate` ends; under `Adaptive` a batch shorter than `n` that
    does not end in a flush is attributed to the timer (`elapsed` on its last element). -/
def opsOfBatch (adaptive : Bool) (n : Nat) (b : List (Elem Val)) : List (Batcher.Op (Elem Val)) :=
  let lastIdx := b.length - 1
  (b.zip (List.range b.length)).flatMap fun (e, i) =>
    let timer := adaptive && i == lastIdx && b.length < n && !e.isFar && !e.isTerm
    Batcher.opsOfElem timer e

def handle (c : Case) : Verdict :=
  match c.header with
  | [_, _, hosts, _cores, mode, n, kind, _ts] =>
    let n := n.toNat?.getD 1
    let m : Batcher.Mode := match mode with | "S" => .single | "F" => .fixed n | _ => .adaptive n
    let sentL := parseLines "sent" c.implOut
    let recvL := parseLines "recv" c.implOut
    let probeL := parseLines "probe" c.implOut
    -- parsed sent lines: producer, endpoint, batches
    let sent := sentL.filterMap fun l => do
      let p ← parseCoord l.p
      let cc ← parseCoord l.c
      let batches ← (splitBars l.toks).mapM (fun b => b.mapM parseElem)
      pure (l, p, (⟨cc.block, cc.host, cc.replica, p.block⟩ : Endpoint), batches)
    -- the schedule: every batcher call is followed by a drain of the path
    let moves : List (Move (Elem Val)) := sent.flatMap fun (_, p, ep, batches) =>
      batches.flatMap fun b =>
        (opsOfBatch (mode == "A") n b).flatMap fun op =>
          [.batcher p ep op, .muxSend (connOf p ep), .demux (connOf p ep), .recv ep]
    let s := Link.run (fun _ => m) State.init moves
    let modelRecv := sent.map fun (l, p, ep, _) =>
      let msgs := (s.delivered ep).filter (fun x => x.src == p)
      " ".intercalate (["recv", l.p, l.c] ++ joinBatches (msgs.map fun x => x.body.map kindOf))
    let modelProbe := sent.filterMap fun (l, p, ep, _) =>
      let pl := (deliveredFrom s p ep).filterMap payloadOf
      if pl.isEmpty then none else some (" ".intercalate (["probe", l.p, l.c] ++ pl))
    let out := sentL.map (fun l => " ".intercalate (["sent", l.p, l.c] ++ l.toks)) ++ modelRecv ++ modelProbe
    -- spec-side oracle: per pair, received = sent (kinds with batch boundaries; data payloads)
    let find (ls : List Line) (p cc : String) := ls.find? (fun l => l.p == p && l.c == cc)
    let pairErr := sent.findSome? fun (l, _, _, batches) =>
      let wantK := joinBatches (batches.map fun b => b.map kindOf)
      let wantP := batches.flatten.filterMap payloadOf
      match find recvL l.p l.c with
      | none => some s!"{l.p}->{l.c}: nothing received"
      | some r =>
        if r.toks != wantK then some s!"{l.p}->{l.c}: received {r.toks} but {wantK} was sent"
        else
          let gotP := (find probeL l.p l.c).map (·.toks) |>.getD []
          if gotP != wantP then some s!"{l.p}->{l.c}: consumer saw {gotP} but {wantP} was sent"
          else none
    let stray := (recvL ++ probeL).find? fun l => (find sentL l.p l.c).isNone
    let values := c.ops.filterMap fun w => match w with | ["i", _, v] => v.toInt? | _ => none
    let sentValues := sent.flatMap fun (_, _, _, batches) =>
      batches.flatten.filterMap fun e => e.value.bind lastInt
    let sortI (l : List Int) := (l.toArray.qsort (· < ·)).toList
    let oracle :=
      if c.implOut.any (·.startsWith "panic") then some s!"engine run failed: {c.implOut}"
      else if sent.length ≠ sentL.length then some "unparsable sent line"
      else match pairErr with
        | some e => some e
        | none =>
          match stray with
          | some l => some s!"{l.p}->{l.c}: received without a matching send"
          | none =>
            if sortI sentValues != sortI values then some "the values handed to the links are not the source's values (each exactly once)"
            else none
    let dataPairs := (sent.filter fun (_, _, _, batches) => batches.flatten.any Elem.isData).length
    let remotePairs := (sent.filter fun (_, p, ep, _) => isRemote p ep).length
    { out, oracle, nontrivial := dataPairs ≥ 2,
      tags := [s!"hosts{hosts}", s!"mode{mode}{if mode == "F" then toString n else ""}", kind,
               s!"remotePairs{if remotePairs == 0 then "0" else "+"}", s!"dataPairs{min dataPairs 4}"] }
  | _ => { out := [], oracle := some "bad header", nontrivial := false }

end Noir.Driver.Links
