/-
  Driver/Links.lean — whole-engine link cases (C02).
  header: `<id> links <hosts> <cores> <S|F|A> <n> <shuffle|group|bcast|split|join> <ts>`;
  ops: `i <source> <value>`, `j <source> <value>` (right input of join), `stall <ms>`.
  outputs: `sent <p> <c> …`, `recv <p> <c> …`, `probe <p> <c> …`, `joined <c> …`, `misrouted …`
  (see harness/src/bin/links.rs).

  What the producers hand to the links (`sent` lines) depends on routing and timing and is an
  *input* here. From it the Link model (batchers re-run from the element sequences, every
  message moved through mux → wire → demux → channel → consumer) predicts the `recv` and `probe`
  lines; the oracle compares the implementation's `recv`/`probe` lines with its `sent` lines
  directly (per-pair sequence equality).
-/
import Driver.Proto
import NoirVerif.Model.Link
namespace Noir.Driver.Links
open Noir Noir.Driver Noir.Link

def parseCoord (s : String) : Option Coord :=
  match s.splitOn "." with
  | [b, h, r] => do pure ⟨← b.toNat?, ← h.toNat?, ← r.toNat?⟩
  | _ => none

/-- split a token list at `|` -/
def splitBars (ws : List String) : List (List String) :=
  let r := ws.foldl (fun (acc : List (List String) × List String) w =>
    if w == "|" then (acc.2.reverse :: acc.1, []) else (acc.1, w :: acc.2)) ([], [])
  (r.2.reverse :: r.1).reverse

structure Line where
  p : String
  c : String
  toks : List String

def parseLines (tag : String) (ls : List String) : List Line :=
  ls.filterMap fun l => match words l with
    | t :: p :: c :: toks => if t == tag then some ⟨p, c, toks⟩ else none
    | _ => none

def kindOf : Elem Val → String
  | .item _ => "I"
  | .ts _ t => s!"T:{t}"
  | .wm t => s!"W:{t}"
  | .flushBatch => "FB"
  | .far => "FAR"
  | .term => "TERM"

def payloadOf : Elem Val → Option String
  | .item v => some v.toStr
  | .ts v _ => some v.toStr
  | _ => none

def joinBatches (bs : List (List String)) : List String :=
  match bs with
  | [] => []
  | b :: rest => rest.foldl (fun acc b => acc ++ ["|"] ++ b) b

partial def lastInt : Val → Option Int
  | .int n => some n
  | .tup l => match l.getLast? with | some v => lastInt v | none => none
  | _ => none

/-- batcher calls that reproduce one observed batch: every element is enqueued (`End::next`),
    `FlushAndRestart` flushes, `Terminate` ends; under `Adaptive` a batch shorter than `n` that
    does not end in a flush is attributed to the timer (`elapsed` on its last element). -/
def opsOfBatch (adaptive : Bool) (n : Nat) (b : List (Elem Val)) : List (Batcher.Op (Elem Val)) :=
  let lastIdx := b.length - 1
  (b.zip (List.range b.length)).flatMap fun (e, i) =>
    let timer := adaptive && i == lastIdx && b.length < n && !e.isFar && !e.isTerm
    Batcher.opsOfElem timer e

/-- the payload is stamped `(block, host, replica, seq, value)` by producer `p` itself: the link is
    the one right after the stamping map, whose consumer block has the probe sink -/
def stampedBy (p : Coord) : Elem Val → Bool
  | .item (.tup [.int b, .int h, .int r, _, _]) | .ts (.tup [.int b, .int h, .int r, _, _]) _ =>
    b == p.block && h == p.host && r == p.replica
  | _ => false

/-- join key of the harness: `value.rem_euclid(3)` -/
def joinKey (v : Val) : Int := ((lastInt v).getD 0) % 3

def sortS (l : List String) : List String := (l.toArray.qsort (· < ·)).toList

/-- the pairs an inner equi-join of what consumer `c` got from the left block (smaller id) and the
    right block must produce, as sorted text -/
def joinPairs (got : List (Nat × Val)) : List String :=
  match (got.map (·.1)).min? with
  | none => []
  | some lb =>
    let ls := (got.filter (·.1 == lb)).map (·.2)
    let rs := (got.filter (·.1 != lb)).map (·.2)
    sortS (ls.flatMap fun l => (rs.filter fun r => joinKey l == joinKey r).map fun r => s!"({l.toStr},{r.toStr})")

def handle (c : Case) : Verdict :=
  match c.header with
  | [_, _, hosts, cores, mode, n, kind, _ts] =>
    let n := n.toNat?.getD 1
    let replicas := hosts.toNat?.getD 1 * cores.toNat?.getD 1
    let m : Batcher.Mode := match mode with | "S" => .single | "F" => .fixed n | _ => .adaptive n
    let sentL := parseLines "sent" c.implOut
    let recvL := parseLines "recv" c.implOut
    let probeL := parseLines "probe" c.implOut
    let joinedL := c.implOut.filterMap fun l => match words l with
      | "joined" :: cc :: toks => some (cc, toks) | _ => none
    -- parsed sent lines: producer, endpoint, batches
    let sent := sentL.filterMap fun l => do
      let p ← parseCoord l.p
      let cc ← parseCoord l.c
      let batches ← (splitBars l.toks).mapM (fun b => b.mapM parseElem)
      pure (l, p, (⟨cc.block, cc.host, cc.replica, p.block⟩ : Endpoint), batches)
    -- the schedule: every batcher call is followed by a drain of the path
    let moves : List (Move (Elem Val)) := sent.flatMap fun (_, p, ep, batches) =>
      batches.flatMap fun b =>
        (opsOfBatch (mode == "A") n b).flatMap fun op =>
          [.batcher p ep op, .muxSend (connOf p ep), .demux (connOf p ep), .recv ep]
    let s := Link.run (fun _ => m) State.init moves
    -- (`join`: no receive events, see the harness)
    let modelRecv := if kind == "join" then [] else sent.map fun (l, p, ep, _) =>
      let msgs := (s.delivered ep).filter (fun x => x.src == p)
      " ".intercalate (["recv", l.p, l.c] ++ joinBatches (msgs.map fun x => x.body.map kindOf))
    let modelProbe := if kind == "join" then [] else sent.filterMap fun (l, p, ep, _) =>
      let pl := ((deliveredFrom s p ep).filter (stampedBy p)).filterMap payloadOf
      if pl.isEmpty then none else some (" ".intercalate (["probe", l.p, l.c] ++ pl))
    -- join: per consumer replica, the equi-join of what the model delivered to it from both blocks
    let consumers := (sent.map fun (l, _, ep, _) => (l.c, ep.block, ep.host, ep.replica)).eraseDups
    let modelJoined := if kind != "join" then [] else consumers.filterMap fun (cs, b, h, r) =>
      let got := sent.flatMap fun (_, p, ep, _) =>
        if ep.block == b && ep.host == h && ep.replica == r then
          (deliveredFrom s p ep).filterMap fun e => e.value.map fun v => (p.block, v)
        else []
      let ps := joinPairs got
      if ps.isEmpty then none else some (" ".intercalate (["joined", cs] ++ ps))
    let out := sentL.map (fun l => " ".intercalate (["sent", l.p, l.c] ++ l.toks)) ++ modelRecv ++ modelProbe
      ++ modelJoined
    -- spec-side oracle: per pair, received = sent (kinds with batch boundaries; data payloads)
    let find (ls : List Line) (p cc : String) := ls.find? (fun l => l.p == p && l.c == cc)
    let pairErr := sent.findSome? fun (l, p, _, batches) =>
      let wantK := joinBatches (batches.map fun b => b.map kindOf)
      -- the consumer-side payload order is observed on the links right after a stamping map
      let wantP := if kind == "join" then [] else (batches.flatten.filter (stampedBy p)).filterMap payloadOf
      match (if kind == "join" then some ⟨l.p, l.c, wantK⟩ else find recvL l.p l.c) with
      | none => some s!"{l.p}->{l.c}: nothing received"
      | some r =>
        if r.toks != wantK then some s!"{l.p}->{l.c}: received {r.toks} but {wantK} was sent"
        else
          let gotP := (find probeL l.p l.c).map (·.toks) |>.getD []
          if gotP != wantP then some s!"{l.p}->{l.c}: consumer saw {gotP} but {wantP} was sent"
          else none
    -- the producer stamps a sequence number (4th component) in production order BEFORE the End/batcher:
    -- what is handed to a link must be a subsequence of the production order (the batcher may cut
    -- batches anywhere, also by its timer, but never reorder)
    let seqOf : Elem Val → Option Int
      | .item (.tup [_, _, _, .int q, _]) | .ts (.tup [_, _, _, .int q, _]) _ => some q
      | _ => none
    let rec increasing : List Int → Bool
      | a :: b :: r => a < b && increasing (b :: r)
      | _ => true
    let seqErr := sent.findSome? fun (l, p, _, batches) =>
      let qs := (batches.flatten.filter (stampedBy p)).filterMap seqOf
      if increasing qs then none
      else some s!"{l.p}->{l.c}: elements were handed to the link out of production order (sequence numbers {qs})"
    let stray := (recvL ++ probeL).find? fun l => (find sentL l.p l.c).isNone
    -- join (spec side, from the implementation's `sent` lines): every consumer replica's sink saw
    -- exactly the equi-join of what was sent to it by the two blocks
    let joinErr := if kind != "join" then none else consumers.findSome? fun (cs, b, h, r) =>
      let got := sent.flatMap fun (_, p, ep, batches) =>
        if ep.block == b && ep.host == h && ep.replica == r then
          batches.flatten.filterMap fun e => e.value.map fun v => (p.block, v)
        else []
      let want := joinPairs got
      let impl := ((joinedL.find? (·.1 == cs)).map (·.2)).getD []
      if impl != want then some s!"{cs}: joined {impl.length} pairs, the elements sent to it join to {want.length}" else none
    let strayJoined := joinedL.find? fun (cs, _) => kind != "join" || !(consumers.any (·.1 == cs))
    let misrouted := c.implOut.find? (·.startsWith "misrouted")
    -- every value the sources produced crosses each link level exactly once (`bcast`: once per
    -- consumer replica; `split`: four links)
    let mult := if kind == "bcast" then replicas else if kind == "split" then 4 else 1
    let values := (c.ops.filterMap fun w => match w with
      | ["i", _, v] => v.toInt?
      | ["j", _, v] => if kind == "join" then v.toInt? else none
      | _ => none).flatMap fun v => List.replicate mult v
    let sentValues := sent.flatMap fun (_, _, _, batches) =>
      batches.flatten.filterMap fun e => e.value.bind lastInt
    let sortI (l : List Int) := (l.toArray.qsort (· < ·)).toList
    let oracle :=
      if c.implOut.any (·.startsWith "panic") then some s!"engine run failed: {c.implOut}"
      else if sent.length ≠ sentL.length then some "unparsable sent line"
      else if misrouted.isSome then some s!"{misrouted.getD ""}: batch on the endpoint of another previous block"
      else match (pairErr.orElse (fun _ => joinErr)).orElse (fun _ => seqErr) with
        | some e => some e
        | none =>
          if strayJoined.isSome then some "joined output on a replica that was sent nothing" else
          match stray with
          | some l => some s!"{l.p}->{l.c}: received without a matching send"
          | none =>
            if sortI sentValues != sortI values then some "the values handed to the links are not the source's values (each exactly once)"
            else none
    let dataPairs := (sent.filter fun (_, _, _, batches) => batches.flatten.any Elem.isData).length
    let remotePairs := (sent.filter fun (_, p, ep, _) => isRemote p ep).length
    { out, oracle, nontrivial := dataPairs ≥ 2,
      tags := ["nodiff-sent", s!"hosts{hosts}", s!"mode{mode}{if mode == "F" then toString n else ""}", kind,
               s!"remotePairs{if remotePairs == 0 then "0" else "+"}", s!"dataPairs{min dataPairs 4}"] }
  | _ => { out := [], oracle := some "bad header", nontrivial := false }

end Noir.Driver.Links
