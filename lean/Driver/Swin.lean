/-
  Driver/Swin.lean — session-window cases (C14).
  header: `<id> swin <gap_ns>`; ops: `e <now_ns> <elem>` (`now` = frozen clock offset of that `process`
  call, non-decreasing); outputs: `<op idx> I:[…]` per emitted result.

  Also hosts the helpers shared with Driver/Ptwin.lean (`Noir.Driver.TimeWin`).
-/
import Driver.Proto
import NoirVerif.Model.SessionWindow
namespace Noir.Driver.TimeWin
open Noir Noir.Driver

/-- `e <now> <elem>` lines → `(now, elem)`; other / unparsable lines are skipped (as in the harness) -/
def parseOps (ops : List (List String)) : List (Nat × Elem Val) :=
  ops.filterMap fun w => match w with
    | ["e", t, e] => do let t ← t.toNat?; let e ← parseElem e; pure (t, e)
    | _ => none

def fmtOut (p : Nat × List Val) : String := s!"{p.1} {elemToStr (.item (Val.list p.2))}"

def parseOut (s : String) : Option (Nat × List Val) :=
  match words s with
  | [i, e] => do
    let i ← i.toNat?
    match ← parseElem e with
    | .item (.list l) => pure (i, l)
    | _ => .none
  | _ => .none

/-- One iteration of the op stream: the timed data `(now, value)` between two end markers, the
    op-index range it spans and whether its `FAR`/`TERM` is present (a shrunk case may lack it). -/
structure Seg where
  lo : Nat
  hi : Nat
  data : List (Nat × Val)
  complete : Bool

def segments (es : List (Nat × Elem Val)) : List Seg :=
  let rec go (i lo : Nat) (cur : List (Nat × Val)) (es : List (Nat × Elem Val)) (acc : List Seg) : List Seg :=
    match es with
    | [] => (if i > lo then { lo, hi := i - 1, data := cur.reverse, complete := false } :: acc else acc).reverse
    | (t, e) :: rest =>
      match e with
      | .item v | .ts v _ => go (i + 1) lo ((t, v) :: cur) rest acc
      | .far | .term => go (i + 1) (i + 1) [] rest ({ lo, hi := i, data := cur.reverse, complete := true } :: acc)
      | _ => go (i + 1) lo cur rest acc
  go 0 0 [] es []

def resultsOf (impl : List (Nat × List Val)) (s : Seg) : List (List Val) :=
  (impl.filter fun p => s.lo ≤ p.1 && p.1 ≤ s.hi).map (·.2)

def showLL (l : List (List Val)) : String := toString (Val.list (l.map Val.list))

/-- `a` is a subsequence of `b` -/
def isSubseq : List Val → List Val → Bool
  | [], _ => true
  | _ :: _, [] => false
  | x :: xs, y :: ys => if x == y then isSubseq xs ys else isSubseq (x :: xs) ys

def clockMonotone (es : List (Nat × Elem Val)) : Bool :=
  let ts := es.map (·.1)
  (ts.zip (ts.drop 1)).all fun p => p.1 ≤ p.2

def firstSome {β : Type} (l : List β) (f : β → Option String) : Option String :=
  l.foldl (fun acc x => match acc with | some m => some m | none => f x) none

end Noir.Driver.TimeWin

namespace Noir.Driver.Swin
open Noir Noir.Driver Noir.Driver.TimeWin Noir.SessionWindow

/-- Spec side (independent of the manager model): per iteration the results, in emission order, are
    the maximal runs of consecutive elements whose inter-arrival clock difference is `≤ gap`
    (a pause of **more than** `gap` splits). This implies: concatenation = input (each element in
    exactly one result, arrival order kept), no empty result, nothing left after the iteration's end. -/
def checkSeg (gap : Nat) (impl : List (Nat × List Val)) (s : Seg) : Option String :=
  let res := resultsOf impl s
  let vals := s.data.map (·.2)
  let spec := groups gap s.data
  if res.any List.isEmpty then some s!"empty result in iteration ops {s.lo}..{s.hi}"
  else if s.complete then
    if res.flatten != vals then
      some s!"not a partition in iteration ops {s.lo}..{s.hi}: results={showLL res} input={Val.list vals}"
    else if res != spec then
      some s!"sessions split at the wrong places in iteration ops {s.lo}..{s.hi}: results={showLL res} spec={showLL spec}"
    else none
  else
    -- iteration without its end marker: what was emitted so far are the first sessions
    if res != spec.take res.length then
      some s!"open iteration ops {s.lo}..{s.hi}: results={showLL res} are not the first sessions of {showLL spec}"
    else none

def handle (c : Case) : Verdict :=
  match c.header with
  | [_, _, g] =>
    match g.toNat? with
    | some gap =>
      if gap == 0 then
        -- `SessionWindow::new` asserts `!is_zero()`; the harness prints the panic class
        { out := ["panic:other:window_size_must_be_>_0"], oracle := none, nontrivial := false, tags := ["malformed"] }
      else
      let es := parseOps c.ops
      let out := (run gap es).map fmtOut
      let impl := c.implOut.filterMap parseOut
      let segs := segments es
      let oracle :=
        if impl.length ≠ c.implOut.length then some "unparsable implementation output"
        else if !clockMonotone es then some "case is outside the quantifier: clock not monotone"
        else firstSome segs (checkSeg gap impl)
      -- distribution: inter-arrival differences relative to the gap
      let diffs := segs.flatMap fun s => let ts := s.data.map (·.1); (ts.zip (ts.drop 1)).map fun p => p.2 - p.1
      let nSplit := (diffs.filter (· > gap)).length
      let tags :=
        (if diffs.any (· == gap) then ["d=gap"] else []) ++
        (if diffs.any (· == gap + 1) then ["d=gap+1"] else []) ++
        (if diffs.any (· == 0) then ["burst"] else []) ++
        (if diffs.any (· > 3 * gap) then ["longpause"] else []) ++
        [s!"splits{min nSplit 3}", s!"iters{min segs.length 4}"]
      { out, oracle, nontrivial := nSplit ≥ 1 && diffs.any (· ≤ gap), tags }
    | none => { out := [], oracle := some "bad header", nontrivial := false }
  | _ => { out := [], oracle := some "bad header", nontrivial := false }

end Noir.Driver.Swin
