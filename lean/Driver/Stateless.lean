/-
  Driver/Stateless.lean — the REAL stateless operators against `liftStage` (Model/Stateless.lean),
  the model of a block's operator chain used by Props/C16Chain.lean (C16; oracles also for C05/C06).

  header: `<id> stateless`
  ops   : `e <elem>`            the script the source emits verbatim (cut after the first TERM; a TERM is
                                supplied if missing)
          `s <kind> <params…>`  one stage of the fused chain, in order (unknown / ill-formed lines are
                                ignored on both sides). A stream is *plain* (payload `v`) or *keyed*
                                (payload `(k,v)`); a plain stage on a keyed stream is preceded by `unkey`
                                (payload `(k,v)`), a keyed stage on a plain stream by `key_by(num v mod 3)`;
                                a keyed stream is `unkey`ed in front of the probe. `num` = the integer
                                itself, the sum over the components of tuples / lists, 0 otherwise.
     plain : `map add <k>` | `map wrap` (v ↦ [v, v+1] as ONE list payload) | `filter mod <m> <r>` |
             `fmap rep` (num v mod 3 children `10·num v + j`) | `fmap dup <n>` (n children `(v,j)`) |
             `filtermap half` | `flatten` (`map(as_vec).flatten()`) | `inspect` |
             `richmap enum` (v ↦ (c,v), c = 0,1,…) | `richfmap` (c mod 3 children `(v,j)`) |
             `richfiltermap` (running sum c, kept as `c` when even) | `custom add <k>`
             (`rich_map_custom(|eg| eg.next().map(add k))`) | `dropts` | `addts <k>`
             (`drop_timestamps().add_timestamps(2·num v, watermark at ts when num v mod k = 0)`)
     keyed : `keyby <m>` | `kmap add <k>` (adds k + num key) | `kfilter mod <m> <r>` | `kfmap rep` |
             `kfiltermap half` | `kflatten` | `kinspect` | `krichmap enum` | `krichfmap` |
             `krichfiltermap` (state per key) | `kcustom` (`rich_map_custom`, to plain `(k,v)`) |
             `unkey` | `dropkey` | `kdropts`
  outputs: one line per element seen by the probe in front of the sink (`I:v`, `T:v:t`, `W:t`, `FB`, `FAR`,
          `TERM`), then one line `ins <i> <list>` per inspect stage (i-th inspect of the chain): the
          payloads its closure was called with, in order.

  model  = every stage applied in turn to the whole stream: `Noir.Stateless.liftStage f` for the
           stateless kinds, `liftStageAcc` for the `rich_*` kinds, `dropTs`, `addTs`.
  oracle = spec side, on the DATA only (iterator chain with provenance: every datum carries the index
           of the script element it stems from and the timestamp it must carry):
           [C16] the data payloads are the iterator chain applied to the scripted data, in order; a child
                 of a plain Item is a plain Item, a child of `Timestamped(_, t)` is `Timestamped(_, t)`
                 (after `dropts` everything is plain, after `addts` every datum carries `2·num v`);
           [C05] control elements unchanged, once, in order and in place (each one preceded by exactly
                 the children of the data scripted before it; watermarks excepted when the chain
                 contains `dropts`/`addts`), and a grammatical script gives a grammatical output;
           [C06] a watermark-safe script gives a watermark-safe output (chains without `addts`).
-/
import Driver.Proto
import NoirVerif.Model.Stateless
namespace Noir.Driver.Stateless
open Noir Noir.Driver Noir.Stateless

/-! ### the scripted element functions (the same text as in harness/src/bin/stateless.rs) -/

partial def num : Val → Int
  | .int n => n
  | .tup l => l.foldl (fun a v => a + num v) 0
  | .list l => l.foldl (fun a v => a + num v) 0
  | .some v => num v
  | .left v => num v
  | .right v => num v
  | _ => 0

def add (k : Int) : Val → Val
  | .int n => .int (n + k)
  | v => .tup [v, .int k]

def asVec : Val → List Val
  | .list l => l
  | v => [v]

def ints (n : Nat) : List Int := (List.range n).map Int.ofNat

def rep (v : Val) : List Val := (ints (num v % 3).toNat).map fun j => .int (num v * 10 + j)
def dup (n : Nat) (v : Val) : List Val := (ints n).map fun j => .tup [v, .int j]
def half (v : Val) : List Val := if num v % 2 == 0 then [.int (num v / 2)] else []

/-- per-key user state of the `rich_*` stages: key text ↦ counter (plain streams use the key "") -/
abbrev Acc := List (String × Int)
def Acc.get (a : Acc) (k : String) : Int := (a.lookup k).getD 0
def Acc.set (a : Acc) (k : String) (c : Int) : Acc := (k, c) :: a.filter (·.1 != k)

def richEnum (c : Int) (v : Val) : Int × List Val := (c + 1, [.tup [.int c, v]])
def richFmap (c : Int) (v : Val) : Int × List Val := (c + 1, dup (c % 3).toNat v)
def richFilterMap (c : Int) (v : Val) : Int × List Val :=
  let c' := c + num v
  (c', if c' % 2 == 0 then [.int c'] else [])

/-- on a keyed payload `(k, v)`: apply `g k v` to the value, keep the key -/
def onValue (g : Val → Val → List Val) : Val → List Val
  | .tup [k, v] => (g k v).map fun v' => .tup [k, v']
  | _ => []          -- not a keyed payload (unreachable: the builder keys the stream first)

def accPlain (f : Int → Val → Int × List Val) (a : Acc) (v : Val) : Acc × List Val :=
  let r := f (a.get "") v
  (a.set "" r.1, r.2)

def accKeyed (f : Int → Val → Int × List Val) (a : Acc) : Val → Acc × List Val
  | .tup [k, v] =>
    let r := f (a.get k.toStr) v
    (a.set k.toStr r.1, r.2.map fun v' => .tup [k, v'])
  | _ => (a, [])

/-- a primitive stage of the chain -/
inductive Prim where
  | pure (f : Val → List Val)
  | acc (step : Acc → Val → Acc × List Val)
  | dropTs
  | addTs (k : Int)
  | inspect

def tsGen (v : Val) : Int := num v * 2
def wmGen (k : Int) (v : Val) (t : Int) : Option Int := if num v % k == 0 then some t else none

/-- what a stage needs, the primitive stages it stands for and whether the stream is keyed after it -/
def parseStage (keyed : Bool) (w : List String) : Option (List Prim × Bool) :=
  let keyBy (m : Int) : Prim := .pure fun v => [.tup [.int (num v % m), v]]
  -- plain stage on a keyed stream: `unkey` first (the model's keyed payload already is `(k,v)`)
  let plain (p : Prim) : Option (List Prim × Bool) := some ([p], false)
  -- keyed stage on a plain stream: `key_by(num v mod 3)` first
  let onKeyed (ps : List Prim) (after : Bool) : Option (List Prim × Bool) :=
    some ((if keyed then [] else [keyBy 3]) ++ ps, after)
  match w with
  | ["s", "map", "add", k] => k.toInt?.bind fun k => plain (.pure fun v => [add k v])
  | ["s", "map", "wrap"] => plain (.pure fun v => [.list [v, add 1 v]])
  | ["s", "filter", "mod", m, r] => do
    let m ← m.toInt?; let r ← r.toInt?
    if m < 1 then none else plain (.pure fun v => if num v % m == r then [v] else [])
  | ["s", "fmap", "rep"] => plain (.pure rep)
  | ["s", "fmap", "dup", n] => n.toNat?.bind fun n => if n > 4 then none else plain (.pure (dup n))
  | ["s", "filtermap", "half"] => plain (.pure half)
  | ["s", "flatten"] => plain (.pure asVec)
  | ["s", "inspect"] => plain .inspect
  | ["s", "richmap", "enum"] => plain (.acc (accPlain richEnum))
  | ["s", "richfmap"] => plain (.acc (accPlain richFmap))
  | ["s", "richfiltermap"] => plain (.acc (accPlain richFilterMap))
  | ["s", "custom", "add", k] => k.toInt?.bind fun k => plain (.pure fun v => [add k v])
  | ["s", "dropts"] => plain .dropTs
  | ["s", "addts", k] => k.toInt?.bind fun k => if k < 1 then none else plain (.addTs k)
  | ["s", "keyby", m] => m.toInt?.bind fun m => if m < 1 then none else some ([keyBy m], true)
  | ["s", "kmap", "add", k] => k.toInt?.bind fun k => onKeyed [.pure (onValue fun key v => [add (k + num key) v])] true
  | ["s", "kfilter", "mod", m, r] => do
    let m ← m.toInt?; let r ← r.toInt?
    if m < 1 then none else onKeyed [.pure (onValue fun _ v => if num v % m == r then [v] else [])] true
  | ["s", "kfmap", "rep"] => onKeyed [.pure (onValue fun _ v => rep v)] true
  | ["s", "kfiltermap", "half"] => onKeyed [.pure (onValue fun _ v => half v)] true
  | ["s", "kflatten"] => onKeyed [.pure (onValue fun _ v => asVec v)] true
  | ["s", "kinspect"] => onKeyed [.inspect] true
  | ["s", "krichmap", "enum"] => onKeyed [.acc (accKeyed richEnum)] true
  | ["s", "krichfmap"] => onKeyed [.acc (accKeyed richFmap)] true
  | ["s", "krichfiltermap"] => onKeyed [.acc (accKeyed richFilterMap)] true
  | ["s", "kcustom"] => onKeyed [] false
  | ["s", "unkey"] => onKeyed [] false
  | ["s", "dropkey"] => onKeyed [.pure fun | .tup [_, v] => [v] | _ => []] false
  | ["s", "kdropts"] => onKeyed [.dropTs] true
  | _ => none

def parseChain (ops : List (List String)) : List Prim :=
  (ops.foldl (fun (acc : List Prim × Bool) w =>
    match parseStage acc.2 w with
    | some (ps, k) => (acc.1 ++ ps, k)
    | none => acc) ([], false)).1

def parseScript (ops : List (List String)) : List (Elem Val) :=
  ops.filterMap fun w => match w with | ["e", e] => parseElem e | _ => none

def cutAtTerm : List (Elem Val) → List (Elem Val)
  | [] => [.term]
  | .term :: _ => [.term]
  | e :: es => e :: cutAtTerm es

/-! ### model: the stages applied to the stream -/

def dataOf (l : List (Elem Val)) : List Val := l.filterMap Elem.value

/-- stream after the stage, and the payloads an `inspect` closure was called with -/
def applyPrim (l : List (Elem Val)) : Prim → List (Elem Val) × List (List Val)
  | .pure f => (liftStage f l, [])
  | .acc step => (liftStageAcc step [] l, [])
  | .dropTs => (dropTs l, [])
  | .addTs k => ((addTs tsGen (wmGen k) (dropTs l)).getD [], [])
  | .inspect => (liftStage (fun v => [v]) l, [dataOf l])

def modelOut (chain : List Prim) (es : List (Elem Val)) : List String :=
  let r := chain.foldl (fun (acc : List (Elem Val) × List (List Val)) p =>
    let (l, ins) := applyPrim acc.1 p
    (l, acc.2 ++ ins)) (es, [])
  r.1.map elemToStr ++ r.2.zipIdx.map fun (vs, i) => s!"ins {i} {Val.list vs}"

/-! ### oracle: the iterator chain on the data, with provenance -/

/-- a datum: index of the script element it stems from, the timestamp it has to carry, payload -/
structure Datum where
  origin : Nat
  ts : Option Int
  v : Val

def specPrim (ds : List Datum) : Prim → List Datum
  | .pure f => ds.flatMap fun d => (f d.v).map fun v => { d with v }
  | .acc step =>
    (ds.foldl (fun (acc : Acc × List Datum) d =>
      let r := step acc.1 d.v
      (r.1, acc.2 ++ r.2.map fun v => { d with v })) ([], [])).2
  | .dropTs => ds.map fun d => { d with ts := none }
  | .addTs _ => ds.map fun d => { d with ts := some (tsGen d.v) }
  | .inspect => ds

def scriptData (es : List (Elem Val)) : List Datum :=
  es.zipIdx.filterMap fun (e, i) => match e with
    | .item v => some ⟨i, none, v⟩
    | .ts v t => some ⟨i, some t, v⟩
    | _ => none

def isWm : Elem Val → Bool | .wm _ => true | _ => false

/-- the control elements of a stream, each with the number of data elements in front of it -/
def ctrlPlaces (l : List (Elem Val)) (keepWm : Bool) : List (Nat × String) :=
  (l.foldl (fun (acc : Nat × List (Nat × String)) e =>
    if e.isData then (acc.1 + 1, acc.2)
    else if isWm e && !keepWm then acc
    else (acc.1, acc.2 ++ [(acc.1, elemToStr e)])) (0, [])).2

def joinFails (l : List (Option String)) : Option String :=
  match l.filterMap id with
  | [] => none
  | fs => some (" ;; ".intercalate fs)

def check (b : Bool) (msg : String) : Option String := if b then none else some msg

def oracle (chain : List Prim) (es impl : List (Elem Val)) : Option String :=
  let spec := chain.foldl specPrim (scriptData es)
  let altersTs := chain.any fun | .dropTs => true | .addTs _ => true | _ => false
  let addsTs := chain.any fun | .addTs _ => true | _ => false
  let implData := impl.filterMap fun e => match e with
    | .item v => some (none, v) | .ts v t => some (some t, v) | _ => none
  let payloadsOk := implData.map (·.2.toStr) == spec.map (·.v.toStr)
  -- expected places of the control elements: in front of control element `p` of the script sit the
  -- children of the data scripted before `p`
  let specCtrl : List (Nat × String) := es.zipIdx.filterMap fun (e, p) =>
    if e.isData || (isWm e && altersTs) then none
    else some ((spec.filter (·.origin < p)).length, elemToStr e)
  joinFails [
    check payloadsOk
      s!"[C16] data is not the iterator chain of the scripted data, in order: got {implData.map (·.2.toStr)} expected {spec.map (·.v.toStr)}",
    check (!payloadsOk || implData.map (·.1) == spec.map (·.ts))
      s!"[C16] a child does not carry its parent's kind/timestamp: got {implData.map (·.1)} expected {spec.map (·.ts)}",
    check (ctrlPlaces impl (!altersTs) == specCtrl)
      s!"[C05] control elements not unchanged / once / in place: got {ctrlPlaces impl (!altersTs)} expected {specCtrl}",
    check (!grammarOk es || grammarOk impl) "[C05] grammatical script, ungrammatical output",
    check (addsTs || !wmSafeOk es || wmSafeOk impl) "[C06] watermark-safe script, unsafe output"]

def kindOf (w : List String) : String := match w with | _ :: k :: _ => k | _ => "?"

def handle (c : Case) : Verdict :=
  match c.header with
  | [_, _] =>
    let es := cutAtTerm (parseScript c.ops)
    let chain := parseChain c.ops
    let stages := c.ops.filter fun w => (parseStage false w).isSome || (parseStage true w).isSome
    let out := modelOut chain es
    let implLines := c.implOut.filter fun l => !l.startsWith "ins "
    let impl := implLines.filterMap parseElem
    let oracle :=
      if impl.length ≠ implLines.length then some s!"unparsable implementation output {c.implOut.take 5}"
      else oracle chain es impl
    let plain := es.any fun | .item _ => true | _ => false
    let tsd := es.any fun | .ts _ _ => true | _ => false
    let iters := (es.filter (· == Elem.far)).length
    -- iteration bodies
    let bodies : List (List (Elem Val)) :=
      (es.foldl (fun (acc : List (List (Elem Val)) × List (Elem Val)) e =>
        match e with
        | .far => (acc.1 ++ [acc.2], [])
        | e => (acc.1, acc.2 ++ [e])) ([], [])).1
    -- a plain Item directly downstream of a Timestamped element (what seeded C16-3 needs)
    let rec staleShape : List (Elem Val) → Bool
      | .ts _ _ :: rest => (match rest.find? Elem.isData with | some (.item _) => true | _ => false) || staleShape rest
      | _ :: rest => staleShape rest
      | [] => false
    { out, oracle,
      nontrivial := !stages.isEmpty && (dataOf es).length ≥ 2,
      tags := (stages.map kindOf).eraseDups ++
        [s!"chain{min stages.length 3}", s!"iters{min iters 3}",
         if plain && tsd then "mixed" else if tsd then "ts" else if plain then "plain" else "nodata"] ++
        (if bodies.any (·.isEmpty) then ["empty-iter"] else []) ++
        (if bodies.any (fun b => !b.isEmpty && !b.any Elem.isData) then ["ctrl-only-iter"] else []) ++
        (if staleShape es then ["item-after-ts"] else []) ++
        (if grammarOk es then [] else ["malformed"]) ++
        (if wmSafeOk es then [] else ["wm-unsafe"]) }
  | _ => { out := [], oracle := some "bad header", nontrivial := false }

end Noir.Driver.Stateless
