/-
  Driver/Route.lean — the real `RoutingEnd` on a fake topology (C09, route part).
  header: `<id> route`            (the producer replica is `0.0.0`)
  ops:    `r <block> <pred> <nrep>`   a route: downstream block id (≥ 1; a repeated block id, `nrep = 0` and
                                      routes beyond the 4th are skipped), named predicate, number of connected
                                      replicas `(block,0,0..nrep-1)` (at most 2)
          `e <elem>`                  scripted element (payload: an int)
  outputs: one line per step and distinct element received at that step: `<step> <elem> <receiver b.h.r,…>` (sorted).
           A panic replaces the whole output by `panic:<class>`.
-/
import Driver.Proto
import NoirVerif.Model.Route
namespace Noir.Driver.Route
open Noir Noir.Driver Noir.Placement Noir.Router

def coordStr (c : Coord) : String := s!"{c.block}.{c.host}.{c.replica}"

def parseCoord (s : String) : Option Coord :=
  match s.splitOn "." with
  | [b, h, r] => do pure ⟨← b.toNat?, ← h.toNat?, ← r.toNat?⟩
  | _ => none

/-- the library of named predicates (mirrors `pred_of` in harness/src/bin/route.rs) -/
def predOf (name : String) (v : Val) : Bool :=
  let n : Int := match v with | .int n => n | _ => 0
  match name with
  | "div2" => n % 2 == 0
  | "div3" => n % 3 == 0
  | "div5" => n % 5 == 0
  | "odd" => n % 2 != 0
  | "lt0" => n < 0
  | "lt5" => n < 5
  | "lt10" => n < 10
  | "ge5" => n ≥ 5
  | "always" => true
  | _ => false          -- "never" and unknown names

structure RouteDef where
  block : Nat
  pred : String
  nrep : Nat

def parseRoutes (ops : List (List String)) : List RouteDef :=
  let rec go (ops : List (List String)) (acc : List RouteDef) : List RouteDef :=
    match ops with
    | [] => acc.reverse
    | ["r", b, p, n] :: rest =>
      match b.toNat?, n.toNat? with
      | some b, some n =>
        if b == 0 || n == 0 || acc.length ≥ 4 || acc.any (·.block == b) then go rest acc
        else go rest (⟨b, p, min n 2⟩ :: acc)
      | _, _ => go rest acc
    | _ :: rest => go rest acc
  go ops []

def coordLe (a b : Coord) : Bool := lexLe a.key b.key

def insertSorted (c : Coord) : List Coord → List Coord
  | [] => [c]
  | d :: ds => if coordLe c d then c :: d :: ds else d :: insertSorted c ds

def sortCoords (l : List Coord) : List Coord := l.foldr insertSorted []

structure ImplLine where
  step : Nat
  elem : String
  recv : List Coord

def parseImplLine (s : String) : Option ImplLine :=
  match words s with
  | [i, e, cs] => do pure { step := ← i.toNat?, elem := e, recv := ← (cs.splitOn ",").mapM parseCoord }
  | _ => none

def sameSet (a b : List Coord) : Bool :=
  a.length == b.length && a.all b.contains && b.all a.contains

def bad (msg : String) : Verdict := { out := [], oracle := some msg, nontrivial := false }

def handle (c : Case) : Verdict := Id.run do
  let routes := parseRoutes c.ops
  let es := c.ops.filterMap fun w => match w with | ["e", e] => parseElem e | _ => none
  let connected : List Coord := routes.flatMap fun r => (List.range r.nrep).map fun i => ⟨r.block, 0, i⟩
  -- model
  let preds : List (Val → Bool) := routes.map fun r => predOf r.pred
  let out : List String :=
    match Noir.Route.setup 0 (routes.map (·.block)) (connected.map (·, false)) with
    | none => ["panic:setup"]
    | some st0 => Id.run do
      let mut st := st0
      let mut out : List String := []
      let mut i := 0
      for e in es do
        let (st', enq) := Noir.Route.step preds 0 st e
        st := st'
        let recv := enq.filterMap fun p => st.senders[p.1]?.map (·.coord)
        if !recv.isEmpty then
          out := s!"{i} {elemToStr e} {",".intercalate ((sortCoords recv).map coordStr)}" :: out
        i := i + 1
      if st.panicked then return ["panic:index"]
      return out.reverse
  -- oracle (spec side): first matching route only, unmatched dropped, control to every route
  let termIdx := es.findIdx? Elem.isTerm
  let wellFormed := match termIdx with | some k => k + 1 == es.length | none => true
  let isPanic := match c.implOut with | [l] => l.startsWith "panic:" | _ => false
  let mut fails : List String := []
  if isPanic then
    if wellFormed then fails := [s!"implementation panicked on a well-formed stream: {c.implOut}"]
  else
    match c.implOut.mapM parseImplLine with
    | none => fails := ["unparsable implementation output"]
    | some lines =>
      let mut i := 0
      for e in es do
        let here := lines.filter (·.step == i)
        let pre := s!"step {i} {elemToStr e}: "
        -- only the element itself may be received
        if here.any (·.elem != elemToStr e) then
          fails := (pre ++ "a receiver got a different element") :: fails
        let recv := here.flatMap (·.recv)
        if !(recv.all connected.contains) then
          fails := (pre ++ "received by a replica that is not connected") :: fails
        match e with
        | .item v | .ts v _ =>
          match routes.find? (fun r => predOf r.pred v) with
          | none =>
            if !recv.isEmpty then
              fails := (pre ++ s!"no route matches but it was delivered to {recv.map coordStr}") :: fails
          | some r =>
            if recv.length != 1 || recv.any (·.block != r.block) then
              fails := (pre ++ s!"first matching route is block {r.block} but it was delivered to {recv.map coordStr}") :: fails
        | .flushBatch =>
          if !recv.isEmpty then fails := (pre ++ "FlushBatch was sent downstream") :: fails
        | _ =>
          if !sameSet recv connected then
            fails := (pre ++ s!"control element reached {recv.map coordStr}, connected {connected.map coordStr}") :: fails
        i := i + 1
      if lines.any (fun l => l.step ≥ es.length) then fails := "output for a step that does not exist" :: fails
  let oracle := if fails.isEmpty then none else some (" | ".intercalate fails.reverse)
  let datas := es.filterMap Elem.value
  let nMatchFirst := (datas.filter fun v => (routes.head?.map fun r => predOf r.pred v) == some true).length
  let nUnmatched := (datas.filter fun v => !(routes.any fun r => predOf r.pred v)).length
  let nLater := datas.length - nMatchFirst - nUnmatched
  let overlap := datas.any fun v => (routes.filter fun r => predOf r.pred v).length ≥ 2
  return { out, oracle, nontrivial := !datas.isEmpty && !routes.isEmpty,
           tags := [s!"routes{routes.length}", if wellFormed then "wellformed" else "malformed"]
             ++ (if nUnmatched > 0 then ["unmatched"] else []) ++ (if nLater > 0 then ["laterRoute"] else [])
             ++ (if nMatchFirst > 0 then ["firstRoute"] else []) ++ (if overlap then ["overlap"] else [])
             ++ (if routes.any (·.nrep == 2) then ["2replicas"] else []) }

end Noir.Driver.Route
