/-
  Driver/Cwinop.lean — keyed count windows + the real window aggregators through the real
  `WindowOperator` (C12, keyed part).
  header: `<id> cwinop <N> <S> <exact> <agg> <mode>`; ops: `e <elem>`, payloads `(<key>,<id>,<v>)`.
  mode `op`: outputs `<n> <d|c> <elem>` = the operator's output elements in order, `n` = number of
    data elements pulled when the element was returned, `d`/`c` = the element that triggered it was
    a data / control element; the results triggered by ONE input element are sorted (hash-map
    order of the managers at `FlushAndRestart`/`Terminate`), on both sides.
  mode `seq<P>` / `par<P>`: whole engine (`group_by`, P replicas); one line `<key> [<results>]` per key.

  model  = Model/WindowOp.lean (dispatch) instantiated with `CountWindow.mgr`
           (Model/CountWindowOp.lean, free accumulator), every emitted group mapped through the
           accumulator triple of the aggregator (Model/WindowAggr.lean, `Acc.run`);
  oracle = the property (Props/C12.lean `countWindow_aggregators`, Props/C12WinOp.lean
           `cwin_keyed_groups`, `cwin_keyed_prefix`, `cwin_keyed_never_mix`, `cwin_keyed_aggregate`),
           computed from the input alone, without the manager model: per key and iteration the
           sliding groups of that key's arrivals, each right after its N-th element, then the
           end-of-iteration group; every result = the aggregator applied to exactly the group's
           elements in arrival order.
-/
import Driver.Proto
import NoirVerif.Model.CountWindowOp
import NoirVerif.Model.WindowAggr
namespace Noir.Driver.Cwinop
open Noir Noir.Driver Noir.CountWindow Noir.WindowAggr

def sortStr (l : List String) : List String := (l.toArray.qsort (· < ·)).toList

def keyOf : Val → String
  | .tup (k :: _) => k.toStr
  | v => v.toStr

/-- third component of the payload -/
def valOf : Val → Int
  | .tup [_, _, .int v] => v
  | _ => 0

/-! ### the aggregators (cwinop.rs `apply_agg`), as accumulator triples -/

def optVal : Option Val → Val
  | some v => v
  | none => .none          -- `expect` panic (never: groups are non-empty)

def optInt : Option Int → Val
  | some v => .int v
  | none => .none

/-- value printed for a group -/
def aggOf (agg : String) (g : List Val) : Val :=
  match agg with
  | "collect" => .list ((fold ([] : List Val) (fun v x => v ++ [x])).run g)
  | "map" => .list ((collectVec (fun v : List Val => v)).run g)
  | "sum" => .int ((sum (0 : Int) (fun s x => s + valOf x)).run g)
  | "count" => .int ((count (α := Val)).run g)
  | "min" => optInt ((minBy (fun x m : Int => decide (x < m))).run (g.map valOf))
  | "max" => optInt ((maxBy (fun x m : Int => decide (x > m))).run (g.map valOf))
  | "mink" => optVal ((minBy (fun x m : Val => decide (valOf x < valOf m))).run g)
  | "maxk" => optVal ((maxBy (fun x m : Val => decide (valOf x > valOf m))).run g)
  | "first" => optVal ((first (α := Val)).run g)
  | "last" => optVal ((last (α := Val)).run g)
  | "foldnc" => .int ((fold (0 : Int) (fun s x => (s * 31 + valOf x) % 1000003)).run g)
  | _ => .none

/-- an output line before printing -/
structure Line where
  isData : Bool
  n : Nat
  ctrl : Bool        -- triggered by a control element
  txt : String

def Line.str (l : Line) : String := s!"{l.n} {if l.ctrl then "c" else "d"} {l.txt}"

/-- the script as the source replays it: up to the first `TERM` (supplied if missing) -/
def cutAtTerm : List (Elem Val) → List (Elem Val)
  | [] => [.term]
  | .term :: _ => [.term]
  | e :: es => e :: cutAtTerm es

def keyed (es : List (Elem Val)) : List (Elem (String × Val)) := es.map (Elem.map fun v => (keyOf v, v))

def fmtData (k : String) (v : Val) (ts : Option Int) : String :=
  match ts with
  | some t => s!"T:({k},{v}):{t}"
  | none => s!"I:({k},{v})"

def fmtOut (agg : String) (n : Nat) (ctrl : Bool) (e : Elem (String × List Val)) : Line :=
  match e with
  | .ts (k, items) t => ⟨true, n, ctrl, fmtData k (aggOf agg items) (some t)⟩
  | .item (k, items) => ⟨true, n, ctrl, fmtData k (aggOf agg items) none⟩
  | .wm t => ⟨false, n, ctrl, elemToStr (.wm t)⟩
  | .flushBatch => ⟨false, n, ctrl, "FB"⟩
  | .term => ⟨false, n, ctrl, "TERM"⟩
  | .far => ⟨false, n, ctrl, "FAR"⟩

/-- number of data elements among the first `i + 1` input elements, for every `i` -/
def dataCounts (es : List (Elem Val)) : List Nat :=
  let rec go (es : List (Elem Val)) (n : Nat) : List Nat :=
    match es with
    | [] => []
    | e :: rest => let n' := if e.isData then n + 1 else n; n' :: go rest n'
  go es 0

/-- units of lines → printed lines, each unit's data lines sorted -/
def printUnits (us : List (List Line)) : List String :=
  us.flatMap fun u => sortStr ((u.filter (·.isData)).map Line.str) ++ (u.filter (!·.isData)).map Line.str

/-- model output, `op` mode: one unit per input element -/
def modelUnits (cfg : Cfg) (agg : String) (es : List (Elem Val)) : List (List Line) :=
  let units := WindowOp.runUnits (mgr (α := Val) cfg) WindowOp.State.init (keyed es)
  ((units.zip (dataCounts es)).zip es).map fun ((u, n), e) => u.map (fmtOut agg n (!e.isData))

/-! ### the property oracle (spec side; does not use the manager model) -/

/-- expected output, unit by unit. `cur` = per key the arrivals of the current iteration. -/
def specUnits (cfg : Cfg) (agg : String) (es : List (Elem Val)) : List (List Line) :=
  let rec go (es : List (Elem Val)) (n : Nat) (cur : List (String × List Val))
      (acc : List (List Line)) : List (List Line) :=
    match es with
    | [] => acc.reverse
    | e :: rest =>
      match e with
      | .item v | .ts v _ =>
        let k := keyOf v
        let old := (cur.lookup k).getD []
        let now := old ++ [v]
        let cur' := if (cur.lookup k).isSome then cur.map (fun p => if p.1 == k then (k, now) else p) else cur ++ [(k, now)]
        -- a group completes iff |now| ≥ N ∧ (|now| - N) % S = 0: the last N arrivals of the key
        let grp : List Line :=
          if now.length ≥ cfg.size ∧ (now.length - cfg.size) % cfg.slide = 0 then
            [⟨true, n + 1, false, s!"({k},{aggOf agg (now.drop (now.length - cfg.size))})"⟩]
          else []
        go rest (n + 1) cur' (grp :: acc)
      | .far | .term =>
        let ends : List Line := cur.filterMap fun (k, arr) =>
          let r := residual cfg.size cfg.slide arr
          if !cfg.exact ∧ !r.isEmpty then some ⟨true, n, true, s!"({k},{aggOf agg r})"⟩ else none
        go rest n [] ((ends ++ [⟨false, n, true, elemToStr e⟩]) :: acc)
      | _ => go rest n cur ([⟨false, n, true, elemToStr e⟩] :: acc)
  go es 0 [] []

/-- an implementation line: count, flag, element -/
def parseLine (s : String) : Option (Nat × Bool × Elem Val) :=
  match words s with
  | [n, f, e] => do
    let n ← n.toNat?
    let e ← parseElem e
    let f ← if f == "c" then some true else if f == "d" then some false else none
    pure (n, f, e)
  | _ => none

/-- content of a data line without its stamp: `(k,v)` -/
def contentOf : Elem Val → Option String
  | .item v => some v.toStr
  | .ts v _ => some v.toStr
  | _ => none

/-- iteration (number of `FAR`/`TERM` before it) of every input payload -/
def iterOfPayload (es : List (Elem Val)) : List (String × Nat) :=
  let rec go (es : List (Elem Val)) (it : Nat) (acc : List (String × Nat)) : List (String × Nat) :=
    match es with
    | [] => acc
    | e :: rest =>
      match e with
      | .item v | .ts v _ => go rest it ((v.toStr, it) :: acc)
      | .far | .term => go rest (it + 1) acc
      | _ => go rest it acc
  go es 0 []

def firstDiff (a b : List String) (i : Nat) : String :=
  match a, b with
  | x :: a', y :: b' => if x == y then firstDiff a' b' (i + 1) else s!"output line {i}: impl `{x}` spec `{y}`"
  | x :: _, [] => s!"output line {i}: impl `{x}` spec has no more lines"
  | [], y :: _ => s!"output line {i}: impl has no more lines, spec `{y}`"
  | [], [] => "?"

/-- the implementation lines are already sorted per unit (by the harness, which knows which input
    element triggered each line); the spec is sorted per unit here -/
def oracleOp (cfg : Cfg) (agg : String) (es : List (Elem Val)) (impl : List (Nat × Bool × Elem Val)) : List String :=
  let specCanon := printUnits (specUnits cfg agg es)
  let implCanon : List String := impl.map fun (n, f, e) =>
    match contentOf e with
    | some c => (Line.mk true n f c).str
    | none => (Line.mk false n f (elemToStr e)).str
  -- never mix keys / iterations (only visible with the collecting aggregators)
  let iters := iterOfPayload es
  let mix : List String :=
    if agg != "collect" && agg != "map" then [] else
    let rec go (ls : List (Nat × Bool × Elem Val)) (it : Nat) (acc : List String) : List String :=
      match ls with
      | [] => acc
      | (n, _, e) :: rest =>
        match e with
        | .item (.tup [k, .list l]) | .ts (.tup [k, .list l]) _ =>
          let badKey := l.filter fun v => keyOf v != k.toStr
          let badIt := l.filter fun v => (iters.lookup v.toStr) != some it
          go rest it (acc ++
            (if badKey.isEmpty then [] else [s!"result of key {k} (after {n} data elements) mixes keys: contains {Val.list badKey}"]) ++
            (if badIt.isEmpty then [] else [s!"result of key {k} in iteration {it} mixes iterations / contains unknown elements: {Val.list badIt}"]))
        | .item _ | .ts _ _ => go rest it (acc ++ [s!"malformed result {elemToStr e}"])
        | .far | .term => go rest (it + 1) acc
        | _ => go rest it acc
    go impl 0 []
  let cmp : List String :=
    if implCanon == specCanon then [] else
      [s!"{agg}: results/positions differ from the aggregator applied to the per-key sliding groups: {firstDiff implCanon specCanon 0}"]
  mix ++ cmp

/-! ### engine modes -/

def dataOnly (es : List (Elem Val)) : List Val := es.filterMap Elem.value

def keysOf (vs : List Val) : List String := (vs.map keyOf).eraseDups

def sortKeys (ks : List String) : List String :=
  (ks.toArray.qsort (fun a b => a.toInt?.getD 0 < b.toInt?.getD 0)).toList

/-- model: the operator on `data ++ [FAR, TERM]`, results per key in order -/
def modelEngine (cfg : Cfg) (agg : String) (vs : List Val) : List String :=
  let es : List (Elem Val) := vs.map Elem.item ++ [.far, .term]
  let out := WindowOp.run (mgr (α := Val) cfg) (keyed es)
  (sortKeys (keysOf vs)).filterMap fun k =>
    let rs := out.filterMap fun e => match e with
      | .item (k', items) => if k' == k then some (aggOf agg items) else none
      | .ts (k', items) _ => if k' == k then some (aggOf agg items) else none
      | _ => none
    if rs.isEmpty then none else some s!"{k} {Val.list rs}"

/-- spec: per key the sliding groups of its arrival sequence, then the residual group -/
def specEngine (cfg : Cfg) (agg : String) (vs : List Val) : List String :=
  (sortKeys (keysOf vs)).filterMap fun k =>
    let arr := vs.filter fun v => keyOf v == k
    let full := (List.range arr.length).filterMap fun i =>
      if i + 1 ≥ cfg.size ∧ (i + 1 - cfg.size) % cfg.slide = 0 then some ((arr.take (i + 1)).drop (i + 1 - cfg.size)) else none
    let r := residual cfg.size cfg.slide arr
    let gs := full ++ (if !cfg.exact ∧ !r.isEmpty then [r] else [])
    if gs.isEmpty then none else some s!"{k} {Val.list (gs.map (aggOf agg))}"

/-- some key receives an element, then another key does, then the first again, inside one iteration -/
def interleaved (es : List (Elem Val)) : Bool :=
  let rec go (es : List (Elem Val)) (last : Option String) (left : List String) : Bool :=
    match es with
    | [] => false
    | e :: rest =>
      match e with
      | .item v | .ts v _ =>
        let k := keyOf v
        if left.contains k then true
        else
          let left' := match last with
            | some l => if l != k && !left.contains l then l :: left else left
            | none => left
          go rest (some k) left'
      | .far | .term => go rest none []
      | _ => go rest last left
  go es none []

def handle (c : Case) : Verdict :=
  match c.header with
  | _ :: _ :: n :: s :: ex :: more =>
    match n.toNat?, s.toNat?, ex.toNat? with
    | some n, some s, some ex =>
      let agg := more.headD "collect"
      let mode := (more.drop 1).headD "op"
      let cfg : Cfg := ⟨n, s, ex == 1⟩
      let es0 := c.ops.filterMap fun w => match w with | ["e", e] => parseElem e | _ => none
      let es := cutAtTerm es0
      let nData := (es.filter Elem.isData).length
      let ks := keysOf (dataOnly es)
      let baseTags := [s!"N{if n == s then "=S" else if s == 1 then ",S=1" else if n % s == 0 then "%S=0" else "%S!=0"}",
        if n ≥ 8 then "N>=8" else "N<8", s!"slots{min ((n + s - 1) / s) 6}",
        s!"keys{ks.length}", if ex == 1 then "exact" else "inexact", s!"agg:{agg}", s!"mode:{mode.take 3}"]
      let panicked := match c.implOut with | [l] => l.startsWith "panic:" | _ => false
      if panicked then
        { out := [], oracle := some s!"[C12] {c.implOut.headD ""} on a well-formed input", nontrivial := false, tags := baseTags ++ ["panic"] }
      else if mode == "op" then
        let mu := modelUnits cfg agg es
        let out := printUnits mu
        let nRes := (mu.flatten.filter (·.isData)).length
        let tags := baseTags ++ [s!"res{min nRes 3}"] ++
          (if (es.filter Elem.isFar).length > 1 then ["multi-iter"] else []) ++
          (if interleaved es then ["interleaved"] else []) ++
          (if (specUnits cfg agg es).any (fun u => (u.filter (·.isData)).length ≥ 2) then ["end-unit>1"] else [])
        match c.implOut.mapM parseLine with
        | none => { out, oracle := some "[C12] unparsable implementation output", nontrivial := false, tags }
        | some impl =>
          let fs := oracleOp cfg agg es impl
          let orc := match fs with
            | [] => none
            | f :: _ => some s!"[C12] {f} ({fs.length} failures)"
          { out, oracle := orc, nontrivial := nRes ≥ 1 && nData ≥ cfg.size, tags }
      else
        let vs := dataOnly es
        let out := modelEngine cfg agg vs
        let spec := specEngine cfg agg vs
        let orc := if c.implOut == spec then none else
          some s!"[C12] engine ({mode}) {agg}: per-key results differ from the aggregator applied to the per-key sliding groups: {firstDiff c.implOut spec 0}"
        { out, oracle := orc, nontrivial := !out.isEmpty && nData ≥ cfg.size, tags := baseTags ++ [s!"res{min out.length 3}"] }
    | _, _, _ => { out := [], oracle := some "bad header", nontrivial := false }
  | _ => { out := [], oracle := some "bad header", nontrivial := false }

end Noir.Driver.Cwinop
