/-
  Driver/Cwinop.lean — keyed count windows through the real `WindowOperator` (C12, keyed part).
  header: `<id> cwinop <N> <S> <exact>`; ops: `e <elem>` with payloads `(<key>,<id>)`;
  outputs: `<n> <elem>` = the operator's output elements in order, `n` = number of data elements
  consumed when the element was returned; maximal runs of data lines with equal `n` are sorted
  (hash-map order of the results emitted for one `FlushAndRestart`/`Terminate`), on both sides.

  model  = Model/WindowOp.lean (dispatch) instantiated with `CountWindow.mgr` (Model/CountWindowOp.lean);
  oracle = the property (Props/C12WinOp.lean `cwin_keyed_groups`, `cwin_keyed_prefix`,
           `cwin_keyed_never_mix`), computed from the input alone, without the manager model:
           per key and iteration the sliding groups of that key's arrivals, each right after its
           N-th element, then the end-of-iteration group; nothing mixes keys or iterations.
-/
import Driver.Proto
import NoirVerif.Model.CountWindowOp
namespace Noir.Driver.Cwinop
open Noir Noir.Driver Noir.CountWindow

def sortStr (l : List String) : List String := (l.toArray.qsort (· < ·)).toList

/-- an output line before printing: is it a data element, the count `n`, the element text -/
structure Line where
  isData : Bool
  n : Nat
  txt : String

def Line.str (l : Line) : String := s!"{l.n} {l.txt}"

/-- sort every maximal run of data lines with the same count (same as `canon` in cwinop.rs) -/
def canon (ls : List Line) : List String :=
  let rec go (ls : List Line) (unit : List String) (un : Nat) (acc : List String) : List String :=
    match ls with
    | [] => acc ++ sortStr unit
    | l :: rest =>
      if l.isData && (unit.isEmpty || un == l.n) then go rest (unit ++ [l.str]) l.n acc
      else if l.isData then go rest [l.str] l.n (acc ++ sortStr unit)
      else go rest [] 0 (acc ++ sortStr unit ++ [l.str])
  go ls [] 0 []

def keyOf : Val → String
  | .tup (k :: _) => k.toStr
  | v => v.toStr

/-- the script as `ScriptOp` replays it: up to the first `TERM` (supplied if missing) -/
def cutAtTerm : List (Elem Val) → List (Elem Val)
  | [] => [.term]
  | .term :: _ => [.term]
  | e :: es => e :: cutAtTerm es

def keyed (es : List (Elem Val)) : List (Elem (String × Val)) := es.map (Elem.map fun v => (keyOf v, v))

def fmtData (k : String) (items : List Val) (ts : Option Int) : String :=
  match ts with
  | some t => s!"T:({k},{Val.list items}):{t}"
  | none => s!"I:({k},{Val.list items})"

def fmtOut (n : Nat) (e : Elem (String × List Val)) : Line :=
  match e with
  | .ts (k, items) t => ⟨true, n, fmtData k items (some t)⟩
  | .item (k, items) => ⟨true, n, fmtData k items none⟩
  | .wm t => ⟨false, n, elemToStr (.wm t)⟩
  | .flushBatch => ⟨false, n, "FB"⟩
  | .term => ⟨false, n, "TERM"⟩
  | .far => ⟨false, n, "FAR"⟩

/-- number of data elements among the first `i + 1` input elements, for every `i` -/
def dataCounts (es : List (Elem Val)) : List Nat :=
  let rec go (es : List (Elem Val)) (n : Nat) : List Nat :=
    match es with
    | [] => []
    | e :: rest => let n' := if e.isData then n + 1 else n; n' :: go rest n'
  go es 0

/-- model output -/
def modelLines (cfg : Cfg) (es : List (Elem Val)) : List Line :=
  let units := WindowOp.runUnits (mgr (α := Val) cfg) WindowOp.State.init (keyed es)
  (units.zip (dataCounts es)).flatMap fun (u, n) => u.map (fmtOut n)

/-! ### the property oracle (spec side; does not use the manager model) -/

/-- expected output, unit by unit: (lines of the unit in any order — only `FlushAndRestart` /
    `Terminate` units can have more than one —, then the forwarded control line, if any).
    `cur` = per key the arrivals of the current iteration (association list in first-arrival order). -/
def specUnits (cfg : Cfg) (es : List (Elem Val)) : List (List Line × Option Line) :=
  let rec go (es : List (Elem Val)) (n : Nat) (cur : List (String × List Val))
      (acc : List (List Line × Option Line)) : List (List Line × Option Line) :=
    match es with
    | [] => acc.reverse
    | e :: rest =>
      match e with
      | .item v | .ts v _ =>
        let k := keyOf v
        let old := (cur.lookup k).getD []
        let now := old ++ [v]
        let cur' := if (cur.lookup k).isSome then cur.map (fun p => if p.1 == k then (k, now) else p) else cur ++ [(k, now)]
        -- a group completes iff |now| ≥ N ∧ (|now| - N) % S = 0: the last N arrivals of the key
        let grp : List Line :=
          if now.length ≥ cfg.size ∧ (now.length - cfg.size) % cfg.slide = 0 then
            -- the stamp is checked by the model diff only: here we print the content
            [⟨true, n + 1, s!"({k},{Val.list (now.drop (now.length - cfg.size))})"⟩]
          else []
        go rest (n + 1) cur' ((grp, none) :: acc)
      | .far | .term =>
        let ends : List Line := cur.filterMap fun (k, arr) =>
          let r := residual cfg.size cfg.slide arr
          if !cfg.exact ∧ !r.isEmpty then some ⟨true, n, s!"({k},{Val.list r})"⟩ else none
        go rest n [] ((ends, some ⟨false, n, elemToStr e⟩) :: acc)
      | _ => go rest n cur (([], some ⟨false, n, elemToStr e⟩) :: acc)
  go es 0 [] []

/-- an implementation line: count, element -/
def parseLine (s : String) : Option (Nat × Elem Val) :=
  match words s with
  | [n, e] => do
    let n ← n.toNat?
    let e ← parseElem e
    pure (n, e)
  | _ => none

/-- content of a data line without its stamp: `(k,[..])` -/
def contentOf : Elem Val → Option String
  | .item v => some v.toStr
  | .ts v _ => some v.toStr
  | _ => none

/-- iteration (number of `FAR`/`TERM` before it) of every input payload -/
def iterOfPayload (es : List (Elem Val)) : List (String × Nat) :=
  let rec go (es : List (Elem Val)) (it : Nat) (acc : List (String × Nat)) : List (String × Nat) :=
    match es with
    | [] => acc
    | e :: rest =>
      match e with
      | .item v | .ts v _ => go rest it ((v.toStr, it) :: acc)
      | .far | .term => go rest (it + 1) acc
      | _ => go rest it acc
  go es 0 []

def oracle (cfg : Cfg) (es : List (Elem Val)) (impl : List (Nat × Elem Val)) : List String :=
  let spec := specUnits cfg es
  -- the spec as a line sequence in the same canonical form as the implementation output
  let specLines : List Line := spec.flatMap fun (ds, c) => ds ++ c.toList
  let specCanon := canon specLines
  let implLines : List Line := impl.map fun (n, e) =>
    match contentOf e with
    | some c => ⟨true, n, c⟩
    | none => ⟨false, n, elemToStr e⟩
  let implCanon := canon implLines
  -- never mix keys / iterations (diagnosed separately)
  let iters := iterOfPayload es
  let mix : List String :=
    let rec go (ls : List (Nat × Elem Val)) (it : Nat) (acc : List String) : List String :=
      match ls with
      | [] => acc
      | (n, e) :: rest =>
        match e with
        | .item (.tup [k, .list l]) | .ts (.tup [k, .list l]) _ =>
          let badKey := l.filter fun v => keyOf v != k.toStr
          let badIt := l.filter fun v => (iters.lookup v.toStr) != some it
          go rest it (acc ++
            (if badKey.isEmpty then [] else [s!"result of key {k} (after {n} data elements) mixes keys: contains {Val.list badKey}"]) ++
            (if badIt.isEmpty then [] else [s!"result of key {k} in iteration {it} mixes iterations / contains unknown elements: {Val.list badIt}"]))
        | .item _ | .ts _ _ => go rest it (acc ++ [s!"malformed result {elemToStr e}"])
        | .far | .term => go rest (it + 1) acc
        | _ => go rest it acc
    go impl 0 []
  let cmp : List String :=
    if implCanon == specCanon then [] else
      let rec firstDiff (a b : List String) (i : Nat) : String :=
        match a, b with
        | x :: a', y :: b' => if x == y then firstDiff a' b' (i + 1) else s!"output line {i}: impl `{x}` spec `{y}`"
        | x :: _, [] => s!"output line {i}: impl `{x}` spec has no more lines"
        | [], y :: _ => s!"output line {i}: impl has no more lines, spec `{y}`"
        | [], [] => "?"
      [s!"groups/positions differ from the per-key sliding groups: {firstDiff implCanon specCanon 0}"]
  mix ++ cmp

/-- some key receives an element, then another key does, then the first again, inside one iteration -/
def interleaved (es : List (Elem Val)) : Bool :=
  let rec go (es : List (Elem Val)) (seen : List String) (last : Option String) (left : List String) : Bool :=
    match es with
    | [] => false
    | e :: rest =>
      match e with
      | .item v | .ts v _ =>
        let k := keyOf v
        if left.contains k then true
        else
          let left' := match last with
            | some l => if l != k && !left.contains l then l :: left else left
            | none => left
          go rest (k :: seen) (some k) left'
      | .far | .term => go rest [] none []
      | _ => go rest seen last left
  go es [] none []

def handle (c : Case) : Verdict :=
  match c.header with
  | [_, _, n, s, ex] =>
    match n.toNat?, s.toNat?, ex.toNat? with
    | some n, some s, some ex =>
      let cfg : Cfg := ⟨n, s, ex == 1⟩
      let es0 := c.ops.filterMap fun w => match w with | ["e", e] => parseElem e | _ => none
      let es := cutAtTerm es0
      let ml := modelLines cfg es
      let out := canon ml
      let nData := (es.filter Elem.isData).length
      let ks := (es.filterMap Elem.value).map keyOf |>.eraseDups
      let nRes := (ml.filter (·.isData)).length
      let baseTags := [s!"N{if n == s then "=S" else if s == 1 then ",S=1" else if n % s == 0 then "%S=0" else "%S!=0"}",
        s!"keys{ks.length}", if ex == 1 then "exact" else "inexact", s!"res{min nRes 3}"] ++
        (if (es.filter Elem.isFar).length > 1 then ["multi-iter"] else []) ++
        (if interleaved es then ["interleaved"] else []) ++
        -- an end-of-iteration unit with results of several keys (hash-map order matters)
        (if (specUnits cfg es).any (fun u => u.1.length ≥ 2) then ["end-unit>1"] else [])
      match c.implOut with
      | [l] =>
        if l.startsWith "panic:" then
          { out, oracle := some s!"[C12] {l} on a well-formed input", nontrivial := false, tags := baseTags ++ ["panic"] }
        else finish cfg es out nData nRes baseTags c.implOut
      | _ => finish cfg es out nData nRes baseTags c.implOut
    | _, _, _ => { out := [], oracle := some "bad header", nontrivial := false }
  | _ => { out := [], oracle := some "bad header", nontrivial := false }
where
  finish (cfg : Cfg) (es : List (Elem Val)) (out : List String) (nData nRes : Nat) (tags : List String)
      (implOut : List String) : Verdict :=
    match implOut.mapM parseLine with
    | none => { out, oracle := some "[C12] unparsable implementation output", nontrivial := false, tags }
    | some impl =>
      let fs := oracle cfg es impl
      let orc := match fs with
        | [] => none
        | f :: _ => some s!"[C12] {f} ({fs.length} failures)"
      { out, oracle := orc, nontrivial := nRes ≥ 1 && nData ≥ cfg.size, tags }

end Noir.Driver.Cwinop
