/-
  Driver/Twin.lean — transaction window cases (C13).
  header: `<id> twin <mode>`; payload `(<key>,<cmd>,<arg>,<id>)`, `cmd` = 0 Continue, 1 Commit,
  2 CommitAfter(arg), 3 Discard (the scripted user logic); ops `e <elem>`.
  mode `mgr`: outputs `<op idx> I:[..]`; mode `op`: the operator's output elements, data lines
  between two control lines sorted.
-/
import Driver.Etwin
import NoirVerif.Model.TransactionWindow
namespace Noir.Driver.Twin
open Noir Noir.Driver Noir.TransactionWindow

/-- the scripted user logic (same decoding as `logic` in harness/src/bin/twin.rs) -/
def logic : Val → TxOp
  | .tup (_ :: .int 1 :: _ :: _) => .commit
  | .tup (_ :: .int 2 :: .int t :: _) => .commitAfter t
  | .tup (_ :: .int 3 :: _ :: _) => .discard
  | _ => .continue_

def fmtRes (idx : Nat) (r : Res Val) : String :=
  match r.ts with
  | some t => s!"{idx} {elemToStr (.ts (Val.list r.val) t)}"
  | none => s!"{idx} {elemToStr (.item (Val.list r.val))}"

def fmtOpElem (e : Elem (String × List Val)) : Bool × String :=
  match e with
  | .ts (_, items) t =>
    let k := match items with | v :: _ => Etwin.keyVal v | [] => Val.none
    (true, elemToStr (.ts (.tup [k, .list items]) t))
  | .item (_, items) =>
    let k := match items with | v :: _ => Etwin.keyVal v | [] => Val.none
    (true, elemToStr (.item (.tup [k, .list items])))
  | .wm t => (false, elemToStr (.wm t))
  | .flushBatch => (false, "FB")
  | .term => (false, "TERM")
  | .far => (false, "FAR")

/-! ### spec: the trace semantics of the four commands, per key

  A transaction of a key is the run of its elements since the last close. It closes
  * at an element whose command is `Commit` (result = the run including that element),
  * at an element whose command is `Discard` (no result),
  * at the first watermark strictly greater than the deadline registered by the most recent
    `CommitAfter` of the run, or at the end of the iteration / stream if a deadline is registered
    (result = the run).
  Nothing else produces a result. -/

structure Open where
  key : String
  items : List Val
  deadline : Option Int

/-- expected results `(op idx, key, items)`, in order of op idx (per idx: in key insertion order) -/
def spec (single : Bool) (es : List (Elem Val)) : List (Nat × String × List Val) :=
  let rec go (es : List (Elem Val)) (i : Nat) (opens : List Open) (acc : List (Nat × String × List Val)) :
      List (Nat × String × List Val) :=
    match es with
    | [] => acc.reverse
    | e :: rest =>
      match e with
      | .ts v _ =>
        let k := if single then "" else Etwin.keyOf v
        let cur := (opens.find? (·.key == k)).getD ⟨k, [], none⟩
        let others := opens.filter (·.key != k)
        let items := cur.items ++ [v]
        match logic v with
        | .commit => go rest (i + 1) others ((i, k, items) :: acc)
        | .discard => go rest (i + 1) others acc
        | .commitAfter t => go rest (i + 1) (others ++ [⟨k, items, some t⟩]) acc
        | .continue_ => go rest (i + 1) (others ++ [⟨k, items, cur.deadline⟩]) acc
      | .wm w =>
        let fired := opens.filter fun o => match o.deadline with | some d => decide (d < w) | none => false
        let kept := opens.filter fun o => match o.deadline with | some d => !decide (d < w) | none => true
        go rest (i + 1) kept ((fired.map fun o => (i, o.key, o.items)).reverse ++ acc)
      | .far | .term =>
        let fired := opens.filter (·.deadline.isSome)
        let kept := opens.filter (·.deadline.isNone)
        go rest (i + 1) kept ((fired.map fun o => (i, o.key, o.items)).reverse ++ acc)
      | _ => go rest (i + 1) opens acc
  go es 0 [] []

def handle (c : Case) : Verdict :=
  match c.header with
  | [_, _, mode] =>
    let opMode := mode == "op"
    let es0 := c.ops.filterMap fun w => match w with | ["e", e] => parseElem e | _ => none
    let es := if opMode then Etwin.cutAtTerm es0 else es0
    let (out, panic) : List String × Option String :=
      if opMode then
        let m := mgr logic
        let kes := Etwin.keyed es
        ((Etwin.canon ((WindowOp.runUnits m WindowOp.State.init kes).flatten.map fmtOpElem)),
         (WindowOp.stateAfter m WindowOp.State.init kes).panic)
      else ((run logic es).map fun p => fmtRes p.1 p.2, firstPanic logic none es)
    let out := match panic with | some cls => [s!"panic:{cls}"] | none => out
    let hasItem := es.any fun e => match e with | .item _ => true | _ => false
    let isPanic := match c.implOut with | [l] => l.startsWith "panic:" | _ => false
    if isPanic then
      { out, oracle := if hasItem then none else some "panic on a well-formed input", nontrivial := false,
        tags := [mode, "panic"] }
    else
      -- the implementation's results as (idx, key, items)
      let parsed : Option (List (Nat × String × List Val)) :=
        if opMode then
          (Etwin.parseOpLines es c.implOut).map fun (rs, _) =>
            rs.map fun r => (r.idx, (r.key.map Val.toStr).getD "", r.items)
        else
          (c.implOut.mapM Etwin.parseMgrLine).map fun rs => rs.map fun r => (r.idx, "", r.items)
      match parsed with
      | none => { out, oracle := some "unparsable implementation output", nontrivial := false, tags := [mode] }
      | some rs =>
        -- in `op` mode a result is located by the next forwarded control element only
        let nextCtrl := fun (i : Nat) =>
          (((List.range es.length).zip es).find? fun (j, e) => decide (i ≤ j) && Etwin.isCtrlIn e).map (·.1) |>.getD i
        let expected := (spec (!opMode) es).map fun (i, k, items) => (if opMode then nextCtrl i else i, k, items)
        let show_ := fun (l : List (Nat × String × List Val)) =>
          Etwin.sortStr (l.map fun (i, k, items) => s!"{i}:{k}:{Val.list items}")
        let stamped := if opMode then
            (Etwin.parseOpLines es c.implOut).map (fun (rs, _) => rs.any (·.stamp.isSome)) |>.getD false
          else (c.implOut.mapM Etwin.parseMgrLine).map (fun rs => rs.any (·.stamp.isSome)) |>.getD false
        let oracle :=
          if show_ rs != show_ expected then
            some s!"commit semantics: impl={show_ rs} spec={show_ expected}"
          else if stamped then some "transaction result carries a timestamp"
          else none
        let cmds := es.filterMap fun e => match e with | .ts v _ => some (logic v) | _ => none
        { out, oracle, nontrivial := rs.length ≥ 1,
          tags := [mode, s!"res{min rs.length 3}"] ++
            (if cmds.any (· == .commit) then ["commit"] else []) ++
            (if cmds.any (fun c => match c with | .commitAfter _ => true | _ => false) then ["commitAfter"] else []) ++
            (if cmds.any (· == .discard) then ["discard"] else []) }
  | _ => { out := [], oracle := some "bad header", nontrivial := false }

end Noir.Driver.Twin
