/-
  Driver/Chansrc.lean — the real `ChannelSource` driven call by call (C18).
  header: `<id> chansrc <cap>`; ops: `send <v>` | `close` | `next`; exactly one output per op:
    send  → `sent` | `full` | `closed` | `late I:<v>`   (late = a `next()` that was sitting in `recv()` returned)
    close → `closed` | `late FAR`
    next  → `I:<v>` | `FB` | `FAR` | `TERM` | `blocked` (did not return within the watchdog) | `pending`
-/
import Driver.Proto
import NoirVerif.Model.ChannelSource
namespace Noir.Driver.Chansrc
open Noir Noir.Driver Noir.ChannelSource

structure MSt where
  s : St := init
  c : Chan Val := ⟨[], true⟩
  pending : Bool := false
  out : List String := []

def modelOp (cap : Nat) (m : MSt) (op : List String) : MSt :=
  match op with
  | ["send", v] =>
    match Val.parse v with
    | none => { m with out := "bad" :: m.out }
    | some v =>
      if !m.c.open_ then { m with out := "closed" :: m.out }
      else if m.pending then
        -- rendezvous with the receiver sleeping in `recv()`
        match step m.s (.ok v) with
        | (s', .ret e) => { m with s := s', pending := false, out := s!"late {elemToStr e}" :: m.out }
        | (s', _) => { m with s := s', out := "model-error" :: m.out }
      else if m.c.queue.length < cap then
        { m with c := { m.c with queue := m.c.queue ++ [v] }, out := "sent" :: m.out }
      else { m with out := "full" :: m.out }
  | ["close"] =>
    let c := { m.c with open_ := false }
    if m.pending then
      match step m.s (Poll.disc : Poll Val) with
      | (s', .ret e) => { m with s := s', c := c, pending := false, out := s!"late {elemToStr e}" :: m.out }
      | (s', _) => { m with s := s', c := c, out := "model-error" :: m.out }
    else { m with c := c, out := "closed" :: m.out }
  | ["next"] =>
    if m.pending then { m with out := "pending" :: m.out }
    else
      match next m.s m.c with
      | (s', c', some e) => { m with s := s', c := c', out := elemToStr e :: m.out }
      | (s', c', none) => { m with s := s', c := c', pending := true, out := "blocked" :: m.out }
  | _ => { m with out := "bad" :: m.out }

/-- Spec-side oracle state (independent of the operator model): what is in the channel, what was
    the last thing `next` returned, whether a call is sleeping. -/
structure OSt where
  queue : List Val := []
  open_ : Bool := true
  sleeping : Bool := false
  last : String := ""          -- last element returned: "I" | "FB" | "FAR" | "TERM" | ""
  err : Option String := none

def fail (o : OSt) (msg : String) : OSt := if o.err.isSome then o else { o with err := some msg }

/-- The property, evaluated on the implementation's outputs:
    * FIFO, exactly once: the items returned are the items accepted, in order;
    * an `Item` is returned whenever one is queued (never `FB`/`blocked` in front of data);
    * the source goes to sleep (`blocked`) only when the channel is empty and open AND the last
      thing it returned is `FB` (so nothing it emitted is still withheld by the block's batchers);
    * on an empty open channel a `next()` that follows an `Item` returns `FB` (bounded spinning);
    * after the sender is gone: `FAR` once, then `TERM`. -/
def oracleOp (cap : Nat) (o : OSt) (op : List String) (out : String) : OSt :=
  match op with
  | ["send", v] =>
    match Val.parse v with
    | none => o
    | some v =>
      if !o.open_ then (if out == "closed" then o else fail o s!"send after close answered `{out}`")
      else if o.sleeping then
        if out == s!"late I:{v}" then { o with sleeping := false, last := "I" }
        else fail o s!"sleeping recv() did not return the sent item: `{out}`"
      else if out == "sent" then
        (if o.queue.length < cap then { o with queue := o.queue ++ [v] } else fail o "accepted beyond capacity")
      else if out == "full" then (if o.queue.length < cap then fail o "refused below capacity" else o)
      else fail o s!"unexpected answer to send: `{out}`"
  | ["close"] =>
    let o' := { o with open_ := false }
    if o.sleeping then
      if out == "late FAR" then { o' with sleeping := false, last := "FAR" }
      else fail o' s!"sleeping recv() did not end the stream on disconnect: `{out}`"
    else if out == "closed" then o' else fail o' s!"unexpected answer to close: `{out}`"
  | ["next"] =>
    if o.sleeping then (if out == "pending" then o else fail o s!"second call while sleeping: `{out}`")
    else if o.last == "FAR" || o.last == "TERM" then
      if out == "TERM" then { o with last := "TERM" } else fail o s!"after FlushAndRestart expected Terminate, got `{out}`"
    else match o.queue with
    | v :: q =>
      if out == s!"I:{v}" then { o with queue := q, last := "I" }
      else fail o s!"queued item {v} not delivered next (lost, reordered or withheld): `{out}`"
    | [] =>
      if !o.open_ then
        if out == "FAR" then { o with last := "FAR" } else fail o s!"disconnected empty channel: expected FAR, got `{out}`"
      else if out == "FB" then
        (if o.last == "FB" then fail o "FlushBatch twice in a row on an idle channel (busy loop instead of blocking)"
         else { o with last := "FB" })
      else if out == "blocked" then
        if o.last == "FB" then { o with sleeping := true }
        else fail o s!"entered the blocking recv() without a preceding FlushBatch (last returned: `{o.last}`)"
      else fail o s!"idle channel: expected FB or blocked, got `{out}`"
  | _ => o

def handle (c : Case) : Verdict :=
  match c.header with
  | [_, _, cap] =>
    match cap.toNat? with
    | some cap =>
      let m := c.ops.foldl (modelOp cap) {}
      let out := m.out.reverse
      let oracle :=
        if c.implOut.length ≠ c.ops.length then some "[C18] number of outputs differs from number of ops"
        else
          let o := (c.ops.zip c.implOut).foldl (fun o p => oracleOp cap o p.1 p.2) {}
          o.err.map (fun e => "[C18] " ++ e)
      let nFB := (out.filter (· == "FB")).length
      let nI := (out.filter (fun s => s.startsWith "I:" || s.startsWith "late I:")).length
      let nBlk := (out.filter (· == "blocked")).length
      { out, oracle, nontrivial := nFB ≥ 1 && nI ≥ 1,
        tags := [s!"fb{min nFB 3}", s!"blocked{min nBlk 2}",
                 if out.contains "FAR" || out.contains "late FAR" then "far" else "nofar",
                 if out.contains "full" then "full" else "notfull",
                 if cap == 0 then "cap0" else "cap+"] }
    | none => { out := [], oracle := some "bad header", nontrivial := false }
  | _ => { out := [], oracle := some "bad header", nontrivial := false }

end Noir.Driver.Chansrc
