/-
  Driver/Fanout.lean — whole-engine jobs exercising split / route / merge / broadcast / zip and their
  combinations (C09). See harness/src/bin/fanout.rs for the jobs.
  header: `<id> fanout <job> <par> <params…>`; op `run`.
  outputs: `sink <i> [sorted elements]` (zipseq: in output order) | `zippar pairs=… distinctL=… distinctR=… badL=… badR=…`.
  The model side is the sequential reference semantics of the job (lists); the oracle re-states the property
  on the implementation's sinks.
-/
import Driver.Proto
namespace Noir.Driver.Fanout
open Noir Noir.Driver

/-- the library of named predicates on ints (the same as in `Driver/Route.lean`) -/
def predOf (name : String) (n : Int) : Bool :=
  match name with
  | "div2" => n % 2 == 0
  | "div3" => n % 3 == 0
  | "div5" => n % 5 == 0
  | "odd" => n % 2 != 0
  | "lt0" => n < 0
  | "lt5" => n < 5
  | "lt10" => n < 10
  | "ge5" => n ≥ 5
  | "always" => true
  | _ => false

def sortInts (l : List Int) : List Int := l.mergeSort (fun a b => decide (a ≤ b))

def pairLe (a b : Int × Int) : Bool := a.1 < b.1 || (a.1 == b.1 && a.2 ≤ b.2)

def sortPairs (l : List (Int × Int)) : List (Int × Int) := l.mergeSort pairLe

def range (lo : Int) (n : Nat) : List Int := (List.range n).map fun (i : Nat) => lo + (i : Int)

def fmtInts (l : List Int) : String := (Val.list (l.map .int)).toStr

def fmtPairs (l : List (Int × Int)) : String := (Val.list (l.map fun p => .tup [.int p.1, .int p.2])).toStr

def param (h : List String) (i : Nat) : Nat := ((h.getD i "0").toNat?).getD 0

def clamp (lo hi x : Nat) : Nat := max lo (min hi x)

/-- the job's sinks according to the sequential reference semantics -/
def expected (h : List String) : List String :=
  let job := h.getD 2 ""
  let par := clamp 1 8 (((h.getD 3 "1").toNat?).getD 1)
  match job with
  | "split" =>
    let n := param h 4
    let k := clamp 1 6 (param h 6)
    (List.range k).map fun (i : Nat) => s!"sink {i} {fmtInts ((range 0 n).map fun x => x * 10 + (i : Int))}"
  | "route" =>
    let n := param h 4
    let names := (h.getD 6 "").splitOn ","
    let names := if h.length ≤ 6 then [] else names
    (List.range names.length).map fun i =>
      let mine := (range 0 n).filter fun x =>
        predOf (names.getD i "") x && ((names.take i).all fun p => !predOf p x)
      s!"sink {i} {fmtInts mine}"
  | "merge" =>
    let n := param h 4
    let m := param h 6
    let all := range 0 n ++ range 1000 (n + 1) ++ (if m == 2 then [] else range 2000 (n + 2))
    [s!"sink 0 {fmtInts (sortInts all)}"]
  | "bcast" =>
    let n := param h 4
    [s!"sink 0 {fmtPairs ((range 0 n).flatMap fun x => (range 0 par).map fun r => (x, r))}"]
  | "diamond" =>
    let n := param h 4
    [s!"sink 0 {fmtInts (sortInts (range 0 n ++ range 1000000 n))}"]
  | "combo" =>
    let n := param h 4
    let a := (range 0 n).map fun x => if x % 2 == 0 then x + 1000000 else x + 2000000
    let b := (range 0 n).flatMap fun x => List.replicate par (x + 3000000)
    [s!"sink 0 {fmtInts (sortInts (a ++ b))}"]
  | "zipseq" =>
    let n1 := param h 4
    let n2 := param h 5
    [s!"sink 0 {fmtPairs ((range 0 n1).zip (range 1000 n2))}"]
  | "zippar" | "ziplim" =>
    let m := min (param h 4) (param h 5)
    [s!"zippar pairs={m} distinctL={m} distinctR={m} badL=0 badR=0"]
  | _ => ["panic:other:unknown_job"]

/-! ### oracle -/

def parseSink (l : String) : Option (Nat × List Val) :=
  match words l with
  | ["sink", i, v] => do
    let i ← i.toNat?
    match Val.parse v with
    | some (.list l) => pure (i, l)
    | _ => none
  | _ => none

def asInts (l : List Val) : Option (List Int) := l.mapM Val.toInt?

def asPairs (l : List Val) : Option (List (Int × Int)) :=
  l.mapM fun v => match v with | .tup [.int a, .int b] => some (a, b) | _ => none

def count {α : Type} [BEq α] (l : List α) (a : α) : Nat := (l.filter (· == a)).length

/-- `a` and `b` are equal as multisets -/
def sameBag (a b : List Int) : Bool := sortInts a == sortInts b

def kv (s : String) : Option (String × Nat) :=
  match s.splitOn "=" with
  | [k, v] => v.toNat?.map fun n => (k, n)
  | _ => none

def oracleOf (h : List String) (impl : List String) : Option String :=
  let job := h.getD 2 ""
  let par := clamp 1 8 (((h.getD 3 "1").toNat?).getD 1)
  if impl == ["blocked"] then some "the job did not terminate within 20 s (blocked)" else
  if impl.any (·.startsWith "panic:") then some s!"the job panicked: {impl}" else
  if job == "zippar" || job == "ziplim" then
    match impl with
    | [l] =>
      match (words l).drop 1 |>.mapM kv with
      | some [("pairs", p), ("distinctL", dl), ("distinctR", dr), ("badL", bl), ("badR", br)] =>
        let m := min (param h 4) (param h 5)
        if p != m then some s!"zip produced {p} pairs, min(|a|,|b|) = {m}"
        else if dl != p || dr != p then some s!"zip used an element twice: {p} pairs, {dl} distinct left, {dr} distinct right"
        else if bl != 0 || br != 0 then some "zip produced an element that is in neither input"
        else none
      | _ => some "unparsable zippar line"
    | _ => some "expected exactly one zippar line"
  else
  match impl.mapM parseSink with
  | none => some "unparsable sink line"
  | some sinks =>
    let sinkOf (i : Nat) : Option (List Val) := (sinks.find? (·.1 == i)).map (·.2)
    let n := param h 4
    let input := range 0 n
    match job with
    | "split" =>
      let k := clamp 1 6 (param h 6)
      if sinks.length != k then some s!"{sinks.length} sinks for {k} branches" else
      ((List.range k).filterMap fun i =>
        match (sinkOf i).bind asInts with
        | none => some s!"branch {i}: no sink"
        | some l =>
          if !(l.all fun x => x % 10 == (i : Int)) then some s!"branch {i} received an element of another branch"
          else if !sameBag (l.map (· / 10)) input then some s!"branch {i} did not receive the complete stream exactly once"
          else none).head?
    | "route" =>
      let names := if h.length ≤ 6 then [] else (h.getD 6 "").splitOn ","
      if sinks.length != names.length then some s!"{sinks.length} sinks for {names.length} routes" else
      let per := (List.range names.length).map fun i => ((sinkOf i).bind asInts).getD []
      let wrong := (List.range names.length).filterMap fun i =>
        ((per.getD i []).find? fun x =>
          !(predOf (names.getD i "") x && ((names.take i).all fun p => !predOf p x))).map fun x =>
            s!"route {i} received {x}, which it is not the first matching route of"
      match wrong.head? with
      | some m => some m
      | none =>
        let matched := input.filter fun x => names.any fun p => predOf p x
        if !sameBag per.flatten matched then
          some "an element matching some route was lost or duplicated, or an unmatched element was delivered"
        else none
    | "merge" =>
      let m := param h 6
      let all := range 0 n ++ range 1000 (n + 1) ++ (if m == 2 then [] else range 2000 (n + 2))
      match (sinkOf 0).bind asInts with
      | some l => if sameBag l all then none else some "merge output is not the multiset union of its inputs"
      | none => some "no sink"
    | "bcast" =>
      match (sinkOf 0).bind asPairs with
      | some l =>
        let replicas := (l.map (·.2)).eraseDups
        if n > 0 && replicas.length != par then some s!"{replicas.length} receiving replicas, parallelism {par}"
        else if !(replicas.all fun r => 0 ≤ r && r < par) then some "unknown replica id"
        else if !(input.all fun x => (range 0 par).all fun r => count l (x, r) == 1) then
          some "an element was not received exactly once by every replica"
        else if l.length != n * par then some "extra elements"
        else none
      | none => some "no sink"
    | "diamond" =>
      match (sinkOf 0).bind asInts with
      | some l => if sameBag l (input ++ input.map (· + 1000000)) then none
                  else some "diamond output is not the union of the two branches' complete streams"
      | none => some "no sink"
    | "combo" =>
      match (sinkOf 0).bind asInts with
      | some l =>
        let a := l.filter (· < 3000000)
        let b := l.filter (· ≥ 3000000)
        let ea := input.map fun x => if x % 2 == 0 then x + 1000000 else x + 2000000
        if !sameBag a ea then some "route branch: not every element exactly once through its first matching route"
        else if !(input.all fun x => count b (x + 3000000) == par) || b.length != n * par then
          some "broadcast branch: an element was not received exactly once by every replica"
        else none
      | none => some "no sink"
    | "zipseq" =>
      let n1 := param h 4
      let n2 := param h 5
      match (sinkOf 0).bind asPairs with
      | some l =>
        if l.length != min n1 n2 then some s!"zip produced {l.length} pairs, min(|a|,|b|) = {min n1 n2}"
        else if l != (range 0 n1).zip (range 1000 n2) then some "zip of two sequential streams is not positional"
        else none
      | none => some "no sink"
    | _ => some "unknown job"

def handle (c : Case) : Verdict :=
  let h := c.header
  let ran := c.ops.any fun w => w.head? == some "run"
  if !ran then { out := [], oracle := none, nontrivial := false } else
  let job := h.getD 2 ""
  let par := clamp 1 8 (((h.getD 3 "1").toNat?).getD 1)
  let n := param h 4
  { out := expected h, oracle := oracleOf h c.implOut,
    nontrivial := n > 0 && (job != "zipseq" && job != "zippar" || param h 5 > 0),
    tags := [s!"job:{job}", s!"par{par}", if n == 0 then "empty" else if n < 5 then "tiny" else "small"]
      ++ (if job == "split" || job == "route" || job == "merge" || job == "bcast" || job == "diamond" || job == "combo"
          then [s!"{job}:{h.getD 5 ""}{if job == "split" || job == "merge" then "/" ++ h.getD 6 "" else ""}"] else []) }

end Noir.Driver.Fanout
