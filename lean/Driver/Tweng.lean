/-
  Driver/Tweng.lean — C14, engine level, hook-free: ChannelSource → group_by → session / processing-time
  window → collect_channel on the real engine with real pauses.
  header: `<id> tweng <s|p> <gap or size ns> <slide ns> <parallelism> <batch mode>`; ops: `s <pause_ns> (<key>,<id>)`;
  outputs: `I:(<key>,[..])` per collected result in arrival order (or `hang`).

  Which windows come out depends on scheduling and batching: `Verdict.out` echoes the implementation
  (tag `nodiff`: no model diff for this component) and the verdict is the conservation ORACLE per key:
  one sender, `group_by` and `collect_channel()` keep the order of one key, so per key — session /
  tumbling: the results concatenated in arrival order are the key's elements in send order, none
  empty; sliding: every result is a non-empty subsequence, every element is in 1 … ceil(size/slide)
  results; no result mixes keys; the engine terminates.
-/
import Driver.Twreal
namespace Noir.Driver.Tweng
open Noir Noir.Driver Noir.Driver.TimeWin

def keyOf : Val → String
  | .tup (k :: _) => k.toStr
  | v => v.toStr

def handle (c : Case) : Verdict :=
  match c.header with
  | [_, _, kind, sz, sl, _p, bm] =>
    match sz.toNat?, sl.toNat? with
    | some size, some slide =>
      let sent : List Val := c.ops.filterMap fun w => match w with
        | ["s", _, v] => Val.parse v
        | _ => none
      let impl : List (String × List Val) := c.implOut.filterMap fun s =>
        match parseElem s with
        | some (.item (.tup [k, .list l])) => some (k.toStr, l)
        | _ => none
      let inKeys := (sent.map keyOf).eraseDups
      let perKey (k : String) : Option String :=
        let res : List (Nat × List Val) := (impl.filter (·.1 == k)).map fun p => (0, p.2)
        let seg : Seg := { lo := 0, hi := 0, data := (sent.filter (keyOf · == k)).map fun v => (0, v), complete := true }
        let r := if kind == "s" then Twreal.checkSession size res seg else Ptwin.checkSeg size slide res seg
        r.map fun m => s!"key {k}: {m}"
      let oracle :=
        if c.implOut == ["hang"] then some "the engine did not terminate"
        else if impl.length ≠ c.implOut.length then some "unparsable implementation output"
        else if size == 0 || slide == 0 then some "bad header"
        else if sent.length != sent.eraseDups.length then some "case not usable by the oracle: duplicate values"
        else if impl.any (fun d => !inKeys.contains d.1) then some "result for a key that never occurred"
        else if impl.any (fun d => d.2.any fun v => keyOf v != d.1) then some "a result mixes keys"
        else firstSome inKeys perKey
      { out := c.implOut, oracle, nontrivial := impl.length ≥ 2 && inKeys.length ≥ 2,
        tags := ["nodiff", if kind == "s" then "session" else if slide == size then "tumbling" else "sliding",
                 s!"batch-{bm}", s!"keys{min inKeys.length 4}", s!"results{min impl.length 4}"] }
    | _, _ => { out := [], oracle := some "bad header", nontrivial := false }
  | _ => { out := [], oracle := some "bad header", nontrivial := false }

end Noir.Driver.Tweng
