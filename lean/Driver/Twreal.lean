/-
  Driver/Twreal.lean — C14, hook-free experiment (real clock, real pauses).
  header: `<id> twreal <s|p> <size_or_gap_ns> <slide_ns>`; ops: `e <pause_ns> <elem>` (the harness
  busy-waits `pause` before the `process` call, so the clock advance between two calls is *at least*
  the sum of the pauses in between); outputs: `<op idx> I:[…]`.

  The results depend on the real timing, so there is no deterministic model output to diff against:
  `Verdict.out` echoes the implementation's lines (the diff of `bin/check` is vacuous for this
  component, by design) and the verdict is the ORACLE alone: what C14 claims for *every* timing —
  conservation / partition, arrival order, no empty result, cover count — plus what the known lower
  bounds on the clock advance force (elements at least `size` apart are never in one window; a pause
  longer than `gap` splits the session).
-/
import Driver.Swin
import Driver.Ptwin
namespace Noir.Driver.Twreal
open Noir Noir.Driver Noir.Driver.TimeWin

/-- replace the pauses by their running sum: lower bounds of the clock readings -/
def cumulate (es : List (Nat × Elem Val)) : List (Nat × Elem Val) :=
  (es.foldl (fun (acc : Nat × List (Nat × Elem Val)) p => (acc.1 + p.1, (acc.1 + p.1, p.2) :: acc.2)) (0, [])).2.reverse

/-- session windows under an unknown clock: partition, no empty result, forced splits -/
def checkSession (gap : Nat) (impl : List (Nat × List Val)) (s : Seg) : Option String :=
  let res := resultsOf impl s
  let vals := s.data.map (·.2)
  if res.any List.isEmpty then some s!"empty result in iteration ops {s.lo}..{s.hi}"
  else if s.complete && res.flatten != vals then
    some s!"not a partition in iteration ops {s.lo}..{s.hi}: results={showLL res} input={Val.list vals}"
  else if !s.complete && res.flatten != vals.take res.flatten.length then
    some s!"results of open iteration ops {s.lo}..{s.hi} are not a prefix of the input: results={showLL res}"
  else
    -- consecutive elements with more than `gap` of pause between them must not share a session
    match (s.data.zip (s.data.drop 1)).find? (fun p =>
        p.2.1 - p.1.1 > gap && res.any (fun r => r.contains p.1.2 && r.contains p.2.2)) with
    | some p => some s!"elements {p.1.2},{p.2.2} are more than the gap apart but in one session: results={showLL res}"
    | none => none

def handle (c : Case) : Verdict :=
  match c.header with
  | [_, _, kind, sz, sl] =>
    match sz.toNat?, sl.toNat? with
    | some size, some slide =>
      let es := cumulate (parseOps c.ops)
      let impl := c.implOut.filterMap parseOut
      let segs := segments es
      let allVals := segs.flatMap fun s => s.data.map (·.2)
      let oracle :=
        if impl.length ≠ c.implOut.length then some "unparsable implementation output"
        else if size == 0 || slide == 0 then some "bad header"
        else if allVals.length != allVals.eraseDups.length then some "case not usable by the oracle: duplicate values"
        else if kind == "s" then firstSome segs (checkSession size impl)
        else firstSome segs (Ptwin.checkSeg size slide impl)
      { out := c.implOut, oracle, nontrivial := impl.length ≥ 2 && allVals.length ≥ 2,
        tags := ["nodiff", if kind == "s" then "session" else if slide == size then "tumbling" else "sliding",
                 s!"results{min impl.length 4}"] }
    | _, _ => { out := [], oracle := some "bad header", nontrivial := false }
  | _ => { out := [], oracle := some "bad header", nontrivial := false }

end Noir.Driver.Twreal
