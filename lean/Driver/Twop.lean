/-
  Driver/Twop.lean — session / processing-time windows through the real keyed `WindowOperator` (C14, per key).
  header: `<id> twop <s|p> <gap or size ns> <slide ns>`; ops: `e <now_ns> <elem>` with payloads `(<key>,<id>)`;
  outputs: `<i> <elem>` = the operator's output elements, `i` = index of the input element whose
  processing produced them; the data lines with equal `i` are stably sorted by key on both sides
  (hash-map order of the managers for one control element; the order of one key's results is kept).

  model  = Model/TimeWindowOp.lean (clock-threaded keyed dispatch) with `sessionMgr` / `ptwinMgr`; the
           harness freezes the clock per pulled element, so `now` is a constant function per element;
  oracle = the per-key property (Props/C14Op.lean), computed from the op lines without the manager
           models: for every key, the session / processing-time oracle of Driver/Swin.lean /
           Driver/Ptwin.lean on that key's elements (other keys' data count as noise that does not
           reach the manager) + control elements forwarded once, in order, after the results they caused.
-/
import Driver.Swin
import Driver.Ptwin
import NoirVerif.Model.TimeWindowOp
namespace Noir.Driver.Twop
open Noir Noir.Driver Noir.Driver.TimeWin Noir.TimeWindowOp

def keyOf : Val → String
  | .tup (k :: _) => k.toStr
  | v => v.toStr

/-- the script as the source replays it: up to the first `TERM` (supplied, at the last reading, if missing) -/
def cutAtTerm (last : Nat) : List (Nat × Elem Val) → List (Nat × Elem Val)
  | [] => [(last, .term)]
  | (t, .term) :: _ => [(t, .term)]
  | (t, e) :: es => (t, e) :: cutAtTerm t es

def keyed (es : List (Nat × Elem Val)) : List ((String → Nat) × Elem (String × Val)) :=
  es.map fun p => (fun _ => p.1, p.2.map fun v => (keyOf v, v))

structure Line where
  key : String
  isData : Bool
  idx : Nat
  txt : String

def fmtOut (i : Nat) : Elem (String × List Val) → Line
  | .item (k, items) => ⟨k, true, i, s!"{i} I:({k},{Val.list items})"⟩
  | .ts (k, items) t => ⟨k, true, i, s!"{i} T:({k},{Val.list items}):{t}"⟩
  | .wm t => ⟨"", false, i, s!"{i} W:{t}"⟩
  | .flushBatch => ⟨"", false, i, s!"{i} FB"⟩
  | .term => ⟨"", false, i, s!"{i} TERM"⟩
  | .far => ⟨"", false, i, s!"{i} FAR"⟩

/-- data lines of a unit stably sorted by key, control line last (same as in twop.rs) -/
def canonUnit (u : List Line) : List String :=
  let d := (u.filter (·.isData)).mergeSort (fun a b => decide (a.key ≤ b.key))
  (d ++ u.filter (!·.isData)).map (·.txt)

def modelOut (kind : String) (size slide : Nat) (es : List (Nat × Elem Val)) : List String :=
  let units : List (List (Elem (String × List Val))) :=
    if kind == "s" then runUnits (sessionMgr Val size) [] (keyed es)
    else runUnits (ptwinMgr Val ⟨size, slide⟩) [] (keyed es)
  (units.zipIdx.flatMap fun (u, i) => canonUnit (u.map (fmtOut i)))

/-- an implementation line: index and element -/
def parseLine (s : String) : Option (Nat × Elem Val) :=
  match words s with
  | [i, e] => do pure (← i.toNat?, ← parseElem e)
  | _ => none

/-- what the manager of key `k` sees, positions kept: other keys' data and FlushBatch become a
    `FlushBatch` placeholder (ignored by `segments`), the key is stripped from `k`'s data -/
def projFull (k : String) (es : List (Nat × Elem Val)) : List (Nat × Elem Val) :=
  es.map fun (t, e) => match e with
    | .item v => if keyOf v == k then (t, .item v) else (t, .flushBatch)
    | .ts v ts => if keyOf v == k then (t, .ts v ts) else (t, .flushBatch)
    | e => (t, e)

def handle (c : Case) : Verdict :=
  match c.header with
  | [_, _, kind, sz, sl] =>
    match sz.toNat?, sl.toNat? with
    | some size, some slide =>
      if size == 0 || slide == 0 then { out := [], oracle := some "bad header", nontrivial := false } else
      let raw := parseOps c.ops
      let es := cutAtTerm 0 raw
      let out := modelOut kind size slide es
      let implLines := c.implOut.filterMap parseLine
      -- results per key: (idx, list of payloads `(k,id)`)
      let implData : List (String × Nat × List Val) := implLines.filterMap fun (i, e) =>
        match e with
        | .item (.tup [k, .list l]) => some (k.toStr, i, l)
        | _ => none
      let implCtrl : List (Nat × Elem Val) := implLines.filter fun (_, e) => !e.isData
      let specCtrl : List (Nat × Elem Val) := es.zipIdx.filterMap fun ((_, e), i) => if e.isData then none else some (i, e)
      let inKeys := (es.filterMap fun (_, e) => e.value.map keyOf).eraseDups
      let allVals := es.filterMap fun (_, e) => e.value
      let perKey (k : String) : Option String :=
        let impl := (implData.filter (·.1 == k)).map (·.2)
        let segs := segments (projFull k es)
        let r := if kind == "s" then firstSome segs (Swin.checkSeg size impl)
                 else firstSome segs (Ptwin.checkSeg size slide impl)
        r.map fun m => s!"key {k}: {m}"
      let oracle :=
        if implLines.length ≠ c.implOut.length then some "unparsable implementation output"
        else if !clockMonotone es then some "case is outside the quantifier: clock not monotone"
        else if allVals.length != allVals.eraseDups.length then some "case not usable by the oracle: duplicate values"
        else if implData.length ≠ (implLines.filter fun (_, e) => e.isData).length then some "a result is not of the form (key,[..])"
        else if implCtrl != specCtrl then some s!"control elements not forwarded once, in order, at their position: impl={implCtrl.map fun p => (p.1, elemToStr p.2)}"
        else if implData.any (fun d => !inKeys.contains d.1) then some "result for a key that never occurred"
        else if implData.any (fun d => d.2.2.any fun v => keyOf v != d.1) then some "a result mixes keys"
        else firstSome inKeys perKey
      -- does a control element emit a result of a key other than the key of the last data element?
      let ctrlEmits := implData.any fun d => match es[d.2.1]? with | some (_, e) => !e.isData && !(e == .far) && !(e == .term) | none => false
      let tags :=
        [if kind == "s" then "session" else if slide == size then "tumbling" else "sliding",
         s!"keys{min inKeys.length 4}", s!"results{min implData.length 4}"] ++
        (if ctrlEmits then ["emit-at-watermark"] else [])
      { out, oracle, nontrivial := inKeys.length ≥ 2 && implData.length ≥ 2, tags }
    | _, _ => { out := [], oracle := some "bad header", nontrivial := false }
  | _ => { out := [], oracle := some "bad header", nontrivial := false }

end Noir.Driver.Twop
