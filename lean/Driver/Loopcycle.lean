/-
  Driver/Loopcycle.lean — the channel cycle of an `iterate` loop on the real engine (C04).
  header `<id> loopcycle <cores> <bm> <rounds> <body> <E>`; ops `r <replica> <start> <count>`
  (replica `replica mod cores` gets `start, start+1, …`); implementation outputs
  `state [<sum of everything fed back>]`, `items <len> <sum> [<sorted list> if len ≤ 40]`, or `blocked`,
  `panic:<class>` (see harness/src/bin/loopcycle.rs).

  Model side: the case is turned into a `Noir.LoopCycle.Cfg` (Model/LoopCycle.lean): the stages of the
  body are split at every `s` (shuffle = block boundary) into the levels `f 0 … f (k-1)`, the feedback
  block is the identity level `f k`. The expected lines are the SEQUENTIAL MEANING `content c rounds`
  (= what every terminating schedule of the model outputs, `loop_cycle_feedback_exact`); for small
  cases the small-step model is additionally run to its final state and must agree.

  Deadlock prediction (finding F17, `loop_cycle_expanding_body_counterexample`): when the body has a
  `d` stage (`flat_map`, expansion `E`) the small-step model is run with the REAL capacity
  (`Consts.CHANNEL_CAPACITY`) on the same script, one model element = one batch:
    * `possible`   = the upstream-first schedule (iter > body 1 > … > body k > leader) reaches a stuck
                     non-final state, with batches as small as the batch mode allows
                     (single/fixed1: 1 element; fixed3: 3, outputs per `next()` rounded up;
                      adaptive(16, 1 ms): 1 element, a timer flush can cut a batch anywhere);
    * `inevitable` = the downstream-first schedule (leader > body k > … > body 1 > iter: the `Iterate`
                     moves only when everybody else is blocked) reaches a stuck non-final state, with full
                     batches and the outputs per `next()` rounded down.
  For batch size b > 1 this is the model at batch granularity: level 0 sends ⌈|f 0 x| / b⌉ resp. ⌊…⌋
  batches per pulled element, a later level turns one received batch into `|f i x|` batches.
  Oracle (C04): the run terminated, did not panic, and state and items equal the sequential meaning.
  A `blocked` run is classified `known:F17-iterate-expansion-deadlock` ONLY if `possible` holds and
  the `d` stage emits more batches per element than one channel holds; otherwise it is a plain
  failure. If `inevitable` holds the model's output is `blocked`, so an engine that terminates shows
  up as a disagreement. `possible ∧ ¬inevitable` is the grey zone (tag `grey`): the outcome depends on
  the interleaving of the real threads, both are accepted. Width of the grey zone, one replica, no
  shuffle, fixed1/single: E ∈ [17, 33] with ≥ 2 elements (E ≥ 34: inevitable; E ≤ 16: impossible by
  `loop_cycle_progress_partial`); a single element: no grey zone (threshold 34, 102 for fixed3);
  adaptive: E ∈ [17·…, 543]; bodies with a shuffle in front of `d`: everything from E = 17 on is grey.
  With a shuffle AND several replicas the cycles of the replicas are coupled; the model (one replica fed
  with the union of the inputs) is only used for `possible`. Such jobs can deadlock ACROSS replicas even
  with a non-expanding body (finding F18: an `Iterate` blocked in its send into another replica's body
  block does not drain its own feedback channel); a `blocked` run is classified
  `known:F18-iterate-shuffle-cross-replica-deadlock` only if the body has a shuffle, there are ≥ 2
  replicas and some round's content exceeds one channel (otherwise no `Iterate` can be blocked in a send).
-/
import Driver.Proto
import NoirVerif.Model.Consts
import NoirVerif.Model.LoopCycle
namespace Noir.Driver.Loopcycle
open Noir Noir.Driver Noir.LoopCycle

/-- one stage on one element -/
def stageFn (e : Nat) : Char → Nat → List Nat
  | 'm', x => [x + 1]
  | 'f', x => if x % 2 == 0 then [x] else []
  | 'd', x => (List.range e).map fun j => x + 1000 * j
  | _, x => [x]

/-- the stages of one block applied to one element -/
def segFn (e : Nat) (seg : List Char) (x : Nat) : List Nat :=
  seg.foldl (fun acc st => acc.flatMap (stageFn e st)) [x]

/-- split the stage list at the shuffles -/
def segments (stages : List Char) : List (List Char) :=
  let rec go (cur : List Char) (acc : List (List Char)) : List Char → List (List Char)
    | [] => (cur.reverse :: acc).reverse
    | 's' :: rest => go [] (cur.reverse :: acc) rest
    | st :: rest => go (st :: cur) acc rest
  go [] [] stages

def parseBody (body : String) : List Char := (body.splitOn ".").filterMap fun w => w.toList.head?

/-- `take`: how many of the outputs of level 0 leave the block as batches (`none` = all) -/
def mkCfg (cap e rounds : Nat) (segs : List (List Char)) (input : List Nat)
    (lvl0 : Option (Nat → Nat)) : Cfg where
  cap := cap
  k := segs.length
  f := fun i x =>
    match segs[i]? with
    | some seg =>
      let out := segFn e seg x
      if i == 0 then
        match lvl0 with
        | some g => out.take (g out.length)
        | none => out
      else out
    | none => [x]
  rounds := rounds
  input := input

/-- rebuild the function-valued fields from lists (keeps the closures flat) -/
def compact (c : Cfg) (s : State) : State :=
  let ps := ((List.range (c.k + 1)).map s.pend).toArray
  let cs := ((List.range (c.k + 1)).map s.chan).toArray
  { s with pend := fun i => ps.getD i [], chan := fun i => cs.getD i [] }

/-- run the model, always giving the slot to the first enabled event of `prio`;
    returns the last state and whether it is stuck (no event enabled) -/
partial def simulate (c : Cfg) (prio : List Ev) (fuel : Nat) (s : State) : State × Bool :=
  if fuel == 0 then (s, false) else
  match prio.find? (enabledB c s) with
  | none => (s, true)
  | some e => simulate c prio (fuel - 1) (compact c (step c s e))

def upstreamFirst (c : Cfg) : List Ev :=
  Ev.iter :: ((List.range c.k).map fun j => Ev.body (j + 1)) ++ [Ev.leader]

def downstreamFirst (c : Cfg) : List Ev :=
  Ev.leader :: ((List.range c.k).reverse.map fun j => Ev.body (j + 1)) ++ [Ev.iter]

def FUEL : Nat := 400000

/-- the schedule reaches a stuck state that is not final -/
def deadlocks (c : Cfg) (prio : List Ev) : Bool :=
  let (s, stuckB) := simulate c prio FUEL (init c)
  stuckB && s.phase != Phase.done

def sumNat (l : List Nat) : Nat := l.foldl (· + ·) 0

def sortNat (l : List Nat) : List Nat := (l.toArray.qsort (· < ·)).toList

def fmtItems (l : List Nat) : String :=
  let l := sortNat l
  let base := s!"items {l.length} {sumNat l}"
  if l.length ≤ 40 then base ++ " [" ++ ",".intercalate (l.map toString) ++ "]" else base

def batchSize (bm : String) : Nat :=
  if bm == "single" || bm == "fixed1" then 1 else if bm == "fixed3" then 3 else 16

/-- smallest batch the mode can produce in the middle of a round -/
def minBatch (bm : String) : Nat := if bm == "fixed3" then 3 else 1

def parseInputs (cores : Nat) (ops : List (List String)) : List (List Nat) :=
  (List.range cores).map fun r =>
    ops.flatMap fun w =>
      match w with
      | ["r", rr, st, cnt] =>
        match rr.toNat?, st.toNat?, cnt.toNat? with
        | some rr, some st, some cnt => if rr % cores == r then (List.range cnt).map (st + ·) else []
        | _, _, _ => []
      | _ => []

def handle (c : Case) : Verdict :=
  match c.header with
  | [_, _, cores, bm, rounds, body, e] =>
    match cores.toNat?, rounds.toNat?, e.toNat? with
    | some cores, some rounds, some e =>
      if cores == 0 || rounds == 0 then { out := [], oracle := some "bad header", nontrivial := false } else
      let stages := parseBody body
      let segs := segments stages
      let inputs := parseInputs cores c.ops
      let all := inputs.flatten
      let hasD := stages.contains 'd' && e > 1
      let hasS := stages.contains 's'
      let nD := (stages.filter (· == 'd')).length
      -- size guard (replayed / shrunk cases far outside the generator's range)
      if all.length * (e ^ (nD * rounds)) > 3000000 then
        { out := [], oracle := some "case too large for the driver", nontrivial := false } else
      let cap := Consts.CHANNEL_CAPACITY
      let cAll := mkCfg cap e rounds segs all none
      -- the sequential meaning
      let conts := (List.range (rounds + 1)).map (content cAll)
      let state := sumNat ((conts.drop 1).map sumNat)
      let last := conts.getLastD []
      let expected := [s!"state [{state}]", fmtItems last]
      -- small cases: the small-step model itself must give the same result (one replica each, or the
      -- union for bodies with a shuffle)
      let work := sumNat (conts.map List.length)
      let units : List (List Nat) := if hasS then [all] else inputs
      let selfCheck : Option String :=
        if work ≤ 400 && !hasD then
          let outs := units.map fun inp =>
            let cu := mkCfg cap e rounds segs inp none
            let (s, _) := simulate cu (upstreamFirst cu) FUEL (init cu)
            (s.phase == Phase.done, s.output.getD [], sumNat (s.fed.map sumNat))
          if !outs.all (·.1) then some "the small-step model did not reach its final state"
          else if sortNat (outs.flatMap (·.2.1)) != sortNat last || sumNat (outs.map (·.2.2)) != state then
            some "the small-step model disagrees with the sequential meaning"
          else none
        else none
      -- deadlock prediction
      let b := batchSize bm
      let bLo := minBatch bm
      -- batches one pulled unit becomes: level 0 pulls ELEMENTS (E outputs = ⌈E / b⌉ batches), a later block
      -- pulls BATCHES (b elements → b·E outputs = E batches)
      let dLater := (segs.drop 1).any (·.contains 'd')
      let eBatchesHi := if dLater then e else (e + bLo - 1) / bLo
      let expanding := hasD && eBatchesHi > cap
      let possible := hasD && units.any fun inp =>
        let cu := mkCfg cap e rounds segs inp (some fun n => (n + bLo - 1) / bLo)
        deadlocks cu (upstreamFirst cu)
      let inevitable := hasD && !(hasS && cores > 1) && units.any fun inp =>
        let cu := mkCfg cap e rounds segs inp (some fun n => n / b)
        deadlocks cu (downstreamFirst cu)
      -- finding F18 (not modelled: the cycles of several replicas coupled by a shuffle): only possible when
      -- some `Iterate` replica can be blocked in a send at all, i.e. a round has more batches than one channel holds
      let maxRound := (conts.map List.length).foldl max 0
      let crossReplica := hasS && cores ≥ 2 && (maxRound + bLo - 1) / bLo > cap
      let blocked := c.implOut.any (· == "blocked")
      let panicked := c.implOut.any (·.startsWith "panic:")
      let desc := s!"cores={cores} {bm} rounds={rounds} body={body} E={e} inputs={inputs.map List.length}"
      let out := if inevitable || (blocked && ((possible && expanding) || crossReplica)) then ["blocked"] else expected
      let oracle : Option String :=
        match selfCheck with
        | some m => some s!"[C04] {m} ({desc})"
        | none =>
          if blocked then
            if possible && expanding then
              some s!"[C04] known:F17-iterate-expansion-deadlock the loop did not terminate (watchdog): the `flat_map` of the body turns one element into {e} elements = more batches than the feedback cycle buffers while `Iterate::next` (and with it the feedback drain) is not called; the model reaches the same stuck state ({desc}, inevitable={inevitable})"
            else if crossReplica then
              some s!"[C04] known:F18-iterate-shuffle-cross-replica-deadlock the loop did not terminate (watchdog): {cores} replicas, a shuffle inside the loop body and a round whose content ({maxRound} elements) exceeds one channel — an `Iterate` replica blocked in its send into ANOTHER replica's body block cannot drain its own feedback channel; outside the one-replica model ({desc})"
            else some s!"[C04] the loop did not terminate (watchdog) and the model does not predict a deadlock ({desc})"
          else if panicked then some s!"[C04] the job panicked: {c.implOut} ({desc})"
          else if c.implOut != expected then
            some s!"[C04] terminated with a result that is not the sequential meaning: impl={c.implOut} expected={expected} ({desc})"
          else none
      -- distribution
      let perReplica := if hasS then (sumNat (conts.map List.length) / (rounds + 1)) / cores
        else (inputs.map fun inp =>
          let cu := mkCfg cap e rounds segs inp none
          ((List.range (rounds + 1)).map fun r => (content cu r).length).foldl max 0).foldl max 0
      let maxContent := if hasS then ((conts.map List.length).foldl max 0) / cores else perReplica
      let batches := (maxContent + b - 1) / b
      let cyc := (cap + 1) * (segs.length + 1)
      let capTag := if all.isEmpty then "empty" else if batches + 6 < cyc then "below-capacity"
        else if batches ≤ cyc + 6 then "at-capacity" else "over-capacity"
      { out, oracle, nontrivial := true,
        tags := [s!"cores{cores}", bm, s!"rounds{rounds}", s!"body:{body}", capTag]
          ++ (if hasD && e > 2 then ["expanding"] else [])
          ++ (if possible && !inevitable then ["grey"] else [])
          ++ (if inevitable then ["f17-inevitable"] else [])
          ++ (if crossReplica then ["coupled-over-channel"] else [])
          ++ (if blocked then ["blocked"] else []) }
    | _, _, _ => { out := [], oracle := some "bad header", nontrivial := false }
  | _ => { out := [], oracle := some "bad header", nontrivial := false }

end Noir.Driver.Loopcycle
