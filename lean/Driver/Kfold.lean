/-
  Driver/Kfold.lean — `kfold` cases (C07): the real `KeyedFold` operator on a scripted upstream of
  `(key,value)` pairs. header: `<id> kfold <fn>`; ops: `e <elem>` with payloads `(k,v)`; outputs
  `<idx> <elem>` with payloads `(k,acc)`. The results of one iteration come out in hash-map order:
  every maximal run of data outputs with the same `idx` is sorted on both sides.
-/
import Driver.Fold
namespace Noir.Driver.Kfold
open Noir Noir.Driver Noir.Driver.Fold

/-- keys are compared through their wire text (`Val` has `BEq` only) -/
structure Key where
  s : String
  deriving DecidableEq, Repr

def unpair : Val → Option (Key × Val)
  | .tup [k, v] => some (⟨k.toStr⟩, v)
  | _ => none

def elemUnpair : Elem Val → Option (Elem (Key × Val))
  | .item v => (unpair v).map .item
  | .ts v t => (unpair v).map (.ts · t)
  | .wm t => some (.wm t)
  | .flushBatch => some .flushBatch
  | .far => some .far
  | .term => some .term

/-- keys are integers on the wire, so the text round-trips -/
def repair (p : Key × Val) : Val := .tup [(Val.parse p.1.s).getD .none, p.2]

/-- sort every maximal run of data outputs with the same index -/
def canonRuns (l : List (Nat × Elem Val)) : List (Nat × Elem Val) :=
  let flushRun (run : List (Nat × Elem Val)) (acc : List (Nat × Elem Val)) :=
    acc ++ ((run.toArray.qsort fun a b => elemToStr a.2 < elemToStr b.2).toList)
  let rec go (l : List (Nat × Elem Val)) (run acc : List (Nat × Elem Val)) : List (Nat × Elem Val) :=
    match l with
    | [] => flushRun run acc
    | p :: rest =>
      if p.2.isData then
        match run with
        | q :: _ => if q.1 == p.1 then go rest (run ++ [p]) acc else go rest [p] (flushRun run acc)
        | [] => go rest [p] acc
      else go rest [] (flushRun run acc ++ [p])
  go l [] []

/-- **C07 oracle for the keyed forms**: per iteration exactly one result per occurring key, equal
    to the reference sequential fold of that key's values, stamped with that key's max timestamp. -/
def oracle (init : Val) (f : Val → Val → Val) (es : List (Elem Val)) (impl : List (Nat × Elem Val)) :
    Option String :=
  let its := iterations es
  let perIter := its.map fun it =>
    let outs := outsOf it impl
    let data := (outs.map (·.2)).filter Elem.isData
    let kvs : List (Val × Val × Option Int) := it.body.filterMap fun
      | .item (.tup [k, v]) => some (k, v, none)
      | .ts (.tup [k, v]) t => some (k, v, some t)
      | _ => none
    let keys := (kvs.map (·.1)).eraseDups
    let expectedFor (k : Val) : Elem Val :=
      let mine := kvs.filter (·.1 == k)
      let r := (mine.map (·.2.1)).foldl f init
      match maxInts (mine.filterMap (·.2.2)) with
      | some t => .ts (.tup [k, r]) t
      | none => .item (.tup [k, r])
    let outKeys := data.filterMap fun e => match e.value with | some (.tup [k, _]) => some k | _ => none
    firstFail [shapeOk it outs,
      check (outKeys.length == data.length) s!"iteration ending at {it.stop}: a result is not a (key,value) pair",
      check (outKeys.eraseDups.length == outKeys.length) s!"iteration ending at {it.stop}: two results for one key",
      check (outKeys.all keys.contains) s!"iteration ending at {it.stop}: result for a key that does not occur",
      check (keys.all outKeys.contains) s!"iteration ending at {it.stop}: no result for an occurring key",
      check (data.all fun e => match e.value with
               | some (.tup [k, _]) => e == expectedFor k
               | _ => false)
        s!"iteration ending at {it.stop}: results {data.map elemToStr} expected {(keys.map expectedFor).map elemToStr}"]
  let outEs := impl.map (·.2)
  firstFail (perIter ++ [
    check (impl.all fun p => its.any fun it => it.start ≤ p.1 && p.1 ≤ it.stop) "output attributed to no iteration",
    check (grammarOk outEs) "output violates the stream grammar",
    check (!wmSafeOk es || wmSafeOk outEs) "output violates watermark safety"])

def handle (c : Case) : Verdict :=
  match c.header with
  | [_, _, fn] =>
    match lib fn with
    | some (init, f) =>
      let raw := parseOps c
      let es := normalise raw
      match es.mapM elemUnpair with
      | none => { out := [], oracle := some "payload is not a (key,value) pair", nontrivial := false }
      | some kes =>
        let mout := (Noir.KeyedFold.runIdx f init Noir.KeyedFold.State.init 0 kes).map
          fun p => (p.1, p.2.map repair)
        let out := (canonRuns mout).map fmtIdx
        let impl := c.implOut.filterMap parseIdxOut
        let wellFormed := grammarOk raw
        let oracle :=
          if impl.length ≠ c.implOut.length then some s!"unparsable implementation output {c.implOut}"
          else if !wellFormed then none
          else oracle init f es impl
        let nkeys := ((es.filterMap Elem.value).filterMap fun v => (unpair v).map (·.1.s)).eraseDups.length
        { out, oracle,
          nontrivial := wellFormed && es.any Elem.isData,
          tags := [s!"fn:{fn}", if wellFormed then "grammar" else "malformed",
                   s!"keys{if nkeys ≥ 6 then "6+" else toString nkeys}"] ++ kindTag es }
    | none => { out := [], oracle := some "bad header", nontrivial := false }
  | _ => { out := [], oracle := some "bad header", nontrivial := false }

end Noir.Driver.Kfold
