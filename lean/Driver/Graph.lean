/-
  Driver/Graph.lean — execution-graph cases (C19, and the forward-link part of C03).
  header: `<id> graph local <n>` | `<id> graph remote`
  ops: see harness/src/bin/graph.rs (a program of `Stream` API calls + `host` lines).
  outputs: `isect <R>`, `lost <n>`, then per host `H <h>` followed by
           `B <id> <onlyOne> <coord:gid,…> <host=[coord,…];…>`, `L <from> <fragile> <to,…>`,
           `A <block> <host> <prev> a<addr> <port>`; `H <h> =0` = identical to the dump of host 0.
-/
import Driver.Proto
import NoirVerif.Model.Placement
namespace Noir.Driver.Graph
open Noir Noir.Driver Noir.Placement

def parseRepl (s : String) : Option Replication :=
  match s.toList with
  | ['U'] => some .unlimited
  | ['H'] => some .host
  | ['O'] => some .one
  | 'L' :: ds => (String.ofList ds).toNat?.map .limited
  | _ => none

def fmtRepl : Replication → String
  | .unlimited => "U"
  | .host => "H"
  | .one => "O"
  | .limited n => s!"L{n}"

/-- loop body letters: `m` map, `x` shuffle, `g` group_by, `r` nested replay (others ignored) -/
def parseBody (s : String) : List BodyOp :=
  s.toList.filterMap fun c =>
    match c with
    | 'm' => some .noop
    | 'x' | 'g' => some .exchange
    | 'r' => some .replay
    | _ => none

def parseOp (w : List String) : Option Op :=
  match w with
  | ["src", o, r] => do pure (.source (← o.toNat?) (← parseRepl r))
  | ["shuffle", s, o] | ["groupby", s, o] | ["broadcast", s, o] => do
    pure (.exchange (← s.toNat?) (← o.toNat?))
  | ["repl", s, o, r] => do pure (.replication (← s.toNat?) (← o.toNat?) (← parseRepl r))
  | "split" :: s :: outs => do
    let outs ← outs.mapM String.toNat?
    if outs.isEmpty then none else pure (.split (← s.toNat?) outs)
  | ["merge", a, b, o] => do pure (.merge (← a.toNat?) (← b.toNat?) (← o.toNat?))
  | ["zip", a, b, o] => do pure (.zip (← a.toNat?) (← b.toNat?) (← o.toNat?))
  | ["join", a, b, o] => do pure (.join (← a.toNat?) (← b.toNat?) (← o.toNat?))
  | ["bjoin", a, b, o] => do pure (.bjoin (← a.toNat?) (← b.toNat?) (← o.toNat?))
  | ["sink", s, "vec"] => do pure (.sinkVec (← s.toNat?))
  | ["sink", s, _] | ["sink", s] => do pure (.sinkEach (← s.toNat?))
  | ["iterate", s, a, b] => do pure (.iterate (← s.toNat?) (← a.toNat?) (← b.toNat?) [])
  | ["iterate", s, a, b, body] => do pure (.iterate (← s.toNat?) (← a.toNat?) (← b.toNat?) (parseBody body))
  | ["replay", s, o] => do pure (.replay (← s.toNat?) (← o.toNat?) [])
  | ["replay", s, o, body] => do
    pure (.replay (← s.toNat?) (← o.toNat?) ((parseBody body).filter (· != .replay)))
  | _ => none

def coordStr (c : Coord) : String := s!"{c.block}.{c.host}.{c.replica}"

def parseCoord (s : String) : Option Coord :=
  match s.splitOn "." with
  | [b, h, r] => do pure ⟨← b.toNat?, ← h.toNat?, ← r.toNat?⟩
  | _ => none

def dash (l : List String) (sep : String) : String := if l.isEmpty then "-" else sep.intercalate l

/-- runs of consecutive links with the same `(from, fragile)` -/
def groupLinks : List Link → List (Coord × Bool × List Coord)
  | [] => []
  | l :: ls =>
    match groupLinks ls with
    | (f, fr, tos) :: rest =>
      if f == l.src && fr == l.fragile then (f, fr, l.dst :: tos) :: rest
      else (l.src, l.fragile, [l.dst]) :: (f, fr, tos) :: rest
    | [] => [(l.src, l.fragile, [l.dst])]

def fmtDump (d : Dump) : List String :=
  let bs := d.blocks.map fun bi =>
    let reps := bi.replicas.zipIdx.map fun (c, g) => s!"{coordStr c}:{g}"
    let ph := bi.counts.zipIdx.map fun (n, h) =>
      s!"{h}=[{",".intercalate ((List.range n).map fun r => coordStr ⟨bi.id, h, r⟩)}]"
    s!"B {bi.id} {if bi.onlyOne then 1 else 0} {dash reps ","} {dash ph ";"}"
  let ls := (groupLinks d.links).map fun (f, fr, tos) =>
    s!"L {coordStr f} {if fr then 1 else 0} {",".intercalate (tos.map coordStr)}"
  let as := d.addrs.map fun a => s!"A {a.demux.block} {a.demux.host} {a.demux.prev} a{a.addr} {a.port}"
  bs ++ ls ++ as

/-! ### parsing the implementation's dump -/

structure IBlock where
  id : Nat
  onlyOne : Bool
  replicas : List (Coord × Nat)
  perHost : List (Nat × List Coord)
  deriving Inhabited

structure IDump where
  blocks : List IBlock := []
  links : List Link := []
  addrs : List (Demux × String × Nat) := []
  deriving Inhabited

def splitNonEmpty (s sep : String) : List String := if s == "-" || s == "" then [] else s.splitOn sep

def parseDumpLine (d : IDump) (line : String) : Option IDump :=
  match words line with
  | ["B", id, oo, reps, ph] => do
    let reps ← (splitNonEmpty reps ",").mapM fun t =>
      match t.splitOn ":" with
      | [c, g] => do pure (← parseCoord c, ← g.toNat?)
      | _ => none
    let ph ← (splitNonEmpty ph ";").mapM fun t =>
      match t.splitOn "=" with
      | [h, l] => do
        let inner := ((l.drop 1).toString.dropEnd 1).toString
        pure (← h.toNat?, ← (splitNonEmpty inner ",").mapM parseCoord)
      | _ => none
    pure { d with blocks := d.blocks ++ [⟨← id.toNat?, oo == "1", reps, ph⟩] }
  | ["L", f, fr, tos] => do
    let f ← parseCoord f
    let tos ← (tos.splitOn ",").mapM parseCoord
    pure { d with links := d.links ++ tos.map fun t => ⟨f, t, fr == "1"⟩ }
  | ["A", b, h, p, a, port] => do
    pure { d with addrs := d.addrs ++ [(⟨← b.toNat?, ← h.toNat?, ← p.toNat?⟩, a, ← port.toNat?)] }
  | _ => none

/-- host sections: `(host, sameAsHost0, lines)` -/
def sections (lines : List String) : List (Nat × Bool × List String) :=
  let rec go (ls : List String) (cur : Option (Nat × Bool × List String))
      (acc : List (Nat × Bool × List String)) : List (Nat × Bool × List String) :=
    let flush := match cur with | some (h, s, l) => acc ++ [(h, s, l.reverse)] | none => acc
    match ls with
    | [] => flush
    | l :: rest =>
      match words l with
      | ["H", h] => go rest (some (h.toNat?.getD 0, false, [])) flush
      | ["H", h, "=0"] => go rest (some (h.toNat?.getD 0, true, [])) flush
      | _ => go rest (cur.map fun (h, s, ls) => (h, s, l :: ls)) acc
  go lines none []

/-! ### the property, evaluated on the implementation's dump (spec side) -/

/-- The placement rule of C19, written as a closed form: the number of replicas on host `i`. -/
def specCount (cfg : Config) (r : Replication) (i : Nat) : Nat :=
  match cfg with
  | .loc p =>
    if i ≠ 0 then 0 else
    match r with
    | .unlimited => p
    | .limited n => min n p
    | .host | .one => 1
  | .remote hosts =>
    match hosts[i]? with
    | none => 0
    | some h =>
      match r with
      | .unlimited => h.cores
      | .limited n => min h.cores (n - ((hosts.take i).map (·.cores)).sum)
      | .host => 1
      | .one => if i = 0 then 1 else 0

def numHosts : Config → Nat
  | .loc _ => 1
  | .remote hosts => hosts.length

def sameSet {α : Type} [BEq α] (a b : List α) : Bool := a.all b.contains && b.all a.contains

def noDup {α : Type} [BEq α] : List α → Bool
  | [] => true
  | a :: l => !l.contains a && noDup l

structure Fail where
  /-- a forward producer replica without any consumer (the shape of the former finding F4) -/
  orphan : Bool
  msg : String

def checkDump (cfg : Config) (job : Job) (d : IDump) : List Fail := Id.run do
  let mut fails : List Fail := []
  let other (m : String) : Fail := ⟨false, m⟩
  -- blocks: exactly the scheduled ones
  unless sameSet (d.blocks.map (·.id)) (job.blocks.map (·.id)) && noDup (d.blocks.map (·.id)) do
    fails := fails ++ [other s!"block ids {d.blocks.map (·.id)} vs scheduled {job.blocks.map (·.id)}"]
  for b in job.blocks do
    match d.blocks.find? (·.id == b.id) with
    | none => pure ()
    | some ib =>
      -- placement rule
      let expected : List Coord := (List.range (numHosts cfg)).flatMap fun h =>
        (List.range (specCount cfg b.repl h)).map fun r => ⟨b.id, h, r⟩
      let got := ib.replicas.map (·.1)
      unless sameSet got expected && noDup got do
        fails := fails ++ [other s!"placement of block {b.id} ({fmtRepl b.repl}): {got.map coordStr} expected {expected.map coordStr}"]
      -- the per-host view is the same set
      unless sameSet (ib.perHost.flatMap (·.2)) got
          && ib.perHost.all (fun (h, l) => l.all (·.host == h)) && noDup (ib.perHost.map (·.1)) do
        fails := fails ++ [other s!"per-host replicas of block {b.id} differ from its replicas"]
      -- global ids: a bijection onto [0, #replicas)
      let gids := ib.replicas.map (·.2)
      unless sameSet gids (List.range gids.length) && noDup gids do
        fails := fails ++ [other s!"global ids of block {b.id} are {gids}"]
      unless ib.onlyOne == b.onlyOne do
        fails := fails ++ [other s!"is_only_one of block {b.id}"]
  -- links
  let replicasOf (id : Nat) : List Coord :=
    match d.blocks.find? (·.id == id) with | some ib => ib.replicas.map (·.1) | none => []
  for l in d.links do
    unless job.edges.any (fun e => e.src == l.src.block && e.dst == l.dst.block && e.fragile == l.fragile) do
      fails := fails ++ [other s!"link {coordStr l.src}->{coordStr l.dst} belongs to no job-graph edge"]
  unless noDup d.links do
    fails := fails ++ [other "duplicate links"]
  for e in job.edges do
    let ps := replicasOf e.src
    let cs := replicasOf e.dst
    let forward := e.fragile || (job.blocks.find? (·.id == e.src)).any (·.onlyOne)
    for p in ps do
      let got := (d.links.filter fun l => l.src == p && l.dst.block == e.dst && l.fragile == e.fragile).map (·.dst)
      if forward then
        let partner := cs.filter fun c => c.host == p.host && c.replica == p.replica
        if got.length ≠ 1 then
          fails := fails ++ [⟨got.isEmpty && cs.length > 1, s!"forward edge {e.src}->{e.dst}: producer {coordStr p} has {got.length} consumers (consumer block has {cs.length} replicas, producer block {ps.length})"⟩]
        else if !partner.isEmpty && got != partner then
          fails := fails ++ [other s!"forward edge {e.src}->{e.dst}: producer {coordStr p} is not linked to its same-index consumer"]
        else if !got.all cs.contains then
          fails := fails ++ [other s!"forward edge {e.src}->{e.dst}: consumer of {coordStr p} is not a replica"]
      else
        unless sameSet got cs do
          fails := fails ++ [other s!"edge {e.src}->{e.dst}: producer {coordStr p} reaches {got.length} of {cs.length} consumers"]
  -- addresses
  match cfg with
  | .loc _ =>
    unless d.addrs.isEmpty do fails := fails ++ [other "addresses in a local configuration"]
  | .remote hosts =>
    let needed := d.links.map demuxOf
    unless sameSet (d.addrs.map (·.1)) needed && noDup (d.addrs.map (·.1)) do
      fails := fails ++ [other "the addressed endpoints are not exactly the (block, host, prev block) of the links"]
    for (dm, a, port) in d.addrs do
      match hosts[dm.host]? with
      | none => fails := fails ++ [other s!"address for unknown host {dm.host}"]
      | some h =>
        unless a == s!"a{h.addr}" && h.basePort ≤ port do
          fails := fails ++ [other s!"endpoint ({dm.block},{dm.host},{dm.prev}) has address {a}:{port}"]
    -- collision freedom on every host
    for h in List.range hosts.length do
      let ports := (d.addrs.filter (·.1.host == h)).map (·.2.2)
      unless noDup ports do
        fails := fails ++ [other s!"port collision on host {h}: {ports}"]
    -- and globally, when the configuration keeps hosts on one address apart
    let cnt (h : Nat) : Nat := (d.addrs.filter (·.1.host == h)).length
    let apart := (List.range hosts.length).all fun i => (List.range hosts.length).all fun j =>
      i == j || match hosts[i]?, hosts[j]? with
        | some a, some b => a.addr != b.addr || a.basePort + cnt i ≤ b.basePort || b.basePort + cnt j ≤ a.basePort
        | _, _ => true
    if apart then
      unless noDup (d.addrs.map fun x => (x.2.1, x.2.2)) do
        fails := fails ++ [other "two endpoints share an (address, port)"]
  return fails

def handle (c : Case) : Verdict := Id.run do
  let cfg : Config :=
    match c.header with
    | [_, _, "local", n] => .loc (n.toNat?.getD 1)
    | _ => .remote (c.ops.filterMap fun w =>
        match w with
        | ["host", a, p, n] => do pure ⟨← a.toNat?, ← p.toNat?, ← n.toNat?⟩
        | _ => none)
  let b := Builder.run (c.ops.filterMap parseOp)
  match b.panic with
  | some p => return { out := [p], oracle := if c.implOut == [p] then none else some "the program should be rejected",
                       nontrivial := false, tags := ["panic"] }
  | none => pure ()
  let job := b.job
  let totalReplicas := (blockInfo cfg ⟨0, .unlimited, false⟩).replicas.length
  let parseKeys (s : String) : List (Nat × Nat) :=
    ((s.splitOn ",").filterMap fun t =>
      match t.splitOn ":" with
      | [k, h] => do
        let h ← h.toInt?
        pure (← k.toNat?, if h < 0 then (h + 18446744073709551616).toNat else h.toNat)
      | _ => none).mergeSort (fun a b => a.1 ≤ b.1)
  let pre := c.ops.flatMap fun w =>
    match w with
    | ["isect", a, b] =>
      match parseRepl a, parseRepl b with
      | some a, some b => [s!"isect {fmtRepl (a.intersect b)}"]
      | _, _ => []
    | ["lost", cores, n, k] =>
      match cores.toNat?, n.toNat?, k.toNat? with
      | some cores, some n, some k =>
        let f := blockInfo (.loc cores) ⟨0, .unlimited, true⟩
        let t := blockInfo (.loc cores) ⟨1, .limited k, true⟩
        let orphans := (f.replicas.filter fun p => (consumers f t false p).isEmpty).length
        [s!"lost {orphans * (n / cores)}"]
      | _, _, _ => []
    -- running-engine probes: `2 * #replicas` source elements, each emitting every key once
    | ["engine", "gb", keys] =>
      let to := blockInfo cfg ⟨1, .unlimited, false⟩
      (parseKeys keys).map fun (k, h) =>
        let t := to.replicas[h % to.replicas.length]?.getD default
        s!"engine gb {k} {coordStr t} n={2 * totalReplicas} p={totalReplicas}"
    | ["engine", "join", keys] =>
      let to := blockInfo cfg ⟨2, .unlimited, false⟩
      let line (side : String) (kh : Nat × Nat) : String :=
        let t := to.replicas[kh.2 % to.replicas.length]?.getD default
        s!"engine {side} {kh.1} {coordStr t} n={(2 * totalReplicas) * (2 * totalReplicas)} p={totalReplicas}"
      (parseKeys keys).map (line "join") ++ (parseKeys keys).map (line "join-right")
    | ["engine", "fwd", r] =>
      match parseRepl r with
      | some r =>
        let f := blockInfo cfg ⟨0, .unlimited, true⟩
        let t := blockInfo cfg ⟨1, r, false⟩
        f.replicas.map fun p =>
          s!"engine fwd {coordStr p} {",".intercalate ((consumers f t false p).map coordStr)}"
      | none => []
    | _ => []
  let nh := numHosts cfg
  if nh == 0 then
    return { out := pre ++ ["nohosts"], oracle := none, nontrivial := false, tags := ["nohosts"] }
  let dump := executionGraph cfg job
  let text := fmtDump dump
  let out := pre ++ ["H 0"] ++ text ++ (List.range (nh - 1)).map fun h => s!"H {h + 1} =0"
  -- oracle on the implementation's lines
  let implPre := c.implOut.takeWhile fun l => !l.startsWith "H "
  let secs := sections c.implOut
  let mut fails : List Fail := []
  for l in implPre do
    match words l with
    | ["engine", "panic"] | ["engine", "timeout"] => fails := fails ++ [⟨false, s!"the real job failed: {l}"⟩]
    | ["engine", kind, key, cs, n, p] =>
      -- one consumer per key, whatever producer replica / host / join side the record came from
      if (cs.splitOn ",").length ≠ 1 then
        fails := fails ++ [⟨false, s!"{kind}: key {key} was delivered to several replicas: {cs}"⟩]
      if p != s!"p={totalReplicas}" then
        fails := fails ++ [⟨false, s!"{kind}: key {key} seen from {p} producer replicas, expected {totalReplicas}"⟩]
      let expN := if kind == "gb" then 2 * totalReplicas else (2 * totalReplicas) * (2 * totalReplicas)
      if n != s!"n={expN}" then
        fails := fails ++ [⟨false, s!"{kind}: key {key} {n}, expected {expN} records"⟩]
      if kind == "join-right" then
        unless implPre.any (fun l' => (words l').take 4 == ["engine", "join", key, cs]) do
          fails := fails ++ [⟨false, s!"join: the two inputs of key {key} did not meet on one replica"⟩]
    | ["engine", "fwd", p, cs] =>
      if (cs.splitOn ",").length ≠ 1 || cs == "" then
        fails := fails ++ [⟨false, s!"forward: producer {p} delivered to {cs}"⟩]
    | ["lost", n] => if n != "0" then
        fails := fails ++ [⟨false, s!"{n} elements of a finite job were lost"⟩]
    | _ => pure ()
  unless secs.length == nh && (secs.map (·.1)) == List.range nh do
    fails := fails ++ [⟨false, s!"dumps for hosts {secs.map (·.1)}, expected {nh} hosts"⟩]
  for (h, same, _) in secs do
    unless h == 0 || same do
      fails := fails ++ [⟨false, s!"host {h} derives a different execution graph than host 0"⟩]
  match secs with
  | (_, _, lines) :: _ =>
    match lines.foldlM parseDumpLine ({} : IDump) with
    | none => fails := fails ++ [⟨false, "unparsable dump"⟩]
    | some d => fails := fails ++ checkDump cfg job d
  | [] => pure ()
  let oracle :=
    match fails with
    | [] => none
    | f :: _ => some s!"{f.msg} ({fails.length} failures)"
  let malformed := !wellFormed dump job.edges
  let usesFallback := job.edges.any fun e =>
    match findInfo dump.blocks e.src, findInfo dump.blocks e.dst with
    | some f, some t => f.replicas.any fun p => orphan f.onlyOne e.fragile t.replicas p
    | _, _ => false
  let hasForward := job.edges.any fun e => e.fragile || (job.blocks.find? (·.id == e.src)).any (·.onlyOne)
  let engineFwd := (implPre.filter fun l => (words l).take 2 == ["engine", "fwd"]).length
  if c.ops.any (fun w => w.take 2 == ["engine", "fwd"]) && engineFwd ≠ totalReplicas then
    fails := fails ++ [⟨false, s!"forward: {engineFwd} of {totalReplicas} producer replicas delivered something"⟩]
  let tags := [match cfg with | .loc _ => "local" | .remote hs => s!"remote{hs.length}",
               s!"blocks{min job.blocks.length 6}"] ++
    (if hasForward then ["forward"] else []) ++
    (if job.edges.any (·.fragile) then ["fragile"] else []) ++
    (if malformed then ["malformed"] else []) ++
    (if usesFallback then ["fallback"] else []) ++
    (c.ops.filterMap fun w => match w with | "engine" :: k :: _ => some s!"engine-{k}" | _ => none) ++
    (if fails.any (·.orphan) then ["orphan-producer"] else [])
  return { out, oracle, nontrivial := job.blocks.length ≥ 2 && !job.edges.isEmpty, tags }

end Noir.Driver.Graph
