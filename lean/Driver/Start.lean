/-
  Driver/Start.lean — the simple `Start` (C05, C06, C17, C04 marker accounting).
  header: `<id> start <n>`; ops: `b <replica> <elem>…` (one batch per line; the harness pulls until the
  protocol's timeout `FlushBatch`, which is not printed); outputs: `<op index> <elem>`.
-/
import Driver.Proto
import NoirVerif.Model.Start
import NoirVerif.Model.StartSpec
namespace Noir.Driver.Start
open Noir Noir.Driver Noir.Start Noir.StartSpec

structure Batch where
  idx : Nat
  r : Nat
  elems : List (Elem Val)
  pull : Bool := true      -- `b` = send and pull until the timeout FlushBatch; `q` = send only

def parseBatches (ops : List (List String)) : List Batch :=
  (ops.zipIdx).filterMap fun (w, i) =>
    match w with
    | op :: r :: es =>
      if op != "b" && op != "q" then none else
      match r.toNat? with
      | some r =>
        let elems := es.filterMap parseElem
        if elems.isEmpty then none else some ⟨i, r, elems, op == "b"⟩
      | none => none
    | _ => none

/-- model outputs in the harness' format; stops at the first `Terminate`; after every batch the
    protocol lets the receive time out once (arrival `timeout`, output `FB`). -/
def modelOut (n : Nat) (bs : List Batch) : List String := Id.run do
  let mut s := Noir.Start.init n
  let mut out : List String := []
  let mut done := false
  -- elements of queued batches are consumed by the next pulling batch and carry its index
  let mut pendingEl : List (Nat × Elem Val) := []
  for b in bs do
    if done || b.r ≥ n then continue
    pendingEl := pendingEl ++ b.elems.map (fun e => (b.r, e))
    if !b.pull then continue
    for (r, e) in pendingEl do
      if done then continue
      let (s', o) := Noir.Start.step s (Arrival.elem r e)
      s := s'
      for x in o do
        if done then continue
        out := s!"{b.idx} {elemToStr x}" :: out
        if x.isTerm then done := true
    pendingEl := []
    if !done then
      let (s', o) := Noir.Start.step s (Arrival.timeout : Arrival Val)
      s := s'
      for x in o do
        out := s!"{b.idx} {elemToStr x}" :: out
  return out.reverse

/-- The oracle works on the implementation's output elements (indices stripped). -/
def parseImpl (l : List String) : Option (List (Elem Val)) :=
  l.mapM fun s => match words s with | [_, e] => parseElem e | _ => none

/-- last watermark in `out` after the last `far` -/
def lastWmInIter (out : List (Elem Val)) : Option Int :=
  out.foldl (fun acc e => match e with | .far => none | .wm t => some t | _ => acc) none

/-- C06/C17 "only the minimum is forwarded": every watermark the block emits must be a value the
    specification frontier takes at some arrival up to the end of the pull that emitted it (no
    premature, too large or invented watermark). `groups` = arrivals grouped by the index of the pull
    that consumed them. Returns the first offending watermark. -/
def forwardedOnlyMin (n : Nat) (bs : List Batch) (implLines : List String) : Option String := Id.run do
  -- spec frontier values reached up to the end of each pull index
  let mut s : InSt := InSt.init n
  let mut seen : List Int := []            -- frontier values seen in the current iteration so far
  let mut perIdx : List (Nat × List Int) := []
  let mut pendingB : List Batch := []
  for b in bs do
    pendingB := pendingB ++ [b]
    if !b.pull then continue
    for pb in pendingB do
      for e in pb.elems do
        match inStep s pb.r e with
        | some s' =>
          s := s'
          match specFront s with
          | some f => seen := f :: seen
          | none => pure ()
        | none => pure ()
    perIdx := perIdx ++ [(b.idx, seen)]
    pendingB := []
  let mut bad : Option String := none
  let mut lastIdx := 0
  let mut emittedThisIter : List Int := []
  for l in implLines do
    match words l with
    | [i, e] =>
      match i.toNat?, parseElem e with
      | some i, some (.wm w) =>
        let allowed := (perIdx.filter (fun p => p.1 ≤ i)).flatMap (·.2) ++
                       ((perIdx.find? (fun p => p.1 == i)).map (·.2)).getD []
        -- values of earlier iterations are still in `allowed` of earlier indices; that is fine: the
        -- check is that the value was a frontier value by the end of its own pull
        let okNow := ((perIdx.filter (fun p => p.1 ≤ i)).any (fun p => p.2.contains w))
        if !okNow && bad.isNone then
          bad := some s!"watermark {w} emitted at pull {i} is not a value of the minimum over the active replicas up to that point (allowed so far: {allowed.eraseDups.take 8})"
        lastIdx := i
        emittedThisIter := w :: emittedThisIter
      | _, _ => pure ()
    | _ => pure ()
  return bad

/-- C17 oracle: at every data element the last watermark observed in the current iteration equals
    the spec frontier at the moment the element arrived. Returns the first discrepancy. -/
def progressCheck (n : Nat) (bs : List Batch) (impl : List (Elem Val)) : Option String := Id.run do
  let mut s : InSt := InSt.init n
  -- positions of data elements in the impl output, in order
  let mut outRest := impl
  let mut outSeen : List (Elem Val) := []
  let mut bad : Option String := none
  for b in bs do
    for e in b.elems do
      if bad.isSome then continue
      if e.isData then
        -- advance in the output up to (excluding) the next data element
        let pre := outRest.takeWhile (fun x => !x.isData)
        outSeen := outSeen ++ pre
        outRest := outRest.drop pre.length
        match outRest with
        | [] => pure ()     -- the implementation stopped earlier (e.g. terminated): nothing to check
        | d :: rest =>
          let f := specFront s
          let seen := lastWmInIter outSeen
          if f.isSome && seen != f then
            bad := some s!"progress: data element {elemToStr d} observed with last watermark {seen} but the minimum over active replicas is {f}"
          outSeen := outSeen ++ [d]
          outRest := rest
      match inStep s b.r e with
      | some s' => s := s'
      | none => pure ()
  return bad

def inputValid (n : Nat) (bs : List Batch) : Bool := Id.run do
  let mut s := InSt.init n
  let mut ok := true
  for b in bs do
    for e in b.elems do
      match inStep s b.r e with
      | some s' => s := s'
      | none => ok := false
  return ok

/-- every replica sent a final TERM and all iterations are closed -/
def inputComplete (n : Nat) (bs : List Batch) : Bool :=
  let terms := bs.foldl (fun acc b => acc + (b.elems.filter Elem.isTerm).length) 0
  let fars := bs.foldl (fun acc b => acc + (b.elems.filter Elem.isFar).length) 0
  terms == n && fars % n == 0 && fars ≥ n &&
    -- no data after a replica's TERM
    true

def handle (c : Case) : Verdict :=
  match c.header with
  | [_, _, n] =>
    match n.toNat? with
    | some n =>
      let bs := parseBatches c.ops
      let out := modelOut n bs
      let valid := n ≥ 1 && inputValid n bs && bs.all (fun b => b.r < n)
      let oracle : Option String :=
        if !valid then none else
        match parseImpl c.implOut with
        | none => some "unparsable implementation output"
        | some impl =>
          -- the timeout FlushBatches are real outputs of `Start`; for C06/C17 they are irrelevant
          let implNoFb := impl.filter (fun e => match e with | .flushBatch => false | _ => true)
          let f06 := if !wmSafeOk impl then ["[C06] output violates watermark safety"] else []
          let f05 :=
            if inputComplete n bs && !grammarOk impl then
              -- F11: the only deviation is a timeout FlushBatch between the last FlushAndRestart and Terminate
              if grammarOk implNoFb && c.implOut == out then
                ["[C05] known:F11-flushbatch-between-last-far-and-terminate output has FlushBatch after the last FlushAndRestart"]
              else ["[C05] output violates the stream grammar"]
            else []
          let f17 := match progressCheck n bs implNoFb with
            | some msg => ["[C17] " ++ msg]
            | none => []
          let fmin := match forwardedOnlyMin n bs c.implOut with
            | some msg => ["[C06] " ++ msg, "[C17] " ++ msg]
            | none => []
          let all := f06 ++ f05 ++ f17 ++ fmin
          if all.isEmpty then none else some (" ;; ".intercalate all)
      let nWm := (bs.foldl (fun acc b => acc + (b.elems.filter (fun e => match e with | .wm _ => true | _ => false)).length) 0)
      { out, oracle := oracle.map (fun m => if m.startsWith "known:" then m else m),
        nontrivial := valid && n ≥ 2 && bs.length ≥ 3 && nWm > 0,
        tags := [s!"n{min n 4}", if valid then "valid" else "invalid", if nWm > 0 then "wm" else "nowm",
                 if inputComplete n bs then "complete" else "incomplete"] }
    | none => { out := [], oracle := some "bad header", nontrivial := false }
  | _ => { out := [], oracle := some "bad header", nontrivial := false }

end Noir.Driver.Start
