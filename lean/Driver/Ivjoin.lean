/-
  Driver/Ivjoin.lean — interval-join cases (C08, interval clause).
  header: `<id> ivjoin <lower> <upper>`; ops: `e <elem>` with `T:(k,L<v>):ts` / `T:(k,R<v>):ts` / `W:ts` / `FB` /
  `FAR` / `I:(k,L<v>)` (malformed); the scripted source yields `Terminate` after the last op. `lower`, `upper`
  and the timestamps are arbitrary `i64`s.
  outputs: every element returned by `next()` until `Terminate` (inclusive), in order (the operator never
  iterates a hash map, so the order is fully specified); a panic replaces the output by `panic:<class>`.
-/
import Driver.Proto
import NoirVerif.Model.IntervalJoin
namespace Noir.Driver.Ivjoin
open Noir Noir.Driver Noir.IntervalJoin

def toIn : Elem Val → Option (Elem (Int × (Val ⊕ Val)))
  | .item (.tup [.int k, .left v]) => some (.item (k, .inl v))
  | .item (.tup [.int k, .right v]) => some (.item (k, .inr v))
  | .ts (.tup [.int k, .left v]) t => some (.ts (k, .inl v) t)
  | .ts (.tup [.int k, .right v]) t => some (.ts (k, .inr v) t)
  | .wm t => some (.wm t)
  | .flushBatch => some .flushBatch
  | .far => some .far
  | _ => none

def fmtOut : Elem (Int × Val × Val) → String
  | .ts (k, l, r) t => elemToStr (.ts (.tup [.int k, .tup [l, r]]) t)
  | .far => "FAR"
  | .flushBatch => "FB"
  | .term => "TERM"
  | _ => "?"

def runModel (lb ub : Int) (es : List (Elem (Int × (Val ⊕ Val)))) : Except String (List String) :=
  let rec go (es : List (Elem (Int × (Val ⊕ Val)))) (s : State Int Val Val) (acc : List String) :
      Except String (List String) :=
    match es with
    | [] => .ok (acc ++ ["TERM"])
    | e :: es =>
      if panics s e then
        .error (match e with | .item _ => "other:interval_join_only_supports_timestamped_" | _ => "other:assertion_failed:_ts_>=_self.last_seen")
      else
        let (s', out) := step lb ub s e
        go es s' (acc ++ out.map fmtOut)
  go es State.init []

def sortStrs (l : List String) : List String := l.mergeSort (fun a b => decide (a ≤ b))

/-! Spec side. Deliberately independent of the model: it uses neither `lowerOf`/`upperOf`/`clamp` nor
    `panics` of `Model/IntervalJoin.lean` (an earlier version did, and therefore could see neither the
    wrong-way saturation of `checked_sub(..).unwrap_or(MIN)` nor the `last_seen = 0` panic on negative
    timestamps). The bounds are the TRUE integer values `l.ts - lower`, `l.ts + upper`, brought into the
    `i64` range by `max`/`min` — the meaning of the property for a timestamp type that ends at `i64::MAX`. -/

def I64_MIN : Int := -(2 ^ 63)
def I64_MAX : Int := 2 ^ 63 - 1

/-- the interval of a left element at `lt`, true integer arithmetic, then cut to the i64 range -/
def interval (lb ub lt : Int) : Int × Int :=
  (max I64_MIN (min I64_MAX (lt - lb)), max I64_MIN (min I64_MAX (lt + ub)))

/-- Domain of the property, decided on the INPUT only: timestamped elements and watermarks (no `Item`),
    timestamps non-decreasing within an iteration (what the upstream `Reorder` guarantees). Any `i64`
    timestamp is in the domain, negative ones included. -/
def inDomain (es : List (Elem (Int × (Val ⊕ Val)))) : Bool :=
  let rec go (es : List (Elem (Int × (Val ⊕ Val)))) (last : Option Int) : Bool :=
    let ok (t : Int) : Bool := (match last with | some l => decide (l ≤ t) | none => true)
      && decide (I64_MIN ≤ t) && decide (t ≤ I64_MAX)
    match es with
    | [] => true
    | .item _ :: _ => false
    | .ts _ t :: rest => ok t && go rest (some t)
    | .wm t :: rest => ok t && go rest (some t)
    | .far :: rest => go rest none
    | _ :: rest => go rest last
  go es none

/-- the pairs of one iteration by a direct nested loop over ALL left and right elements -/
def pairsOf (lb ub : Int) (L R : List (Int × Int × Val)) (cut : Bool) : List String :=
  sortStrs (L.flatMap fun (lt, lk, lv) =>
    let (lo, hi) := if cut then interval lb ub lt else (lt - lb, lt + ub)
    (R.filter fun (rt, rk, _) => rk == lk && decide (lo ≤ rt) && decide (rt ≤ hi)).map
      fun (rt, _, rv) => elemToStr (.ts (.tup [.int lk, .tup [lv, rv]]) (max lt rt)))

/-- spec side: per complete iteration, the interval pairs; `cut = false`: no cut to the i64 range at all
    (only used for the distribution tag `zdiff`) -/
def specIters (lb ub : Int) (cut : Bool) (es : List (Elem (Int × (Val ⊕ Val)))) : List (List String) × List String :=
  let rec go (es : List (Elem (Int × (Val ⊕ Val)))) (L : List (Int × Int × Val)) (R : List (Int × Int × Val))
      (acc : List (List String)) : List (List String) × List String :=
    match es with
    | [] => (acc.reverse, pairsOf lb ub L R cut)
    | .ts (k, .inl v) t :: rest => go rest (L ++ [(t, k, v)]) R acc
    | .ts (k, .inr v) t :: rest => go rest L (R ++ [(t, k, v)]) acc
    | .far :: rest => go rest [] [] (pairsOf lb ub L R cut :: acc)
    | _ :: rest => go rest L R acc
  go es [] [] []

/-- is `a` a sub-multiset of `b` (both sorted)? -/
def subMultiset : List String → List String → Bool
  | [], _ => true
  | _ :: _, [] => false
  | a :: as, b :: bs => if a == b then subMultiset as bs else if b < a then subMultiset (a :: as) bs else false

def implIters (lines : List String) : Option (List (List String) × List String) :=
  let rec go (lines : List String) (cur : List String) (acc : List (List String)) :
      Option (List (List String) × List String) :=
    match lines with
    | [] => none
    | ["TERM"] => some (acc.reverse, sortStrs cur)
    | l :: rest =>
      if l == "FAR" then go rest [] (sortStrs cur :: acc)
      else if l == "FB" then go rest cur acc
      else if l.startsWith "T:" then go rest (l :: cur) acc
      else none
  go lines [] []

def bad (msg : String) : Verdict := { out := [], oracle := some msg, nontrivial := false }

def handle (c : Case) : Verdict :=
  match c.header with
  | [_, _, lb, ub] =>
    match lb.toInt?, ub.toInt? with
    | some lb, some ub =>
      let es := c.ops.filterMap fun w => match w with
        | ["e", e] => (parseElem e).bind toIn
        | _ => none
      let res := runModel lb ub es
      let out := match res with | .ok l => l | .error cls => [s!"panic:{cls}"]
      let dom := inDomain es
      let (specs, specTail) := specIters lb ub true es
      let oracle : Option String :=
        if !dom then none   -- unsorted / untimestamped input: outside the property's domain
        else match implIters c.implOut with
          | none => some s!"no well-formed output on an in-domain input (panic?): {c.implOut}"
          | some (impl, tail) =>
            if impl != specs then some s!"interval join differs: impl={impl} spec={specs}"
            else if !subMultiset tail specTail then some s!"pairs outside the interval join after the last FAR: {tail}"
            else none
      let nPairs := specs.foldl (fun n l => n + l.length) 0
      let stampsOf := es.filterMap Elem.timestamp
      let big : Int := 4611686018427387904   -- 2^62
      { out, oracle, nontrivial := dom && nPairs > 0,
        tags := [s!"iters{min specs.length 3}", if dom then "valid" else "outside",
                 s!"pairs{min nPairs 3}",
                 if lb < 0 then "lb-" else if lb = 0 then "lb0" else "lb+",
                 if ub < 0 then "ub-" else if ub = 0 then "ub0" else "ub+",
                 if lb.natAbs ≥ big.natAbs || ub.natAbs ≥ big.natAbs then "hugebound" else "smallbound",
                 if stampsOf.any (· < 0) then "negts" else "nonnegts",
                 if stampsOf.any (fun t => t.natAbs ≥ big.natAbs) then "hugets" else "smallts",
                 if dom && specIters lb ub false es != (specs, specTail) then "zdiff" else "zsame"] }
    | _, _ => bad "bad header"
  | _ => bad "bad header"

end Noir.Driver.Ivjoin
