/-
  Driver/Ivjoin.lean — interval-join cases (C08, interval clause).
  header: `<id> ivjoin <lower> <upper>`; ops: `e <elem>` with `T:(k,L<v>):ts` / `T:(k,R<v>):ts` / `W:ts` / `FB` /
  `FAR` / `I:(k,L<v>)` (malformed); the scripted source yields `Terminate` after the last op.
  outputs: every element returned by `next()` until `Terminate` (inclusive), in order (the operator never
  iterates a hash map, so the order is fully specified); a panic replaces the output by `panic:<class>`.
-/
import Driver.Proto
import NoirVerif.Model.IntervalJoin
namespace Noir.Driver.Ivjoin
open Noir Noir.Driver Noir.IntervalJoin

def toIn : Elem Val → Option (Elem (Int × (Val ⊕ Val)))
  | .item (.tup [.int k, .left v]) => some (.item (k, .inl v))
  | .item (.tup [.int k, .right v]) => some (.item (k, .inr v))
  | .ts (.tup [.int k, .left v]) t => some (.ts (k, .inl v) t)
  | .ts (.tup [.int k, .right v]) t => some (.ts (k, .inr v) t)
  | .wm t => some (.wm t)
  | .flushBatch => some .flushBatch
  | .far => some .far
  | _ => none

def fmtOut : Elem (Int × Val × Val) → String
  | .ts (k, l, r) t => elemToStr (.ts (.tup [.int k, .tup [l, r]]) t)
  | .far => "FAR"
  | .flushBatch => "FB"
  | .term => "TERM"
  | _ => "?"

def runModel (lb ub : Int) (es : List (Elem (Int × (Val ⊕ Val)))) : Except String (List String) :=
  let rec go (es : List (Elem (Int × (Val ⊕ Val)))) (s : State Int Val Val) (acc : List String) :
      Except String (List String) :=
    match es with
    | [] => .ok (acc ++ ["TERM"])
    | e :: es =>
      if panics s e then
        .error (match e with | .item _ => "other:interval_join_only_supports_timestamped_" | _ => "other:assertion_failed:_ts_>=_self.last_seen")
      else
        let (s', out) := step lb ub s e
        go es s' (acc ++ out.map fmtOut)
  go es State.init []

def sortStrs (l : List String) : List String := l.mergeSort (fun a b => decide (a ≤ b))

/-- spec side: per complete iteration, the interval pairs computed by a direct nested loop -/
def specIters (lb ub : Int) (es : List (Elem (Int × (Val ⊕ Val)))) : List (List String) × List String :=
  let rec go (es : List (Elem (Int × (Val ⊕ Val)))) (L : List (Int × Int × Val)) (R : List (Int × Int × Val))
      (acc : List (List String)) : List (List String) × List String :=
    let pairsOf (L R : List (Int × Int × Val)) : List String :=
      sortStrs (L.flatMap fun (lt, lk, lv) =>
        (R.filter fun (rt, rk, _) => rk == lk && decide (lowerOf lt lb ≤ rt) && decide (rt ≤ upperOf lt ub)).map
          fun (rt, _, rv) => elemToStr (.ts (.tup [.int lk, .tup [lv, rv]]) (max lt rt)))
    match es with
    | [] => (acc.reverse, pairsOf L R)
    | .ts (k, .inl v) t :: rest => go rest (L ++ [(t, k, v)]) R acc
    | .ts (k, .inr v) t :: rest => go rest L (R ++ [(t, k, v)]) acc
    | .far :: rest => go rest [] [] (pairsOf L R :: acc)
    | _ :: rest => go rest L R acc
  go es [] [] []

/-- is `a` a sub-multiset of `b` (both sorted)? -/
def subMultiset : List String → List String → Bool
  | [], _ => true
  | _ :: _, [] => false
  | a :: as, b :: bs => if a == b then subMultiset as bs else if b < a then subMultiset (a :: as) bs else false

def implIters (lines : List String) : Option (List (List String) × List String) :=
  let rec go (lines : List String) (cur : List String) (acc : List (List String)) :
      Option (List (List String) × List String) :=
    match lines with
    | [] => none
    | ["TERM"] => some (acc.reverse, sortStrs cur)
    | l :: rest =>
      if l == "FAR" then go rest [] (sortStrs cur :: acc)
      else if l == "FB" then go rest cur acc
      else if l.startsWith "T:" then go rest (l :: cur) acc
      else none
  go lines [] []

def bad (msg : String) : Verdict := { out := [], oracle := some msg, nontrivial := false }

def handle (c : Case) : Verdict :=
  match c.header with
  | [_, _, lb, ub] =>
    match lb.toInt?, ub.toInt? with
    | some lb, some ub =>
      let es := c.ops.filterMap fun w => match w with
        | ["e", e] => (parseElem e).bind toIn
        | _ => none
      let res := runModel lb ub es
      let out := match res with | .ok l => l | .error cls => [s!"panic:{cls}"]
      let inDomain := match res with | .ok _ => true | .error _ => false
      let (specs, specTail) := specIters lb ub es
      let oracle : Option String :=
        if !inDomain then none   -- unsorted / untimestamped input: outside the property's domain
        else match implIters c.implOut with
          | none => some s!"malformed implementation output: {c.implOut}"
          | some (impl, tail) =>
            if impl != specs then some s!"interval join differs: impl={impl} spec={specs}"
            else if !subMultiset tail specTail then some s!"pairs outside the interval join after the last FAR: {tail}"
            else none
      let nPairs := specs.foldl (fun n l => n + l.length) 0
      { out, oracle, nontrivial := inDomain && nPairs > 0,
        tags := [s!"iters{min specs.length 3}", if inDomain then "valid" else "panic",
                 s!"pairs{min nPairs 3}"] }
    | _, _ => bad "bad header"
  | _ => bad "bad header"

end Noir.Driver.Ivjoin
