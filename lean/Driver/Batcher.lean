/-
  Driver/Batcher.lean — batcher cases (C02).
  header: `<id> batcher <S|F|A> <n>`; ops: `e <elem>`; outputs: `<idx> <elem> <elem> …`
  (one line per batch received downstream; `idx` = the `End::next()` call during which it arrived).

  Component `abatcher` (same module): header `<id> abatcher A <n> <max_delay ms>`, ops
  `e <elem> <elapsed ms>`: Adaptive mode with a scripted clock (hook `verif::set_batcher_elapsed`):
  the `enqueue` of that element sees `last_send.elapsed() = elapsed`; the timer flag of the model is
  `elapsed > max_delay`, computed from the same numbers.
-/
import Driver.Proto
import NoirVerif.Model.Batcher
namespace Noir.Driver.Batcher
open Noir Noir.Driver Noir.Batcher

def fmtBatch (p : Nat × List (Elem Val)) : String :=
  " ".intercalate (toString p.1 :: p.2.map elemToStr)

def parseBatch (s : String) : Option (Nat × List (Elem Val)) :=
  match words s with
  | i :: es => do
    let i ← i.toNat?
    let es ← es.mapM parseElem
    pure (i, es)
  | [] => none

/-- what the real `End` consumes: the script up to and including its first `Terminate`
    (`ScriptOp` yields `Terminate` when the script is exhausted) -/
def consumed (es : List (Elem Val)) : List (Elem Val) :=
  es.takeWhile (fun e => !e.isTerm) ++ [.term]

def isFlushPoint : Elem Val → Bool
  | .flushBatch | .far | .term => true
  | _ => false

def isEnqueued : Elem Val → Bool
  | .flushBatch => false
  | _ => true

/-- Spec-side oracle (the property, not the model):
    * no empty batch; batch sizes respect the mode;
    * the concatenation of the received batches is the sequence of elements handed to the link;
    * causality: nothing is received before it was enqueued;
    * nothing is held back after `FlushBatch` / `FlushAndRestart` / `Terminate`. -/
def oracle (single : Bool) (n : Nat) (script : List (Elem Val)) (impl : List (Nat × List (Elem Val))) :
    Option String :=
  let cons := consumed script
  let want := cons.filter isEnqueued
  let got := impl.flatMap (·.2)
  if impl.any (fun p => p.2.isEmpty) then some "empty batch sent"
  else if single && impl.any (fun p => p.2.length ≠ 1) then some "Single mode sent a batch of more than one element"
  else if !single && impl.any (fun p => p.2.length > n) then some s!"batch larger than {n}"
  else if got != want then
    some s!"received {got.map elemToStr} but {want.map elemToStr} was handed to the link"
  else
    let idxs := List.range cons.length
    let bad := idxs.find? fun i =>
      let enq := ((cons.take (i + 1)).filter isEnqueued).length
      let rcv := ((impl.filter (fun p => p.1 ≤ i)).flatMap (·.2)).length
      rcv > enq || (isFlushPoint (cons.getD i .flushBatch) && rcv < enq)
    match bad with
    | some i => some s!"at element #{i}: received count does not match (held back after a flush, or received early)"
    | none => none

/-- Spec side for the scripted clock: a batch is cut exactly when the buffer reaches `n`, the timer
    has elapsed at an `enqueue`, or `End` flushes (`FlushBatch`, `FlushAndRestart`, `Terminate`) a
    non-empty buffer — and at no other time. Result: (index of the call, size) of every batch. -/
def expectedCuts (n maxDelay : Nat) : Nat → Nat → List (Elem Val × Nat) → List (Nat × Nat)
  | _, _, [] => []
  | len, i, (e, el) :: es =>
    let len1 := if isEnqueued e then len + 1 else len
    let cut := len1 > 0 && (isFlushPoint e || (isEnqueued e && (len1 ≥ n || el > maxDelay)))
    let here := if cut then [(i, len1)] else []
    match e with
    | .term => here
    | _ => here ++ expectedCuts n maxDelay (if cut then 0 else len1) (i + 1) es

def handleTimed (c : Case) (n maxDelay : Nat) : Verdict :=
  let es := c.ops.filterMap fun w => match w with
    | ["e", e] => (parseElem e).map (·, 0)
    | ["e", e, t] => (parseElem e).map (·, t.toNat?.getD 0)
    | _ => none
  -- what `End` consumes: up to and including the first `Terminate` (implicit one: elapsed 0)
  let cons := es.takeWhile (fun p => !p.1.isTerm) ++ [(Elem.term, 0)]
  let m : Mode := .adaptive n
  let model := runScriptTimed m [] 0 (cons.map fun p => (p.1, decide (p.2 > maxDelay)))
  let out := model.map fmtBatch
  let impl := c.implOut.filterMap parseBatch
  let cuts := expectedCuts n maxDelay 0 0 cons
  let oracle :=
    if impl.length ≠ c.implOut.length then some s!"unparsable implementation output {c.implOut}"
    else match oracle false n (es.map (·.1)) impl with
      | some e => some e
      | none =>
        if impl.map (fun p => (p.1, p.2.length)) != cuts then
          some s!"batches cut at {impl.map fun p => (p.1, p.2.length)}, but size>=n / timer / flush cut exactly at {cuts}"
        else none
  let timerCuts := (cons.zip (List.range cons.length)).filter fun (p, i) =>
    p.2 > maxDelay && isEnqueued p.1 && cuts.any (fun q => q.1 == i && q.2 < n) && !isFlushPoint p.1
  let late := cons.any fun p => p.2 > 4 * maxDelay && p.1.isData
  { out, oracle, nontrivial := out.length ≥ 2,
    tags := ["modeAclk", s!"batches{min out.length 4}", s!"timerCuts{min timerCuts.length 3}",
             s!"veryLate{if late then 1 else 0}", s!"equalDelay{if cons.any (fun p => p.2 == maxDelay) then 1 else 0}"] }

def handle (c : Case) : Verdict :=
  match c.header with
  | [_, _, "A", n, md] =>
    match n.toNat?, md.toNat? with
    | some n, some md => handleTimed c n md
    | _, _ => { out := [], oracle := some "bad header", nontrivial := false }
  | [_, _, mode, n] =>
    match n.toNat? with
    | some n =>
      let m : Option Mode := match mode with
        | "S" => some .single | "F" => some (.fixed n) | "A" => some (.adaptive n) | _ => none
      match m with
      | none => { out := [], oracle := some "bad mode", nontrivial := false }
      | some m =>
        let es := c.ops.filterMap fun w => match w with | ["e", e] => parseElem e | _ => none
        let model := runScript m [] 0 (consumed es)
        let out := model.map fmtBatch
        let impl := c.implOut.filterMap parseBatch
        let oracle :=
          if impl.length ≠ c.implOut.length then some s!"unparsable implementation output {c.implOut}"
          else oracle (mode == "S") n es impl
        let partialFlush := model.any (fun p => p.2.length < m.maxSize)
        let grammar := grammarOk es
        { out, oracle, nontrivial := out.length ≥ 2,
          tags := [s!"mode{mode}", s!"batches{min out.length 4}",
                   s!"partial{if partialFlush then 1 else 0}", s!"grammar{if grammar then 1 else 0}"] }
    | none => { out := [], oracle := some "bad header", nontrivial := false }
  | _ => { out := [], oracle := some "bad header", nontrivial := false }

end Noir.Driver.Batcher
