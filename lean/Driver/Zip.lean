/-
  Driver/Zip.lean — the real `Zip` on top of the real binary start (C09; also C05/C06 for Zip).
  header: `<id> zip <nL> <nR>`  (number of replicas of the two previous blocks)
  ops:    `b L <replica> <tok…>` / `b R <replica> <tok…>` — one batch sent by that replica; tokens are
          `I:v`, `T:v:ts`, `W:ts` and `FAR` (last token of a batch).
  Normalisation (identical in harness/src/bin/zip.rs, so that every subset of op lines is a valid case;
  the same rules as `hjoin`):
     * a batch of a replica ≥ n, or of a replica that already sent `FAR` in the current iteration, is skipped;
     * tokens after the first `FAR` of a batch, and unknown tokens, are dropped; empty batches are skipped;
     * the iteration is complete when every replica of both sides has sent `FAR`;
     * at the end an incomplete iteration is completed by `[FAR]` batches of the missing replicas (left
       replicas ascending, then right), then every replica (left ascending, then right) sends `[TERM]`.
  outputs: one line per element returned by `next()` (the protocol's timeout `FlushBatch`es excluded, but not
     the frontier announcement `Start` emits right before such a `FlushBatch`):
     `<u> <elem>` where `u` is the index of the sent batch that produced it; pairs are `(l,r)`.
     A panic replaces the whole output by `panic:<class>`.
-/
import Driver.Proto
import NoirVerif.Model.Zip
namespace Noir.Driver.Zip
open Noir Noir.Driver Noir.Join

structure Send where
  isLeft : Bool
  replica : Nat
  elems : List (Elem Val)

def parseTok (s : String) : Option (Elem Val) :=
  match parseElem s with
  | some (.item v) => some (.item v)
  | some (.ts v t) => some (.ts v t)
  | some (.wm t) => some (.wm t)
  | some .far => some .far
  | _ => none

def cutAtFar : List (Elem Val) → List (Elem Val)
  | [] => []
  | .far :: _ => [.far]
  | e :: es => e :: cutAtFar es

def normalise (nL nR : Nat) (ops : List (List String)) : List Send :=
  let rec go (ops : List (List String)) (fl fr : List Bool) (dirty : Bool) (acc : List Send) : List Send :=
    match ops with
    | [] =>
      let acc :=
        if dirty then
          let missL := (List.range nL).filter fun r => !(fl.getD r false)
          let missR := (List.range nR).filter fun r => !(fr.getD r false)
          (missR.map fun r => (⟨false, r, [.far]⟩ : Send)).reverse
            ++ (missL.map fun r => (⟨true, r, [.far]⟩ : Send)).reverse ++ acc
        else acc
      let terms := (List.range nL).map (fun r => (⟨true, r, [.term]⟩ : Send))
        ++ (List.range nR).map (fun r => (⟨false, r, [.term]⟩ : Send))
      acc.reverse ++ terms
    | op :: rest =>
      match op with
      | "b" :: side :: r :: toks =>
        match r.toNat? with
        | some r =>
          let isLeft := side == "L"
          if side != "L" && side != "R" then go rest fl fr dirty acc else
          let n := if isLeft then nL else nR
          let flags := if isLeft then fl else fr
          if r ≥ n || flags.getD r false then go rest fl fr dirty acc else
          let elems := cutAtFar (toks.filterMap parseTok)
          if elems.isEmpty then go rest fl fr dirty acc else
          let hasFar := elems.any Elem.isFar
          let fl' := if isLeft && hasFar then fl.set r true else fl
          let fr' := if !isLeft && hasFar then fr.set r true else fr
          let acc := ⟨isLeft, r, elems⟩ :: acc
          if fl'.all id && fr'.all id then
            go rest (List.replicate nL false) (List.replicate nR false) false acc
          else go rest fl' fr' true acc
        | none => go rest fl fr dirty acc
      | _ => go rest fl fr dirty acc
  go ops (List.replicate nL false) (List.replicate nR false) false []

def fmtPair : Elem (Val × Val) → String
  | .item (a, b) => elemToStr (.item (.tup [a, b]))
  | .ts (a, b) t => elemToStr (.ts (.tup [a, b]) t)
  | .wm t => elemToStr (.wm t : Elem Val)
  | .flushBatch => "FB"
  | .far => "FAR"
  | .term => "TERM"

def mixPanic : String := "panic:other:unsupported_mixing_of_timestamped_and_no"

/-- run the model (`Zip.Front` + `Zip.step`) over the sends -/
def runModel (nL nR : Nat) (sends : List Send) : List String :=
  let rec go (sends : List Send) (u : Nat) (f : Zip.Front) (s : Zip.State Val Val) (acc : List String) : List String :=
    match sends with
    | [] => acc
    | sd :: rest =>
      let (f', bins) := sd.elems.foldl (fun (st : Zip.Front × List (Elem (Bin Val Val))) e =>
          let (f1, o) := if sd.isLeft then st.1.stepElem (β := Val) true sd.replica Bin.left e
                         else st.1.stepElem (α := Val) false sd.replica Bin.right e
          (f1, st.2 ++ o)) (f, [])
      -- the protocol: after the batch the receive times out once (the harness pulls until that `FlushBatch`,
      -- which it does not print; a pending frontier announcement comes out right before it)
      let (f', bins) :=
        if bins.any Elem.isTerm then (f', bins)
        else let (f2, o) := f'.timeout (α := Val) (β := Val); (f2, bins ++ o)
      let (s', outs) := bins.foldl (fun (st : Zip.State Val Val × List (Elem (Val × Val))) b =>
          let (s1, o) := Zip.step st.1 b
          (s1, st.2 ++ o)) (s, [])
      if s'.panicked then [mixPanic] else
      let strs := (outs.filter fun e => match e with | .flushBatch => false | _ => true).map fmtPair
      let acc := acc ++ strs.map fun x => s!"{u} {x}"
      if outs.any Elem.isTerm then acc else go rest (u + 1) f' s' acc
  go sends 0 (Zip.Front.init nL nR) Zip.State.init []

/-! ### Oracle (spec side): per iteration the positional zip of the two sides' data in arrival order -/

def isWm : Elem Val → Bool
  | .wm _ => true
  | _ => false

/-- data of each complete iteration: (lefts, rights) in send order -/
def iterations (nL nR : Nat) (sends : List Send) : List (List (Elem Val) × List (Elem Val)) :=
  let rec go (sends : List Send) (curL curR : List (Elem Val)) (acc : List (List (Elem Val) × List (Elem Val)))
      (cntL cntR : Nat) : List (List (Elem Val) × List (Elem Val)) :=
    match sends with
    | [] => acc.reverse
    | sd :: rest =>
      let ds := sd.elems.filter Elem.isData
      let curL := if sd.isLeft then curL ++ ds else curL
      let curR := if sd.isLeft then curR else curR ++ ds
      let far := sd.elems.any Elem.isFar
      let cntL := if sd.isLeft && far then cntL + 1 else cntL
      let cntR := if !sd.isLeft && far then cntR + 1 else cntR
      if cntL == nL && cntR == nR then go rest [] [] ((curL, curR) :: acc) 0 0
      else go rest curL curR acc cntL cntR
  go sends [] [] [] 0 0

/-- expected pair of position `i`; `none` = the two elements mix timestamped / plain (outside the domain) -/
def specPair : Elem Val → Elem Val → Option String
  | .item a, .item b => some (elemToStr (.item (.tup [a, b])))
  | .ts a t, .ts b u => some (elemToStr (.ts (.tup [a, b]) (if t ≥ u then t else u)))
  | _, _ => none

def specIter (L R : List (Elem Val)) : Option (List String) :=
  (List.zip L R).mapM fun p => specPair p.1 p.2

/-- split the implementation output at `FAR` lines: data lines per iteration; `W:` lines are skipped -/
def implIterations (lines : List String) : Option (List (List String)) :=
  let rec go (lines : List String) (cur : List String) (acc : List (List String)) (sawTerm : Bool) :
      Option (List (List String)) :=
    match lines with
    | [] => if sawTerm && cur.isEmpty then some acc.reverse else none
    | l :: rest =>
      match words l with
      | [_, e] =>
        if sawTerm then none
        else if e == "FAR" then go rest [] (cur.reverse :: acc) false
        else if e == "TERM" then (if cur.isEmpty then go rest [] acc true else none)
        else if e.startsWith "I:" || e.startsWith "T:" then go rest (e :: cur) acc false
        else if e.startsWith "W:" then go rest cur acc false
        else none
      | _ => none
  go lines [] [] false

/-- every link (replica) is watermark-safe inside every iteration -/
def linksSafe (nL nR : Nat) (sends : List Send) : Bool :=
  let links := (List.range nL).map (fun r => (true, r)) ++ (List.range nR).map (fun r => (false, r))
  links.all fun (l, r) =>
    wmSafeOk ((sends.filter fun s => s.isLeft == l && s.replica == r).flatMap (·.elems))

def parseImplElems (l : List String) : Option (List (Elem Val)) :=
  l.mapM fun s => match words s with | [_, e] => parseElem e | _ => none

def bad (msg : String) : Verdict := { out := [], oracle := some msg, nontrivial := false }

def handle (c : Case) : Verdict :=
  match c.header with
  | [_, _, nL, nR] =>
    match nL.toNat?, nR.toNat? with
    | some nL, some nR =>
      if nL == 0 || nR == 0 then bad "bad header: zero replicas" else
      let sends := normalise nL nR c.ops
      let out := runModel nL nR sends
      let its := iterations nL nR sends
      let specs := its.map fun (L, R) => specIter L R
      let mixing := specs.any Option.isNone
      let oracle : Option String :=
        if mixing then none        -- zip rejects mixing timestamped and plain items by design (panic)
        else if c.implOut == ["blocked"] then some "implementation blocked"
        else match implIterations c.implOut with
          | none => some s!"malformed implementation output (FAR/TERM structure): {c.implOut}"
          | some impl =>
            let specs := specs.map (·.getD [])
            let f09 :=
              if impl.length != specs.length then
                [s!"iteration count differs: impl={impl.length} spec={specs.length}"]
              else match (impl.zip specs).find? (fun p => p.1 != p.2) with
                | none => []
                | some (i, s) => [s!"pairs differ from the positional zip of the two sides: impl={i} spec={s}"]
            let elems := parseImplElems c.implOut
            let f06 := match elems with
              | some es => if linksSafe nL nR sends && !wmSafeOk es then ["[C06] zip output violates watermark safety"] else []
              | none => []
            let f05 := match elems with
              -- (an input without any iteration — only `Terminate`s — is itself outside the grammar)
              | some es => if !its.isEmpty && !grammarOk es then ["[C05] zip output violates the stream grammar"] else []
              | none => []
            let all := f09 ++ f06 ++ f05
            if all.isEmpty then none else some (" ;; ".intercalate all)
      let nPairs := its.foldl (fun n (L, R) => n + min L.length R.length) 0
      let anyTs := sends.any fun s => s.elems.any fun e => match e with | .ts _ _ => true | _ => false
      let anyWm := sends.any fun s => s.elems.any isWm
      let rel := its.map fun (L, R) => if L.length < R.length then "L<R" else if L.length == R.length then "L=R" else "L>R"
      let emptySide := its.any fun (L, R) => L.isEmpty || R.isEmpty
      let endOrder :=
        let rec scan (l : List Send) (cl cr : Nat) : String :=
          match l with
          | [] => "none"
          | s :: rest =>
            let cl := if s.isLeft then cl + 1 else cl
            let cr := if s.isLeft then cr else cr + 1
            if cl == nL then "LE-first" else if cr == nR then "RE-first" else scan rest cl cr
        scan (sends.filter fun s => s.elems.any Elem.isFar) 0 0
      { out, oracle, nontrivial := !mixing && nPairs > 0,
        tags := [s!"n{nL}x{nR}", s!"iters{min its.length 3}", s!"end:{endOrder}",
                 if anyTs then "ts" else "plain"] ++ rel.eraseDups
          ++ (if anyWm then ["wm"] else []) ++ (if mixing then ["mixing"] else [])
          ++ (if emptySide then ["emptyside"] else []) }
    | _, _ => bad "bad header"
  | _ => bad "bad header"

end Noir.Driver.Zip
