/-
  Driver/Hjoin.lean — join cases (C08).
  header: `<id> hjoin <variant> <algo> <ship> <nL> <nR>`
     variant = inner|left|outer, algo = hash|sortmerge|keyed, ship = hash|bcast|fwd (builder path only),
     nL/nR = number of replicas of the two previous blocks.
  ops:    `b L <replica> <tok…>` / `b R <replica> <tok…>` — one batch sent by that replica; tokens are
          `I:(k,v)`, `T:(k,v):ts` (malformed: joins reject timestamps) and `FAR` (last token of a batch).
  Normalisation (identical in harness/src/bin/hjoin.rs, so that every subset of op lines is a valid case):
     * a batch of a replica ≥ n, or of a replica that already sent `FAR` in the current iteration, is skipped;
     * tokens after the first `FAR` of a batch, and unknown tokens, are dropped; empty batches are skipped;
     * the iteration is complete when every replica of both sides has sent `FAR`;
     * at the end an incomplete iteration is completed by `[FAR]` batches of the missing replicas (left
       replicas ascending, then right), then every replica (left ascending, then right) sends `[TERM]`.
  outputs: one line per element returned by `next()` (timeout `FlushBatch`es excluded): `<u> <elem>` where `u`
     is the index of the sent batch (unit) that produced it. Inside a unit whose batch carries the `FAR`
     that ends a side (hash-map drain / unstable sort ⇒ unspecified order) the items are sorted.
     A panic replaces the whole output by `panic:<class>`.
-/
import Driver.Proto
import NoirVerif.Model.HashJoin
import NoirVerif.Model.KeyedJoin
import NoirVerif.Model.SortMergeJoin
namespace Noir.Driver.Hjoin
open Noir Noir.Driver Noir.Join

/-- one batch actually sent: side (true = left), replica, elements -/
structure Send where
  isLeft : Bool
  replica : Nat
  elems : List (Elem Val)

def parseTok (s : String) : Option (Elem Val) :=
  match parseElem s with
  | some (.item v) => some (.item v)
  | some (.ts v t) => some (.ts v t)
  | some .far => some .far
  | _ => none

/-- keep tokens up to and including the first `FAR` -/
def cutAtFar : List (Elem Val) → List (Elem Val)
  | [] => []
  | .far :: _ => [.far]
  | e :: es => e :: cutAtFar es

def setAt (l : List Bool) (i : Nat) : List Bool := l.set i true

/-- ops → sends (see the normalisation rules above) -/
def normalise (nL nR : Nat) (ops : List (List String)) : List Send :=
  let rec go (ops : List (List String)) (fl fr : List Bool) (dirty : Bool) (acc : List Send) : List Send :=
    match ops with
    | [] =>
      let acc :=
        if dirty then
          let missL := (List.range nL).filter fun r => !(fl.getD r false)
          let missR := (List.range nR).filter fun r => !(fr.getD r false)
          (missR.map fun r => (⟨false, r, [.far]⟩ : Send)).reverse
            ++ (missL.map fun r => (⟨true, r, [.far]⟩ : Send)).reverse ++ acc
        else acc
      let terms := (List.range nL).map (fun r => (⟨true, r, [.term]⟩ : Send))
        ++ (List.range nR).map (fun r => (⟨false, r, [.term]⟩ : Send))
      acc.reverse ++ terms
    | op :: rest =>
      match op with
      | "b" :: side :: r :: toks =>
        match r.toNat? with
        | some r =>
          let isLeft := side == "L"
          if side != "L" && side != "R" then go rest fl fr dirty acc else
          let n := if isLeft then nL else nR
          let flags := if isLeft then fl else fr
          if r ≥ n || flags.getD r false then go rest fl fr dirty acc else
          let elems := cutAtFar (toks.filterMap parseTok)
          if elems.isEmpty then go rest fl fr dirty acc else
          let hasFar := elems.any Elem.isFar
          let fl' := if isLeft && hasFar then setAt fl r else fl
          let fr' := if !isLeft && hasFar then setAt fr r else fr
          let acc := ⟨isLeft, r, elems⟩ :: acc
          if fl'.all id && fr'.all id then
            go rest (List.replicate nL false) (List.replicate nR false) false acc
          else go rest fl' fr' true acc
        | none => go rest fl fr dirty acc
      | _ => go rest fl fr dirty acc
  go ops (List.replicate nL false) (List.replicate nR false) false []

def keyOf : Val → Int
  | .tup (.int k :: _) => k
  | _ => 0

def valOf : Val → Val
  | .tup [_, v] => v
  | v => v

def toKV (v : Val) : Int × Val := (keyOf v, valOf v)

/-- the `.map(|(k,(l,r))| …unwrap()…)` wrappers of the builders (local_hash.rs:325/347, …) -/
def fmtTuple (variant : Variant) (o : Out Int Val Val) : Option Val :=
  let (k, l, r) := o
  let opt : Option Val → Val := fun | some v => .some v | none => .none
  match variant with
  | .inner => match l, r with
    | some l, some r => some (.tup [.int k, .tup [l, r]])
    | _, _ => none                       -- `unwrap()` on `None` would panic
  | .left => match l with
    | some l => some (.tup [.int k, .tup [l, opt r]])
    | none => none
  | .outer => some (.tup [.int k, .tup [opt l, opt r]])

/-- the join operator under test as a transition system on `Elem (Bin Val Val)` -/
structure Machine where
  σ : Type
  init : σ
  step : σ → Elem (Bin Val Val) → σ × List (Elem (Out Int Val Val))
  panics : σ → Elem (Bin Val Val) → Option String

def tsPanic (msg : String) : Elem (Bin Val Val) → Option String
  | .ts _ _ => some msg
  | .wm _ => some msg
  | _ => none

def hashMachine (v : Variant) : Machine where
  σ := HashJoin.State Int Val Val
  init := HashJoin.State.init
  step := HashJoin.step v keyOf keyOf
  panics := fun s e =>
    if HashJoin.panics s e then
      match e with
      | .far => some "other:assertion_failed"
      | _ => some "other:cannot_yet_join_timestamped_streams"
    else none

def mapBin : Bin Val Val → Bin (Int × Val) (Int × Val)
  | .left a => .left (toKV a)
  | .right b => .right (toKV b)
  | .leftEnd => .leftEnd
  | .rightEnd => .rightEnd

def keyedOuterMachine : Machine where
  σ := HashJoin.State Int (Int × Val) (Int × Val)
  init := HashJoin.State.init
  step := fun s e =>
    match e with
    | .item b => let (s', out) := KeyedJoin.outerStepBin .outer s (mapBin b); (s', out.map Elem.item)
    | .far => ({ left := { s.left with ended := false }, right := { s.right with ended := false } }, [.far])
    | .term => (s, [.term])
    | .flushBatch => (s, [.flushBatch])
    | _ => (s, [])
  panics := fun s e =>
    match e with
    | .far => if HashJoin.farOk s then none else some "other:assertion_failed"
    | e => tsPanic "other:cannot_yet_join_timestamped_streams" e

def keyedInnerMachine : Machine where
  σ := KeyedJoin.InnerState Int Val Val
  init := KeyedJoin.InnerState.init
  step := fun s e =>
    match e with
    | .item b =>
      let (s', out) := KeyedJoin.innerStepBin s (mapBin b)
      (s', out.map fun (k, l, r) => Elem.item (k, some l, some r))
    | .far => (KeyedJoin.innerFar s, [.far])
    | .term => (s, [.term])
    | .flushBatch => (s, [.flushBatch])
    | _ => (s, [])
  panics := fun s e =>
    match e with
    | .far => if KeyedJoin.innerFarOk s then none else some "other:assertion_failed"
    | e => tsPanic "other:cannot_yet_join_timestamped_streams" e

def sortMergeMachine (v : Variant) : Machine where
  σ := SortMerge.State Val Val
  init := SortMerge.State.init
  step := fun s e =>
    match e with
    | .item b => let (s', out) := SortMerge.stepBin v keyOf keyOf s b; (s', out.map Elem.item)
    | .far => (SortMerge.far s, [.far])
    | .term => (s, [.term])
    | .flushBatch => (s, [.flushBatch])
    | _ => (s, [])
  panics := fun s e =>
    match e with
    | .far => if SortMerge.farOk s then none else some "other:assertion_failed"
    | e => tsPanic "other:cannot_join_timestamp_streams" e

def fmtOutElem (variant : Variant) : Elem (Out Int Val Val) → String
  | .item o => match fmtTuple variant o with
    | some v => elemToStr (.item v)
    | none => "panic:unwrap"
  | .far => "FAR"
  | .term => "TERM"
  | .flushBatch => "FB"
  | _ => "?"

def sortStrs (l : List String) : List String := l.mergeSort (fun a b => decide (a ≤ b))

/-- run the model over the sends; returns output lines or the panic class -/
def runModel (m : Machine) (variant : Variant) (nL nR : Nat) (sends : List Send) : Except String (List String) :=
  let rec go (sends : List Send) (u : Nat) (bs : BinStart.State) (s : m.σ) (acc : List String) :
      Except String (List String) :=
    match sends with
    | [] => .ok acc
    | sd :: rest =>
      -- elements of this batch as they leave the binary Start
      let (bs', bins, endTrigger) := sd.elems.foldl (fun (st : BinStart.State × List (Elem (Bin Val Val)) × Bool) e =>
          let (b, out) := if sd.isLeft then BinStart.stepElem st.1 true (Bin.left (β := Val)) e
                          else BinStart.stepElem st.1 false (Bin.right (α := Val)) e
          let trig := out.any fun x => match x with
            | .item .leftEnd => true | .item .rightEnd => true | _ => false
          (b, st.2.1 ++ out, st.2.2 || trig)) (bs, [], false)
      -- feed the join
      let rec feed (es : List (Elem (Bin Val Val))) (s : m.σ) (outs : List (Elem (Out Int Val Val))) :
          Except String (m.σ × List (Elem (Out Int Val Val))) :=
        match es with
        | [] => .ok (s, outs)
        | e :: es =>
          match m.panics s e with
          | some cls => .error cls
          | none => let (s', o) := m.step s e; feed es s' (outs ++ o)
      match feed bins s [] with
      | .error cls => .error cls
      | .ok (s', outs) =>
        let strs := outs.map (fmtOutElem variant)
        match strs.find? (·.startsWith "panic:") with
        | some p => .error ((p.drop 6).toString)
        | none =>
          let items := strs.filter (·.startsWith "I:")
          let ctrl := strs.filter (fun x => !x.startsWith "I:")
          let strs := if endTrigger then sortStrs items ++ ctrl else strs
          go rest (u + 1) bs' s' (acc ++ strs.map fun x => s!"{u} {x}")
  go sends 0 (BinStart.State.init nL nR) m.init []

/-! ### Oracle (spec side): nested-loop relational join per iteration, computed directly on the inputs -/

/-- inputs of each complete iteration: (lefts, rights) -/
def iterations (nL nR : Nat) (sends : List Send) : List (List Val × List Val) × Bool :=
  -- an iteration ends when the Start emits FAR, i.e. when all replicas sent FAR; here we only need the
  -- multiset per iteration, recovered from the normalised sends (iteration boundaries are where
  -- `normalise` resets). We recompute them with the same counting rule.
  let rec go (sends : List Send) (curL curR : List Val) (acc : List (List Val × List Val)) (anyTs : Bool)
      (cntL cntR : Nat) (nL nR : Nat) : List (List Val × List Val) × Bool :=
    match sends with
    | [] => (acc.reverse, anyTs)
    | sd :: rest =>
      let vals := sd.elems.filterMap Elem.value
      let anyTs := anyTs || sd.elems.any (fun e => match e with | .ts _ _ => true | _ => false)
      let curL := if sd.isLeft then curL ++ vals else curL
      let curR := if sd.isLeft then curR else curR ++ vals
      let far := sd.elems.any Elem.isFar
      let cntL := if sd.isLeft && far then cntL + 1 else cntL
      let cntR := if !sd.isLeft && far then cntR + 1 else cntR
      if cntL == nL && cntR == nR then go rest [] [] ((curL, curR) :: acc) anyTs 0 0 nL nR
      else go rest curL curR acc anyTs cntL cntR nL nR
  go sends [] [] [] false 0 0 nL nR

/-- the expected multiset, printed in the implementation's output format -/
def specJoin (variant : Variant) (keyed : Bool) (L R : List Val) : List String :=
  let proj : Val → Val := fun v => if keyed then valOf v else v
  let opt : Option Val → Val := fun | some v => .some (proj v) | none => .none
  let fmt : Int → Option Val → Option Val → String := fun k l r =>
    let body := match variant with
      | .inner => Val.tup [proj (l.getD .none), proj (r.getD .none)]
      | .left => Val.tup [proj (l.getD .none), opt r]
      | .outer => Val.tup [opt l, opt r]
    elemToStr (.item (.tup [.int k, body]))
  let matched := L.flatMap fun l => (R.filter fun r => keyOf r == keyOf l).map fun r => fmt (keyOf l) (some l) (some r)
  let onlyL := if variant != .inner then
      (L.filter fun l => !(R.any fun r => keyOf r == keyOf l)).map fun l => fmt (keyOf l) (some l) none
    else []
  let onlyR := if variant == .outer then
      (R.filter fun r => !(L.any fun l => keyOf l == keyOf r)).map fun r => fmt (keyOf r) none (some r)
    else []
  sortStrs (matched ++ onlyL ++ onlyR)

/-- split the implementation output at `FAR` lines: items per iteration -/
def implIterations (lines : List String) : Option (List (List String)) :=
  let rec go (lines : List String) (cur : List String) (acc : List (List String)) (sawTerm : Bool) :
      Option (List (List String)) :=
    match lines with
    | [] => if sawTerm && cur.isEmpty then some acc.reverse else none
    | l :: rest =>
      match words l with
      | [_, e] =>
        if sawTerm then none
        else if e == "FAR" then go rest [] (sortStrs cur :: acc) false
        else if e == "TERM" then (if cur.isEmpty then go rest [] acc true else none)
        else if e.startsWith "I:" then go rest (e :: cur) acc false
        else none
      | _ => none
  go lines [] [] false

def parseVariant : String → Option Variant
  | "inner" => some .inner | "left" => some .left | "outer" => some .outer | _ => none

def bad (msg : String) : Verdict := { out := [], oracle := some msg, nontrivial := false }

def handle (c : Case) : Verdict :=
  match c.header with
  | [_, _, variant, algo, ship, nL, nR] =>
    match parseVariant variant, nL.toNat?, nR.toNat? with
    | some v, some nL, some nR =>
      if nL == 0 || nR == 0 then bad "bad header: zero replicas" else
      let machine : Option Machine :=
        match algo, v with
        | "hash", _ => some (hashMachine v)
        | "sortmerge", _ => some (sortMergeMachine v)
        | "keyed", .inner => some keyedInnerMachine
        | "keyed", .outer => some keyedOuterMachine
        | _, _ => none
      match machine with
      | none => bad "bad header: unknown algorithm/variant"
      | some m =>
        if ship == "bcast" && v == .outer then bad "bad header: outer join with broadcast shipping does not exist" else
        let keyed := algo == "keyed"
        let sends := normalise nL nR c.ops
        let out := match runModel m v nL nR sends with
          | .ok l => l
          | .error cls => [s!"panic:{cls}"]
        -- oracle
        let its := iterations nL nR sends
        let anyTs := its.2
        let specs := its.1.map fun (L, R) => specJoin v keyed L R
        let oracle : Option String :=
          if anyTs then none      -- outside the property's domain (joins reject timestamped input by design)
          else if c.implOut == ["blocked"] then some "implementation blocked"
          else match implIterations c.implOut with
            | none => some s!"malformed implementation output (FAR/TERM structure): {c.implOut}"
            | some impl =>
              if impl.length != specs.length then
                some s!"iteration count differs: impl={impl.length} spec={specs.length}"
              else
                match (impl.zip specs).find? (fun p => p.1 != p.2) with
                | none => none
                | some (i, s) => some s!"join differs: impl={i} spec={s}"
        let nPairs := its.1.foldl (fun n (L, R) =>
          n + (L.flatMap fun l => R.filter fun r => keyOf r == keyOf l).length) 0
        let dupKey := its.1.any fun (L, R) =>
          (L.any fun l => (L.filter fun l' => keyOf l' == keyOf l).length > 1) ||
          (R.any fun r => (R.filter fun r' => keyOf r' == keyOf r).length > 1)
        let emptySide := its.1.any fun (L, R) => L.isEmpty || R.isEmpty
        let oneSided := its.1.any fun (L, R) =>
          (L.any fun l => !(R.any fun r => keyOf r == keyOf l)) || (R.any fun r => !(L.any fun l => keyOf l == keyOf r))
        -- which side ended first in the first iteration
        let firstEnd := (sends.filter fun s => s.elems.any Elem.isFar)
        let endOrder :=
          let rec scan (l : List Send) (cl cr : Nat) : String :=
            match l with
            | [] => "none"
            | s :: rest =>
              let cl := if s.isLeft then cl + 1 else cl
              let cr := if s.isLeft then cr else cr + 1
              if cl == nL then "LE-first" else if cr == nR then "RE-first" else scan rest cl cr
          scan firstEnd 0 0
        { out, oracle, nontrivial := !anyTs && nPairs > 0,
          tags := [s!"v:{variant}", s!"a:{algo}", s!"s:{ship}", s!"end:{endOrder}", s!"iters{min its.1.length 3}"]
            ++ (if anyTs then ["timestamped"] else [])
            ++ (if dupKey then ["dupkey"] else [])
            ++ (if emptySide then ["emptyside"] else [])
            ++ (if oneSided then ["onesided"] else []) }
    | _, _, _ => bad "bad header"
  | _ => bad "bad header"

end Noir.Driver.Hjoin
