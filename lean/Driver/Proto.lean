/-
  Driver/Proto.lean — line protocol shared by all component drivers (see DESIGN.md §4.3).
  Not part of any proof: parsing / printing only.
-/
import NoirVerif.Model.Elem
namespace Noir.Driver

/-- universal payload value used on the wire -/
inductive Val where
  | int (n : Int)
  | tup (l : List Val)
  | list (l : List Val)
  | none
  | some (v : Val)
  | left (v : Val)
  | right (v : Val)
  | leftEnd
  | rightEnd
  deriving Repr, BEq, Inhabited

mutual
partial def Val.toStr : Val → String
  | .int n => toString n
  | .tup l => "(" ++ ",".intercalate (l.map Val.toStr) ++ ")"
  | .list l => "[" ++ ",".intercalate (l.map Val.toStr) ++ "]"
  | .none => "N"
  | .some v => "S" ++ v.toStr
  | .left v => "L" ++ v.toStr
  | .right v => "R" ++ v.toStr
  | .leftEnd => "LE"
  | .rightEnd => "RE"
end

instance : ToString Val := ⟨Val.toStr⟩

/-- total order used for canonical sorting -/
partial def Val.lt (a b : Val) : Bool := a.toStr < b.toStr

mutual
/-- parse one value from a char list; returns value and rest -/
partial def parseVal : List Char → Option (Val × List Char)
  | 'N' :: rest => .some (.none, rest)
  | 'S' :: rest => do let (v, r) ← parseVal rest; pure (.some v, r)
  | 'L' :: 'E' :: rest => .some (.leftEnd, rest)
  | 'R' :: 'E' :: rest => .some (.rightEnd, rest)
  | 'L' :: rest => do let (v, r) ← parseVal rest; pure (.left v, r)
  | 'R' :: rest => do let (v, r) ← parseVal rest; pure (.right v, r)
  | '(' :: rest => do let (l, r) ← parseSeq ')' rest; pure (.tup l, r)
  | '[' :: rest => do let (l, r) ← parseSeq ']' rest; pure (.list l, r)
  | cs =>
    let (neg, cs1) := match cs with | '-' :: r => (true, r) | _ => (false, cs)
    let digits := cs1.takeWhile Char.isDigit
    if digits.isEmpty then .none else
      let n : Nat := digits.foldl (fun acc c => acc * 10 + (c.toNat - '0'.toNat)) 0
      .some (.int (if neg then -(n : Int) else n), cs1.dropWhile Char.isDigit)

partial def parseSeq (close : Char) : List Char → Option (List Val × List Char)
  | c :: rest =>
    if c == close then .some ([], rest) else
    match parseVal (c :: rest) with
    | .none => .none
    | .some (v, r) =>
      match r with
      | ',' :: r' => do let (l, r'') ← parseSeq close r'; pure (v :: l, r'')
      | c' :: r' => if c' == close then .some ([v], r') else .none
      | [] => .none
  | [] => .none
end

def Val.parse (s : String) : Option Val :=
  match parseVal s.toList with
  | .some (v, []) => .some v
  | _ => .none

def Val.toInt? : Val → Option Int
  | .int n => .some n
  | _ => .none

def Val.ofInts (l : List Int) : Val := .list (l.map .int)

def parseInt (s : String) : Option Int := s.toInt?

/-- `I:v` | `T:v:t` | `W:t` | `FB` | `FAR` | `TERM` -/
def parseElem (s : String) : Option (Elem Val) :=
  match s.splitOn ":" with
  | ["I", v] => (Val.parse v).map Elem.item
  | ["T", v, t] => do let v ← Val.parse v; let t ← parseInt t; pure (Elem.ts v t)
  | ["W", t] => (parseInt t).map Elem.wm
  | ["FB"] => .some .flushBatch
  | ["FAR"] => .some .far
  | ["TERM"] => .some .term
  | _ => .none

def elemToStr : Elem Val → String
  | .item v => "I:" ++ v.toStr
  | .ts v t => "T:" ++ v.toStr ++ ":" ++ toString t
  | .wm t => "W:" ++ toString t
  | .flushBatch => "FB"
  | .far => "FAR"
  | .term => "TERM"

def words (line : String) : List String :=
  (line.trimAscii.toString.splitOn " ").filter (· ≠ "")

/-- One case read from the stream: header words (after `case`), op lines (as word lists),
    implementation output lines (text after `> `). -/
structure Case where
  header : List String
  ops : List (List String)
  implOut : List String
  deriving Inhabited

/-- Result of running the model + oracle on a case. -/
structure Verdict where
  out : List String          -- model outputs, same format as the `> ` lines
  oracle : Option String     -- `none` = property oracle satisfied by the impl outputs; `some msg` otherwise
  nontrivial : Bool
  tags : List String := []   -- distribution tags (branches hit, …)

partial def readCases (h : IO.FS.Stream) (handle : Case → IO Unit) : IO Unit := do
  let rec loop (cur : Option Case) : IO Unit := do
    let line ← h.getLine
    if line.isEmpty then
      return ()
    let l := line.trimAscii.toString
    if l.startsWith "case " then
      loop (some { header := (words l).drop 1, ops := [], implOut := [] })
    else if l == "end" then
      match cur with
      | some c => handle { c with ops := c.ops.reverse, implOut := c.implOut.reverse }; loop none
      | none => loop none
    else if l.startsWith "> " then
      loop (cur.map fun c => { c with implOut := (l.drop 2).toString :: c.implOut })
    else if l == ">" then
      loop (cur.map fun c => { c with implOut := "" :: c.implOut })
    else if l.isEmpty || l.startsWith "#" then
      loop cur
    else
      loop (cur.map fun c => { c with ops := words l :: c.ops })
  loop none

def emitVerdict (id : String) (v : Verdict) : IO Unit := do
  IO.println s!"case {id}"
  for o in v.out do IO.println s!"> {o}"
  match v.oracle with
  | none => IO.println "oracle ok"
  | some m => IO.println s!"oracle FAIL {m}"
  IO.println s!"nontrivial {if v.nontrivial then 1 else 0}"
  unless v.tags.isEmpty do IO.println s!"tags {" ".intercalate v.tags}"
  IO.println "end"

end Noir.Driver
