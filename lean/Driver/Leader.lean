/-
  Driver/Leader.lean — the `IterationLeader` cases (C10, component level).
  header: `<id> leader <nEnd> <nHead> <max_iter> <fold> <cond> <init>`
  ops:    `b <replica> <elem>…` (arrival order = line order; implicit `Terminate` of every replica at the end)
  outputs: `fb <head> <0|1> <state>` / `out <elem>` (feedback drained after every `next()`).
-/
import Driver.Proto
import NoirVerif.Model.Leader
namespace Noir.Driver.Leader
open Noir Noir.Driver Noir.Leader

/-- size used by the `lt` conditions -/
def vsize : Val → Int
  | .int n => n
  | .list l => l.length
  | _ => 0

/-- library of global folds (mirrors `global_fold` in harness/src/bin/leader.rs) -/
def globalFold (kind : String) (s d : Val) : Val :=
  match kind, s, d with
  | "app", .list l, d => .list (l ++ [d])
  | "sum", .int a, .int b => .int (a + b)
  | "max", .int a, .int b => .int (max a b)
  | "cnt", .int a, _ => .int (a + 1)
  | "sub", .int a, .int b => .int (a - b)
  | "last", _, d => d
  | "mix", .int a, .int b => .int (2 * a + b)
  | _, s, _ => s

/-- library of loop conditions (mirrors `loop_cond`); `none` = unknown kind -/
def loopCond (kind : String) : Option (Val → Bool × Val) :=
  let bump (k : Int) : Val → Val
    | .int n => .int (n + k)
    | .list l => .list (l ++ [.int (if k < 0 then -1 else -2)])
    | v => v
  match kind.splitOn ":" with
  | ["T"] => some fun s => (true, s)
  | ["F"] => some fun s => (false, s)
  | ["lt", b] => b.toInt?.map fun b => fun s => (decide (vsize s < b), s)
  | ["dec"] => some fun s => (true, bump (-1) s)
  | ["ltm", b] => b.toInt?.map fun b => fun s => let s' := bump 1 s; (decide (vsize s' < b), s')
  | _ => none

def parseArrivals (n : Nat) (ops : List (List String)) : List (Elem Val) :=
  (ops.flatMap fun w =>
    match w with
    | "b" :: r :: es =>
      match r.toNat? with
      | some r => if r < n then es.filterMap parseElem else []
      | none => []
    | _ => []) ++ List.replicate n Elem.term

/-- print the model's actions the way the harness observes them: the feedback messages sent
    during one `next()` call are drained (head by head) after it returned. -/
def render (nHead : Nat) (outs : List (Out Val)) : List String := Id.run do
  let mut res : List String := []
  let mut pending : List (Bool × Val) := []
  for o in outs do
    match o with
    | .feedback c s => pending := pending ++ [(c, s)]
    | .elem e =>
      for h in List.range nHead do
        for (c, s) in pending do
          res := s!"fb {h} {if c then 1 else 0} {s}" :: res
      pending := []
      res := s!"out {elemToStr e}" :: res
  return res.reverse

/-! ### spec side (oracle): computed from the deltas only, by chunking and folding -/

structure Expect where
  fbs : List (Bool × Val)        -- the broadcasts, in order
  outs : List (Elem Val)         -- what `next()` returns, in order
  deriving Inhabited

/-- rounds of `n` deltas each; incomplete tail is dropped (no broadcast for it) -/
partial def spec (n max : Nat) (g : Val → Val → Val) (cond : Val → Bool × Val) (init : Val)
    (ds : List Val) : Expect :=
  let rec go (k : Nat) (S : Val) (ds : List Val) (fbs : List (Bool × Val)) (outs : List (Elem Val)) : Expect :=
    if ds.length < n || n == 0 then ⟨fbs.reverse, (Elem.term :: outs).reverse⟩
    else
      let T := (ds.take n).foldl g S
      let (c, Sk) := cond T
      if c && decide (k < max) then go (k + 1) Sk (ds.drop n) ((true, Sk) :: fbs) outs
      else go 1 init (ds.drop n) ((false, init) :: fbs) (Elem.far :: Elem.item Sk :: outs)
  go 1 init ds [] []

def parseFb (s : String) : Option (Nat × Bool × Val) :=
  match words s with
  | ["fb", h, c, v] => do
    let h ← h.toNat?
    let v ← Val.parse v
    pure (h, c == "1", v)
  | _ => none

def parseOut (s : String) : Option (Elem Val) :=
  match words s with
  | ["out", e] => parseElem e
  | _ => none

def showFbs (l : List (Bool × Val)) : String :=
  " ".intercalate (l.map fun (c, s) => s!"({if c then 1 else 0},{s})")

def handle (c : Case) : Verdict :=
  match c.header with
  | [_, _, nEnd, nHead, mx, fold, cond, init] =>
    match nEnd.toNat?, nHead.toNat?, mx.toNat?, loopCond cond, Val.parse init with
    | some n, some nHead, some mx, some condf, some init =>
      let cfg : Cfg Val Val := { init, maxIter := mx, n, global := globalFold fold, cond := condf }
      let arr := parseArrivals n c.ops
      let outs := (run cfg (Leader.init cfg) arr).2
      let out := render nHead outs
      -- oracle
      let ds := arr.filterMap Elem.value
      let exp := spec n mx (globalFold fold) condf init ds
      let implFb := c.implOut.filterMap parseFb
      let implOut := c.implOut.filterMap parseOut
      let perHead (h : Nat) := (implFb.filter (·.1 == h)).map (·.2)
      let fails : List String :=
        (if c.implOut == ["blocked"] then ["[C10] the leader blocked"] else
          (if implFb.length + implOut.length ≠ c.implOut.length then ["[C10] unparsable implementation output"] else []) ++
          ((List.range nHead).filterMap fun h =>
            if perHead h == exp.fbs then none
            else some s!"[C10] head {h} received {showFbs (perHead h)} but the rounds give {showFbs exp.fbs}") ++
          (if implOut == exp.outs then []
           else [s!"[C10] next() returned {implOut.map elemToStr} but the loop semantics gives {exp.outs.map elemToStr}"]))
      let rounds := exp.fbs.length
      let results := (exp.fbs.filter (fun p => !p.1)).length
      { out, oracle := if fails.isEmpty then none else some (" ;; ".intercalate fails),
        nontrivial := n ≥ 1 && rounds ≥ 2,
        tags := [s!"nEnd{n}", s!"rounds{min rounds 4}", s!"results{min results 3}", s!"fold:{fold}",
                 s!"cond:{(cond.splitOn ":").headD "?"}",
                 if ds.length % (max 1 n) == 0 then "complete" else "partialround"] }
    | _, _, _, _, _ => { out := [], oracle := some "bad header", nontrivial := false }
  | _ => { out := [], oracle := some "bad header", nontrivial := false }

end Noir.Driver.Leader
