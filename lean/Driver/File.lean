/-
  Driver/File.lean — file source split / non-parallel source (C15).
  header: `<id> file <n> <mode>` (`F` = FileSource, `I` = IteratorSource over the bytes as items);
  ops: `bytes <b,b,…>` | `rep <count> <b,b,…>` (content = concatenation of all op lines);
  outputs: one line per replica `0..n`: `<replica> [[b,…],…]` (mode F) / `<replica> [b,…]` (mode I).
-/
import Driver.Proto
import NoirVerif.Model.FileSplit
import NoirVerif.Model.Range
namespace Noir.Driver.File
open Noir Noir.Driver Noir.FileSplit

def parseBytes (s : String) : List Nat :=
  (s.splitOn ",").filterMap fun w => w.toNat?

def fmtLine (l : List Nat) : Val := .list (l.map fun b => .int (Int.ofNat b))

def valToNats : Val → Option (List Nat)
  | .list l => l.mapM fun v => match v with | .int n => some n.toNat | _ => none
  | _ => none

def valToLines : Val → Option (List (List Nat))
  | .list l => l.mapM valToNats
  | _ => none

/-- `<replica> <val>` -/
def parseOut (s : String) : Option (Nat × Val) :=
  match words s with
  | [r, v] => do pure (← r.toNat?, ← Val.parse v)
  | _ => none

def showLines (ls : List (List Nat)) : String := (Val.list (ls.map fmtLine)).toStr

/-- model of the single replica of an `IteratorSource`: the items of `iterRun` -/
def iterItems (items : List Nat) : List Nat :=
  (Noir.Range.iterRun (items.length + 2) (items, false)).filterMap fun o =>
    match o with | .item a => some a | _ => none

def handle (c : Case) : Verdict :=
  match c.header with
  | [_, _, n, mode] =>
    match n.toNat? with
    | some n =>
      let bytes := c.ops.flatMap fun w =>
        match w with
        | ["bytes", b] => parseBytes b
        | ["rep", k, b] => (List.replicate (k.toNat?.getD 0) (parseBytes b)).flatten
        | _ => []
      let impl := c.implOut.filterMap parseOut
      let implOk := impl.length == c.implOut.length ∧ impl.map (·.1) == List.range n
      if mode == "F" then
        let model := (List.range n).map fun r => replicaLines bytes n r
        let out := (List.range n).zip model |>.map fun (r, ls) => s!"{r} {showLines ls}"
        -- property oracle (spec side): concatenation over the replicas, in replica order, of what the
        -- implementation emitted = the lines of the file (each exactly once, whole, in order)
        let spec := splitLines [] bytes
        let oracle : Option String :=
          if !implOk then some "unparsable implementation output"
          else match impl.mapM (fun p => valToLines p.2) with
            | none => some "unparsable implementation output"
            | some per =>
              let got := per.flatten
              if got == spec then none
              else some s!"lines emitted across replicas {showLines got} ≠ lines of the file {showLines spec}"
        let sz := bytes.length
        let nonEmptyReplicas := (model.filter (!·.isEmpty)).length
        { out, oracle, nontrivial := n ≥ 2 && spec.length ≥ 2,
          tags := [s!"n{n}", if sz == 0 then "empty-file" else if sz < n then "bytes<n" else "bytes>=n",
                   if sz > 8192 then "large" else "small",
                   if bytes.getLast? == some 10 then "final-nl" else "no-final-nl",
                   if spec.any (fun l => n > 0 ∧ l.length > sz / n) then "line>range" else "lines<=range",
                   if bytes.contains 13 then "crlf" else "lf",
                   if spec.contains [10] then "empty-lines" else "no-empty-lines",
                   s!"active{min nonEmptyReplicas 3}"] }
      else if mode == "I" then
        let items := iterItems bytes
        let out := (List.range n).map fun r => s!"{r} {(fmtLine (if r == 0 then items else [])).toStr}"
        -- oracle: all items exactly once, in order, and on a single replica
        let oracle : Option String :=
          if !implOk then some "unparsable implementation output"
          else match impl.mapM (fun p => valToNats p.2) with
            | none => some "unparsable implementation output"
            | some per =>
              let active := per.filter (!·.isEmpty)
              if active.length > 1 then some s!"non-parallel source emitted on {active.length} replicas"
              else if per.flatten == bytes then none
              else some s!"items emitted {(fmtLine per.flatten).toStr} ≠ items of the iterator {(fmtLine bytes).toStr}"
        { out, oracle, nontrivial := n ≥ 2 && bytes.length ≥ 2, tags := ["iter", s!"n{n}"] }
      else { out := [], oracle := some "bad mode", nontrivial := false }
    | none => { out := [], oracle := some "bad header", nontrivial := false }
  | _ => { out := [], oracle := some "bad header", nontrivial := false }

end Noir.Driver.File
