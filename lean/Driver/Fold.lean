/-
  Driver/Fold.lean — `fold` cases (C07): the real `Fold` operator on a scripted upstream.
  header: `<id> fold <fn>`; ops: `e <elem>`; outputs: `<idx> <elem>` (`idx` = index of the upstream
  element whose pull produced the output).
  Also hosts what the `kfold` and `reorder` drivers share: the user-function library (mirror of
  `harness/src/c07_common.rs::lib`), script normalisation, iteration splitting.
-/
import Driver.Proto
import NoirVerif.Model.Fold
namespace Noir.Driver.Fold
open Noir Noir.Driver

/-! ### user-function library (mirror of `c07_common.rs::lib`) -/

def vInt (v : Val) : Int := (v.toInt?).getD 0

def vFst : Val → Int
  | .tup (a :: _) => vInt a
  | _ => 0

/-- `(init, f)`; ill-typed arguments (never generated) leave the accumulator unchanged. -/
def lib : String → Option (Val × (Val → Val → Val))
  | "sum" => some (.int 0, fun a v => .int (vInt a + vInt v))
  | "count" => some (.int 0, fun a _ => .int (vInt a + 1))
  | "list" => some (.list [], fun a v => match a with | .list l => .list (l ++ [v]) | a => a)
  | "rmax" => some (.none, fun acc b => match acc with
      | .some a => .some (if vInt b > vInt a then b else a)
      | _ => .some b)
  | "minel" => some (.none, fun acc v => match acc with
      | .some out => if vFst v < vFst out then .some v else .some out
      | _ => .some v)
  | "maxel" => some (.none, fun acc v => match acc with
      | .some out => if vFst v > vFst out then .some v else .some out
      | _ => .some v)
  | "gsum" => some (.none, fun acc v => match acc with
      | .some a => (match v with | .some x => .some (.int (vInt a + vInt x)) | _ => .some a)
      | _ => v)
  | "avg" => some (.tup [.none, .int 0], fun acc v => match acc with
      | .tup [s, c] => .tup [(match s with | .some s => .some (.int (vInt s + vInt v)) | _ => .some v),
                             .int (vInt c + 1)]
      | a => a)
  | _ => none

/-! ### shared helpers -/

def parseOps (c : Case) : List (Elem Val) :=
  c.ops.filterMap fun w => match w with | ["e", e] => parseElem e | _ => none

/-- What the operator can see of a script: `ScriptOp` yields `Terminate` when exhausted and the
    harness stops pulling at the first `Terminate`. -/
def normalise (es : List (Elem Val)) : List (Elem Val) :=
  es.takeWhile (fun e => !e.isTerm) ++ [.term]

def fmtIdx (p : Nat × Elem Val) : String := s!"{p.1} {elemToStr p.2}"

def parseIdxOut (s : String) : Option (Nat × Elem Val) :=
  match words s with
  | [i, e] => do let i ← i.toNat?; let e ← parseElem e; pure (i, e)
  | _ => .none

/-- one iteration of a trace: body, index of the end marker, the end marker -/
structure Iter where
  start : Nat
  body : List (Elem Val)
  stop : Nat
  marker : Elem Val

/-- split a (normalised) trace at `far` / `term` -/
def iterations (es : List (Elem Val)) : List Iter :=
  let rec go (i start : Nat) (cur : List (Elem Val)) (es : List (Elem Val)) (acc : List Iter) : List Iter :=
    match es with
    | [] => acc.reverse
    | e :: rest =>
      match e with
      | .far | .term => go (i + 1) (i + 1) [] rest ({ start, body := cur.reverse, stop := i, marker := e } :: acc)
      | _ => go (i + 1) start (e :: cur) rest acc
  go 0 0 [] es []

def maxInts : List Int → Option Int
  | [] => none
  | t :: ts => some (ts.foldl max t)

def isSortedBy (lt : String → String → Bool) (l : List String) : List String :=
  (l.toArray.qsort lt).toList

def sortStrs (l : List String) : List String := isSortedBy (· < ·) l

/-- first failing check -/
def firstFail (checks : List (Option String)) : Option String :=
  checks.findSome? id

def check (ok : Bool) (msg : String) : Option String := if ok then none else some msg

/-- the outputs attributed to one iteration (pulled at indices in `[start, stop]`) -/
def outsOf (it : Iter) (impl : List (Nat × Elem Val)) : List (Nat × Elem Val) :=
  impl.filter fun p => it.start ≤ p.1 && p.1 ≤ it.stop

/-- shape every aggregating operator must have per iteration: nothing before the end marker
    is consumed, results first, then at most watermarks, then the marker itself -/
def shapeOk (it : Iter) (outs : List (Nat × Elem Val)) : Option String :=
  let es := outs.map (·.2)
  firstFail [
    check (outs.all fun p => p.1 == it.stop) s!"iteration ending at {it.stop}: output before its end was consumed",
    check (es.getLast? == some it.marker) s!"iteration ending at {it.stop}: end marker is not the last output",
    check ((es.dropLast.dropWhile Elem.isData).all fun e => match e with | .wm _ => true | _ => false)
      s!"iteration ending at {it.stop}: results are not before the watermark / end marker"]

/-- **C07 oracle for the global forms** (spec side: reference fold computed directly). -/
def oracle (init : Val) (f : Val → Val → Val) (es : List (Elem Val)) (impl : List (Nat × Elem Val)) :
    Option String :=
  let its := iterations es
  let perIter := its.map fun it =>
    let outs := outsOf it impl
    let data := (outs.map (·.2)).filter Elem.isData
    let vals := it.body.filterMap Elem.value
    let tss := it.body.filterMap fun | .ts _ t => some t | _ => none
    let expected : List (Elem Val) :=
      if vals.isEmpty then [] else
        let r := vals.foldl f init
        match maxInts tss with
        | some t => [.ts r t]
        | none => [.item r]
    firstFail [shapeOk it outs,
      check (data == expected)
        s!"iteration ending at {it.stop}: results {data.map elemToStr} expected {expected.map elemToStr}"]
  let outEs := impl.map (·.2)
  firstFail (perIter ++ [
    check (impl.all fun p => its.any fun it => it.start ≤ p.1 && p.1 ≤ it.stop) "output attributed to no iteration",
    check (grammarOk outEs) "output violates the stream grammar",
    check (!wmSafeOk es || wmSafeOk outEs) "output violates watermark safety"])

def kindTag (es : List (Elem Val)) : List String :=
  let its := iterations es
  let nonEmpty := its.filter fun it => it.body.any Elem.isData
  [s!"iters{min its.length 5}", s!"nonempty{min nonEmpty.length 4}",
   if es.any (fun e => match e with | .ts _ _ => true | _ => false) then "stamped" else "plain",
   if es.any (fun e => match e with | .wm _ => true | _ => false) then "wm" else "nowm",
   if wmSafeOk es then "wmsafe" else "wmunsafe"]

def handle (c : Case) : Verdict :=
  match c.header with
  | [_, _, fn] =>
    match lib fn with
    | some (init, f) =>
      let raw := parseOps c
      let es := normalise raw
      let out := (Noir.Fold.runIdx f init Noir.Fold.State.init 0 es).map fmtIdx
      let impl := c.implOut.filterMap parseIdxOut
      let wellFormed := grammarOk raw
      let oracle :=
        if impl.length ≠ c.implOut.length then some s!"unparsable implementation output {c.implOut}"
        else if !wellFormed then none     -- the property speaks about well-formed streams only
        else oracle init f es impl
      { out, oracle,
        nontrivial := wellFormed && es.any Elem.isData,
        tags := [s!"fn:{fn}", if wellFormed then "grammar" else "malformed"] ++ kindTag es }
    | none => { out := [], oracle := some "bad header", nontrivial := false }
  | _ => { out := [], oracle := some "bad header", nontrivial := false }

end Noir.Driver.Fold
