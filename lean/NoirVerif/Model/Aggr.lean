/-
  Model/Aggr.lean — sequential reference semantics of the aggregation forms of
  `src/operator/mod.rs` as they are exercised by the `aggr` engine component
  (`harness/src/bin/aggr.rs`): one result per key that occurs = the sequential fold of the key's
  values, stamped with the key's maximum timestamp; none for an empty input; the same per round
  inside `replay` / `iterate`. Input elements are `(key, value, timestamp)` triples.
  Import-free (linked into the driver executable).
-/
namespace Noir.Aggr

abbrev Elem3 := Int × Int × Int

/-- the forms that ignore keys (one overall result, reported under key 0) -/
def isGlobal (form : String) : Bool :=
  form == "fold" || form == "fold_assoc" || form == "reduce" || form == "reduce_assoc"

/-- the user function of every form as a sequential left fold over the values of one group,
    in arrival order (`none` for an empty group: no accumulator is ever created) -/
def foldValues (form : String) (xs : List Int) : Option Int :=
  match xs with
  | [] => none
  | x :: rest =>
    some <|
      if form == "reduce_assoc" || form == "gb_reduce" || form == "group_by_max_element" then
        rest.foldl (fun a b => if b > a then b else a) x                 -- max
      else if form == "group_by_min_element" then
        rest.foldl (fun a b => if b < a then b else a) x                 -- min
      else if form == "group_by_count" then
        (x :: rest).foldl (fun c _ => c + 1) 0                           -- count
      else
        (x :: rest).foldl (fun a b => a + b) 0                           -- sum (also avg · n)

def maxTs : List Int → Option Int
  | [] => none
  | t :: ts => some (ts.foldl (fun a b => if b > a then b else a) t)

def dedup (l : List Int) : List Int :=
  l.foldl (fun acc k => if acc.contains k then acc else acc ++ [k]) []

/-- one application of the aggregation: `(key, value, stamp)` per result -/
def agg (form : String) (ts : Bool) (inp : List Elem3) : List (Int × Int × Option Int) :=
  let group (g : List Elem3) (k : Int) : List (Int × Int × Option Int) :=
    match foldValues form (g.map (·.2.1)) with
    | none => []
    | some v => [(k, v, if ts then maxTs (g.map (·.2.2)) else none)]
  if isGlobal form then group inp 0
  else (dedup (inp.map (·.1))).flatMap fun k => group (inp.filter (·.1 == k)) k

/-- `none` stamp on the wire -/
def NOTS : Int := -9223372036854775808

/-- result lines as integer vectors `[tag, round, key, value.., stamp]` (tag 0 = `r`, 1 = `f`) -/
def reference (form : String) (ts : Bool) (lp : String) (rounds : Nat) (inp : List Elem3) :
    List (List Int) :=
  if form == "krich" then
    -- keyed rich_map state: a running count per key (1..n_k) and every element itself
    (dedup (inp.map (·.1))).flatMap fun k =>
      let g := inp.filter (·.1 == k)
      (List.range g.length).map (fun (c : Nat) => [0, 0, k, 1, Int.ofNat c + 1, NOTS]) ++
      g.map (fun e => [0, 0, k, 2, e.2.1, if ts then e.2.2 else NOTS])
  else if lp == "replay" then
    (List.range rounds).flatMap fun (r : Nat) =>
      (agg form ts (inp.map fun e => (e.1, e.2.1 + Int.ofNat r, e.2.2))).map fun p =>
        [0, Int.ofNat r, p.1, p.2.1, p.2.2.getD NOTS]
  else if lp == "iterate" then
    let rec go (fuel : Nat) (r : Nat) (cur : List Elem3) (acc : List (List Int)) : List (List Int) :=
      match fuel with
      | 0 => acc ++ cur.map (fun e => [1, 0, e.1, e.2.1, e.2.2])
      | fuel + 1 =>
        let res : List Elem3 := (agg form ts cur).map fun p => (p.1, p.2.1, p.2.2.getD 0)
        go fuel (r + 1) res (acc ++ res.map fun e => [0, Int.ofNat r, e.1, e.2.1, e.2.2])
    go rounds 0 inp []
  else
    (agg form ts inp).map fun p => [0, 0, p.1, p.2.1, p.2.2.getD NOTS]

end Noir.Aggr
