/-
  Model/SessionWindow.lean — `SessionWindowManager::process` (src/operator/window/descr/session.rs:39-66).

  The wall clock is an explicit argument: `now : Nat` is the value (in nanoseconds since an arbitrary
  base) that `Instant::now()` returns in the call (session.rs:40). `Instant` is monotone, so the
  theorems quantify over non-decreasing clock sequences. `ts - slot.last` on `Instant`s saturates at 0
  (std ≥ 1.60), which is exactly `Nat` subtraction.

  The accumulator is the free accumulator (list of the processed elements), as in Model/CountWindow.
-/
import NoirVerif.Model.Elem
namespace Noir.SessionWindow

variable {α : Type}

/-- `Slot<A>` (session.rs:17): accumulator (free: the items) and the instant of the last element. -/
structure Slot (α : Type) where
  items : List α
  last : Nat
  deriving Repr, DecidableEq

/-- `self.w : Option<Slot<A>>` -/
abbrev State (α : Type) := Option (Slot α)

/-- first `match` of `process` (session.rs:44-50): close the open session if the clock advanced by
    **more than** `gap` since its last element (`ts - slot.last > self.gap`, strict). -/
def expire (gap : Nat) (w : State α) (now : Nat) : State α × Option (List α) :=
  match w with
  | some slot => if now - slot.last > gap then (none, some slot.items) else (some slot, none)
  | none => (none, none)

/-- data branch (session.rs:53-60): `get_or_insert_with(new(init, ts))`, `acc.process`, `last = ts`. -/
def push (w : State α) (now : Nat) (x : α) : State α :=
  match w with
  | some slot => some ⟨slot.items ++ [x], now⟩
  | none => some ⟨[x], now⟩

/-- `WindowManager::process` with the clock value read in this call. -/
def process (gap : Nat) (w : State α) (now : Nat) (e : Elem α) : State α × Option (List α) :=
  let (w1, ret) := expire gap w now
  match e with
  | .item x => (push w1 now x, ret)
  | .ts x _ => (push w1 now x, ret)
  -- `ret.or_else(|| self.w.take().map(output))` (session.rs:61-63)
  | .far | .term =>
    match ret with
    | some r => (w1, some r)       -- then `w1 = none`: the session was just taken by `expire`
    | none => (none, w1.map (·.items))
  -- FlushBatch / Watermark (session.rs:64): only the expiry check
  | _ => (w1, ret)

/-- Run over timed ops `(now, element)`, collecting each output with the index of the op that produced it. -/
def runFrom (gap : Nat) : State α → Nat → List (Nat × Elem α) → List (Nat × List α)
  | _, _, [] => []
  | w, i, (now, e) :: es =>
    match process gap w now e with
    | (w', some r) => (i, r) :: runFrom gap w' (i + 1) es
    | (w', none) => runFrom gap w' (i + 1) es

def run (gap : Nat) (es : List (Nat × Elem α)) : List (Nat × List α) := runFrom gap none 0 es

/-- state after a run -/
def stateAfter (gap : Nat) : State α → List (Nat × Elem α) → State α
  | w, [] => w
  | w, (now, e) :: es => stateAfter gap (process gap w now e).1 es

/-- the results only (no indices) -/
def outputs (gap : Nat) (w : State α) (es : List (Nat × Elem α)) : List (List α) :=
  (runFrom gap w 0 es).map (·.2)

/-- what is still open -/
def pending (w : State α) : List α := match w with | some s => s.items | none => []

/-! ### Specification -/

/-- Session groups of timed data `(arrival time, value)`: a new group starts exactly when the
    clock advanced by more than `gap` since the previous element. `cur` = current (open) group,
    `last` = arrival time of its last element. -/
def groupsGo (gap : Nat) : List α → Nat → List (Nat × α) → List (List α)
  | cur, _, [] => [cur]
  | cur, last, (t, x) :: rest =>
    if t - last > gap then cur :: groupsGo gap [x] t rest else groupsGo gap (cur ++ [x]) t rest

def groups (gap : Nat) : List (Nat × α) → List (List α)
  | [] => []
  | (t, x) :: rest => groupsGo gap [x] t rest

end Noir.SessionWindow
