/-
  Model/Jobs.lean — sequential reference semantics of the job catalogue of `harness/src/jobs.rs`
  (whole-engine components `term` (C04) and `crash` (C20)). Each job maps its size `n` to the
  list of its sinks' results; every result element is a list of integers. Results are compared
  as sorted multisets.
-/
namespace Noir.Jobs

def M : Int := 1000003

def rangeI (n : Int) : List Int := (List.range n.toNat).map Int.ofNat

def sumI (l : List Int) : Int := l.foldl (· + ·) 0

def emod (a b : Int) : Int := a % b   -- inputs are non-negative here

/-- per-key fold over keys `0..m-1` that occur -/
def byKey (m : Nat) (key : Int → Int) (l : List Int) (f : List Int → Int) : List (List Int) :=
  (List.range m).filterMap fun (k : Nat) =>
    let ki : Int := Int.ofNat k
    let xs := l.filter (fun x => key x == ki)
    if xs.isEmpty then none else some [ki, f xs]

def iterN {σ : Type} : Nat → (σ → σ) → σ → σ
  | 0, _, s => s
  | k + 1, f, s => iterN k f (f s)

/-- complete sliding groups (size 3, slide 2) of a list -/
def groups32 : Nat → List Int → List (List Int)
  | 0, _ => []
  | fuel + 1, xs => if xs.length < 3 then [] else xs.take 3 :: groups32 fuel (xs.drop 2)

def minI (a b : Int) : Int := if a ≤ b then a else b

/-- the sinks of a job -/
def sinks (job : String) (n : Int) : Option (List (List (List Int))) :=
  let xs := rangeI n
  match job with
  | "map_shuffle" => some [xs.map fun x => [(x + 1) * 2]]
  | "group_fold" => some [byKey 7 (· % 7) xs sumI]
  | "group_by_reduce" => some [byKey 5 (· % 5) xs sumI]
  | "diamond" => some [(xs.map fun x => [x + 1000000]) ++ ((xs.filter fun x => x % 2 == 0).map fun x => [x])]
  | "join_hash" | "join_bc" =>
    let l := rangeI (minI n 300)
    let r := rangeI (minI (n / 2) 150)
    some [l.flatMap fun x => (r.filter fun y => y % 10 == x % 10).map fun y => [x % 10, x, y]]
  | "zip" => some [xs.map fun x => [x, n + x]]
  | "replay" =>
    let ys := rangeI (minI n 2000)
    let s := sumI (ys.map (· % 5))
    let f := fun (st : Int) => ((st + s * st) % M) + 1
    some [[[iterN 3 f 1]]]
  | "iterate" =>
    let ys := rangeI (minI n 2000)
    let step := fun (p : Int × List Int) =>
      let items := p.2.map fun x => (x + p.1) % M
      ((p.1 + sumI items) % M, items)
    let r := iterN 3 step (0, ys)
    some [[[r.1]], r.2.map fun x => [x]]
  | "cwindow" =>
    some [(List.range 3).flatMap fun (k : Nat) =>
      let ki : Int := Int.ofNat k
      let ks := xs.filter (fun x => x % 3 == ki)
      (groups32 (ks.length + 1) ks).map fun g => [ki, sumI g]]
  | "multi_sink" => some [xs.map (fun x => [x * 3]), if xs.isEmpty then [] else [[n]]]
  | "side_input" =>
    let ys := rangeI (minI n 200)
    let step := fun (p : Int × List (Int × Int)) =>
      let items := p.2.map fun q => (q.1, (q.2 + p.1) % M)
      ((p.1 + sumI (items.map (·.2))) % M, items)
    let r := iterN 3 step (0, ys.map fun x => (x, x))
    some [[[r.1]], r.2.map fun q => [q.1, q.2]]
  | "side_left_merge" =>
    let ys := rangeI (minI n 200)
    let es := ys.map (· * 2) ++ ys
    let step := fun (st : Int) => (st + sumI (es.map fun e => (e + st) % M)) % M
    some [[[iterN 3 step 0]]]
  | "limited_forward" => some [xs.map fun x => [x + 1]]
  | "limited_forward3" => some [xs.map fun x => [x * 2 + 1]]
  | "side_zip_right" | "side_zip_left" =>
    -- equal lengths: every element of both sides is in exactly one pair, so the sum does not depend on the pairing
    let ys := rangeI (minI n 200)
    let step := fun (st : Int) => (st + sumI (ys.map fun x => 3 * x + st)) % M
    some [[[iterN 3 step 0]]]
  | "side_left_join" =>
    let ys := rangeI (minI n 200)
    let step := fun (p : Int × List (Int × Int)) =>
      let items := p.2.map fun q => (q.1, (q.2 + p.1) % M)
      ((p.1 + sumI (items.map (·.2))) % M, items)
    let r := iterN 3 step (0, ys.map fun x => (x, x))
    some [[[r.1]], r.2.map fun q => [q.1, q.2]]
  | "fold_assoc" => some [if xs.isEmpty then [] else [[sumI xs]]]
  | "keyed_chain" =>
    let zs := xs.flatMap fun x => [x, x + 1]
    some [byKey 4 (· % 4) zs (fun l => l.foldl (fun a b => if a ≥ b then a else b) 0)]
  | "count_sink" => some [[[Int.ofNat (xs.filter fun x => x % 3 != 0).length]]]
  | "set_sink" => some [byKey 6 (· % 6) xs sumI]
  | _ => none

end Noir.Jobs
