/-
  Model/CsvSplit.lean — the byte-range computation of `CsvSource::setup` (src/operator/source/csv.rs:271-352)
  over a file given as its byte list. Only the range alignment is modelled; the `csv` crate's parser is not
  (for quote-free content a record is a terminator-delimited line, see `records`).

  `last_byte_terminator` is `'\n'` (`Terminator::CRLF`, the default; csv.rs:291-295).
-/
import NoirVerif.Model.FileSplit
namespace Noir.CsvSplit
open Noir.FileSplit

/-- `header_size` (csv.rs:298-305): the bytes of the first line, terminator included, if `has_headers`. -/
def headerSize (bytes : List Nat) (hasHeaders : Bool) : Nat :=
  if hasHeaders then (readLine bytes).1.length else 0

/-- `(start, end)` of replica `id` of `n` after the alignment (csv.rs:307-342). -/
def csvRange (bytes : List Nat) (hasHeaders : Bool) (n id : Nat) : Nat × Nat :=
  let fileSize := bytes.length
  let hdr := headerSize bytes hasHeaders
  let bodySize := fileSize - hdr                    -- :308 (u64 `-`; `hdr ≤ fileSize` always)
  let rangeSize := bodySize / n                     -- :309 (n = 0 would panic)
  let start0 := hdr + rangeSize * id                -- :310
  let end0 := if id = n - 1 then fileSize else start0 + rangeSize          -- :311-315
  -- :318-328 align start: seek to `start`, `start += read_until(b'\n')`
  let start := if id ≠ 0 then start0 + (readLine (bytes.drop start0)).1.length else start0
  -- :331-341 align end: seek to `end`, `end += read_until(b'\n')`
  let end_ := if id ≠ n - 1 then end0 + (readLine (bytes.drop end0)).1.length else end0
  (start, end_)

/-- The bytes handed to the `csv::Reader` of replica `id`: seek to `start` (:345), `LimitedReader` of
    `(end - start) as usize` bytes (:350). The subtraction would panic for `end < start`
    (`csv_range_ordered` shows this cannot happen); here it truncates to 0. -/
def replicaBytes (bytes : List Nat) (hasHeaders : Bool) (n id : Nat) : List Nat :=
  let r := csvRange bytes hasHeaders n id
  (bytes.drop r.1).take (r.2 - r.1)

/-- the part of the file after the header -/
def body (bytes : List Nat) (hasHeaders : Bool) : List Nat := bytes.drop (headerSize bytes hasHeaders)

/-- strip a trailing `"\n"` / `"\r\n"` / `"\r"` -/
def stripTerm (l : List Nat) : List Nat :=
  let l1 := if l.getLast? = some 10 then l.dropLast else l
  if l1.getLast? = some 13 then l1.dropLast else l1

/-- Records the `csv` parser yields for a quote-free byte string whose only `'\r'`s precede a `'\n'`:
    the lines without their terminator; empty lines are skipped (csv-core ignores them).
    (Not a model of the parser — the assumption under which ranges of whole lines mean whole records.) -/
def records (seg : List Nat) : List (List Nat) :=
  ((lines seg).map stripTerm).filter (fun r => !r.isEmpty)

end Noir.CsvSplit
