/-
  Model/CsvSplit.lean — the byte-range computation of `CsvSource::setup` (src/operator/source/csv.rs:271-352)
  over a file given as its byte list. Only the range alignment is modelled; the `csv` crate's parser is not
  (for quote-free content a record is a terminator-delimited line, see `records`).

  `last_byte_terminator` is `'\n'` (`Terminator::CRLF`, the default; csv.rs:291-295).
-/
import NoirVerif.Model.FileSplit
namespace Noir.CsvSplit
open Noir.FileSplit

/-- `header_size` (csv.rs:298-305): the bytes of the first line, terminator included, if `has_headers`. -/
def headerSize (bytes : List Nat) (hasHeaders : Bool) : Nat :=
  if hasHeaders then (readLine bytes).1.length else 0

/-- `(start, end)` of replica `id` of `n` after the alignment (csv.rs:307-342). -/
def csvRange (bytes : List Nat) (hasHeaders : Bool) (n id : Nat) : Nat × Nat :=
  let fileSize := bytes.length
  let hdr := headerSize bytes hasHeaders
  let bodySize := fileSize - hdr                    -- :308 (u64 `-`; `hdr ≤ fileSize` always)
  let rangeSize := bodySize / n                     -- :309 (n = 0 would panic)
  let start0 := hdr + rangeSize * id                -- :310
  let end0 := if id = n - 1 then fileSize else start0 + rangeSize          -- :311-315
  -- :318-328 align start: seek to `start`, `start += read_until(b'\n')`
  let start := if id ≠ 0 then start0 + (readLine (bytes.drop start0)).1.length else start0
  -- :331-341 align end: seek to `end`, `end += read_until(b'\n')`
  let end_ := if id ≠ n - 1 then end0 + (readLine (bytes.drop end0)).1.length else end0
  (start, end_)

/-- The bytes handed to the `csv::Reader` of replica `id`: seek to `start` (:345), `LimitedReader` of
    `(end - start) as usize` bytes (:350). The subtraction would panic for `end < start`
    (`csv_range_ordered` shows this cannot happen); here it truncates to 0. -/
def replicaBytes (bytes : List Nat) (hasHeaders : Bool) (n id : Nat) : List Nat :=
  let r := csvRange bytes hasHeaders n id
  (bytes.drop r.1).take (r.2 - r.1)

/-- the part of the file after the header -/
def body (bytes : List Nat) (hasHeaders : Bool) : List Nat := bytes.drop (headerSize bytes hasHeaders)

/-! ### CSV records (specification side: RFC-4180 quoting, as implemented by the `csv` crate for
well-formed content — quotes only around whole fields, `""` = escaped quote) -/

def QUOTE : Nat := 34
def COMMA : Nat := 44
def CR : Nat := 13

/-- does the text contain an odd number of quote characters, i.e. does it end inside an open quote?
    (`""` toggles twice, so escaped quotes need no special treatment) -/
def oddQuotes (l : List Nat) : Bool := l.foldl (fun b c => if c = QUOTE then !b else b) false

/-- Quote-aware record splitter over the physical lines: a line terminator inside an open quote does not
    end a record — a line that ends inside an open quote is merged with the following ones (`pend`). -/
def joinLines : List Nat → List (List Nat) → List (List Nat)
  | pend, [] => if pend = [] then [] else [pend]
  | pend, l :: ls =>
    if oddQuotes (pend ++ l) then joinLines (pend ++ l) ls else (pend ++ l) :: joinLines [] ls

/-- the raw records (text including quotes and terminator) of a CSV byte string -/
def rawRecords (s : List Nat) : List (List Nat) := joinLines [] (splitLines [] s)

/-- strip a trailing `"\n"` / `"\r\n"` / `"\r"` -/
def stripTerm (l : List Nat) : List Nat :=
  let l1 := if l.getLast? = some 10 then l.dropLast else l
  if l1.getLast? = some 13 then l1.dropLast else l1

/-- parser state inside a record: outside quotes / inside a quoted field / just after a `"` seen inside a
    quoted field (either the closing quote or the first half of `""`) -/
inductive FSt where
  | plain | quoted | quoteSeen
  deriving Repr, DecidableEq

/-- the fields of one record text (terminator already stripped): split at commas outside quotes, remove
    the enclosing quotes, `""` inside quotes is one quote. -/
def parseFields : FSt → List Nat → List Nat → List (List Nat)
  | _, cur, [] => [cur]
  | .plain, cur, c :: cs =>
    if c = COMMA then cur :: parseFields .plain [] cs
    else if c = QUOTE ∧ cur = [] then parseFields .quoted [] cs
    else parseFields .plain (cur ++ [c]) cs
  | .quoted, cur, c :: cs =>
    if c = QUOTE then parseFields .quoteSeen cur cs else parseFields .quoted (cur ++ [c]) cs
  | .quoteSeen, cur, c :: cs =>
    if c = QUOTE then parseFields .quoted (cur ++ [QUOTE]) cs      -- `""`
    else if c = COMMA then cur :: parseFields .plain [] cs           -- closing quote, next field
    else parseFields .plain (cur ++ [c]) cs

/-- The records (as lists of fields) of a CSV byte string; empty lines are skipped (csv-core ignores them). -/
def records (seg : List Nat) : List (List (List Nat)) :=
  (rawRecords seg).filterMap fun r =>
    let t := stripTerm r
    if t.isEmpty then none else some (parseFields .plain [] t)

/-- `header_size` the property asks for: the first record (quote-aware), not the first physical line. -/
def specHeaderSize (bytes : List Nat) (hasHeaders : Bool) : Nat :=
  if hasHeaders then ((rawRecords bytes).head?.map List.length).getD 0 else 0

end Noir.CsvSplit
