/-
  Model/Link.lean — the links between producer replicas and consumer endpoints as a pipeline of
  FIFO stages, moved by an arbitrary schedule.

    producer `Batcher` (one per (producer, endpoint): end.rs:166)
      ├─ same host ─────────────────────────────────────────────► local channel of the endpoint
      └─ other host ─► mux queue ─► TCP byte stream ─► demux ───► local channel of the endpoint
                       (multiplexer.rs:38,   (remote.rs)  (demultiplexer.rs:164)   (network_channel.rs:15,
                        bounded MUX_CHANNEL_CAPACITY)                               bounded CHANNEL_CAPACITY)

  * One local channel per `ReceiverEndpoint`, shared by every producer (local ones send into it
    directly, each demux thread holds a clone of its sender: topology.rs:387-404, 283-331).
  * One multiplexer (queue + thread + TCP connection) per host and per `DemuxCoord` =
    (destination block, destination host, previous block) (topology.rs:333-355), shared by all the
    local replicas of the previous block and by all the destination replicas on that host.
  * The TCP stream is modelled at frame granularity: the list of `(tag, message)` written by
    `remote_send` and not yet read by `remote_recv`; `Model/Framing.lean` (`frame_roundtrip`,
    `deframe_prefix`) is the justification for treating the byte stream as a FIFO of frames.
    The tag is what the header carries: `(replica_id, sender_block_id)`; the demux thread rebuilds
    the endpoint from its own `DemuxCoord` and the tag (remote.rs:143-146) and routes on it.
  * A move whose target queue is full is not enabled (the Rust thread blocks in `send`): the
    state is unchanged. Moves on empty queues are no-ops as well.
  * A consumer may drop its `NetworkReceiver` (`leave`): flume then discards what is queued in
    the channel and every later `send` fails. The demux thread logs and DROPS such a message
    (demultiplexer.rs:179-181, `warn!("demux failed to send message …")`); a local producer
    panics (`remote_sender.send(message).unwrap()`, batcher.rs:91/109 — fail-stop, the move is
    not enabled here). Everything discarded that way is collected in the ghost `dropped`.
    In the engine a consumer leaves only after it has received `Terminate` from every producer
    of the endpoint (`Start::next`, start/mod.rs:233: `missing_terminate == 0`), and `Terminate` is
    the last element a producer emits on a link (`End` ends its batchers there), so for forward
    links nothing can be in flight at that point and `dropped` stays empty; the exception is a
    feedback link, whose `End` does not send `Terminate` at all (end.rs:190-197, `mark_feedback`)
    because the loop head has already left. The theorems do not rely on that argument: they are
    stated for consumers that are alive, and as a prefix statement for all.
-/
import NoirVerif.Model.Batcher
import NoirVerif.Model.Consts
namespace Noir.Link

/-- `Coord` (network/mod.rs:64) -/
structure Coord where
  block : Nat
  host : Nat
  replica : Nat
  deriving Repr, DecidableEq, Inhabited

/-- `ReceiverEndpoint` (network/mod.rs:80) -/
structure Endpoint where
  block : Nat
  host : Nat
  replica : Nat
  prevBlock : Nat
  deriving Repr, DecidableEq, Inhabited

/-- `DemuxCoord` (network/mod.rs:95) -/
structure DemuxCoord where
  block : Nat
  host : Nat
  prevBlock : Nat
  deriving Repr, DecidableEq, Inhabited

/-- `DemuxCoord::from(ReceiverEndpoint)` -/
def demuxOf (c : Endpoint) : DemuxCoord := ⟨c.block, c.host, c.prevBlock⟩

/-- what the `MessageHeader` carries besides the size -/
structure Tag where
  replica : Nat
  senderBlock : Nat
  deriving Repr, DecidableEq, Inhabited

/-- `remote_send`: `replica_id: dest.coord.replica_id, sender_block_id: dest.prev_block_id` -/
def tagOf (c : Endpoint) : Tag := ⟨c.replica, c.prevBlock⟩

/-- `remote_recv`: `ReceiverEndpoint::new(Coord::new(coord.block_id, coord.host_id,
    header.replica_id), header.sender_block_id)` -/
def rebuild (d : DemuxCoord) (t : Tag) : Endpoint := ⟨d.block, d.host, t.replica, t.senderBlock⟩

/-- A TCP connection: the multiplexer of host `srcHost` towards the demultiplexer `demux`. -/
structure Conn where
  srcHost : Nat
  demux : DemuxCoord
  deriving Repr, DecidableEq, Inhabited

/-- `NetworkMessage` plus the endpoint of the `NetworkSender` it was handed to -/
structure Msg (ε : Type) where
  src : Coord
  dst : Endpoint
  body : List ε

variable {ε : Type}

/-- the connection a message from `p` to `c` travels on when `c` is on another host -/
def connOf (p : Coord) (c : Endpoint) : Conn := ⟨p.host, demuxOf c⟩

/-- `sender_metadata.to_remote` (topology.rs:473): the destination is on another host -/
def isRemote (p : Coord) (c : Endpoint) : Bool := p.host != c.host

structure State (ε : Type) where
  /-- `Batcher::buffer` of the batcher producer `p` holds for endpoint `c` -/
  buffer : Coord → Endpoint → List ε
  /-- multiplexer queue (bounded) -/
  mux : Conn → List (Msg ε)
  /-- frames written to the TCP stream and not yet read -/
  wire : Conn → List (Tag × Msg ε)
  /-- local channel of the endpoint (bounded) -/
  chan : Endpoint → List (Msg ε)
  /-- ghost: messages the consumer took out of its channel, in order -/
  delivered : Endpoint → List (Msg ε)
  /-- ghost: elements the producer enqueued towards the endpoint, in order -/
  emitted : Coord → Endpoint → List ε
  /-- the consumer dropped its receiver -/
  gone : Endpoint → Bool
  /-- ghost: messages discarded because the receiver was gone (queued at the time it left, or
      routed to it by a demux thread afterwards), in order -/
  dropped : Endpoint → List (Msg ε)

def State.init : State ε :=
  ⟨fun _ _ => [], fun _ => [], fun _ => [], fun _ => [], fun _ => [], fun _ _ => [], fun _ => false,
    fun _ => []⟩

/-- function update -/
def upd {κ : Type} [DecidableEq κ] {β : Type} (f : κ → β) (k : κ) (v : β) : κ → β :=
  fun k' => if k' = k then v else f k'

def upd2 {κ₁ κ₂ : Type} [DecidableEq κ₁] [DecidableEq κ₂] {β : Type}
    (f : κ₁ → κ₂ → β) (k₁ : κ₁) (k₂ : κ₂) (v : β) : κ₁ → κ₂ → β :=
  fun a b => if a = k₁ ∧ b = k₂ then v else f a b

/-- The individual stage moves. -/
inductive Move (ε : Type) where
  /-- producer `p` calls a `Batcher` operation on its batcher for `c` -/
  | batcher (p : Coord) (c : Endpoint) (op : Batcher.Op ε)
  /-- producer `p` hands a whole batch directly to its `NetworkSender` for `c`, without a `Batcher`
      (the iteration leader does, and the `FakeSender`s of the `mux` harness). A sender is either
      wrapped in a batcher or used directly, never both: the move requires an empty batcher buffer. -/
  | send (p : Coord) (c : Endpoint) (body : List ε)
  /-- the mux thread of connection `k` takes one message and writes its frame (multiplexer.rs:139) -/
  | muxSend (k : Conn)
  /-- the demux thread of connection `k` reads one frame and routes it (demultiplexer.rs:178) -/
  | demux (k : Conn)
  /-- the consumer receives one message from its channel -/
  | recv (c : Endpoint)
  /-- the consumer drops its receiver (it finished, or its thread died) -/
  | leave (c : Endpoint)

/-- hand the batches of one batcher call to the `NetworkSender` of `(p, c)`.
    A call sends at most one batch; if the queue is full the call blocks (= the whole move is
    not enabled, see `step`). -/
def sendTo (s : State ε) (p : Coord) (c : Endpoint) (batches : List (List ε)) : State ε :=
  let msgs := batches.map (fun b => (⟨p, c, b⟩ : Msg ε))
  if isRemote p c then { s with mux := upd s.mux (connOf p c) (s.mux (connOf p c) ++ msgs) }
  else { s with chan := upd s.chan c (s.chan c ++ msgs) }

/-- is there room for one more message in the first queue of the path `p → c`? -/
def hasRoom (s : State ε) (p : Coord) (c : Endpoint) : Bool :=
  if isRemote p c then (s.mux (connOf p c)).length < Noir.Consts.MUX_CHANNEL_CAPACITY
  else (s.chan c).length < Noir.Consts.CHANNEL_CAPACITY && !s.gone c   -- gone: `send` fails, the batcher panics

def step (mode : Coord → Batcher.Mode) (s : State ε) : Move ε → State ε
  | .batcher p c op =>
    let r := Batcher.step (mode p) (s.buffer p c) op
    if r.2.isEmpty || hasRoom s p c then
      let s1 : State ε := { s with
        buffer := upd2 s.buffer p c r.1,
        emitted := upd2 s.emitted p c (s.emitted p c ++ Batcher.enqueued [op]) }
      sendTo s1 p c r.2
    else s
  | .send p c body =>
    if (s.buffer p c).isEmpty && hasRoom s p c then
      sendTo { s with emitted := upd2 s.emitted p c (s.emitted p c ++ body) } p c [body]
    else s
  | .muxSend k =>
    match s.mux k with
    | [] => s
    | m :: rest =>
      { s with mux := upd s.mux k rest, wire := upd s.wire k (s.wire k ++ [(tagOf m.dst, m)]) }
  | .demux k =>
    match s.wire k with
    | [] => s
    | (t, m) :: rest =>
      let dest := rebuild k.demux t
      if s.gone dest then
        -- `if let Err(e) = senders[&dest].send(message) { warn!(..) }`: the message is lost
        { s with wire := upd s.wire k rest, dropped := upd s.dropped dest (s.dropped dest ++ [m]) }
      else if (s.chan dest).length < Noir.Consts.CHANNEL_CAPACITY then
        { s with wire := upd s.wire k rest, chan := upd s.chan dest (s.chan dest ++ [m]) }
      else s
  | .recv c =>
    if s.gone c then s else
    match s.chan c with
    | [] => s
    | m :: rest =>
      { s with chan := upd s.chan c rest, delivered := upd s.delivered c (s.delivered c ++ [m]) }
  | .leave c =>
    if s.gone c then s
    else { s with gone := upd s.gone c true, chan := upd s.chan c [],
                  dropped := upd s.dropped c (s.dropped c ++ s.chan c) }

/-- run a schedule -/
def run (mode : Coord → Batcher.Mode) : State ε → List (Move ε) → State ε
  | s, [] => s
  | s, mv :: mvs => run mode (step mode s mv) mvs

/-! ### Observations -/

/-- elements of the messages of a queue that go from `p` to `c`, in queue order -/
def proj (p : Coord) (c : Endpoint) (q : List (Msg ε)) : List ε :=
  q.flatMap (fun m => if m.src = p ∧ m.dst = c then m.body else [])

/-- what consumer endpoint `c` has received from `p` -/
def deliveredFrom (s : State ε) (p : Coord) (c : Endpoint) : List ε := proj p c (s.delivered c)

/-- what was addressed by `p` to `c` and discarded because `c`'s receiver was gone -/
def droppedFrom (s : State ε) (p : Coord) (c : Endpoint) : List ε := proj p c (s.dropped c)

/-- elements on their way from `p` to `c`, oldest first: local channel, TCP stream, mux queue,
    batcher buffer -/
def inflight (s : State ε) (p : Coord) (c : Endpoint) : List ε :=
  proj p c (s.chan c) ++ proj p c ((s.wire (connOf p c)).map (·.2)) ++ proj p c (s.mux (connOf p c))
    ++ s.buffer p c

/-- every queue only holds messages that lead to the queue's destination, frames carry the tag
    of their destination, and remote queues only hold remote messages -/
structure Routed (s : State ε) : Prop where
  chan : ∀ c, ∀ m ∈ s.chan c, m.dst = c
  delivered : ∀ c, ∀ m ∈ s.delivered c, m.dst = c
  dropped : ∀ c, ∀ m ∈ s.dropped c, m.dst = c
  mux : ∀ k, ∀ m ∈ s.mux k, k = connOf m.src m.dst ∧ isRemote m.src m.dst = true
  wire : ∀ k, ∀ x ∈ s.wire k, k = connOf x.2.src x.2.dst ∧ x.1 = tagOf x.2.dst ∧
    isRemote x.2.src x.2.dst = true

/-- nothing in any queue or buffer -/
def Quiescent (s : State ε) : Prop :=
  (∀ p c, s.buffer p c = []) ∧ (∀ k, s.mux k = []) ∧ (∀ k, s.wire k = []) ∧ (∀ c, s.chan c = [])

end Noir.Link
