/-
  Model/SeqLoop.lean — the sequential reference semantics of `replay` and `iterate`
  (public API: src/operator/iteration/replay.rs:203-…, iterate.rs:300-…).

  One round: the body is evaluated against the state `S` of the previous round on the round's
  input; the next state is the global fold of the local folds of the round's output, after which
  `loop_condition` (which may mutate the state) decides, together with the bound, whether another
  round runs. `replay` feeds the original input into every round, `iterate` feeds the round's
  output into the next round and finally emits the last round's output.
-/
import NoirVerif.Model.Leader
namespace Noir.SeqLoop

variable {σ δ α : Type}

/-- A loop as seen by the user. `body S xs` is the (multiset of the) body output on input `xs` with
    state `S`; `parts` says how the output of a round is distributed over the `IterationEnd`
    replicas (each replica folds its part with `localFold` from `delta0 = Default::default()`; a
    replica without elements sends `delta0`, iteration_end.rs:99-106). -/
structure Loop (σ δ α : Type) where
  init : σ
  maxIter : Nat
  body : σ → List α → List α
  delta0 : δ
  localFold : δ → α → δ
  global : σ → δ → σ
  cond : σ → Bool × σ

/-- the deltas of one round for a given distribution of the output over the end replicas -/
def deltas (l : Loop σ δ α) (parts : List (List α)) : List δ :=
  parts.map (fun p => p.foldl l.localFold l.delta0)

/-- state after a round whose output was distributed as `parts` (deltas folded in this order),
    before `loop_condition` -/
def foldRound (l : Loop σ δ α) (S : σ) (parts : List (List α)) : σ :=
  (deltas l parts).foldl l.global S

/-- One entry per executed round: the state after the round (after `loop_condition` ran) and the
    round's output. `rem` = rounds still allowed after this one (`maxIter - k`). `split` is the
    distribution of a round's output over the end replicas (the identity `fun xs => [xs]` for a
    single replica). -/
def rounds (l : Loop σ δ α) (feed : Bool) (split : List α → List (List α)) :
    Nat → σ → List α → List (σ × List α)
  | rem, S, inp =>
    let out := l.body S inp
    let r := l.cond (foldRound l S (split out))
    match rem with
    | 0 => [(r.2, out)]
    | rem + 1 =>
      if r.1 then (r.2, out) :: rounds l feed split rem r.2 (if feed then out else inp)
      else [(r.2, out)]

/-- all rounds of `replay` (`feed = false`) / `iterate` (`feed = true`). The first round always
    runs; round `k` (1-based) is followed by another one iff the condition holds and `k < maxIter`
    (leader.rs:155-157). -/
def trace (l : Loop σ δ α) (feed : Bool) (split : List α → List (List α)) (input : List α) :
    List (σ × List α) :=
  rounds l feed split (l.maxIter - 1) l.init input

/-- `S_0, S_1, …`: the state every replica must see in round 1, 2, … -/
def states (l : Loop σ δ α) (feed : Bool) (split : List α → List (List α)) (input : List α) : List σ :=
  l.init :: (trace l feed split input).map (·.1)

def lastD {β : Type} : List β → β → β
  | [], d => d
  | [x], _ => x
  | _ :: xs, d => lastD xs d

/-- result of `replay`: the final state -/
def seqReplay (l : Loop σ δ α) (split : List α → List (List α)) (input : List α) : σ :=
  (lastD (trace l false split input) (l.init, [])).1

/-- result of `iterate`: the final state and the output of the last round -/
def seqIterate (l : Loop σ δ α) (split : List α → List (List α)) (input : List α) : σ × List α :=
  lastD (trace l true split input) (l.init, [])

/-! ### The loop closed over the leader

Given `state_read_is_previous_round` (every replica evaluates the body of a round against the state
of the last broadcast) and `iterationEnd_one_delta_per_round`, a round delivers to the leader the
deltas `deltas l (split out)` of `out = body S inp`, `S` being the last broadcast state. `closedLoop`
runs the leader model in this feedback loop and collects its actions. -/

/-- the leader configuration of a loop with `n` end replicas -/
def cfgOf (l : Loop σ δ α) (n : Nat) : Leader.Cfg σ δ :=
  { init := l.init, maxIter := l.maxIter, n := n, global := l.global, cond := l.cond }

def closedLoop (l : Loop σ δ α) (n : Nat) (feed : Bool) (split : List α → List (List α)) :
    Nat → Leader.St σ → σ → List α → List (Leader.Out σ)
  | 0, _, _, _ => []
  | fuel + 1, st, S, inp =>
    let out := l.body S inp
    let r := Leader.runDeltas (cfgOf l n) st (deltas l (split out))
    match r.2 with
    | [.feedback true S'] => .feedback true S' :: closedLoop l n feed split fuel r.1 S' (if feed then out else inp)
    | o => o

/-- what the leader should do for a given list of rounds: `(true, S_k)` after every round but the
    last, then `(false, init)`, `Item(S_last)`, `FlushAndRestart` -/
def expectOuts (init : σ) : List (σ × List α) → List (Leader.Out σ)
  | [] => []
  | [(S, _)] => [.feedback false init, .elem (.item S), .elem .far]
  | (S, _) :: rest => .feedback true S :: expectOuts init rest

end Noir.SeqLoop
