/-
  Model/CountWindow.lean — `CountWindowManager::process` (src/operator/window/descr/count.rs:52-93).

  The window accumulator is modelled by the *free* accumulator: the list of processed elements
  (`WindowAccumulator::process` appends, `output` returns the list). Any concrete accumulator
  `(init, process, output)` is `output (foldl process init items)`; see `Props/C12.lean`
  (`acc_applied_to_group`).
-/
import NoirVerif.Model.Elem
namespace Noir.CountWindow

variable {α : Type}

/-- `Slot<A>` (count.rs:22): `count`, accumulator (free: the items), `ts`. -/
structure Slot (α : Type) where
  count : Nat
  items : List α
  ts : Option Int
  deriving Repr, DecidableEq

def Slot.empty : Slot α := ⟨0, [], none⟩

/-- `update_slot` (count.rs:40) -/
def Slot.update (s : Slot α) (x : α) (t : Option Int) : Slot α :=
  ⟨s.count + 1, s.items ++ [x], optMax s.ts t⟩

/-- A window result: `WindowResult::new(acc.output(), ts)`. -/
structure Result (α : Type) where
  items : List α
  ts : Option Int
  deriving Repr, DecidableEq

/-- Manager configuration (`size`, `slide`, `exact`). -/
structure Cfg where
  size : Nat
  slide : Nat
  exact : Bool
  deriving Repr

/-- `while self.ws.len() < (size + slide - 1) / slide { push_back(Slot::new) }` -/
def pad (c : Cfg) (ws : List (Slot α)) : List (Slot α) :=
  ws ++ List.replicate ((c.size + c.slide - 1) / c.slide - ws.length) Slot.empty

/-- `for i in 0..k { update_slot(i, item, ts) }` -/
def updFirst : Nat → α → Option Int → List (Slot α) → List (Slot α)
  | 0, _, _, ws => ws
  | _ + 1, _, _, [] => []        -- the Rust code would panic (`self.ws[idx]` out of bounds, count.rs:42); unreachable in reachable states for 1 ≤ S ≤ N: `countWindow_no_index_panic` (Props/C12.lean)
  | k + 1, x, t, s :: ws => s.update x t :: updFirst k x t ws

/-- data element branch of `process` (count.rs:66-80). -/
def processItem (c : Cfg) (ws : List (Slot α)) (x : α) (t : Option Int) :
    List (Slot α) × Option (Result α) :=
  let ws1 := pad c ws
  match ws1 with
  | [] => ([], none)             -- `ws.front().unwrap()` (count.rs:69) would panic; unreachable for 1 ≤ S ≤ N (`countWindow_no_index_panic`)
  | s0 :: _ =>
    let k := s0.count / c.slide + 1
    match updFirst k x t ws1 with
    | [] => ([], none)           -- `self.ws[0]` (count.rs:73) would panic; unreachable (`updFirst` keeps the length, `countWindow_no_index_panic`)
    | r :: rest => if r.count = c.size then (rest, some ⟨r.items, r.ts⟩) else (r :: rest, none)

/-- `FlushAndRestart | Terminate` branch (count.rs:81-91). -/
def processEnd (c : Cfg) (ws : List (Slot α)) : List (Slot α) × Option (Result α) :=
  let ret :=
    if c.exact then none
    else match ws with
      | [] => none
      | r :: _ => if r.count > 0 then some ⟨r.items, r.ts⟩ else none
  ([], ret)

/-- `WindowManager::process` -/
def process (c : Cfg) (ws : List (Slot α)) : Elem α → List (Slot α) × Option (Result α)
  | .item x => processItem c ws x none
  | .ts x t => processItem c ws x (some t)
  | .far => processEnd c ws
  | .term => processEnd c ws
  | _ => (ws, none)

/-- Run the manager over a list of elements, collecting the outputs together with the index
    of the element whose processing produced them. -/
def runFrom (c : Cfg) : List (Slot α) → Nat → List (Elem α) → List (Nat × Result α)
  | _, _, [] => []
  | ws, i, e :: es =>
    let (ws', out) := process c ws e
    match out with
    | some r => (i, r) :: runFrom c ws' (i + 1) es
    | none => runFrom c ws' (i + 1) es

def run (c : Cfg) (es : List (Elem α)) : List (Nat × Result α) := runFrom c [] 0 es

/-- final state after a run -/
def stateAfter (c : Cfg) : List (Slot α) → List (Elem α) → List (Slot α)
  | ws, [] => ws
  | ws, e :: es => stateAfter c (process c ws e).1 es

/-! ### Specification -/

/-- The sliding groups `[jS, jS+N)` of a sequence, in order, each paired with the index
    (offset `off` + position) of its last element, i.e. of the element that completes it. -/
def groupsIdx (N S : Nat) (off : Nat) (xs : List α) : List (Nat × List α) :=
  if h : xs.length < N ∨ S = 0 ∨ N = 0 then []
  else (off + N - 1, xs.take N) :: groupsIdx N S (off + S) (xs.drop S)
termination_by xs.length
decreasing_by simp only [List.length_drop]; omega

/-- What is left open after all complete groups were emitted: the oldest incomplete group. -/
def residual (N S : Nat) (xs : List α) : List α :=
  if h : xs.length < N ∨ S = 0 ∨ N = 0 then xs else residual N S (xs.drop S)
termination_by xs.length
decreasing_by simp only [List.length_drop]; omega

/-- the sliding groups `[jS, jS+N)` of a sequence, in order. -/
def groups (N S : Nat) (xs : List α) : List (List α) := (groupsIdx N S 0 xs).map (·.2)

end Noir.CountWindow
