/-
  Model/NetSimCrash.lean — C20 at the message level: the network simulator `Noir.NetSim`
  (Model/NetSim.lean: an acyclic job of unary blocks, every replica a process, bounded channels,
  the real `Start` model as receive step, `End`'s blocking sends) extended with FAIL-STOP.

  State = the `NetSim` state + one flag `crashed b r` per replica. Events:

  * `run b r`   — a scheduler slot for replica `(b, r)`. A crashed replica does nothing. Otherwise,
                  in this order:
      - the next pending send of its `End` goes to a CRASHED consumer → **failSend**: the replica
        crashes (`self.remote_sender.send(message).unwrap()` in src/block/batcher.rs:90/107/117:
        flume's `send` returns `Err` as soon as the receiver has been dropped — also when the
        sender was blocked on a full channel — and the `unwrap` panics);
      - otherwise the pending send is the blocking send of `NetSim.step`;
      - nothing pending, `Terminate` not yet pulled, a source: emits its next element (`NetSim`);
      - a non-source with a non-empty queue: receives one message (`NetSim.step`, i.e.
        `Noir.Start.step`);
      - a non-source whose queue is EMPTY and ALL of whose producers are gone (crashed, or finished
        = their sender handles were dropped when the worker returned) → **failRecv**: the replica
        crashes. `SimpleStartReceiver::recv` is `receiver.recv().expect("Network receiver failed")`
        (src/operator/start/simple.rs:62-65) and flume's `recv` returns `Err` exactly when the
        queue is empty and every sender has been dropped. The timed receive of `Start::next`
        (src/operator/start/mod.rs:320-331) maps EVERY error of `recv_timeout` — `Timeout` and
        `Disconnected` alike — to the fake `FlushBatch` (which `End` sends to nobody) and sets
        `already_timed_out`, so the very next receive is the blocking one (mod.rs:336-338), which
        panics: both paths are the one `failRecv` step here.
        (`Lemmas/NetSimCrash.lean` proves that in a reachable state this step only fires when one
        of the producers has CRASHED: producers that all finished cleanly have delivered all
        their `Terminate`s — `failRecv_has_crashed_producer`.)
      - otherwise the replica is blocked (nothing happens).
  * `crash b r` — a panic (user function, operator, …) in replica `(b, r)`, possible at any time
                  while the replica is running (not crashed, not finished).

  A crash (`kill`) stops the replica for good (it never takes a step again), DROPS its incoming
  channel (the queue is emptied: nobody will ever read it; senders into it fail) and closes its
  outgoing channels *for that producer*: a channel is multi-producer, so it is disconnected for its
  consumer only when ALL producers are gone — `disconnected`; the crashed flag of the producer is
  the "closed-by-that-producer" mark. Dropping a sender does NOT synthesise a `Terminate`.

  `eos` is a MUTATION switch (the theorems are about `eos = false`, the code as it is):
  with `eos = true` a receiver that finds its channel disconnected treats that as end-of-stream
  and yields `Terminate` instead of failing — the realistic regression "`Disconnected` ⇒
  `Terminate`" in `Start`'s timed receive. `Props/C20Sim.lean` shows by `decide` that a sink then
  publishes a partial result.

  Simplifications: those of Model/NetSim.lean (unary blocks, batch mode `Single`, identity chain,
  no loops). flume's disconnect semantics are trusted.
  Import-free apart from the other models; executable.
-/
import NoirVerif.Model.NetSim
import NoirVerif.Model.Crash
namespace Noir.NetSimCrash
open Noir Noir.NetSim

structure State where
  /-- processes and channels, as in `NetSim` -/
  net : NetSim.State
  /-- the replica has panicked: its worker thread unwound, all its channel handles were dropped -/
  crashed : Nat → Nat → Bool

inductive Ev where
  /-- a scheduler slot for replica `(b, r)` -/
  | run (b r : Nat)
  /-- a panic in replica `(b, r)` -/
  | crash (b r : Nat)
  deriving Repr, DecidableEq

def init (j : Job) : State := { net := NetSim.init j, crashed := fun _ _ => false }

/-- the worker has returned normally: it pulled `Terminate` and `End` has forwarded it to
    everybody (`do_work` returned; all its handles were dropped) -/
def finished (j : Job) (s : State) (b r : Nat) : Bool :=
  (s.net.proc b r).pending.isEmpty && done j b (s.net.proc b r)

/-- still alive: may take steps, may panic -/
def running (j : Job) (s : State) (b r : Nat) : Bool := !s.crashed b r && !finished j s b r

/-- the replica holds no channel handle any more -/
def gone (j : Job) (s : State) (b r : Nat) : Bool := s.crashed b r || finished j s b r

/-- every producer (replica of the upstream block `pb`) of a channel is gone: flume reports
    `Disconnected` once the queue is empty -/
def disconnected (j : Job) (s : State) (pb : Nat) : Bool :=
  (List.range (j.replicas pb)).all fun q => gone j s pb q

/-- some replica of block `pb` has crashed -/
def anyCrashed (j : Job) (s : State) (pb : Nat) : Bool :=
  (List.range (j.replicas pb)).any fun q => s.crashed pb q

/-- replica `(b, r)` unwinds: flag set, incoming queue dropped. Its process state is frozen (a
    crashed replica never takes a step), in particular its pending sends are never done. -/
def kill (s : State) (b r : Nat) : State :=
  { net := { s.net with chan := set2 s.net.chan b r [] }
    crashed := set2 s.crashed b r true }

/-- MUTANT only: `Start` treats a disconnected channel as end-of-stream and yields `Terminate` -/
def eosProc (j : Job) (b r : Nat) (p : Proc) : Proc :=
  emit j b r { p with start := { p.start with missingTerm := 0 } } [.term]

def step (eos : Bool) (j : Job) (s : State) : Ev → State
  | .crash b r => if decide (j.valid b r) && running j s b r then kill s b r else s
  | .run b r =>
    if decide (j.valid b r) && !s.crashed b r then
      let p := s.net.proc b r
      match p.pending with
      | sd :: _ =>
        if s.crashed sd.blk sd.rep then kill s b r                      -- failSend
        else { s with net := NetSim.step j s.net b r }                   -- blocking send
      | [] =>
        if done j b p then s else
        match j.prev b with
        | none => { s with net := NetSim.step j s.net b r }              -- source emits
        | some pb =>
          match s.net.chan b r with
          | _ :: _ => { s with net := NetSim.step j s.net b r }          -- receive (`Start.step`)
          | [] =>
            if disconnected j s pb then
              if eos then                                                -- MUTANT: Disconnected ⇒ Terminate
                { s with net := { s.net with proc := set2 s.net.proc b r (eosProc j b r p) } }
              else kill s b r                                            -- failRecv
            else s                                                       -- blocked on an empty queue
    else s

/-- a slot given to `(b, r)` is a real step (of the unmutated model) -/
def enabled (j : Job) (s : State) (b r : Nat) : Bool :=
  decide (j.valid b r) && !s.crashed b r &&
    (match (s.net.proc b r).pending with
     | sd :: _ => s.crashed sd.blk sd.rep || decide ((s.net.chan sd.blk sd.rep).length < j.cap)
     | [] =>
       !done j b (s.net.proc b r) &&
         (match j.prev b with
          | none => true
          | some pb => !(s.net.chan b r).isEmpty || disconnected j s pb))

/-- no scheduler slot changes the state: every replica is finished, crashed or blocked forever
    (spontaneous `crash` events are the environment's, not the scheduler's) -/
def Terminal (j : Job) (s : State) : Prop := ∀ b r, enabled j s b r = false

def terminalB (j : Job) (s : State) : Bool :=
  (List.range j.nblocks).all fun b => (List.range (j.replicas b)).all fun r => !enabled j s b r

def run (eos : Bool) (j : Job) (s : State) (evs : List Ev) : State := evs.foldl (step eos j) s

/-- the states the (unmutated, `eos = false`) model can reach -/
inductive Reachable (j : Job) : State → Prop where
  | init : Reachable j (init j)
  | step {s : State} (ev : Ev) : Reachable j s → Reachable j (step false j s ev)

/-! ## transitive upstream replicas -/

/-- `(a, u)` is a replica transitively upstream of replica `(c, i)`. Every replica of the upstream
    block is a producer of every replica of `c` (they share its channel; the routing is arbitrary). -/
inductive UpRep (j : Job) : Nat → Nat → Nat → Nat → Prop where
  | direct {pb q c i : Nat} : j.prev c = some pb → q < j.replicas pb → UpRep j pb q c i
  | trans {a u pb q c i : Nat} : UpRep j a u pb q → j.prev c = some pb → q < j.replicas pb →
      UpRep j a u c i

/-! ## projection to the abstract fail-stop model `Noir.Crash` -/

/-- the abstract network: process `pid j b r = b * maxRep j + r`; the direct upstream replicas of a
    replica are all the replicas of its upstream block -/
def absNet (j : Job) : Crash.Net where
  n := j.nblocks * maxRep j
  up := fun p =>
    if j.valid (p / maxRep j) (p % maxRep j) then
      match j.prev (p / maxRep j) with
      | some pb => (List.range (j.replicas pb)).map (pid j pb)
      | none => []
    else []
  rank := fun p => p / maxRep j

/-- `done`: the replica's chain has yielded `Terminate` (whatever happens to it afterwards);
    `crashed`: it crashed before that; `running` otherwise. Padding ids (`r ≥ replicas b`) and ids
    beyond the job are `running` for ever (they are nobody's upstream). -/
def absSt (j : Job) (s : State) (b r : Nat) : Crash.St :=
  if j.valid b r then
    if done j b (s.net.proc b r) then .done
    else if s.crashed b r then .crashed
    else .running
  else .running

def proj (j : Job) (s : State) : Crash.State := fun p => absSt j s (p / maxRep j) (p % maxRep j)

end Noir.NetSimCrash
