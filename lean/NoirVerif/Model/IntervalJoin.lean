/-
  Model/IntervalJoin.lean — `IntervalJoin` (src/operator/interval_join.rs:13-190).
  `left : VecDeque<(ts, (key, l))>` is a list (front = head); `right : HashMap<Key, VecDeque<(ts, r)>>` is the
  flat list of `(key, ts, r)` in arrival order (the per-key deque is the sub-list with that key; the map is
  only ever accessed with `get_mut(key)`/`entry(key)`/`clear()`, never iterated, so the output order is
  fully determined). `Timestamp = i64` is `Int`; `saturating_sub/saturating_add` are written out as the
  true integer result clamped to the i64 range.

  History (old behaviour, kept in comments only):
  * before /repo a398b65 the bounds were `checked_sub(..).unwrap_or(MIN)` / `checked_add(..).unwrap_or(MAX)`,
    i.e. an UPWARD overflow of `ts - lower_bound` (negative bound) gave `MIN`, a DOWNWARD overflow of
    `ts + upper_bound` gave `MAX` (non-monotone, spurious pairs);
  * before /repo 928fdec `last_seen` started at / was reset to `0` (`Default::default()`), so a negative first
    timestamp tripped `assert!(ts >= self.last_seen)`.
-/
import NoirVerif.Model.Elem
namespace Noir.IntervalJoin

/-- `Timestamp::MIN` (i64) -/
def TS_MIN : Int := -9223372036854775808

/-- an integer result saturated to the i64 range, in the direction of the overflow -/
def clamp (x : Int) : Int :=
  if x < TS_MIN then TS_MIN else if TS_MAX < x then TS_MAX else x

/-- `left_ts.saturating_sub(lower_bound)` (interval_join.rs:88) -/
def lowerOf (ts lb : Int) : Int := clamp (ts - lb)

/-- `left_ts.saturating_add(upper_bound)` (interval_join.rs:89) -/
def upperOf (ts ub : Int) : Int := clamp (ts + ub)

variable {κ α β : Type} [DecidableEq κ]

structure State (κ α β : Type) where
  left : List (Int × κ × α)
  right : List (κ × Int × β)
  lastSeen : Int
  receivedRestart : Bool
  deriving Repr

/-- `IntervalJoin::new` (interval_join.rs:70-81): `last_seen: Timestamp::MIN` -/
def State.init : State κ α β := ⟨[], [], TS_MIN, false⟩

/-- `while let Some((right_ts, _)) = right.front() { if *right_ts < lower { pop_front } else { break } }`
    on the deque of `key` inside the flat list -/
def popOld (key : κ) (lower : Int) : List (κ × Int × β) → List (κ × Int × β)
  | [] => []
  | r :: rs =>
    if r.1 = key then (if r.2.1 < lower then popOld key lower rs else r :: rs)
    else r :: popOld key lower rs

/-- `advance` (interval_join.rs:84-135): returns remaining left, right and the generated tuples -/
def advance (lb ub : Int) (lastSeen : Int) (restart : Bool) :
    List (Int × κ × α) → List (κ × Int × β) → List (Int × κ × α) × List (κ × Int × β) × List (Int × κ × α × β)
  | [], right => ([], right, [])
  | (lts, lkey, lv) :: ls, right =>
    let lower := lowerOf lts lb
    let upper := upperOf lts ub
    if upper ≥ lastSeen ∧ !restart then ((lts, lkey, lv) :: ls, right, [])
    else
      let right' := popOld lkey lower right
      let deque := right'.filter fun r => decide (r.1 = lkey)
      let ms := (deque.takeWhile fun r => decide (r.2.1 ≤ upper)).map fun r => (max r.2.1 lts, lkey, lv, r.2.2)
      let (l', r', out) := advance lb ub lastSeen restart ls right'
      (l', r', ms ++ out)

/-- would `next` panic on this element? (`assert!(ts >= self.last_seen)`, `Item` rejected) -/
def panics (s : State κ α β) : Elem (κ × (α ⊕ β)) → Bool
  | .item _ => true
  | .ts _ t => decide (t < s.lastSeen)
  | .wm t => decide (t < s.lastSeen)
  | _ => false

/-- one element pulled from `prev` → everything returned before the next pull -/
def step (lb ub : Int) (s : State κ α β) (e : Elem (κ × (α ⊕ β))) : State κ α β × List (Elem (κ × α × β)) :=
  let fin (s : State κ α β) : State κ α β × List (Elem (κ × α × β)) :=
    let (l, r, out) := advance lb ub s.lastSeen s.receivedRestart s.left s.right
    let r := if l.isEmpty && s.receivedRestart then [] else r
    let outs := out.map fun o => Elem.ts o.2 o.1
    if s.receivedRestart then
      -- buffer drained, then `received_restart` ⇒ reset (`last_seen = Timestamp::MIN`) and `FlushAndRestart`
      -- (interval_join.rs:153-161)
      (⟨l, r, TS_MIN, false⟩, outs ++ [.far])
    else (⟨l, r, s.lastSeen, false⟩, outs)
  match e with
  | .ts (key, .inl v) t => fin { s with lastSeen := t, left := s.left ++ [(t, key, v)] }
  | .ts (key, .inr v) t => fin { s with lastSeen := t, right := s.right ++ [(key, t, v)] }
  | .wm t => fin { s with lastSeen := t }
  | .far => fin { s with receivedRestart := true }
  | .flushBatch => (s, [.flushBatch])
  | .term => (s, [.term])
  | .item _ => (s, [])

/-- specification: same-key pairs with `l.ts - lower ≤ r.ts ≤ l.ts + upper` (the two bounds saturated to
    i64), stamped `max` -/
def spec (lb ub : Int) (L : List (Int × κ × α)) (R : List (κ × Int × β)) : List (Int × κ × α × β) :=
  L.flatMap fun l =>
    (R.filter fun r => decide (r.1 = l.2.1) && decide (lowerOf l.1 lb ≤ r.2.1) && decide (r.2.1 ≤ upperOf l.1 ub)).map
      fun r => (max r.2.1 l.1, l.2.1, l.2.2, r.2.2)

end Noir.IntervalJoin
