/-
  Model/WindowOp.lean — the keyed dispatch loop of `WindowOperator::next`
  (src/operator/window/mod.rs:173-221), generic in the window manager.

  A window manager (`trait WindowManager`, mod.rs:61-78) is given by its initial state (`init`, the
  manager built by `WindowDescription::build`, cloned for every new key), its `process` function
  (`step`), `recycle`, and — because the models are total — a predicate `panics` telling whether the
  Rust `process` would panic on that element in that state.

  `KeyedWindowManager::windows` is a `HashMap<Key, W>`; it is modelled by an association list in
  insertion order. The iteration order of the hash map is unspecified: everything that depends on
  it (the order of the results produced by *one* control element) is canonicalised by the driver
  and quantified away in the theorems (membership / multiset statements).

  `output_buffer` is not modelled as state: `next` drains it completely before pulling the next
  input element, so the output of the operator is the concatenation of the per-input outputs.
-/
import NoirVerif.Model.Elem
namespace Noir.WindowOp

/-- `WindowResult<T>` (mod.rs:81): `Item(T)` (`ts = none`) or `Timestamped(T, ts)`. -/
structure WResult (β : Type) where
  val : β
  ts : Option Int
  deriving Repr, DecidableEq

/-- `StreamElement::from(WindowResult).add_key(key)` (mod.rs:112-120, 194) -/
def WResult.toElem {κ β : Type} (k : κ) (r : WResult β) : Elem (κ × β) :=
  match r.ts with
  | some t => .ts (k, r.val) t
  | none => .item (k, r.val)

/-- a window manager -/
structure Mgr (σ α β : Type) where
  init : σ
  step : σ → Elem α → σ × List (WResult β)
  recycle : σ → Bool
  /-- `some class` iff the Rust `process` panics on this element in this state -/
  panics : σ → Elem α → Option String

variable {κ σ α β : Type}

/-- operator state: the per-key managers (+ the panic class once some `process` panicked) -/
structure State (κ σ : Type) where
  windows : List (κ × σ)
  panic : Option String

def State.init : State κ σ := ⟨[], none⟩

/-- `windows.entry(key).or_insert_with(|| init.clone())` followed by `mgr.process(el)`
    (mod.rs:185-191). Returns the new map, the results and the panic class. -/
def upsert [DecidableEq κ] (m : Mgr σ α β) (k : κ) (e : Elem α) :
    List (κ × σ) → List (κ × σ) × List (WResult β) × Option String
  | [] =>
    let r := m.step m.init e
    ([(k, r.1)], r.2, m.panics m.init e)
  | (k', s) :: rest =>
    if k' = k then
      let r := m.step s e
      ((k', r.1) :: rest, r.2, m.panics s e)
    else
      let r := upsert m k e rest
      ((k', s) :: r.1, r.2.1, r.2.2)

/-- `windows.retain(|key, mgr| { let ret = mgr.process(el.clone()); buffer.extend(ret…); !mgr.recycle() })`
    (mod.rs:201-208) -/
def broadcast (m : Mgr σ α β) (e : Elem α) :
    List (κ × σ) → List (κ × σ) × List (Elem (κ × β)) × Option String
  | [] => ([], [], none)
  | (k, s) :: rest =>
    let r := m.step s e
    let rr := broadcast m e rest
    (if m.recycle r.1 then rr.1 else (k, r.1) :: rr.1,
     r.2.map (WResult.toElem k) ++ rr.2.1,
     (m.panics s e).or rr.2.2)

/-- one input element pulled from `prev` → new state and the elements returned by the following
    calls of `next` until the next pull -/
def step [DecidableEq κ] (m : Mgr σ α β) (st : State κ σ) : Elem (κ × α) → State κ σ × List (Elem (κ × β))
  -- mod.rs:181-196
  | .item (k, x) =>
    let r := upsert m k (.item x) st.windows
    (⟨r.1, st.panic.or r.2.2⟩, r.2.1.map (WResult.toElem k))
  | .ts (k, x) t =>
    let r := upsert m k (.ts x t) st.windows
    (⟨r.1, st.panic.or r.2.2⟩, r.2.1.map (WResult.toElem k))
  -- mod.rs:197
  | .flushBatch => (st, [.flushBatch])
  -- mod.rs:198-218: every manager sees the control element, results first, then the element itself
  | .wm w =>
    let r := broadcast m (.wm w) st.windows
    (⟨r.1, st.panic.or r.2.2⟩, r.2.1 ++ [.wm w])
  | .term =>
    let r := broadcast m .term st.windows
    (⟨r.1, st.panic.or r.2.2⟩, r.2.1 ++ [.term])
  | .far =>
    let r := broadcast m .far st.windows
    (⟨r.1, st.panic.or r.2.2⟩, r.2.1 ++ [.far])

/-- outputs per input element (the unit inside which the hash-map order shows) -/
def runUnits [DecidableEq κ] (m : Mgr σ α β) : State κ σ → List (Elem (κ × α)) → List (List (Elem (κ × β)))
  | _, [] => []
  | st, e :: es => (step m st e).2 :: runUnits m (step m st e).1 es

def stateAfter [DecidableEq κ] (m : Mgr σ α β) : State κ σ → List (Elem (κ × α)) → State κ σ
  | st, [] => st
  | st, e :: es => stateAfter m (step m st e).1 es

/-- the output stream of the operator -/
def run [DecidableEq κ] (m : Mgr σ α β) (es : List (Elem (κ × α))) : List (Elem (κ × β)) :=
  (runUnits m State.init es).flatten

end Noir.WindowOp
