/-
  Model/Net.lean — abstract network of replica processes connected by bounded FIFO channels
  (C04 layer 1, C20). A *configuration* records, for every process, whether it is finished,
  blocked sending on a full channel, blocked receiving on a set of (empty) channels, or
  runnable; and for every channel its length, capacity, consumer and producers.
  Channels are multi-producer / single-consumer like the real endpoint channels
  (`ReceiverEndpoint` = (consumer replica, previous block)).
-/
namespace Noir.Net

inductive Status where
  | finished
  | runnable
  | sendBlocked (c : Nat)
  | recvBlocked (w : List Nat)
  deriving Repr, DecidableEq

structure Config where
  nproc : Nat
  status : Nat → Status
  len : Nat → Nat
  cap : Nat → Nat
  consumer : Nat → Nat
  producers : Nat → List Nat
  rank : Nat → Nat

def Config.finished (c : Config) (p : Nat) : Prop := c.status p = .finished

/-- nobody can move -/
def noneRunnable (c : Config) : Prop := ∀ p, p < c.nproc → c.status p ≠ .runnable

def allFinished (c : Config) : Prop := ∀ p, p < c.nproc → c.status p = .finished

/-- The assumptions under which a stuck configuration is impossible (see Props/C04.lean). -/
structure WellFormed (c : Config) : Prop where
  /-- A1: a process blocked on a send waits on a full channel of positive capacity whose
      consumer is a process of the network -/
  a1 : ∀ p ch, p < c.nproc → c.status p = .sendBlocked ch →
        c.len ch = c.cap ch ∧ 0 < c.cap ch ∧ c.consumer ch < c.nproc ∧ p ∈ c.producers ch
  /-- A2: a process blocked on a receive waits only on empty channels it consumes, whose
      producers are processes of the network -/
  a2 : ∀ p w ch, p < c.nproc → c.status p = .recvBlocked w → ch ∈ w →
        c.len ch = 0 ∧ c.consumer ch = p ∧ ∀ q ∈ c.producers ch, q < c.nproc
  /-- A3: the channels of a finished consumer are empty (a send to it fails instead of blocking) -/
  a3 : ∀ ch, c.consumer ch < c.nproc → c.status (c.consumer ch) = .finished → c.len ch = 0
  /-- A4: a receiver never refuses a channel on which one of its producers is send-blocked -/
  a4 : ∀ p ch w, p < c.nproc → c.status p = .sendBlocked ch →
        c.status (c.consumer ch) = .recvBlocked w → ch ∈ w
  /-- A5: nobody waits for input that can never come: a process is not receive-blocked on `w`
      when every producer of every channel of `w` has finished -/
  a5 : ∀ p w, p < c.nproc → c.status p = .recvBlocked w →
        ¬ (∀ ch ∈ w, ∀ q ∈ c.producers ch, c.status q = .finished)
  /-- A6: the graph is acyclic: producers have a smaller rank than the consumer -/
  a6 : ∀ ch, ∀ q ∈ c.producers ch, c.rank q < c.rank (c.consumer ch)

/-- an upper bound of all ranks -/
def rankBound (c : Config) : Nat := (List.range c.nproc).foldl (fun m p => max m (c.rank p)) 0

end Noir.Net
