/-
  Model/Latency.lean — a linear pipeline of blocks in LOGICAL time (C18).

      ChannelSource ─ f₀ ─ End₀ ══chan₀══ Start₁ ─ f₁ ─ End₁ ══chan₁══ … Start_d ─ f_d ─ End_d ══chan_d══ sink

  Stage `i` is block `i`: its stateless order-preserving operator chain `f i` (`flat_map`-shaped: one
  input element yields a list of outputs, in order), the buffer of its `End`'s `Batcher`
  (src/block/batcher.rs — the REAL model `Noir.Batcher.enqueue/flush` is reused, with the block's
  `BatchMode`), and the FIFO channel of batches it has sent and the next block has not yet received.
  Time enters only as events:

  * `src x els`   — the `ChannelSource` returns `Item x` (channel.rs:84/:100); block 0 pushes it through
                    `f 0` into its batcher. `els` = the outcomes of `last_send.elapsed() > max_delay`
                    (batcher.rs:77) at the enqueues it causes (missing flags = `false`): this is how the
                    batcher's own timer (`elapsed`) enters — ANY clock behaviour is some choice of flags;
  * `srcIdle`     — the `ChannelSource` found its channel empty `MAX_RETRY + 1` times: it returns
                    `FlushBatch` (channel.rs:94; every stateless operator forwards it, `End` flushes
                    every batcher, end.rs:223) and then blocks in `recv()` (channel.rs:99);
  * `recv i els`  — block `i+1` (`Start::next`, start/mod.rs:284-309) takes the oldest batch of channel `i`
                    and pushes its elements through `f (i+1)` into its batcher; the sink block just
                    delivers. Receiving a batch re-arms the receive timeout (`already_timed_out = false`);
  * `timeout i`   — (`i ≥ 1`) `recv_timeout(max_delay)` of block `i` expired (start/mod.rs:289-299):
                    enabled only if the block's mode is `Adaptive` (`max_delay = Some`), its input
                    channel is empty and it has not already timed out since the last batch; it yields a
                    fake `FlushBatch` batch → `End` flushes; the next receive is the untimed `recv()`.

  Ghost: `emitted` = the items the source has returned so far, in order.
-/
import NoirVerif.Model.Batcher
namespace Noir.Latency

variable {α : Type}

/-- one block of the pipeline -/
structure Stage (α : Type) where
  /-- `BatchMode` of the block (inherited along the stream, `split_block` stream.rs:149) -/
  mode : Batcher.Mode
  /-- the block's operator chain between `Start` (or the source) and `End` -/
  f : α → List α
  /-- `Batcher::buffer` of the block's `End` -/
  buf : List α
  /-- batches sent and not yet received by the next block, oldest first -/
  chan : List (List α)
  /-- block 0: the `ChannelSource` sits in its blocking `recv()`;
      block ≥ 1: `Start` timed out and nothing arrived since (untimed blocking `recv()`) -/
  idle : Bool

def Stage.new (mode : Batcher.Mode) (f : α → List α) : Stage α := ⟨mode, f, [], [], false⟩

/-- `Batcher::enqueue` of one element; batches sent go to the channel -/
def Stage.push (t : Stage α) (x : α) (el : Bool) : Stage α :=
  let r := Batcher.enqueue t.mode t.buf x el
  { t with buf := r.1, chan := t.chan ++ r.2 }

def Stage.pushAll (t : Stage α) : List α → List Bool → Stage α
  | [], _ => t
  | x :: xs, els => (t.push x (els.headD false)).pushAll xs els.tail

/-- the block processes input elements `xs` (a received batch / a source item) -/
def Stage.feed (t : Stage α) (xs : List α) (els : List Bool) : Stage α :=
  { (t.pushAll (xs.flatMap t.f) els) with idle := false }

/-- a `FlushBatch` travels down the chain: `End` flushes (`Batcher::flush`), then the block waits
    without timeout -/
def Stage.flushIdle (t : Stage α) : Stage α :=
  let r := Batcher.flush t.buf
  { t with buf := r.1, chan := t.chan ++ r.2, idle := true }

def isAdaptive : Batcher.Mode → Bool
  | .adaptive _ => true
  | _ => false

inductive Ev (α : Type) where
  | src (x : α) (els : List Bool)
  | srcIdle
  | recv (i : Nat) (els : List Bool)
  | timeout (i : Nat)
  deriving Repr

structure State (α : Type) where
  stages : List (Stage α)
  sink : List α
  emitted : List α

/-- `recv i`: the consumer of channel `i` (block `i+1`, or the sink after the last block) takes the
    oldest batch. No-op when the channel is empty (the receiver keeps waiting). -/
def recvL : Nat → List Bool → List (Stage α) → List α → List (Stage α) × List α
  | _, _, [], sink => ([], sink)
  | 0, els, s :: rest, sink =>
    match s.chan with
    | [] => (s :: rest, sink)
    | b :: bs =>
      match rest with
      | [] => ([{ s with chan := bs }], sink ++ b)
      | t :: rest' => ({ s with chan := bs } :: t.feed b els :: rest', sink)
  | i + 1, els, s :: rest, sink =>
    let r := recvL i els rest sink
    (s :: r.1, r.2)

/-- enabledness of the receive timeout of the second stage of `s :: t :: _` -/
def timeoutEnabled (s t : Stage α) : Bool := s.chan.isEmpty && !t.idle && isAdaptive t.mode

/-- `timeout i` (block `i ≥ 1`); no-op when not enabled -/
def timeoutL : Nat → List (Stage α) → List (Stage α)
  | 0, l => l                                  -- block 0 has no `Start`
  | _, [] => []
  | _, [s] => [s]
  | 1, s :: t :: rest => if timeoutEnabled s t then s :: t.flushIdle :: rest else s :: t :: rest
  | i + 2, s :: rest => s :: timeoutL (i + 1) rest

def step (s : State α) : Ev α → State α
  | .src x els =>
    match s.stages with
    | [] => s
    | s0 :: rest => { s with stages := s0.feed [x] els :: rest, emitted := s.emitted ++ [x] }
  | .srcIdle =>
    match s.stages with
    | [] => s
    | s0 :: rest => { s with stages := s0.flushIdle :: rest }
  | .recv i els =>
    let r := recvL i els s.stages s.sink
    { s with stages := r.1, sink := r.2 }
  | .timeout i => { s with stages := timeoutL i s.stages }

def run (s : State α) : List (Ev α) → State α
  | [] => s
  | e :: es => run (step s e) es

/-- a fresh pipeline: one `(mode, chain)` per block -/
def State.init (cfg : List (Batcher.Mode × (α → List α))) : State α :=
  ⟨cfg.map (fun c => Stage.new c.1 c.2), [], []⟩

/-! ### Specification side -/

/-- what the remaining chains `fs` make of a sequence of elements -/
def downF : List (α → List α) → List α → List α
  | [], xs => xs
  | f :: fs, xs => downF fs (xs.flatMap f)

def fsOf (l : List (Stage α)) : List (α → List α) := l.map (·.f)

/-- everything in flight, as the sink will see it, oldest first: the contents of later stages come
    first; inside a stage the channel (oldest batch first) precedes the batcher buffer -/
def pending : List (Stage α) → List α
  | [] => []
  | s :: rest => pending rest ++ downF (fsOf rest) (s.chan.flatten ++ s.buf)

/-- nothing buffered, nothing queued anywhere -/
def Quiescent (l : List (Stage α)) : Prop := ∀ s ∈ l, s.buf = [] ∧ s.chan = []

def quiescentB (l : List (Stage α)) : Bool := l.all (fun s => s.buf.isEmpty && s.chan.isEmpty)

/-! ### The quiescing schedule ("no further input arrives") -/

def Ev.shift : Ev α → Ev α
  | .recv i els => .recv (i + 1) els
  | .timeout i => .timeout (i + 1)
  | e => e

/-- all batches of `bs` received by `t`, one `recv` each (no timer flags: nothing elapses) -/
def Stage.feedAll (t : Stage α) : List (List α) → Stage α
  | [] => t
  | b :: bs => (t.feed b []).feedAll bs

/-- the second stage after its single timeout (if enabled; otherwise it is unchanged) -/
def Stage.afterTimeout (s t : Stage α) : Stage α := if timeoutEnabled s t then t.flushIdle else t

/-- Starting at a stage list whose head has just been flushed: deliver everything queued on the
    head's channel, then ONE timeout of the next block, and so on; finally deliver to the sink.
    (Indices are relative to the head; `Ev.shift` re-bases the tail's schedule.) -/
def settleEvs : Nat → List (Stage α) → List (Ev α)
  | 0, _ => []
  | _, [] => []
  | _ + 1, [s] => List.replicate s.chan.length (.recv 0 [])
  | fuel + 1, s :: t :: rest =>
    List.replicate s.chan.length (.recv 0 []) ++ [.timeout 1] ++
      (settleEvs fuel (Stage.afterTimeout { s with chan := [] } (t.feedAll s.chan) :: rest)).map Ev.shift

/-- the whole schedule from state `s`: source-idle flush, then `settleEvs` -/
def quiesceSched (s : State α) : List (Ev α) :=
  match s.stages with
  | [] => []
  | s0 :: rest => .srcIdle :: settleEvs (rest.length + 1) (s0.flushIdle :: rest)

def Ev.isTimeout : Ev α → Bool
  | .timeout _ => true
  | _ => false

def Ev.isSrc : Ev α → Bool
  | .src _ _ => true
  | _ => false

def timeoutIdx : Ev α → Option Nat
  | .timeout i => some i
  | _ => none

/-! ### An `End` with two downstream replicas (finding F12)

  `End::next` (end.rs:210-217) enqueues an item into the batcher of ONE downstream replica
  (`senders[block.indexes[index % len]]`); the other batchers are not touched, in particular their
  `last_send.elapsed() > max_delay` test (batcher.rs:77) is not evaluated. -/

structure End2 (α : Type) where
  bufA : List α
  bufB : List α
  sentA : List (List α)
  sentB : List (List α)
  deriving Repr, DecidableEq

/-- one data element routed to replica A (`toA`) or B; `el` = the timer test of THAT batcher -/
def End2.enqueue (m : Batcher.Mode) (e : End2 α) (toA : Bool) (x : α) (el : Bool) : End2 α :=
  if toA then
    let r := Batcher.enqueue m e.bufA x el
    { e with bufA := r.1, sentA := e.sentA ++ r.2 }
  else
    let r := Batcher.enqueue m e.bufB x el
    { e with bufB := r.1, sentB := e.sentB ++ r.2 }

/-- a sequence of elements all routed to B, with arbitrary timer outcomes -/
def End2.feedB (m : Batcher.Mode) (e : End2 α) : List (α × Bool) → End2 α
  | [] => e
  | (y, el) :: ys => (e.enqueue m false y el).feedB m ys

/-! ### … with the block's receive timeout in (discrete) real time

  `TBlock` = the `End2` above behind a `Start` whose `recv_timeout(max_delay)` is modelled with a
  tick counter: `since` = ticks since the last batch was received (or since the timeout fired),
  `delta` = `max_delay` in ticks. A tick makes the timeout fire iff the block has not already timed
  out and `delta` ticks have passed without a batch (start/mod.rs:287-299); receiving a batch
  re-arms the full delay (a new `recv_timeout(max_delay)` call, start/mod.rs:284-287). -/

structure TBlock (α : Type) where
  e : End2 α
  since : Nat
  idle : Bool
  deriving Repr, DecidableEq

/-- `FlushBatch` reaches the `End`: every batcher is flushed (end.rs:223-226) -/
def End2.flushAll (e : End2 α) : End2 α :=
  let a := Batcher.flush e.bufA
  let b := Batcher.flush e.bufB
  { bufA := a.1, bufB := b.1, sentA := e.sentA ++ a.2, sentB := e.sentB ++ b.2 }

/-- one unit of time passes without a batch arriving -/
def TBlock.tick (delta : Nat) (b : TBlock α) : TBlock α :=
  if !b.idle && b.since + 1 ≥ delta then { e := b.e.flushAll, since := 0, idle := true }
  else { b with since := b.since + 1 }

def TBlock.ticks (delta : Nat) : Nat → TBlock α → TBlock α
  | 0, b => b
  | k + 1, b => TBlock.ticks delta k (b.tick delta)

/-- a batch with one element routed to B arrives and is processed -/
def TBlock.recvB (m : Batcher.Mode) (b : TBlock α) (y : α) (el : Bool) : TBlock α :=
  { e := b.e.enqueue m false y el, since := 0, idle := false }

/-- the trickle: before each element `gap` ticks pass -/
def TBlock.trickle (m : Batcher.Mode) (delta gap : Nat) (b : TBlock α) : List (α × Bool) → TBlock α
  | [] => b
  | (y, el) :: ys => TBlock.trickle m delta gap ((TBlock.ticks delta gap b).recvB m y el) ys

/-! ### `KBlock`: `Start` + `End` with `k` downstream replicas, time in milliseconds

  The executable generalisation of `TBlock` that the component harness `tblock` is diffed against:
  `age d` = `last_send.elapsed()` of the batcher towards replica `d`; the batcher's timer test at an
  enqueue is `age d > delta` (batcher.rs:77); a flush resets it (`last_send = now`, batcher.rs:108). -/

structure KBlock (α : Type) where
  bufs : List (List α)
  age : List Nat
  idle : Bool
  deriving Repr, DecidableEq

def KBlock.init (k : Nat) : KBlock α := ⟨List.replicate k [], List.replicate k 0, false⟩

def KBlock.pass (b : KBlock α) (ms : Nat) : KBlock α := { b with age := b.age.map (· + ms) }

/-- one element routed to destination `d`: state and the batches sent, tagged with `d` -/
def KBlock.enqueue (m : Batcher.Mode) (delta : Nat) (b : KBlock α) (d : Nat) (x : α) :
    KBlock α × List (Nat × List α) :=
  let r := Batcher.enqueue m (b.bufs.getD d []) x (decide (b.age.getD d 0 > delta))
  let flushed := !r.2.isEmpty && m != .single          -- `Single` does not touch `last_send`
  ({ b with bufs := b.bufs.set d r.1, age := if flushed then b.age.set d 0 else b.age },
   r.2.map (fun batch => (d, batch)))

/-- a received batch, already routed: `(destination, element)` in order; re-arms the timeout -/
def KBlock.recv (m : Batcher.Mode) (delta : Nat) (b : KBlock α) : List (Nat × α) → KBlock α × List (Nat × List α)
  | [] => ({ b with idle := false }, [])
  | (d, x) :: xs =>
    let r := b.enqueue m delta d x
    let r' := KBlock.recv m delta r.1 xs
    (r'.1, r.2 ++ r'.2)

/-- the timeout `FlushBatch`: `End` flushes every batcher (in sender order) -/
def KBlock.flushFrom (b : KBlock α) : Nat → List (List α) → List (List α) × List Nat × List (Nat × List α)
  | _, [] => ([], [], [])
  | d, buf :: rest =>
    let r := KBlock.flushFrom b (d + 1) rest
    let a := b.age.getD d 0
    if buf.isEmpty then (buf :: r.1, a :: r.2.1, r.2.2)
    else ([] :: r.1, 0 :: r.2.1, (d, buf) :: r.2.2)

/-- `recv_timeout(delta)` expires (only when not idle): `delta` ms pass, everything is flushed -/
def KBlock.timeout (delta : Nat) (b : KBlock α) : KBlock α × List (Nat × List α) :=
  let b := b.pass delta
  let r := b.flushFrom 0 b.bufs
  ({ bufs := r.1, age := r.2.1, idle := true }, r.2.2)

/-! ### Fairness vocabulary: enabled events and the work still to be done -/

/-- is the event enabled (does it do anything) in this state? `recv i`: channel `i` holds a batch;
    `timeout i`: see `timeoutEnabled`; `srcIdle`: the source is not yet asleep. -/
def recvEnabledL : Nat → List (Stage α) → Bool
  | _, [] => false
  | 0, s :: _ => !s.chan.isEmpty
  | i + 1, _ :: rest => recvEnabledL i rest

def timeoutEnabledL : Nat → List (Stage α) → Bool
  | 0, _ => false
  | _, [] => false
  | _, [_] => false
  | 1, s :: t :: _ => timeoutEnabled s t
  | i + 2, _ :: rest => timeoutEnabledL (i + 1) rest

def Enabled (s : State α) : Ev α → Bool
  | .src _ _ => !s.stages.isEmpty
  | .srcIdle => match s.stages with | [] => false | s0 :: _ => !s0.idle
  | .recv i _ => recvEnabledL i s.stages
  | .timeout i => timeoutEnabledL i s.stages

/-- number of events of a schedule that are enabled when their turn comes -/
def countEnabled (s : State α) : List (Ev α) → Nat
  | [] => 0
  | e :: es => (if Enabled s e then 1 else 0) + countEnabled (step s e) es

/-- hops still ahead of an element that the chains `fs` will process: 2 per batch it can be part of -/
def wt : List (α → List α) → α → Nat
  | [], _ => 0
  | f :: fs, y => ((f y).map (fun z => 2 + wt fs z)).sum

/-- **Work bound** of a stage list: 2 per queued batch, 2 per buffered element (it will be sent in
    some batch), plus everything these elements cause downstream, plus 1 per block whose timeout
    (block 0: idle flush) is still armed. Every enabled event except `src` lowers it. -/
def phi : List (Stage α) → Nat
  | [] => 0
  | s :: rest =>
    (s.buf.map (fun y => 2 + wt (fsOf rest) y)).sum +
    (s.chan.map (fun b => 2 + (b.map (wt (fsOf rest))).sum)).sum +
    (if s.idle then 0 else 1) + phi rest

/-- nothing is enabled except new input -/
def Stuck (s : State α) : Prop := ∀ e : Ev α, Ev.isSrc e = false → Enabled s e = false

/-- number of `timeout i` events of a schedule that are enabled when their turn comes -/
def countTimeouts (i : Nat) (s : State α) : List (Ev α) → Nat
  | [] => 0
  | e :: es =>
    (match e with
     | .timeout j => if j = i && Enabled s e then 1 else 0
     | _ => 0) + countTimeouts i (step s e) es

/-- the schedule contains no receive of block `i` (no `recv (i-1)`) -/
def noRecvOf (i : Nat) : List (Ev α) → Bool
  | [] => true
  | .recv j _ :: es => j + 1 != i && noRecvOf i es
  | _ :: es => noRecvOf i es

end Noir.Latency

/-! ## The general network: several replicas per block, fan-out by an arbitrary routing function

  Layers `0 … depth` of blocks, `width i` replicas in layer `i`, the sink is the single replica of layer
  `depth + 1`. Replica `(i, r)` has one batcher per replica `d` of the next layer (`End::senders`,
  end.rs:172-178) — its `Row` — and routes every element it produces with `route i` (any function:
  key hash, round robin state is not needed for the theorems). A link `(i, r) → (i+1, d)` is FIFO; a
  receiver takes the oldest batch of ANY of its incoming links (`recv i r u`: replica `(i, r)` takes
  from upstream replica `u`), which covers every arrival order of the real merged channel. Every
  received batch re-arms the receive timeout of the block, whoever sent it. `timeout i r` is enabled
  only when ALL incoming links of `(i, r)` are empty.
  Ghosts: `got` (what a replica has processed so far, in order), `sent`/`recvOn` per link. -/
namespace Noir.Net

variable {α : Type}

structure Cfg (α : Type) where
  depth : Nat
  width : Nat → Nat
  mode : Nat → Batcher.Mode
  f : Nat → α → List α
  route : Nat → α → Nat

/-- the batchers of one replica, by destination replica -/
structure Row (α : Type) where
  buf : Nat → List α
  out : Nat → List (List α)
  /-- ghost: everything ever enqueued towards `d` -/
  sent : Nat → List α

def Row.empty : Row α := ⟨fun _ => [], fun _ => [], fun _ => []⟩

/-- `End::next` for one data element: `Batcher::enqueue` on the batcher chosen by the routing -/
def Row.push (m : Batcher.Mode) (dest : α → Nat) (ρ : Row α) (y : α) (el : Bool) : Row α :=
  let d := dest y
  let r := Batcher.enqueue m (ρ.buf d) y el
  { buf := fun d' => if d' = d then r.1 else ρ.buf d',
    out := fun d' => if d' = d then ρ.out d ++ r.2 else ρ.out d',
    sent := fun d' => if d' = d then ρ.sent d ++ [y] else ρ.sent d' }

def Row.pushAll (m : Batcher.Mode) (dest : α → Nat) (ρ : Row α) : List α → List Bool → Row α
  | [], _ => ρ
  | y :: ys, els => Row.pushAll m dest (ρ.push m dest y (els.headD false)) ys els.tail

/-- `FlushBatch`: every batcher of the `End` is flushed -/
def Row.flushAll (ρ : Row α) : Row α :=
  { ρ with buf := fun d => (Batcher.flush (ρ.buf d)).1,
           out := fun d => ρ.out d ++ (Batcher.flush (ρ.buf d)).2 }

structure State (α : Type) where
  row : Nat → Nat → Row α
  idle : Nat → Nat → Bool
  /-- ghost: elements processed by replica `(i, r)` (for the sink: delivered), in order -/
  got : Nat → Nat → List α
  /-- ghost: elements replica `(i+1, d)` has received over link `(i, r) → (i+1, d)` -/
  recvOn : Nat → Nat → Nat → List α

def State.init : State α := ⟨fun _ _ => Row.empty, fun _ _ => false, fun _ _ => [], fun _ _ _ => []⟩

inductive Ev (α : Type) where
  | src (r : Nat) (x : α) (els : List Bool)
  | srcIdle (r : Nat)
  | recv (i r u : Nat) (els : List Bool)
  | timeout (i r : Nat)

def dest (c : Cfg α) (i : Nat) (y : α) : Nat := c.route i y % c.width (i + 1)

def setRow (s : State α) (i r : Nat) (ρ : Row α) : Nat → Nat → Row α :=
  fun i' r' => if i' = i ∧ r' = r then ρ else s.row i' r'

/-- replica `(i, r)` processes the input elements `xs` -/
def process (c : Cfg α) (s : State α) (i r : Nat) (xs : List α) (els : List Bool) : State α :=
  { s with
    row := setRow s i r (Row.pushAll (c.mode i) (dest c i) (s.row i r) (xs.flatMap (c.f i)) els),
    idle := fun i' r' => if i' = i ∧ r' = r then false else s.idle i' r',
    got := fun i' r' => if i' = i ∧ r' = r then s.got i r ++ xs else s.got i' r' }

def isAdaptive : Batcher.Mode → Bool
  | .adaptive _ => true
  | _ => false

/-- all incoming links of `(i, r)` are empty -/
def inputEmpty (c : Cfg α) (s : State α) (i r : Nat) : Bool :=
  (List.range (c.width (i - 1))).all fun u => ((s.row (i - 1) u).out r).isEmpty

def timeoutEnabled (c : Cfg α) (s : State α) (i r : Nat) : Bool :=
  decide (1 ≤ i) && decide (i ≤ c.depth) && decide (r < c.width i) && inputEmpty c s i r && !s.idle i r &&
    isAdaptive (c.mode i)

def flushIdle (s : State α) (i r : Nat) : State α :=
  { s with row := setRow s i r (s.row i r).flushAll,
           idle := fun i' r' => if i' = i ∧ r' = r then true else s.idle i' r' }

/-- `recv i r u` concerns an existing link: replica `r` of layer `1 ≤ i ≤ depth + 1` (the sink is layer
    `depth + 1`), upstream replica `u` of layer `i - 1` -/
def recvGuard (c : Cfg α) (i r u : Nat) : Bool :=
  decide (1 ≤ i) && decide (i ≤ c.depth + 1) && decide (r < c.width i) && decide (u < c.width (i - 1))

/-- the oldest batch `b` (rest `bs`) of link `(j, u) → (j+1, r)` is taken by the receiver -/
def pop (s : State α) (j u r : Nat) (b : List α) (bs : List (List α)) : State α :=
  { s with
    row := setRow s j u { s.row j u with out := fun d => if d = r then bs else (s.row j u).out d },
    recvOn := fun i' u' r' => if i' = j ∧ u' = u ∧ r' = r then s.recvOn j u r ++ b else s.recvOn i' u' r' }

/-- the sink records what it received -/
def sinkGot (s : State α) (i r : Nat) (b : List α) : State α :=
  { s with got := fun i' r' => if i' = i ∧ r' = r then s.got i r ++ b else s.got i' r' }

/-- Events that address a replica that does not exist do nothing; a source that is already asleep
    does not flush again (channel.rs:96-99: it sits in `recv()`). -/
def step (c : Cfg α) (s : State α) : Ev α → State α
  | .src r x els => if r < c.width 0 then process c s 0 r [x] els else s
  | .srcIdle r => if decide (r < c.width 0) && !s.idle 0 r then flushIdle s 0 r else s
  | .recv i r u els =>
    if recvGuard c i r u then
      match (s.row (i - 1) u).out r with
      | [] => s
      | b :: bs =>
        if i ≤ c.depth then process c (pop s (i - 1) u r b bs) i r b els
        else sinkGot (pop s (i - 1) u r b bs) i r b
    else s
  | .timeout i r => if timeoutEnabled c s i r then flushIdle s i r else s

/-- does the event do anything in this state? -/
def Enabled (c : Cfg α) (s : State α) : Ev α → Bool
  | .src r _ _ => decide (r < c.width 0)
  | .srcIdle r => decide (r < c.width 0) && !s.idle 0 r
  | .recv i r u _ => recvGuard c i r u && !((s.row (i - 1) u).out r).isEmpty
  | .timeout i r => timeoutEnabled c s i r

def Ev.isSrc : Ev α → Bool
  | .src _ _ _ => true
  | _ => false

/-- number of events of a schedule that are enabled when their turn comes -/
def countEnabled (c : Cfg α) (s : State α) : List (Ev α) → Nat
  | [] => 0
  | e :: es => (if Enabled c s e then 1 else 0) + countEnabled c (step c s e) es

/-- nothing but new input can happen any more -/
def NoEnabled (c : Cfg α) (s : State α) : Prop := ∀ e : Ev α, Ev.isSrc e = false → Enabled c s e = false

/-! #### Work bound of the network -/

/-- hops ahead of an element that arrives at layer `j` (`fuel` = layers left, the sink costs nothing):
    2 for every batch it (or what the chains make of it) can still be part of -/
def wtN (c : Cfg α) : Nat → Nat → α → Nat
  | 0, _, _ => 0
  | k + 1, j, y => ((c.f j y).map (fun z => 2 + wtN c k (j + 1) z)).sum

/-- weight of an element sitting in a batcher or on an outgoing link of layer `i` -/
def wOut (c : Cfg α) (i : Nat) (y : α) : Nat := wtN c (c.depth - i) (i + 1) y

def sumTo : Nat → (Nat → Nat) → Nat
  | 0, _ => 0
  | n + 1, g => sumTo n g + g n

/-- one batcher with its link: 2 per buffered element, 2 per queued batch, plus what they cause below -/
def cellW (c : Cfg α) (s : State α) (i r d : Nat) : Nat :=
  (((s.row i r).buf d).map (fun y => 2 + wOut c i y)).sum +
  (((s.row i r).out d).map (fun b => 2 + (b.map (wOut c i)).sum)).sum

/-- one replica: its batchers towards the replicas of the next layer, plus 1 while its timeout
    (layer 0: the idle flush of the source) is still armed -/
def rowW (c : Cfg α) (s : State α) (i r : Nat) : Nat :=
  sumTo (c.width (i + 1)) (cellW c s i r) + (if s.idle i r then 0 else 1)

/-- **Work bound**: every enabled event except `src` lowers it -/
def phi (c : Cfg α) (s : State α) : Nat :=
  sumTo (c.depth + 1) (fun i => sumTo (c.width i) (rowW c s i))

def run (c : Cfg α) (s : State α) : List (Ev α) → State α
  | [] => s
  | e :: es => run c (step c s e) es

/-- nothing buffered, nothing on any link -/
def Quiescent (s : State α) : Prop := ∀ i r d, (s.row i r).buf d = [] ∧ (s.row i r).out d = []

/-- every real link `(i, r) → (i+1, d)` has delivered everything: batcher and channel empty, and the
    destination has received exactly, in order, what was enqueued for it -/
def Delivered (c : Cfg α) (s : State α) : Prop :=
  ∀ i r d, i ≤ c.depth → r < c.width i → d < c.width (i + 1) →
    (s.row i r).buf d = [] ∧ (s.row i r).out d = [] ∧ s.recvOn i r d = (s.row i r).sent d

/-! #### One replica's `End` as a sequence of calls (where bounded delay is decided) -/

/-- what happens to the batchers of one replica: a data element is enqueued (`el` = the timer test
    `last_send.elapsed() > max_delay` of the batcher it is routed to, batcher.rs:77), or a
    `FlushBatch` (receive timeout of the block / idle flush of the source) flushes all of them -/
inductive RowOp (α : Type) where
  | enq (y : α) (el : Bool)
  | flushAll

def Row.step (m : Batcher.Mode) (dest : α → Nat) (ρ : Row α) : RowOp α → Row α
  | .enq y el => ρ.push m dest y el
  | .flushAll => ρ.flushAll

def Row.runOps (m : Batcher.Mode) (dest : α → Nat) (ρ : Row α) : List (RowOp α) → Row α
  | [] => ρ
  | op :: ops => Row.runOps m dest (ρ.step m dest op) ops

/-- the call *services* the batcher towards `d`: an enqueue into it after `max_delay`, or a timeout
    flush of the block -/
def services (dest : α → Nat) (d : Nat) : RowOp α → Bool
  | .enq y el => el && decide (dest y = d)
  | .flushAll => true

end Noir.Net

namespace Noir.Latency
variable {α : Type}
end Noir.Latency
