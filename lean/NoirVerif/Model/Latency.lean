/-
  Model/Latency.lean — a linear pipeline of blocks in LOGICAL time (C18).

      ChannelSource ─ f₀ ─ End₀ ══chan₀══ Start₁ ─ f₁ ─ End₁ ══chan₁══ … Start_d ─ f_d ─ End_d ══chan_d══ sink

  Stage `i` is block `i`: its stateless order-preserving operator chain `f i` (`flat_map`-shaped: one
  input element yields a list of outputs, in order), the buffer of its `End`'s `Batcher`
  (src/block/batcher.rs — the REAL model `Noir.Batcher.enqueue/flush` is reused, with the block's
  `BatchMode`), and the FIFO channel of batches it has sent and the next block has not yet received.
  Time enters only as events:

  * `src x els`   — the `ChannelSource` returns `Item x` (channel.rs:84/:100); block 0 pushes it through
                    `f 0` into its batcher. `els` = the outcomes of `last_send.elapsed() > max_delay`
                    (batcher.rs:77) at the enqueues it causes (missing flags = `false`): this is how the
                    batcher's own timer (`elapsed`) enters — ANY clock behaviour is some choice of flags;
  * `srcIdle`     — the `ChannelSource` found its channel empty `MAX_RETRY + 1` times: it returns
                    `FlushBatch` (channel.rs:94; every stateless operator forwards it, `End` flushes
                    every batcher, end.rs:223) and then blocks in `recv()` (channel.rs:99);
  * `recv i els`  — block `i+1` (`Start::next`, start/mod.rs:284-309) takes the oldest batch of channel `i`
                    and pushes its elements through `f (i+1)` into its batcher; the sink block just
                    delivers. Receiving a batch re-arms the receive timeout (`already_timed_out = false`);
  * `timeout i`   — (`i ≥ 1`) `recv_timeout(max_delay)` of block `i` expired (start/mod.rs:289-299):
                    enabled only if the block's mode is `Adaptive` (`max_delay = Some`), its input
                    channel is empty and it has not already timed out since the last batch; it yields a
                    fake `FlushBatch` batch → `End` flushes; the next receive is the untimed `recv()`.

  Ghost: `emitted` = the items the source has returned so far, in order.
-/
import NoirVerif.Model.Batcher
namespace Noir.Latency

variable {α : Type}

/-- one block of the pipeline -/
structure Stage (α : Type) where
  /-- `BatchMode` of the block (inherited along the stream, `split_block` stream.rs:149) -/
  mode : Batcher.Mode
  /-- the block's operator chain between `Start` (or the source) and `End` -/
  f : α → List α
  /-- `Batcher::buffer` of the block's `End` -/
  buf : List α
  /-- batches sent and not yet received by the next block, oldest first -/
  chan : List (List α)
  /-- block 0: the `ChannelSource` sits in its blocking `recv()`;
      block ≥ 1: `Start` timed out and nothing arrived since (untimed blocking `recv()`) -/
  idle : Bool

def Stage.new (mode : Batcher.Mode) (f : α → List α) : Stage α := ⟨mode, f, [], [], false⟩

/-- `Batcher::enqueue` of one element; batches sent go to the channel -/
def Stage.push (t : Stage α) (x : α) (el : Bool) : Stage α :=
  let r := Batcher.enqueue t.mode t.buf x el
  { t with buf := r.1, chan := t.chan ++ r.2 }

def Stage.pushAll (t : Stage α) : List α → List Bool → Stage α
  | [], _ => t
  | x :: xs, els => (t.push x (els.headD false)).pushAll xs els.tail

/-- the block processes input elements `xs` (a received batch / a source item) -/
def Stage.feed (t : Stage α) (xs : List α) (els : List Bool) : Stage α :=
  { (t.pushAll (xs.flatMap t.f) els) with idle := false }

/-- a `FlushBatch` travels down the chain: `End` flushes (`Batcher::flush`), then the block waits
    without timeout -/
def Stage.flushIdle (t : Stage α) : Stage α :=
  let r := Batcher.flush t.buf
  { t with buf := r.1, chan := t.chan ++ r.2, idle := true }

def isAdaptive : Batcher.Mode → Bool
  | .adaptive _ => true
  | _ => false

inductive Ev (α : Type) where
  | src (x : α) (els : List Bool)
  | srcIdle
  | recv (i : Nat) (els : List Bool)
  | timeout (i : Nat)
  deriving Repr

structure State (α : Type) where
  stages : List (Stage α)
  sink : List α
  emitted : List α

/-- `recv i`: the consumer of channel `i` (block `i+1`, or the sink after the last block) takes the
    oldest batch. No-op when the channel is empty (the receiver keeps waiting). -/
def recvL : Nat → List Bool → List (Stage α) → List α → List (Stage α) × List α
  | _, _, [], sink => ([], sink)
  | 0, els, s :: rest, sink =>
    match s.chan with
    | [] => (s :: rest, sink)
    | b :: bs =>
      match rest with
      | [] => ([{ s with chan := bs }], sink ++ b)
      | t :: rest' => ({ s with chan := bs } :: t.feed b els :: rest', sink)
  | i + 1, els, s :: rest, sink =>
    let r := recvL i els rest sink
    (s :: r.1, r.2)

/-- enabledness of the receive timeout of the second stage of `s :: t :: _` -/
def timeoutEnabled (s t : Stage α) : Bool := s.chan.isEmpty && !t.idle && isAdaptive t.mode

/-- `timeout i` (block `i ≥ 1`); no-op when not enabled -/
def timeoutL : Nat → List (Stage α) → List (Stage α)
  | 0, l => l                                  -- block 0 has no `Start`
  | _, [] => []
  | _, [s] => [s]
  | 1, s :: t :: rest => if timeoutEnabled s t then s :: t.flushIdle :: rest else s :: t :: rest
  | i + 2, s :: rest => s :: timeoutL (i + 1) rest

def step (s : State α) : Ev α → State α
  | .src x els =>
    match s.stages with
    | [] => s
    | s0 :: rest => { s with stages := s0.feed [x] els :: rest, emitted := s.emitted ++ [x] }
  | .srcIdle =>
    match s.stages with
    | [] => s
    | s0 :: rest => { s with stages := s0.flushIdle :: rest }
  | .recv i els =>
    let r := recvL i els s.stages s.sink
    { s with stages := r.1, sink := r.2 }
  | .timeout i => { s with stages := timeoutL i s.stages }

def run (s : State α) : List (Ev α) → State α
  | [] => s
  | e :: es => run (step s e) es

/-- a fresh pipeline: one `(mode, chain)` per block -/
def State.init (cfg : List (Batcher.Mode × (α → List α))) : State α :=
  ⟨cfg.map (fun c => Stage.new c.1 c.2), [], []⟩

/-! ### Specification side -/

/-- what the remaining chains `fs` make of a sequence of elements -/
def downF : List (α → List α) → List α → List α
  | [], xs => xs
  | f :: fs, xs => downF fs (xs.flatMap f)

def fsOf (l : List (Stage α)) : List (α → List α) := l.map (·.f)

/-- everything in flight, as the sink will see it, oldest first: the contents of later stages come
    first; inside a stage the channel (oldest batch first) precedes the batcher buffer -/
def pending : List (Stage α) → List α
  | [] => []
  | s :: rest => pending rest ++ downF (fsOf rest) (s.chan.flatten ++ s.buf)

/-- nothing buffered, nothing queued anywhere -/
def Quiescent (l : List (Stage α)) : Prop := ∀ s ∈ l, s.buf = [] ∧ s.chan = []

def quiescentB (l : List (Stage α)) : Bool := l.all (fun s => s.buf.isEmpty && s.chan.isEmpty)

/-! ### The quiescing schedule ("no further input arrives") -/

def Ev.shift : Ev α → Ev α
  | .recv i els => .recv (i + 1) els
  | .timeout i => .timeout (i + 1)
  | e => e

/-- all batches of `bs` received by `t`, one `recv` each (no timer flags: nothing elapses) -/
def Stage.feedAll (t : Stage α) : List (List α) → Stage α
  | [] => t
  | b :: bs => (t.feed b []).feedAll bs

/-- the second stage after its single timeout (if enabled; otherwise it is unchanged) -/
def Stage.afterTimeout (s t : Stage α) : Stage α := if timeoutEnabled s t then t.flushIdle else t

/-- Starting at a stage list whose head has just been flushed: deliver everything queued on the
    head's channel, then ONE timeout of the next block, and so on; finally deliver to the sink.
    (Indices are relative to the head; `Ev.shift` re-bases the tail's schedule.) -/
def settleEvs : Nat → List (Stage α) → List (Ev α)
  | 0, _ => []
  | _, [] => []
  | _ + 1, [s] => List.replicate s.chan.length (.recv 0 [])
  | fuel + 1, s :: t :: rest =>
    List.replicate s.chan.length (.recv 0 []) ++ [.timeout 1] ++
      (settleEvs fuel (Stage.afterTimeout { s with chan := [] } (t.feedAll s.chan) :: rest)).map Ev.shift

/-- the whole schedule from state `s`: source-idle flush, then `settleEvs` -/
def quiesceSched (s : State α) : List (Ev α) :=
  match s.stages with
  | [] => []
  | s0 :: rest => .srcIdle :: settleEvs (rest.length + 1) (s0.flushIdle :: rest)

def Ev.isTimeout : Ev α → Bool
  | .timeout _ => true
  | _ => false

def Ev.isSrc : Ev α → Bool
  | .src _ _ => true
  | _ => false

def timeoutIdx : Ev α → Option Nat
  | .timeout i => some i
  | _ => none

/-! ### An `End` with two downstream replicas (finding F12)

  `End::next` (end.rs:210-217) enqueues an item into the batcher of ONE downstream replica
  (`senders[block.indexes[index % len]]`); the other batchers are not touched, in particular their
  `last_send.elapsed() > max_delay` test (batcher.rs:77) is not evaluated. -/

structure End2 (α : Type) where
  bufA : List α
  bufB : List α
  sentA : List (List α)
  sentB : List (List α)
  deriving Repr, DecidableEq

/-- one data element routed to replica A (`toA`) or B; `el` = the timer test of THAT batcher -/
def End2.enqueue (m : Batcher.Mode) (e : End2 α) (toA : Bool) (x : α) (el : Bool) : End2 α :=
  if toA then
    let r := Batcher.enqueue m e.bufA x el
    { e with bufA := r.1, sentA := e.sentA ++ r.2 }
  else
    let r := Batcher.enqueue m e.bufB x el
    { e with bufB := r.1, sentB := e.sentB ++ r.2 }

/-- a sequence of elements all routed to B, with arbitrary timer outcomes -/
def End2.feedB (m : Batcher.Mode) (e : End2 α) : List (α × Bool) → End2 α
  | [] => e
  | (y, el) :: ys => (e.enqueue m false y el).feedB m ys

/-! ### … with the block's receive timeout in (discrete) real time

  `TBlock` = the `End2` above behind a `Start` whose `recv_timeout(max_delay)` is modelled with a
  tick counter: `since` = ticks since the last batch was received (or since the timeout fired),
  `delta` = `max_delay` in ticks. A tick makes the timeout fire iff the block has not already timed
  out and `delta` ticks have passed without a batch (start/mod.rs:287-299); receiving a batch
  re-arms the full delay (a new `recv_timeout(max_delay)` call, start/mod.rs:284-287). -/

structure TBlock (α : Type) where
  e : End2 α
  since : Nat
  idle : Bool
  deriving Repr, DecidableEq

/-- `FlushBatch` reaches the `End`: every batcher is flushed (end.rs:223-226) -/
def End2.flushAll (e : End2 α) : End2 α :=
  let a := Batcher.flush e.bufA
  let b := Batcher.flush e.bufB
  { bufA := a.1, bufB := b.1, sentA := e.sentA ++ a.2, sentB := e.sentB ++ b.2 }

/-- one unit of time passes without a batch arriving -/
def TBlock.tick (delta : Nat) (b : TBlock α) : TBlock α :=
  if !b.idle && b.since + 1 ≥ delta then { e := b.e.flushAll, since := 0, idle := true }
  else { b with since := b.since + 1 }

def TBlock.ticks (delta : Nat) : Nat → TBlock α → TBlock α
  | 0, b => b
  | k + 1, b => TBlock.ticks delta k (b.tick delta)

/-- a batch with one element routed to B arrives and is processed -/
def TBlock.recvB (m : Batcher.Mode) (b : TBlock α) (y : α) (el : Bool) : TBlock α :=
  { e := b.e.enqueue m false y el, since := 0, idle := false }

/-- the trickle: before each element `gap` ticks pass -/
def TBlock.trickle (m : Batcher.Mode) (delta gap : Nat) (b : TBlock α) : List (α × Bool) → TBlock α
  | [] => b
  | (y, el) :: ys => TBlock.trickle m delta gap ((TBlock.ticks delta gap b).recvB m y el) ys

end Noir.Latency
