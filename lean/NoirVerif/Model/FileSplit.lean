/-
  Model/FileSplit.lean — `FileSource::setup` / `FileSource::next` (src/operator/source/file.rs:79-147)
  over a file given as its byte list (`List Nat`, byte values; `'\n' = 10`).

  `BufRead::read_until(b'\n', buf)` / `BufRead::read_line(buf)` read up to *and including* the next `'\n'`
  (or up to EOF) and return the number of bytes read; `FileSource::next` emits the `String` exactly as
  `read_line` filled it — this version of the code does **not** trim the terminator, so an emitted line
  carries its `"\n"` (or `"\r\n"`), and a last line without final newline is emitted as is.
  (Assumption: the content is valid UTF-8 — `read_line` returns `Err` otherwise and `next` panics.)
-/
set_option linter.unusedVariables false
namespace Noir.FileSplit

def NL : Nat := 10

/-- `read_until(b'\n')` on the remaining bytes: (bytes read — terminator included —, remaining bytes). -/
def readLine : List Nat → List Nat × List Nat
  | [] => ([], [])
  | c :: cs =>
    if c = NL then ([c], cs)
    else let r := readLine cs; (c :: r.1, r.2)

theorem readLine_length (bs : List Nat) : (readLine bs).1.length + (readLine bs).2.length = bs.length := by
  induction bs with
  | nil => rfl
  | cons c cs ih =>
    simp only [readLine]
    split
    · simp only [List.length_cons, List.length_nil]; omega
    · simp only [List.length_cons]; omega

/-- The read loop of `FileSource::next` (file.rs:118-139) from the state `current = cur`, `end = e`, reader
    positioned before `rest`: while `current <= end`, `read_line`; a read of 0 bytes (EOF) ends the stream. -/
def readLoop (cur e : Nat) (rest : List Nat) : List (List Nat) :=
  if cur ≤ e then                                    -- :123 `if self.current <= self.end`
    match h : readLine rest with
    | (l, r) =>
      if hl : 0 < l.length then                      -- :131 `Ok(len) if len > 0`
        l :: readLoop (cur + l.length) e r           -- :132 `self.current += len`
      else []                                        -- :135 `Ok(_)` ⇒ FlushAndRestart
  else []                                            -- :141 FlushAndRestart
termination_by rest.length
decreasing_by
  have := readLine_length rest
  rw [h] at this
  simp only at this
  omega

/-- `FileSource::setup` (file.rs:82-115) for replica `id` of `n`, followed by `next` until
    `FlushAndRestart`: the lines (as byte lists) this replica emits, in order. -/
def replicaLines (bytes : List Nat) (n id : Nat) : List (List Nat) :=
  let fileSize := bytes.length
  let rangeSize := fileSize / n                      -- :93  (n = 0 would panic: division by zero)
  let start := rangeSize * id                        -- :94
  let e := if id = n - 1 then fileSize else start + rangeSize   -- :96-100
  let rest := bytes.drop start                       -- :104 seek
  if id ≠ 0 then                                     -- :107 discard first line
    let d := readLine rest
    readLoop (start + d.1.length) e d.2
  else
    readLoop start e rest

/-! ### Specification side -/

/-- The lines of a file as `BufRead::read_line` delivers them when the file is read sequentially from the
    beginning: split *after* every `'\n'`, terminators kept, a non-terminated last line kept,
    no line for an empty remainder. -/
def lines (bs : List Nat) : List (List Nat) :=
  match h : readLine bs with
  | (l, r) => if hl : 0 < l.length then l :: lines r else []
termination_by bs.length
decreasing_by
  have := readLine_length bs
  rw [h] at this
  simp only at this
  omega

/-- The lines together with the byte offset (plus `off`) at which each of them starts. -/
def linesAt (off : Nat) (bs : List Nat) : List (Nat × List Nat) :=
  match h : readLine bs with
  | (l, r) => if hl : 0 < l.length then (off, l) :: linesAt (off + l.length) r else []
termination_by bs.length
decreasing_by
  have := readLine_length bs
  rw [h] at this
  simp only at this
  omega

/-- Independent, structural definition of the line split (used by the driver's oracle):
    `cur` is the current unterminated line. -/
def splitLines (cur : List Nat) : List Nat → List (List Nat)
  | [] => if cur = [] then [] else [cur]
  | c :: cs => if c = NL then (cur ++ [c]) :: splitLines [] cs else splitLines (cur ++ [c]) cs

end Noir.FileSplit
