/-
  Model/LoopCycle.lean — C04, the channel CYCLE of an `iterate` loop: a small-step model of ONE
  `Iterate` replica, the chain of blocks of the loop body, the feedback link back into the
  `Iterate`'s `feedback_receiver`, and the state-update path to the `IterationLeader`.
  All channels are bounded (capacity `cap`); every send blocks while the target channel is full.

      input ─► Iterate ─ f 0 ─ End ══ch 0══► B 1 (f 1) ══ch 1══► … ══ch (k-1)══► B k (f k) ══ch k══╗
                 ▲  ▲                                                               │ (FlushAndRestart)  ║
                 │  └──────────────── state channel ◄── IterationLeader ◄───────────┘                    ║
                 └═══════════════════════════ feedback_receiver ◄═══════════════════════════════════════╝

  What the processes do (src/operator/iteration/iterate.rs, src/operator/end.rs,
  src/operator/iteration/leader.rs):

  * level 0 = the block that starts with `Iterate` (iterate.rs:232-276) followed by the body
    operators fused into the same block (`f 0`, per element a list of outputs — map / filter /
    flat_map) and the `End` whose sends block (end.rs:185-242 through the `Batcher`).
      - while an output of the current element still has to be sent (`pend 0 ≠ []`): ONE blocking
        send into `ch 0` — nothing else happens in this thread, in particular NO drain;
      - otherwise `Iterate::next` is called: FIRST the non-blocking drain of the feedback channel
        `ch k` into the unbounded `feedback_content` (`fb`) (iterate.rs:235-237, "try to make
        progress on the feedback"), THEN the next element of the current round is taken — from
        `input_stash` in the first round (iterate.rs:239-245), from `content` later
        (iterate.rs:247-249); both are `toEmit` here — and handed to `f 0`;
      - when the round's elements (incl. its `FlushAndRestart`) are out: block on the feedback
        channel until `feedback_content` ends with `FlushAndRestart` (iterate.rs:251-253), then
        `wait_update` blocks on the state channel (iterate.rs:261); `Continue` ⇒
        `content := feedback_content` and the next round starts; `Finished` ⇒ the content goes to
        the output block (iterate.rs:263-271).
  * level `i`, `1 ≤ i ≤ k` = a body block after a block boundary (a shuffle …) and finally the
    feedback block (`Start` + `End` with `mark_feedback`, iterate.rs:489-496, for which `f k` is
    the identity): receive ONE element from `ch (i-1)` (blocks while empty), turn it into the list
    `f i x` (`FlushAndRestart` is forwarded as it is), send the outputs one at a time into `ch i`,
    each send blocking while `ch i` is full.
  * the last block also sends everything to the state block (iterate.rs:477-487: `Start` → fold →
    `IterationEnd`), which consumes data without ever blocking and forwards one delta update per
    round to the leader; here: when `B k` sends the round's `FlushAndRestart`, `leaderPending` is
    incremented. `leader` event (leader.rs `next`): consume it, `iteration_index += 1`, answer
    `Continue` iff `iteration_index < max_iterations` (the user's loop condition is `true`).

  Flag `drainFirst`: `true` is the real code. `false` is the MUTATION "the feedback drain is moved
  below the replay of `content`": from the second round on the feedback channel is only read once
  `content` is exhausted (in the first round the mutated code still reads it through
  `input_or_feedback`'s `select`, iterate.rs:240-242).

  Simplifications (each one restated in Props/C04Loop.lean):
  * ONE replica of every block (so the leader waits for one delta update); with several replicas
    and no shuffle in the body the cycles of the replicas are independent copies of this one;
  * batch = single element (`BatchMode::single`): a channel slot holds one element, `End`'s batcher
    holds nothing. Batching groups consecutive elements of one link (C02) and does not change who
    waits for whom; the capacity of the real cycle in BATCHES is `2·CHANNEL_CAPACITY` + the
    batches held by two `End`s and one `Start` (≈ 34);
  * the whole input of the loop has arrived (`input_stash` = input ++ [FlushAndRestart]); the
    `Iterate` never refuses its input channel (it stashes early input, iterate.rs:164,175-177);
  * payloads are `Nat`; the body is a per-element function per level (stateless operators);
  * the state path carries only the round's `FlushAndRestart` (a counter); the data sent to the
    state block is consumed by a fold that never blocks; the state lock (C10) is not modelled;
  * `Terminate` is not modelled: it is not fed back (end.rs:200-204) and travels the acyclic path
    covered by Model/NetSim.lean; the final state here is "the `Iterate` has sent the last round's
    content to the output block".

  Import-free.
-/
namespace Noir.LoopCycle

/-- what travels through the channels of the cycle -/
inductive Msg where
  | item (a : Nat)
  /-- `FlushAndRestart`, the end-of-round marker -/
  | far
  deriving Repr, DecidableEq

structure Cfg where
  /-- capacity of every channel -/
  cap : Nat
  /-- number of blocks behind the `Iterate` block (the last one is the feedback block) -/
  k : Nat
  /-- `f i` = what level `i` makes of one element (`f 0`: operators fused behind `Iterate`) -/
  f : Nat → Nat → List Nat
  /-- `num_iterations` -/
  rounds : Nat
  input : List Nat
  /-- `true` = the real code; `false` = the mutation (drain only after the replay of `content`) -/
  drainFirst : Bool := true

structure Cfg.WF (c : Cfg) : Prop where
  cap_pos : 0 < c.cap
  k_pos : 0 < c.k
  rounds_pos : 0 < c.rounds

/-- the body never turns one element into more than one (map, filter, …; not flat_map) -/
def Cfg.NonExpanding (c : Cfg) : Prop := ∀ i a, (c.f i a).length ≤ 1

inductive Phase where
  /-- emitting the round's elements / collecting the feedback -/
  | run
  /-- blocked in `wait_update` -/
  | waitLeader
  | done
  deriving Repr, DecidableEq

structure State where
  phase : Phase
  /-- 0-based index of the current round -/
  round : Nat
  /-- `input_stash` (first round) / `content` (later): what `Iterate` still has to emit -/
  toEmit : List Msg
  /-- `feedback_content` -/
  fb : List Msg
  /-- outputs of the element being processed that level `i` still has to send -/
  pend : Nat → List Msg
  /-- `chan i`: from level `i` to level `i+1`; `chan k` is the feedback channel (head = oldest) -/
  chan : Nat → List Msg
  /-- `FlushAndRestart`s on their way to the leader -/
  leaderPending : Nat
  /-- the leader's `iteration_index` -/
  leaderIdx : Nat
  /-- the state channel leader → `Iterate` (`some true` = `Continue`) -/
  decision : Option Bool
  /-- what was sent to the output block -/
  output : Option (List Nat)
  /-- ghost: the content of every round started so far -/
  contents : List (List Nat)
  /-- ghost: what was fed back in every completed round -/
  fed : List (List Nat)

inductive Ev where
  /-- the thread of the `Iterate` block -/
  | iter
  /-- the thread of body block `i` (`1 ≤ i ≤ k`) -/
  | body (i : Nat)
  | leader
  deriving Repr, DecidableEq

def lift (l : List Nat) : List Msg := l.map Msg.item

def items : List Msg → List Nat
  | [] => []
  | .item a :: l => a :: items l
  | .far :: l => items l

/-- a level applied to one message -/
def proc (g : Nat → List Nat) : Msg → List Msg
  | .item a => lift (g a)
  | .far => [.far]

/-- `feedback_finished` (iterate.rs:131-136) -/
def fbFinished (fb : List Msg) : Bool := fb.getLast? == some Msg.far

/-- pointwise update -/
def set (g : Nat → List Msg) (i : Nat) (v : List Msg) : Nat → List Msg :=
  fun j => if j = i then v else g j

def init (c : Cfg) : State where
  phase := .run
  round := 0
  toEmit := lift c.input ++ [.far]
  fb := []
  pend := fun _ => []
  chan := fun _ => []
  leaderPending := 0
  leaderIdx := 0
  decision := none
  output := none
  contents := [c.input]
  fed := []

/-! ### the atomic operations -/

/-- iterate.rs:235-237: move everything in the feedback channel to `feedback_content` -/
def drainOp (c : Cfg) (s : State) : State :=
  { s with fb := s.fb ++ s.chan c.k, chan := set s.chan c.k [] }

/-- `Iterate::next` returns the next element of the round, the fused operators process it -/
def pickOp (c : Cfg) (s : State) (x : Msg) (r : List Msg) : State :=
  { s with toEmit := r, pend := set s.pend 0 (proc (c.f 0) x) }

/-- level `i` sends `m` (head of `pend i`, rest `rest`) into `chan i` -/
def sendOp (s : State) (i : Nat) (m : Msg) (rest : List Msg) : State :=
  { s with pend := set s.pend i rest, chan := set s.chan i (s.chan i ++ [m]) }

/-- level `i+1` receives `m` (head of `chan i`, rest `ms`) and processes it -/
def recvOp (c : Cfg) (s : State) (i : Nat) (m : Msg) (ms : List Msg) : State :=
  { s with chan := set s.chan i ms, pend := set s.pend (i + 1) (proc (c.f (i + 1)) m) }

/-- does this call of `Iterate::next` start with the drain? -/
def drains (c : Cfg) (s : State) : Bool := c.drainFirst || s.round == 0 || s.toEmit.isEmpty

/-- `Iterate::next` after the drain: the next element of the round (iterate.rs:239-249), or the
    round is over (iterate.rs:251-261), or it blocks in the feedback `recv` -/
def iterNext (c : Cfg) (s : State) : State :=
  match s.toEmit with
  | x :: r => pickOp c s x r
  | [] => if fbFinished s.fb then { s with phase := .waitLeader } else s

/-- One scheduler slot for the `Iterate` block. -/
def stepIter (c : Cfg) (s : State) : State :=
  match s.phase with
  | .done => s
  | .waitLeader =>
    match s.decision with
    | none => s   -- blocked in `wait_update`
    | some true =>
      { s with phase := .run, round := s.round + 1, toEmit := s.fb, fb := [], decision := none,
               contents := s.contents ++ [items s.fb], fed := s.fed ++ [items s.fb] }
    | some false =>
      { s with phase := .done, fb := [], decision := none, output := some (items s.fb),
               fed := s.fed ++ [items s.fb] }
  | .run =>
    match s.pend 0 with
    | m :: rest =>
      -- `End` is sending; blocked while `chan 0` is full
      if (s.chan 0).length < c.cap then sendOp s 0 m rest else s
    | [] => iterNext c (if drains c s then drainOp c s else s)

/-- One scheduler slot for body block `i`. -/
def stepBody (c : Cfg) (s : State) (i : Nat) : State :=
  match i with
  | 0 => s
  | j + 1 =>
    if j + 1 ≤ c.k then
      match s.pend (j + 1) with
      | m :: rest =>
        if (s.chan (j + 1)).length < c.cap then
          let s1 := sendOp s (j + 1) m rest
          -- the feedback block sends the marker to the state block as well
          if j + 1 = c.k ∧ m = Msg.far then { s1 with leaderPending := s.leaderPending + 1 } else s1
        else s
      | [] =>
        match s.chan j with
        | [] => s
        | m :: ms => recvOp c s j m ms
    else s

/-- One scheduler slot for the leader (leader.rs `next`). -/
def stepLeader (c : Cfg) (s : State) : State :=
  if 0 < s.leaderPending then
    { s with leaderPending := s.leaderPending - 1, leaderIdx := s.leaderIdx + 1,
             decision := some (decide (s.leaderIdx + 1 < c.rounds)) }
  else s

def step (c : Cfg) (s : State) : Ev → State
  | .iter => stepIter c s
  | .body i => stepBody c s i
  | .leader => stepLeader c s

/-- the slot is a real step (the process is neither blocked nor finished) -/
def enabledB (c : Cfg) (s : State) : Ev → Bool
  | .iter =>
    match s.phase with
    | .done => false
    | .waitLeader => s.decision.isSome
    | .run =>
      match s.pend 0 with
      | _ :: _ => decide ((s.chan 0).length < c.cap)
      | [] =>
        -- `next()` has an element to return, or (blocked in the feedback `recv`) a message
        -- arrives, or the feedback of the round is complete
        !s.toEmit.isEmpty || !(s.chan c.k).isEmpty || fbFinished s.fb
  | .body i =>
    match i with
    | 0 => false
    | j + 1 =>
      decide (j + 1 ≤ c.k) &&
        (match s.pend (j + 1) with
         | _ :: _ => decide ((s.chan (j + 1)).length < c.cap)
         | [] => !(s.chan j).isEmpty)
  | .leader => decide (0 < s.leaderPending)

def enabled (c : Cfg) (s : State) (e : Ev) : Prop := enabledB c s e = true

instance (c : Cfg) (s : State) (e : Ev) : Decidable (enabled c s e) := by
  unfold enabled; infer_instance

/-- the loop has finished: the last round's content went to the output block -/
def final (s : State) : Prop := s.phase = .done

instance (s : State) : Decidable (final s) := by unfold final; infer_instance

/-- the events of a configuration -/
def events (c : Cfg) : List Ev := Ev.iter :: Ev.leader :: (List.range c.k).map fun j => Ev.body (j + 1)

/-- no process can move -/
def stuck (c : Cfg) (s : State) : Bool := (events c).all fun e => !enabledB c s e

def run (c : Cfg) (s : State) (sched : List Ev) : State := sched.foldl (step c) s

/-- number of real steps of a schedule -/
def realSteps (c : Cfg) : State → List Ev → Nat
  | _, [] => 0
  | s, e :: rest => (if enabled c s e then 1 else 0) + realSteps c (step c s e) rest

inductive Reachable (c : Cfg) : State → Prop where
  | init : Reachable c (init c)
  | step {s : State} (e : Ev) : Reachable c s → Reachable c (step c s e)

/-! ### the sequential meaning -/

/-- levels `0 … i` applied to a list of elements -/
def bodyUpTo (c : Cfg) : Nat → List Nat → List Nat
  | 0, l => l.flatMap (c.f 0)
  | i + 1, l => (bodyUpTo c i l).flatMap (c.f (i + 1))

/-- the whole body: levels `0 … k` -/
def body (c : Cfg) (l : List Nat) : List Nat := bodyUpTo c c.k l

/-- the content of round `r` (0-based): `body^r input` -/
def content (c : Cfg) : Nat → List Nat
  | 0 => c.input
  | r + 1 => body c (content c r)

/-- `k` rounds over all events -/
def roundRobin (c : Cfg) (n : Nat) : List Ev := (List.replicate n (events c)).flatten

/-- run round-robin rounds until the final state (at most `fuel` rounds) -/
def runToEnd (c : Cfg) : Nat → State → State
  | 0, s => s
  | n + 1, s => if s.phase = .done then s else runToEnd c n (run c s (events c))

end Noir.LoopCycle
