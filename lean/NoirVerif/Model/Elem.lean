/-
  Model/Elem.lean — the stream vocabulary shared by every component model.
  Mirrors `StreamElement` (src/operator/mod.rs:128). `Timestamp = i64` is modelled by `Int`
  (no wrap-around: the properties are not about overflow; see DESIGN.md §3).
  Import-free on purpose: this file is linked into the `noir_model` driver executable.
-/
namespace Noir

/-- `StreamElement<Out>` -/
inductive Elem (α : Type) where
  | item (a : α)
  | ts (a : α) (t : Int)
  | wm (t : Int)
  | flushBatch
  | term
  | far
  deriving Repr, DecidableEq, BEq, Inhabited

namespace Elem

variable {α β : Type}

/-- `StreamElement::map` -/
def map (f : α → β) : Elem α → Elem β
  | item a => item (f a)
  | ts a t => ts (f a) t
  | wm t => wm t
  | flushBatch => flushBatch
  | term => term
  | far => far

/-- `StreamElement::timestamp` -/
def timestamp : Elem α → Option Int
  | ts _ t => some t
  | wm t => some t
  | _ => none

/-- `StreamElement::value` -/
def value : Elem α → Option α
  | item a => some a
  | ts a _ => some a
  | _ => none

def isData : Elem α → Bool
  | item _ => true
  | ts _ _ => true
  | _ => false

def isFar : Elem α → Bool
  | far => true
  | _ => false

def isTerm : Elem α → Bool
  | term => true
  | _ => false

end Elem

/-- `Timestamp::MAX` (i64). -/
def TS_MAX : Int := 9223372036854775807

/-- max of two optional timestamps, as written in several operators
    (`(Some a, Some b) => Some(max)`, one-sided otherwise). -/
def optMax : Option Int → Option Int → Option Int
  | some a, some b => some (max a b)
  | some a, none => some a
  | none, some b => some b
  | none, none => none

/-! ## Trace predicates (Bool recognisers used by the oracles, Prop forms derived from them) -/

/-- Grammar recogniser: `((item|ts|wm|flushBatch)* far)+ term`.
    State: `none` = nothing seen in the current iteration group yet and no `far` so far;
    we track (seenFar : Bool) = at least one far seen and we are right after a far. -/
def grammarGo {α : Type} : Bool → List (Elem α) → Bool
  | _, [] => false   -- must end with term
  | afterFar, [Elem.term] => afterFar
  | _, Elem.term :: _ :: _ => false
  | _, Elem.far :: rest => grammarGo true rest
  | _, _ :: rest => grammarGo false rest

/-- the trace is a complete, well-formed stream -/
def grammarOk {α : Type} (tr : List (Elem α)) : Bool := grammarGo false tr

/-- Watermark-safety recogniser. `w` = last watermark of the current iteration (none after far). -/
def wmSafeGo {α : Type} : Option Int → List (Elem α) → Bool
  | _, [] => true
  | w, Elem.ts _ t :: rest =>
      (match w with | some w => decide (w < t) | none => true) && wmSafeGo w rest
  | w, Elem.wm t :: rest =>
      (match w with | some w => decide (w < t) | none => true) && wmSafeGo (some t) rest
  | _, Elem.far :: rest => wmSafeGo none rest
  | w, _ :: rest => wmSafeGo w rest

def wmSafeOk {α : Type} (tr : List (Elem α)) : Bool := wmSafeGo none tr

end Noir
