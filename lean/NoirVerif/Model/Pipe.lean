/-
  Model/Pipe.lean — the deterministic operator algebra as a term language (C01).

  Mirrors `harness/src/e2e.rs`: values `V`, the finite library of named user functions, the job
  representation (a list of nodes, each naming its inputs by `@id.port` references), the sequential
  meaning `seqEval` and the parallel evaluator `parEval` over a distributed representation
  (`List (List V)`: one list per replica) in which every repartitioning consults an arbitrary
  routing oracle and every fan-in an arbitrary merge (a permutation chosen by the oracle).

  Closure rule (identical in `Job::from_ops`): nodes are processed in line order; a node is kept
  iff its id is new and every input refers to an existing port, of the right kind (keyed / plain),
  of a node kept on an earlier line.  Everything else is skipped, hence every subset of the lines
  of a job is a job.
-/
namespace Noir.Pipe

/-- Values. Sequences (tuple / list payloads) are `cons`/`nil` chains so that the type is a plain
    recursive inductive (`DecidableEq` derivable). -/
inductive V where
  | int (n : Int)
  | none
  | some (v : V)
  | nil
  | cons (h t : V)
  | tup (s : V)
  | list (s : V)
  deriving DecidableEq, Repr, Inhabited

namespace V
def ofList : List V → V
  | [] => nil
  | x :: xs => cons x (ofList xs)

def toList : V → List V
  | cons h t => h :: toList t
  | _ => []

def pair (a b : V) : V := tup (cons a (cons b nil))

/-- integer projection (`e2e.rs: proj`) -/
def proj : V → Int
  | int n => n
  | none => 0
  | some v => proj v
  | nil => 0
  | cons h t => proj h + proj t
  | tup s => proj s
  | list s => proj s

def fst : V → V
  | tup (cons a _) => a
  | v => v

def snd : V → V
  | tup (cons _ (cons b _)) => b
  | v => v

def opt : Option V → V
  | Option.none => none
  | Option.some v => some v
end V

open V

def M : Int := 10007

/-- `a.rem_euclid(max k 1)` -/
def emod (a k : Int) : Int := a % (max k 1)

inductive MapFn | add | mul | mod | neg | pair | swap | fst | snd | opt | wrap | id
  deriving DecidableEq, Repr
inductive PredFn | even | odd | lt | ge | modz | modnz | true | isint
  deriving DecidableEq, Repr
inductive FlatFn | dup | rangex | unlist | optflat | nil
  deriving DecidableEq, Repr
inductive KeyFn | kmod | kself | kfst | kconst | kpair
  deriving DecidableEq, Repr
inductive Agg | sum | cnt | summod | sumsq | min | max
  deriving DecidableEq, Repr
inductive JVar | inner | left | outer
  deriving DecidableEq, Repr
inductive Ship | hash | bcast
  deriving DecidableEq, Repr

def MapFn.eval (f : MapFn) (k : Int) (v : V) : V :=
  let p := v.proj
  match f with
  | .add => .int (p + k)
  | .mul => .int (emod (p * k) M)
  | .mod => .int (emod p k)
  | .neg => .int (-p)
  | .pair => V.pair v (.int (emod p k))
  | .swap => match v with
    | .tup (.cons a (.cons b .nil)) => V.pair b a
    | _ => v
  | .fst => v.fst
  | .snd => v.snd
  | .opt => if emod p k = 0 then .some v else .none
  | .wrap => .list (.cons v .nil)
  | .id => v

def PredFn.eval (f : PredFn) (k : Int) (v : V) : Bool :=
  let p := v.proj
  match f with
  | .even => emod p 2 == 0
  | .odd => emod p 2 == 1
  | .lt => p < k
  | .ge => p ≥ k
  | .modz => emod p k == 0
  | .modnz => emod p k != 0
  | .true => Bool.true
  | .isint => match v with
    | .int _ => Bool.true
    | _ => Bool.false

def FlatFn.eval (f : FlatFn) (k : Int) (v : V) : List V :=
  match f with
  | .dup => [v, v]
  | .rangex => (List.range (emod v.proj k).toNat).map (fun (i : Nat) => V.int (i : Int))
  | .unlist => match v with
    | .list s => s.toList
    | .tup s => s.toList
    | _ => [v]
  | .optflat => match v with
    | .some x => [x]
    | .none => []
    | _ => [v]
  | .nil => []

def KeyFn.eval (f : KeyFn) (k : Int) (v : V) : V :=
  let p := v.proj
  match f with
  | .kmod => .int (emod p k)
  | .kself => v
  | .kfst => v.fst
  | .kconst => .int 0
  | .kpair => V.pair (.int (emod p k)) (.int (emod p 2))

/-- local step of an aggregation (accumulator starts at 0) -/
def Agg.loc (g : Agg) (acc x : Int) : Int :=
  match g with
  | .sum => acc + x
  | .cnt => acc + 1
  | .summod => emod (acc + x) M
  | .sumsq => acc + emod (x * x) M
  | .min => Min.min acc x
  | .max => Max.max acc x

/-- global step: combines two accumulators; also the binary operation of the reductions -/
def Agg.glob (g : Agg) (a b : Int) : Int :=
  match g with
  | .sum | .cnt | .sumsq => a + b
  | .summod => emod (a + b) M
  | .min => Min.min a b
  | .max => Max.max a b

/-! ### Sequential meaning of the stages (on whole streams) -/

def projs (l : List V) : List Int := l.map V.proj

/-- global `fold` / `fold_assoc`: nothing for an empty stream (fold.rs:83-101), else one element -/
def foldS (g : Agg) (l : List V) : List V :=
  if l.isEmpty then [] else [.int ((projs l).foldl g.loc 0)]

/-- `map(Int ∘ proj).reduce(glob)` -/
def optStep (g : Agg) (acc : Option Int) (x : Int) : Option Int :=
  match acc with
  | Option.none => Option.some x
  | Option.some a => Option.some (g.glob a x)

/-- `reduce`: `fold(None, |acc, b| Some(match acc { Some(a) => f(a, b), None => b }))` (mod.rs:1586) -/
def reduceInts (g : Agg) (l : List Int) : List Int := (l.foldl (optStep g) Option.none).toList

def reduceS (g : Agg) (l : List V) : List V := (reduceInts g (projs l)).map V.int

/-- duplicates removed, first occurrences kept in order -/
def dedup : List V → List V
  | [] => []
  | x :: xs => x :: (dedup xs).filter (fun y => y ≠ x)

/-- keyed streams are lists of `pair k v` -/
def keysOf (l : List V) : List V := dedup (l.map V.fst)

def valsOf (k : V) (l : List V) : List V := (l.filter (fun p => p.fst = k)).map V.snd

def keyedFoldS (g : Agg) (l : List V) : List V :=
  (keysOf l).map fun k => V.pair k (.int ((projs (valsOf k l)).foldl g.loc 0))

def keyedReduceS (g : Agg) (l : List V) : List V :=
  (keysOf l).flatMap fun k => (reduceInts g (projs (valsOf k l))).map fun x => V.pair k (.int x)

def keyByS (f : KeyFn) (k : Int) (l : List V) : List V := l.map fun v => V.pair (f.eval k v) v

/-- sliding count windows (exact): `groups N S xs` -/
def groups (n s : Nat) : Nat → List Int → List (List Int)
  | 0, _ => []
  | fuel + 1, xs => if xs.length < n then [] else xs.take n :: groups n s fuel (xs.drop (max s 1))

def keyedWinS (n s : Nat) (g : Agg) (l : List V) : List V :=
  (keysOf l).flatMap fun k =>
    let xs := projs (valsOf k l)
    (groups n s (xs.length + 1) xs).map fun w => V.pair k (.int (w.foldl g.loc 0))

/-- relational join of two plain streams; result elements are `pair key (pair l r)` -/
def joinS (v : JVar) (k1 : V → V) (k2 : V → V) (ls rs : List V) : List V :=
  let leftPart := ls.flatMap fun l =>
    let ms := rs.filter fun r => k2 r = k1 l
    match v with
    | .inner => ms.map fun r => V.pair (k1 l) (V.pair l r)
    | .left => if ms.isEmpty then [V.pair (k1 l) (V.pair l .none)]
               else ms.map fun r => V.pair (k1 l) (V.pair l (.some r))
    | .outer => if ms.isEmpty then [V.pair (k1 l) (V.pair (.some l) .none)]
                else ms.map fun r => V.pair (k1 l) (V.pair (.some l) (.some r))
  let rightPart := match v with
    | .outer => (rs.filter fun r => (ls.filter fun l => k1 l = k2 r).isEmpty).map fun r =>
        V.pair (k2 r) (V.pair .none (.some r))
    | _ => []
  leftPart ++ rightPart

/-- join of two keyed streams (`pair k v` elements) on their keys; `left` is not offered by the API -/
def keyedJoinS (v : JVar) (ls rs : List V) : List V :=
  (joinS v V.fst V.fst ls rs).map fun e =>
    -- e = pair k (pair l r) with l, r (optional) whole `pair k v` elements: keep the values only
    let lr := e.snd
    let strip : V → V := fun x => match x with
      | .some y => .some y.snd
      | .none => .none
      | y => y.snd
    V.pair e.fst (V.pair (strip lr.fst) (strip lr.snd))

/-- index of the first matching route predicate -/
def routeIdx (ps : List (PredFn × Int)) (v : V) : Option Nat :=
  ps.findIdx? fun p => p.1.eval p.2 v

def routeS (ps : List (PredFn × Int)) (j : Nat) (l : List V) : List V :=
  l.filter fun v => routeIdx ps v = Option.some j

/-! ### Loops -/

mutual
inductive BStage where
  | map (f : MapFn) (k : Int)
  | filter (f : PredFn) (k : Int)
  | fmap (f : FlatFn) (k : Int)
  | shuffle
  | addst (k : Int)
  | gbsum (f : KeyFn) (k : Int)
  | reduce (g : Agg)
  | replay (l : LoopSpec)
  /-- `group_by(key).window(CountWindow::sliding(n, s)).fold(count).unkey()` -/
  | gbwin (f : KeyFn) (k : Int) (n s : Nat)
  /-- `group_by_fold(key, agg).unkey()` -/
  | gbfold (f : KeyFn) (k : Int) (g : Agg)
  /-- inner hash join with the side input of the loop, key dropped -/
  | joinside (f1 : KeyFn) (k1 : Int) (f2 : KeyFn) (k2 : Int)
  /-- merge with the side input of the loop -/
  | mergeside
  /-- nested `iterate` whose STATE stream continues the enclosing body (items drained) -/
  | iterate (l : LoopSpec)
  /-- nested `iterate` whose ITEMS stream continues the enclosing body: the elements of the last inner
      round, per outer round (state drained; needs /repo ≥ 9fb958f, finding F16) -/
  | iteritems (l : LoopSpec)
  /-- nested `iterate`: items merged with the in-loop state stream -/
  | iterboth (l : LoopSpec)
inductive LoopSpec where
  | mk (iters : Nat) (init : Int) (agg : Agg) (cp : PredFn) (ck : Int) (body : List BStage)
end

/-- The leader (leader.rs:84-140): after each round `state := glob state (Σ of the per-replica
    deltas)`, `index += 1`, continue iff `cond state ∧ index < max`; at least one round. `n` = rounds
    still allowed. Returns the final state (and for `iterate` the items of the last round). -/
def loopRun (feedback : Bool) (body : Int → List V → List V) (agg : Agg) (cp : PredFn) (ck : Int) :
    Nat → Int → List V → Int × List V
  | 0, st, xs => (st, xs)
  | n + 1, st, xs =>
    let out := body st xs
    let st' := agg.glob st ((projs out).foldl agg.loc 0)
    if cp.eval ck (.int st') && n != 0 then
      loopRun feedback body agg cp ck n st' (if feedback then out else xs)
    else (st', out)

def gbSumS (f : KeyFn) (k : Int) (l : List V) : List V :=
  (keyedFoldS .sum (keyByS f k l)).map V.snd

def joinSideS (f1 : KeyFn) (k1 : Int) (f2 : KeyFn) (k2 : Int) (xs side : List V) : List V :=
  (joinS .inner (f1.eval k1) (f2.eval k2) xs side).map V.snd

/-- one body stage; `side` is the side input of the outermost loop (the same multiset every round),
    `st` the state of the innermost enclosing loop; `fuel` bounds nesting -/
def evalStage (side : List V) : Nat → BStage → Int → List V → List V
  | 0, _, _, xs => xs
  | _ + 1, .map f k, _, xs => xs.map (f.eval k)
  | _ + 1, .filter f k, _, xs => xs.filter (f.eval k)
  | _ + 1, .fmap f k, _, xs => xs.flatMap (f.eval k)
  | _ + 1, .shuffle, _, xs => xs
  | _ + 1, .addst k, st, xs => xs.map fun v => V.int (v.proj + emod st k)
  | _ + 1, .gbsum f k, _, xs => gbSumS f k xs
  | _ + 1, .reduce g, _, xs => reduceS g xs
  | _ + 1, .gbwin f k n s, _, xs => keyedWinS n s .cnt (keyByS f k xs)
  | _ + 1, .gbfold f k g, _, xs => keyedFoldS g (keyByS f k xs)
  | _ + 1, .joinside f1 k1 f2 k2, _, xs => joinSideS f1 k1 f2 k2 xs side
  | _ + 1, .mergeside, _, xs => xs ++ side
  | fuel + 1, .replay (.mk iters init agg cp ck body), _, xs =>
    [V.int (loopRun false (fun st ys => body.foldl (fun acc s => evalStage side fuel s st acc) ys)
      agg cp ck (max iters 1) init xs).1]
  | fuel + 1, .iterate (.mk iters init agg cp ck body), _, xs =>
    [V.int (loopRun true (fun st ys => body.foldl (fun acc s => evalStage side fuel s st acc) ys)
      agg cp ck (max iters 1) init xs).1]
  | fuel + 1, .iteritems (.mk iters init agg cp ck body), _, xs =>
    (loopRun true (fun st ys => body.foldl (fun acc s => evalStage side fuel s st acc) ys)
      agg cp ck (max iters 1) init xs).2
  | fuel + 1, .iterboth (.mk iters init agg cp ck body), _, xs =>
    let r := loopRun true (fun st ys => body.foldl (fun acc s => evalStage side fuel s st acc) ys)
      agg cp ck (max iters 1) init xs
    r.2 ++ [V.int r.1]

def evalBody (side : List V) (fuel : Nat) (body : List BStage) (st : Int) (xs : List V) : List V :=
  body.foldl (fun acc s => evalStage side fuel s st acc) xs

def LoopSpec.run (feedback : Bool) (fuel : Nat) (side : List V) : LoopSpec → List V → Int × List V
  | .mk iters init agg cp ck body, xs =>
    loopRun feedback (evalBody side fuel body) agg cp ck (max iters 1) init xs

/-! ### Jobs -/

structure Ref where
  id : Nat
  port : Nat
  deriving DecidableEq, Repr

inductive Rep | u | one | lim (k : Nat) | host
  deriving DecidableEq, Repr

inductive Kind where
  | iter (l : List V)
  | par (lo hi : Int)
  | map (a : Ref) (f : MapFn) (k : Int)
  | filter (a : Ref) (f : PredFn) (k : Int)
  | fmap (a : Ref) (f : FlatFn) (k : Int)
  | shuffle (a : Ref)
  | repl (a : Ref) (r : Rep)
  | repart (a : Ref) (r : Rep) (f : KeyFn) (k : Int)
  | bcast (a : Ref) (g : Agg)
  | groupBy (a : Ref) (f : KeyFn) (k : Int)
  | keyBy (a : Ref) (f : KeyFn) (k : Int)
  | kmap (a : Ref) (f : MapFn) (k : Int)
  | kfilter (a : Ref) (f : PredFn) (k : Int)
  | kfold (a : Ref) (g : Agg)
  | kreduce (a : Ref) (g : Agg)
  | unkey (a : Ref)
  | dropKey (a : Ref)
  | fold (a : Ref) (g : Agg)
  | foldA (a : Ref) (g : Agg)
  | reduce (a : Ref) (g : Agg)
  | reduceA (a : Ref) (g : Agg)
  | gbFold (a : Ref) (f : KeyFn) (k : Int) (g : Agg)
  | gbReduce (a : Ref) (f : KeyFn) (k : Int) (g : Agg)
  | gbSum (a : Ref) (f : KeyFn) (k : Int)
  | gbCount (a : Ref) (f : KeyFn) (k : Int)
  | kwin (a : Ref) (n s : Nat) (g : Agg)
  | merge (a b : Ref)
  | zip (a b : Ref)
  | join (a b : Ref) (v : JVar) (ship : Ship) (f1 : KeyFn) (k1 : Int) (f2 : KeyFn) (k2 : Int)
  | kjoin (a b : Ref) (v : JVar)
  | kmerge (a b : Ref)
  | route (a : Ref) (ps : List (PredFn × Int))
  | replay (a : Ref) (side : Option Ref) (l : LoopSpec)
  | iterate (a : Ref) (side : Option Ref) (l : LoopSpec)
  | sink (a : Ref)

structure Node where
  id : Nat
  kind : Kind

abbrev Job := List Node

/-- what is known about a node that was kept: is its output keyed, and the value of each port -/
structure Entry (σ : Type) where
  id : Nat
  keyed : Bool
  ports : List σ

structure St (σ : Type) where
  env : List (Entry σ) := []
  sinks : List (Nat × σ) := []

def St.defined {σ} (s : St σ) (id : Nat) : Bool :=
  s.env.any (·.id == id) || s.sinks.any (·.1 == id)

def lookup {σ} (id : Nat) : List (Entry σ) → Option (Entry σ)
  | [] => Option.none
  | e :: es => if e.id = id then Option.some e else lookup id es

/-- the value of a reference if it exists and has the wanted kind (`none` = either) -/
def St.get {σ} (s : St σ) (r : Ref) (keyed : Option Bool) : Option σ :=
  match lookup r.id s.env with
  | Option.none => Option.none
  | Option.some e =>
    if keyed.all (· == e.keyed) then e.ports[r.port]? else Option.none

/-- What a node does, abstractly (shared skeleton of the sequential and the parallel evaluator). -/
inductive Sem (σ : Type) where
  | src (v : σ)
  | un (a : Ref) (kin kout : Bool) (f : σ → σ)
  | bin (a b : Ref) (kin kout : Bool) (f : σ → σ → σ)
  | multi (a : Ref) (fs : List (σ → σ))
  | bmulti (a b : Ref) (fs : List (σ → σ → σ))
  | sink (a : Ref) (f : σ → σ)

/-- `none` if an input is missing or of the wrong kind; else (keyed?, value of each port, sink value) -/
def runSem {σ} (s : St σ) : Sem σ → Option (Bool × List σ × Option σ)
  | .src v => Option.some (false, [v], Option.none)
  | .un a kin kout f => (s.get a (Option.some kin)).bind fun x => Option.some (kout, [f x], Option.none)
  | .bin a b kin kout f => (s.get a (Option.some kin)).bind fun x => (s.get b (Option.some kin)).bind fun y =>
      Option.some (kout, [f x y], Option.none)
  | .multi a fs => (s.get a (Option.some false)).bind fun x => Option.some (false, fs.map (· x), Option.none)
  | .bmulti a b fs => (s.get a (Option.some false)).bind fun x => (s.get b (Option.some false)).bind fun y =>
      Option.some (false, fs.map (fun f => f x y), Option.none)
  | .sink a f => (s.get a Option.none).bind fun x => Option.some (false, [], Option.some (f x))

def stepWith {σ} (sem : Node → Sem σ) (s : St σ) (n : Node) : St σ :=
  if s.defined n.id then s else
  match runSem s (sem n) with
  | Option.none => s
  | Option.some (_, _, Option.some v) => { s with sinks := s.sinks ++ [(n.id, v)] }
  | Option.some (kd, ports, Option.none) => { s with env := s.env ++ [⟨n.id, kd, ports⟩] }

def rangeV (lo hi : Int) : List V :=
  (List.range (hi - lo).toNat).map fun (i : Nat) => V.int (lo + (i : Int))

/-- fuel for the nesting of loop bodies (the parser accepts depth ≤ 5) -/
def loopFuel : Nat := 8

def kmapS (f : MapFn) (k : Int) (x : List V) : List V := x.map fun p => V.pair p.fst (f.eval k p.snd)
def kfilterS (f : PredFn) (k : Int) (x : List V) : List V := x.filter fun p => f.eval k p.snd

/-- **Sequential meaning of one node.** -/
def seqSem (n : Node) : Sem (List V) :=
  match n.kind with
  | .iter l => .src l
  | .par lo hi => .src (rangeV lo hi)
  | .map a f k => .un a false false (List.map (f.eval k))
  | .filter a f k => .un a false false (List.filter (f.eval k))
  | .fmap a f k => .un a false false (List.flatMap (f.eval k))
  | .shuffle a => .un a false false id
  | .repl a _ => .un a false false id
  | .repart a _ _ _ => .un a false false id
  | .bcast a g => .un a false false (reduceS g)
  | .groupBy a f k => .un a false true (keyByS f k)
  | .keyBy a f k => .un a false true (keyByS f k)
  | .kmap a f k => .un a true true (kmapS f k)
  | .kfilter a f k => .un a true true (kfilterS f k)
  | .kfold a g => .un a true true (keyedFoldS g)
  | .kreduce a g => .un a true true (keyedReduceS g)
  | .unkey a => .un a true false id
  | .dropKey a => .un a true false (List.map V.snd)
  | .fold a g => .un a false false (foldS g)
  | .foldA a g => .un a false false (foldS g)
  | .reduce a g => .un a false false (reduceS g)
  | .reduceA a g => .un a false false (reduceS g)
  | .gbFold a f k g => .un a false true fun x => keyedFoldS g (keyByS f k x)
  | .gbReduce a f k g => .un a false true fun x => keyedReduceS g (keyByS f k x)
  | .gbSum a f k => .un a false true fun x => keyedFoldS .sum (keyByS f k x)
  | .gbCount a f k => .un a false true fun x => keyedFoldS .cnt (keyByS f k x)
  | .kwin a n s g => .un a true true (keyedWinS n s g)
  | .merge a b => .bin a b false false (· ++ ·)
  | .zip a b => .bin a b false false (List.zipWith V.pair)
  | .join a b v ship f1 c1 f2 c2 => .bin a b false (ship == .hash) (joinS v (f1.eval c1) (f2.eval c2))
  | .kjoin a b v => .bin a b true true (keyedJoinS v)
  | .kmerge a b => .bin a b true true (· ++ ·)
  | .route a ps => .multi a ((List.range ps.length).map fun j => routeS ps j)
  | .replay a Option.none l => .un a false false fun x => [V.int (l.run false loopFuel [] x).1]
  | .replay a (Option.some b) l => .bin a b false false fun x sd => [V.int (l.run false loopFuel sd x).1]
  | .iterate a Option.none l =>
    .multi a [fun x => [V.int (l.run true loopFuel [] x).1], fun x => (l.run true loopFuel [] x).2]
  | .iterate a (Option.some b) l =>
    .bmulti a b [fun x sd => [V.int (l.run true loopFuel sd x).1], fun x sd => (l.run true loopFuel sd x).2]
  | .sink a => .sink a id

def seqRun (job : Job) : St (List V) := job.foldl (stepWith seqSem) {}

/-- **Sequential meaning**: the list delivered to every sink that survives the closure rule. -/
def seqEval (job : Job) : List (Nat × List V) := (seqRun job).sinks

/-! ### Parallel evaluation

A stream is distributed over replicas: `D = List (List V)`. -/

abbrev D := List (List V)

/-- replica counts: one parameter for unlimited blocks (all of them have the same count on a given
    deployment: scheduler.rs), `Limited(k)` is clamped, `One` is 1 -/
structure Cfg where
  par : Nat
  /-- number of hosts (`Replication::Host`: one replica per host) -/
  hosts : Nat := 1

def Cfg.count (c : Cfg) : Rep → Nat
  | .u => max c.par 1
  | .one => 1
  | .lim k => max (min k c.par) 1
  | .host => max c.hosts 1

/-- the schedule as data: a hash function (group_by_hash), a routing choice per (node, element index)
    for `Random` routing / source partitioning, and a merge choice per (node, position) -/
structure Orc where
  hash : V → Nat
  route : Nat → Nat → Nat
  merge : Nat → Nat → Nat

def insertAt (x : V) : Nat → List V → List V
  | 0, l => x :: l
  | _ + 1, [] => [x]
  | n + 1, y :: l => y :: insertAt x n l

/-- an arbitrary arrival order: every permutation is `permBy c` for some `c` (insertion code) -/
def permBy (c : Nat → Nat) : List V → List V
  | [] => []
  | x :: xs => insertAt x (c xs.length) (permBy c xs)

/-- append `x` to replica `r` -/
def push : D → Nat → V → D
  | [], _, _ => []
  | l :: d, 0, x => (l ++ [x]) :: d
  | l :: d, r + 1, x => l :: push d r x

/-- send the `i`-th element `x` to replica `choice i x % n` -/
def routeInto (n : Nat) (choice : Nat → V → Nat) : Nat → List V → D → D
  | _, [], d => d
  | i, x :: xs, d => routeInto n choice (i + 1) xs (push d (choice i x % n) x)

/-- an all-to-all link into a block of `n` replicas: every element is routed by `choice`, every
    consumer sees its share in an arbitrary order -/
def exchange (n : Nat) (choice : Nat → V → Nat) (c : Nat → Nat) (d : D) : D :=
  (routeInto n choice 0 d.flatten (List.replicate n [])).map (permBy c)

/-- everything to a single replica, in an arbitrary order -/
def gather (c : Nat → Nat) (d : D) : D := [permBy c d.flatten]

/-- every element to every one of `n` replicas (`NextStrategy::all`) -/
def broadcast (n : Nat) (c : Nat → Nat) (d : D) : D := List.replicate n (permBy c d.flatten)

/-- pointwise union of two equally deployed streams (binary forward connection) -/
def zipAppend : D → D → D
  | [], d => d
  | d, [] => d
  | l :: d, l' :: d' => (l ++ l') :: zipAppend d d'

/-- global phase of a two-phase fold: combine the partial accumulators -/
def combineS (g : Agg) (l : List V) : List V :=
  if l.isEmpty then [] else [.int ((projs l).foldl g.glob 0)]

/-- global phase of a keyed two-phase fold -/
def keyedCombineS (g : Agg) (l : List V) : List V :=
  (keysOf l).map fun k => V.pair k (.int ((projs (valsOf k l)).foldl g.glob 0))

def byKey (o : Orc) : Nat → V → Nat := fun _ v => o.hash v.fst

/-- The loop protocol in parallel (iteration_end.rs / leader.rs): every replica of the last body
    block folds its share with the local function into a delta (an empty replica sends the default
    0), the leader folds the deltas — in arrival order — into the global state with the global
    function. -/
def parLoopRun (feedback : Bool) (body : Int → D → D) (agg : Agg) (cp : PredFn) (ck : Int) (c : Nat → Nat) :
    Nat → Int → D → Int × D
  | 0, st, d => (st, d)
  | n + 1, st, d =>
    let out := body st d
    let deltas := permBy c (out.map fun l => V.int ((projs l).foldl agg.loc 0))
    let st' := (projs deltas).foldl agg.glob st
    if cp.eval ck (.int st') && n != 0 then
      parLoopRun feedback body agg cp ck c n st' (if feedback then out else d)
    else (st', out)

/-- one body stage over a distributed stream (`n` = replicas of an unlimited block, `side` = the
    distributed side input) -/
def parStage (n : Nat) (o : Orc) (id : Nat) (side : D) : Nat → BStage → Int → D → D
  | 0, _, _, d => d
  | _ + 1, .map f k, _, d => d.map (List.map (f.eval k))
  | _ + 1, .filter f k, _, d => d.map (List.filter (f.eval k))
  | _ + 1, .fmap f k, _, d => d.map (List.flatMap (f.eval k))
  | _ + 1, .shuffle, _, d => exchange n (fun i _ => o.route id i) (o.merge id) d
  | _ + 1, .addst k, st, d => d.map (List.map fun v => V.int (v.proj + emod st k))
  | _ + 1, .gbsum f k, _, d =>
    ((exchange n (byKey o) (o.merge id) (d.map fun l => keyedFoldS .sum (keyByS f k l))).map
      (keyedCombineS .sum)).map (List.map V.snd)
  | _ + 1, .reduce g, _, d => (gather (o.merge id) d).map (reduceS g)
  | _ + 1, .gbwin f k w s, _, d =>
    (exchange n (byKey o) (o.merge id) (d.map (keyByS f k))).map (keyedWinS w s .cnt)
  | _ + 1, .gbfold f k g, _, d =>
    (exchange n (byKey o) (o.merge id) (d.map fun l => keyedFoldS g (keyByS f k l))).map (keyedCombineS g)
  | _ + 1, .joinside f1 k1 f2 k2, _, d =>
    (List.zipWith (joinS .inner (f1.eval k1) (f2.eval k2))
      (exchange n (fun _ e => o.hash (f1.eval k1 e)) (o.merge id) d)
      (exchange n (fun _ e => o.hash (f2.eval k2 e)) (o.merge id) side)).map (List.map V.snd)
  | _ + 1, .mergeside, _, d => (zipAppend d side).map (permBy (o.merge id))
  | fuel + 1, .replay (.mk iters init agg cp ck body), _, d =>
    [[V.int (parLoopRun false (fun st x => body.foldl (fun acc s => parStage n o id side fuel s st acc) x)
      agg cp ck (o.merge id) (max iters 1) init d).1]]
  | fuel + 1, .iterate (.mk iters init agg cp ck body), _, d =>
    [[V.int (parLoopRun true (fun st x => body.foldl (fun acc s => parStage n o id side fuel s st acc) x)
      agg cp ck (o.merge id) (max iters 1) init d).1]]
  | fuel + 1, .iteritems (.mk iters init agg cp ck body), _, d =>
    (parLoopRun true (fun st x => body.foldl (fun acc s => parStage n o id side fuel s st acc) x)
      agg cp ck (o.merge id) (max iters 1) init d).2
  | fuel + 1, .iterboth (.mk iters init agg cp ck body), _, d =>
    let r := parLoopRun true (fun st x => body.foldl (fun acc s => parStage n o id side fuel s st acc) x)
      agg cp ck (o.merge id) (max iters 1) init d
    r.2 ++ [[V.int r.1]]

def parBody (n : Nat) (o : Orc) (id : Nat) (side : D) (fuel : Nat) (body : List BStage) (st : Int) (d : D) : D :=
  body.foldl (fun acc s => parStage n o id side fuel s st acc) d

def LoopSpec.parRun (feedback : Bool) (n : Nat) (o : Orc) (id : Nat) (fuel : Nat) (side : D) :
    LoopSpec → D → Int × D
  | .mk iters init agg cp ck body, d =>
    parLoopRun feedback (parBody n o id side fuel body) agg cp ck (o.merge id) (max iters 1) init d

/-- **Parallel meaning of one node** for replica-count parameter `cfg` and schedule `o`. -/
def parSem (cfg : Cfg) (o : Orc) (n : Node) : Sem D :=
  let nU := cfg.count .u
  let mg := o.merge n.id
  let rnd : Nat → V → Nat := fun i _ => o.route n.id i
  match n.kind with
  | .iter l => .src [l]
  | .par lo hi => .src (routeInto nU rnd 0 (rangeV lo hi) (List.replicate nU []))
  | .map a f k => .un a false false (List.map (List.map (f.eval k)))
  | .filter a f k => .un a false false (List.map (List.filter (f.eval k)))
  | .fmap a f k => .un a false false (List.map (List.flatMap (f.eval k)))
  | .shuffle a => .un a false false (exchange nU rnd mg)
  | .repl a r => .un a false false (exchange (cfg.count r) rnd mg)
  | .repart a r f k => .un a false false (exchange (cfg.count r) (fun _ v => o.hash (f.eval k v)) mg)
  | .bcast a g => .un a false false fun d =>
      (gather mg ((broadcast nU mg d).map (reduceS g))).map (reduceS g)
  | .groupBy a f k => .un a false true fun d => exchange nU (byKey o) mg (d.map (keyByS f k))
  | .keyBy a f k => .un a false true (List.map (keyByS f k))
  | .kmap a f k => .un a true true (List.map (kmapS f k))
  | .kfilter a f k => .un a true true (List.map (kfilterS f k))
  | .kfold a g => .un a true true (List.map (keyedFoldS g))
  | .kreduce a g => .un a true true (List.map (keyedReduceS g))
  | .unkey a => .un a true false id
  | .dropKey a => .un a true false (List.map (List.map V.snd))
  | .fold a g => .un a false false fun d => (gather mg d).map (foldS g)
  | .foldA a g => .un a false false fun d => (gather mg (d.map (foldS g))).map (combineS g)
  | .reduce a g => .un a false false fun d => (gather mg d).map (reduceS g)
  | .reduceA a g => .un a false false fun d => (gather mg (d.map (reduceS g))).map (reduceS g)
  | .gbFold a f k g => .un a false true fun d =>
      (exchange nU (byKey o) mg (d.map fun l => keyedFoldS g (keyByS f k l))).map (keyedCombineS g)
  | .gbReduce a f k g => .un a false true fun d =>
      (exchange nU (byKey o) mg (d.map fun l => keyedReduceS g (keyByS f k l))).map (keyedReduceS g)
  | .gbSum a f k => .un a false true fun d =>
      (exchange nU (byKey o) mg (d.map fun l => keyedFoldS .sum (keyByS f k l))).map (keyedCombineS .sum)
  | .gbCount a f k => .un a false true fun d =>
      (exchange nU (byKey o) mg (d.map fun l => keyedFoldS .cnt (keyByS f k l))).map (keyedCombineS .cnt)
  | .kwin a w s g => .un a true true (List.map (keyedWinS w s g))
  | .merge a b => .bin a b false false fun x y => (zipAppend x y).map (permBy mg)
  | .zip a b => .bin a b false false fun x y => [List.zipWith V.pair x.flatten y.flatten]
  | .join a b v ship f1 c1 f2 c2 => .bin a b false (ship == .hash) fun x y =>
      match ship with
      | .hash =>
        let x' := exchange nU (fun _ e => o.hash (f1.eval c1 e)) mg x
        let y' := exchange nU (fun _ e => o.hash (f2.eval c2 e)) mg y
        List.zipWith (joinS v (f1.eval c1) (f2.eval c2)) x' y'
      | .bcast => x.map fun l => joinS v (f1.eval c1) (f2.eval c2) l (permBy mg y.flatten)
  | .kjoin a b v => .bin a b true true fun x y => List.zipWith (keyedJoinS v) x y
  | .kmerge a b => .bin a b true true fun x y => (zipAppend x y).map (permBy mg)
  | .route a ps => .multi a ((List.range ps.length).map fun j => List.map (routeS ps j))
  | .replay a Option.none l => .un a false false fun d => [[V.int (l.parRun false nU o n.id loopFuel [[]] d).1]]
  | .replay a (Option.some b) l => .bin a b false false fun d sd =>
      [[V.int (l.parRun false nU o n.id loopFuel sd d).1]]
  | .iterate a Option.none l => .multi a [fun d => [[V.int (l.parRun true nU o n.id loopFuel [[]] d).1]],
                                          fun d => (l.parRun true nU o n.id loopFuel [[]] d).2]
  | .iterate a (Option.some b) l => .bmulti a b [fun d sd => [[V.int (l.parRun true nU o n.id loopFuel sd d).1]],
                                                 fun d sd => (l.parRun true nU o n.id loopFuel sd d).2]
  | .sink a => .sink a (gather mg)

def parRun (cfg : Cfg) (o : Orc) (job : Job) : St D := job.foldl (stepWith (parSem cfg o)) {}

/-- **Parallel meaning**: what each sink collects (one replica; the arrival order is arbitrary). -/
def parEval (cfg : Cfg) (o : Orc) (job : Job) : List (Nat × List V) :=
  (parRun cfg o job).sinks.map fun p => (p.1, p.2.flatten)

/-! ### Static coverage analysis

`parEval_perm_seqEval` holds for every sink that is not downstream of a stage outside the theorem.
Which sinks these are is decided by running the job once more over static tags. -/

structure Tag where
  /-- every stage upstream is covered by the theorem and correctly placed -/
  ok : Bool
  /-- keyed stream whose equal keys are co-located (hash partitioned, or a single replica) -/
  coloc : Bool
  /-- the stream has a single replica -/
  single : Bool
  deriving DecidableEq, Repr

def Tag.plain (t : Tag) : Tag := { t with coloc := false }

/-- tag of the output of a unary stage. Not covered (`ok := false`): count windows with an
    aggregate other than `cnt` (order sensitive; with `cnt` the result depends only on the per-key
    number of elements), a keyed fold / reduce of a keyed stream that is not co-located (`key_by` of a
    multi-replica stream), `broadcast` + a non-idempotent reduction. -/
def Kind.tagUn (k : Kind) (t : Tag) : Tag :=
  match k with
  | .map .. | .filter .. | .fmap .. | .unkey _ | .dropKey _ | .route .. => t.plain
  | .shuffle _ => ⟨t.ok, false, false⟩
  | .repl _ r | .repart _ r _ _ => ⟨t.ok, false, r == .one⟩
  | .bcast _ g => ⟨t.ok && (g == .min || g == .max), false, true⟩
  | .groupBy .. | .gbFold .. | .gbReduce .. | .gbSum .. | .gbCount .. => ⟨t.ok, true, false⟩
  | .keyBy .. => ⟨t.ok, t.single, t.single⟩
  | .kmap .. | .kfilter .. => t
  | .kfold .. | .kreduce .. => ⟨t.ok && t.coloc, t.coloc, t.single⟩
  | .kwin _ _ _ g => ⟨t.ok && t.coloc && g == .cnt, t.coloc, t.single⟩
  | .fold .. | .foldA .. | .reduce .. | .reduceA .. | .replay .. => ⟨t.ok, false, true⟩
  | .sink _ => t
  | _ => ⟨false, false, false⟩

/-- tag of the output of a binary stage. Not covered: `zip` (order sensitive), keyed join, and the
    combination broadcast-right + outer (not offered by the API). -/
def Kind.tagBin (k : Kind) (a b : Tag) : Tag :=
  match k with
  | .merge .. => ⟨a.ok && b.ok, false, a.single && b.single⟩
  | .replay .. => ⟨a.ok && b.ok, false, true⟩
  | .join _ _ v ship .. =>
    match ship with
    | .hash => ⟨a.ok && b.ok, true, false⟩
    | .bcast => ⟨a.ok && b.ok && v != .outer, false, a.single⟩
  | _ => ⟨false, false, false⟩

/-- the sequential evaluator paired with the static tags -/
def tagSem (n : Node) : Sem (Tag × List V) :=
  match seqSem n with
  | .src v => .src (⟨true, false, match n.kind with | .iter _ => true | _ => false⟩, v)
  | .un a kin kout f => .un a kin kout fun x => (n.kind.tagUn x.1, f x.2)
  | .bin a b kin kout f => .bin a b kin kout fun x y => (n.kind.tagBin x.1 y.1, f x.2 y.2)
  | .multi a fs =>
    match n.kind with
    | .iterate .. =>
      .multi a (fs.zipIdx.map fun (f, i) => fun x => (⟨x.1.ok, false, i == 0⟩, f x.2))
    | _ => .multi a (fs.map fun f => fun x => (n.kind.tagUn x.1, f x.2))
  | .bmulti a b fs =>
    .bmulti a b (fs.zipIdx.map fun (f, i) => fun x y => (⟨x.1.ok && y.1.ok, false, i == 0⟩, f x.2 y.2))
  | .sink a f => .sink a fun x => (x.1, f x.2)

def tagRun (job : Job) : St (Tag × List V) := job.foldl (stepWith tagSem) {}

/-- the sinks covered by `parEval_perm_seqEval` -/
def coveredSinks (job : Job) : List Nat :=
  ((tagRun job).sinks.filter fun p => p.2.1.ok).map (·.1)

/-- every sink of the job is covered -/
def orderInsensitive (job : Job) : Bool := (tagRun job).sinks.all fun p => p.2.1.ok

end Noir.Pipe
