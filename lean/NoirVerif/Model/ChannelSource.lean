/-
  Model/ChannelSource.lean — `ChannelSource::next` (src/operator/source/channel.rs:73-115).

  The flume channel is seen through the observations the operator makes of it: the result of one
  `try_recv()` (or, while the operator sits in the blocking `recv()`, whether something can be
  taken). One observation = one loop iteration of `next` (or one wake-up check of `recv()`), so
  a *sequence of channel states* is a `List (Poll α)` and the model is total over all of them.
  `MAX_RETRY` is the constant extracted from the Rust source on every run (`Model/Consts.lean`).
-/
import NoirVerif.Model.Elem
import NoirVerif.Model.Consts
namespace Noir.ChannelSource

variable {α : Type}

/-- what one look at the channel finds: `Ok(t)` / `Err(Empty)` / `Err(Disconnected)` -/
inductive Poll (α : Type) where
  | ok (a : α)
  | empty
  | disc
  deriving Repr, DecidableEq

/-- `ChannelSource { terminated, retry_count }` plus the control location: `blocked` = inside the
    blocking `self.rx.recv()` of channel.rs:99. -/
structure St where
  terminated : Bool
  retry : Nat
  blocked : Bool
  deriving Repr, DecidableEq

def init : St := ⟨false, 0, false⟩

/-- What one observation leads to: `next()` returns an element, or the loop `continue`s (spin),
    or the operator enters the blocking `recv()` (block), or it keeps sleeping in it (wait). -/
inductive Ev (α : Type) where
  | ret (e : Elem α)
  | spin
  | block
  | wait
  deriving Repr, DecidableEq

/-- One observation, same branch order as the Rust `match result` (channel.rs:81-113). -/
def step (s : St) (p : Poll α) : St × Ev α :=
  if s.terminated then (s, .ret .term)                    -- :75 `if self.terminated` (no channel access)
  else if s.blocked then                                   -- inside `self.rx.recv()` (:99)
    match p with
    | .ok a => ({ s with blocked := false }, .ret (.item a))                 -- :100
    | .empty => (s, .wait)                                                    -- recv() keeps blocking
    | .disc => ({ s with blocked := false, terminated := true }, .ret .far)  -- :101-105
  else
    match p with
    | .ok a => ({ s with retry := 0 }, .ret (.item a))                        -- :82-85
    | .empty =>
      if s.retry < Consts.MAX_RETRY then ({ s with retry := s.retry + 1 }, .spin)            -- :86-90
      else if s.retry = Consts.MAX_RETRY then ({ s with retry := s.retry + 1 }, .ret .flushBatch) -- :91-95
      else ({ s with retry := 0, blocked := true }, .block)                    -- :96-99
    | .disc => ({ s with terminated := true }, .ret .far)                     -- :108-112

/-- all events of a sequence of observations, in order -/
def runFrom (s : St) : List (Poll α) → List (Ev α)
  | [] => []
  | p :: ps => (step s p).2 :: runFrom (step s p).1 ps

def stateAfter (s : St) : List (Poll α) → St
  | [] => s
  | p :: ps => stateAfter (step s p).1 ps

def run (ps : List (Poll α)) : List (Ev α) := runFrom init ps

/-! ### One `next()` call against a channel that does not change during the call
    (what the deterministic harness does). -/

/-- the channel as the harness drives it -/
structure Chan (α : Type) where
  queue : List α
  open_ : Bool
  deriving Repr

def Chan.poll (c : Chan α) : Poll α × Chan α :=
  match c.queue with
  | a :: q => (.ok a, { c with queue := q })
  | [] => if c.open_ then (.empty, c) else (.disc, c)

/-- result of one call: the element returned, or `none` = the call does not return (it sits in
    `recv()` on an empty open channel). Fuel `MAX_RETRY + 3` observations always suffice. -/
def nextGo : Nat → St → Chan α → St × Chan α × Option (Elem α)
  | 0, s, c => (s, c, none)
  | fuel + 1, s, c =>
    let (p, c') := c.poll
    match step s p with
    | (s', .ret e) => (s', c', some e)
    | (s', .spin) => nextGo fuel s' c'
    | (s', .block) => nextGo fuel s' c'
    | (s', .wait) => (s', c', none)

def next (s : St) (c : Chan α) : St × Chan α × Option (Elem α) := nextGo (Consts.MAX_RETRY + 3) s c

end Noir.ChannelSource
