/-
  Model/Zip.lean — `Zip::next` (src/operator/zip.rs:65-114) on top of the binary start
  (`Start<BinaryStartReceiver>`, src/operator/start/binary.rs:153-188 + src/operator/start/mod.rs:213-311).

  * `Zip.step` is the push form of the pull loop of `Zip::next`: the element pulled from the binary
    start is stashed (zip.rs:69-80) and then the tail of `next` (zip.rs:103-113: pop one element of
    each stash, pair them) is repeated while both stashes are non-empty. In the real code the loop
    `while stash1.is_empty() || stash2.is_empty()` is left as soon as both stashes are non-empty and
    the following call of `next` re-tests the condition before it pulls, so "pair while both are
    non-empty" yields exactly the element sequence of the pull form. (`Lemmas/Zip.lean`,
    `step_inv`: in every reachable state one of the stashes is empty, hence at most one pair per pulled
    element.)
  * `panic!("Unsupported mixing of timestamped and non-timestamped items")` (zip.rs:112) is the
    sticky flag `panicked`; a panicked operator yields nothing.
  * `Front` is the binary start as far as `Zip` sees it (no cached side: `Zip::new` is called with
    `left_cache = right_cache = false` unless one input comes from outside a loop): `process_side`
    puts `LeftEnd`/`RightEnd` before the last `FlushAndRestart` of a side, `Start::next`
    (`Noir.Start.step`) keeps the watermark frontier over all `nL + nR` upstream replicas and
    collapses the `FlushAndRestart`s / `Terminate`s.
  Import-free apart from other models.
-/
import NoirVerif.Model.Elem
import NoirVerif.Model.Start
import NoirVerif.Model.HashJoin
namespace Noir.Zip
open Noir.Join (Bin)

variable {α β : Type}

/-- `Zip { stash1, stash2 }` (zip.rs:14-20) + the panic flag -/
structure State (α β : Type) where
  stash1 : List (Elem α)
  stash2 : List (Elem β)
  panicked : Bool := false
  deriving Repr, DecidableEq

def State.init : State α β := ⟨[], [], false⟩

/-- the `match (item1, item2)` of zip.rs:105-113; `none` = `panic!` (mixing) -/
def pair : Elem α → Elem β → Option (Elem (α × β))
  | .item a, .item b => some (.item (a, b))
  | .ts a t, .ts b u => some (.ts (a, b) (max t u))
  | _, _ => none

/-- zip.rs:103-113 repeated while both stashes are non-empty -/
def drain : List (Elem α) → List (Elem β) → State α β × List (Elem (α × β))
  | x :: xs, y :: ys =>
    match pair x y with
    | some p => ((drain xs ys).1, p :: (drain xs ys).2)
    | none => (⟨xs, ys, true⟩, [])
  | xs, ys => (⟨xs, ys, false⟩, [])

/-- One element pulled from the binary start (zip.rs:67-101) and everything `next` returns before
    it pulls again. -/
def step (s : State α β) (e : Elem (Bin α β)) : State α β × List (Elem (α × β)) :=
  if s.panicked then (s, []) else
  match e with
  | .item (.left a) => drain (s.stash1 ++ [.item a]) s.stash2          -- zip.rs:69
  | .ts (.left a) t => drain (s.stash1 ++ [.ts a t]) s.stash2          -- zip.rs:72
  | .item (.right b) => drain s.stash1 (s.stash2 ++ [.item b])         -- zip.rs:75
  | .ts (.right b) t => drain s.stash1 (s.stash2 ++ [.ts b t])         -- zip.rs:78
  | .item _ => (s, [])                                                 -- zip.rs:82 LeftEnd | RightEnd
  | .ts _ _ => (s, [])
  | .wm t => (s, [.wm t])                                              -- zip.rs:88
  | .far => (⟨[], [], false⟩, [.far])                                  -- zip.rs:92-96
  | .flushBatch => (s, [.flushBatch])                                  -- zip.rs:98
  | .term => (s, [.term])

def run (s : State α β) : List (Elem (Bin α β)) → List (Elem (α × β))
  | [] => []
  | e :: es => (step s e).2 ++ run (step s e).1 es

def stateAfter (s : State α β) : List (Elem (Bin α β)) → State α β
  | [] => s
  | e :: es => stateAfter (step s e).1 es

/-! ### the two sides of a binary-start stream (specification vocabulary) -/

/-- the left side's data elements (payload unwrapped, timestamps kept), in arrival order -/
def lefts : List (Elem (Bin α β)) → List (Elem α)
  | [] => []
  | .item (.left a) :: es => .item a :: lefts es
  | .ts (.left a) t :: es => .ts a t :: lefts es
  | _ :: es => lefts es

/-- the right side's data elements, in arrival order -/
def rights : List (Elem (Bin α β)) → List (Elem β)
  | [] => []
  | .item (.right b) :: es => .item b :: rights es
  | .ts (.right b) t :: es => .ts b t :: rights es
  | _ :: es => rights es

/-- the payloads of the two sides, in arrival order -/
def leftVals (es : List (Elem (Bin α β))) : List α := (lefts es).filterMap Elem.value
def rightVals (es : List (Elem (Bin α β))) : List β := (rights es).filterMap Elem.value

/-- the data elements (the pairs) of an output -/
def dataOf {γ : Type} (out : List (Elem γ)) : List (Elem γ) := out.filter Elem.isData

/-- `pair` on a zipped position -/
def pairU (p : Elem α × Elem β) : Option (Elem (α × β)) := pair p.1 p.2

/-- no `FlushAndRestart` in the stream: one iteration's worth of input -/
def farFree {γ : Type} (es : List (Elem γ)) : Bool := es.all fun e => !e.isFar

/-! ### the binary start in front of `Zip` -/

/-- `BinaryStartReceiver` (both sides uncached) + the `Start` around it -/
structure Front where
  nL : Nat
  nR : Nat
  missL : Nat               -- left.missing_flush_and_restart
  missR : Nat
  start : Noir.Start.State
  deriving Repr, DecidableEq

def Front.init (nL nR : Nat) : Front := ⟨nL, nR, nL, nR, Noir.Start.init (nL + nR)⟩

/-- `Start::next` consuming the elements of one (mapped) batch of global sender `g` -/
def feed {γ : Type} (s : Noir.Start.State) (g : Nat) : List (Elem γ) → Noir.Start.State × List (Elem γ)
  | [] => (s, [])
  | e :: es =>
    ((feed (Noir.Start.step s (.elem g e)).1 g es).1,
     (Noir.Start.step s (.elem g e)).2 ++ (feed (Noir.Start.step s (.elem g e)).1 g es).2)

/-- One element `e` of a batch sent by replica `r` of the left (`isLeft`) or right block.
    `process_side` (binary.rs:160-180): the side's last `FlushAndRestart` is preceded by the end
    marker; `select` (binary.rs:219-227) re-arms both sides once both have ended; `Start::next`
    sees the mapped elements with the global replica index (`prev_replicas`, binary.rs:321-325:
    left replicas first). -/
def Front.stepElem {γ : Type} (f : Front) (isLeft : Bool) (r : Nat) (wrap : γ → Bin α β) (e : Elem γ) :
    Front × List (Elem (Bin α β)) :=
  let miss := if isLeft then f.missL else f.missR
  let miss' := if e.isFar then miss - 1 else miss
  let pre : List (Elem (Bin α β)) :=
    if e.isFar && miss' == 0 then [.item (if isLeft then .leftEnd else .rightEnd)] else []
  let mL := if isLeft then miss' else f.missL
  let mR := if isLeft then f.missR else miss'
  let rearm := mL == 0 && mR == 0
  let g := if isLeft then r else f.nL + r
  let fed := feed f.start g (pre ++ [e.map wrap])
  ({ f with missL := if rearm then f.nL else mL, missR := if rearm then f.nR else mR, start := fed.1 }, fed.2)

/-- a receive timeout of the `Start` (start/mod.rs:284-300): the fake `FlushBatch`, preceded by a
    pending frontier announcement (`pending_watermark`) if there is one -/
def Front.timeout (f : Front) : Front × List (Elem (Bin α β)) :=
  ({ f with start := (Noir.Start.step (α := Bin α β) f.start .timeout).1 },
   (Noir.Start.step (α := Bin α β) f.start .timeout).2)

/-- an arrival: side, replica, element -/
abbrev Arrival (γ : Type) := Bool × Nat × Elem γ

/-- the stream `Zip` pulls from the binary start for an arrival sequence (both payload types `γ`) -/
def Front.run {γ : Type} (f : Front) : List (Arrival γ) → List (Elem (Bin γ γ))
  | [] => []
  | (l, r, e) :: as =>
    (if l then f.stepElem (β := γ) true r Bin.left e else f.stepElem (α := γ) false r Bin.right e).2
      ++ Front.run (if l then f.stepElem (β := γ) true r Bin.left e else f.stepElem (α := γ) false r Bin.right e).1 as

/-- the data elements one side sent, in arrival order -/
def sideData {γ : Type} (left : Bool) (arr : List (Arrival γ)) : List (Elem γ) :=
  ((arr.filter fun p => p.1 == left).map (·.2.2)).filter Elem.isData

end Noir.Zip

/-! ### `merge` (src/operator/merge.rs:41-57): a binary start + `filter_map` dropping the end markers -/
namespace Noir.Merge
open Noir.Join

/-- the stream a binary start (no cached side) hands to `merge`'s `filter_map` for an arrival
    sequence `(isLeft, element)` — `BinStart.stepElem` of `Model/HashJoin.lean` -/
def front {γ : Type} (s : BinStart.State) : List (Bool × Elem γ) → List (Elem (Bin γ γ))
  | [] => []
  | (l, e) :: as =>
    (if l then BinStart.stepElem (β := γ) s true Bin.left e else BinStart.stepElem (α := γ) s false Bin.right e).2
      ++ front (if l then BinStart.stepElem (β := γ) s true Bin.left e else BinStart.stepElem (α := γ) s false Bin.right e).1 as

/-- the closure of `filter_map` (merge.rs:52-56) -/
def unwrap {γ : Type} : Bin γ γ → Option γ
  | .left a => some a
  | .right a => some a
  | _ => none

/-- the payloads `merge` emits, in order -/
def mergeVals {γ : Type} (out : List (Elem (Bin γ γ))) : List γ :=
  out.filterMap fun e => e.value.bind unwrap

/-- the payloads one side sent, in order -/
def sideVals {γ : Type} (left : Bool) (arr : List (Bool × Elem γ)) : List γ :=
  (arr.filter fun p => p.1 == left).filterMap fun p => p.2.value

end Noir.Merge
