/-
  Model/Fold.lean — `Fold::next` (src/operator/fold.rs:71-122) and `KeyedFold::next`
  (src/operator/keyed_fold.rs:120-179) as push-driven transducers over `Elem`.

  The Rust operators are pull based: `next()` pulls from `prev` until it sees `FlushAndRestart` /
  `Terminate` (`received_end`), then hands out, one per call, the accumulated result(s), the held
  back maximum watermark and finally the end marker itself. Between two upstream pulls nothing
  else happens, so the behaviour is the function "upstream element ↦ list of elements handed
  downstream before the next upstream pull" (`step`), and a run is the concatenation (`run`).

  The user function `F: Fn(&mut O, In)` is modelled by a pure `f : β → α → β`.
  Import-free apart from `Model/Elem.lean` (linked into the driver executable).
-/
import NoirVerif.Model.Elem
namespace Noir.Fold

variable {α β : Type}

/-- The mutable fields of `Fold` (fold.rs:18-22). `received_end && !received_end_iter` after a
    `Terminate` is `done`: every later `next()` returns `Terminate` without pulling (fold.rs:72,121). -/
structure State (β : Type) where
  accumulator : Option β
  timestamp : Option Int
  maxWatermark : Option Int
  done : Bool
  deriving Repr, DecidableEq

/-- `Fold::new` (fold.rs:45-56) -/
def State.init : State β := ⟨none, none, none, false⟩

/-- `Some(self.x.unwrap_or(ts).max(ts))` (fold.rs:80, 89) -/
def bump (o : Option Int) (t : Int) : Option Int := some (max (o.getD t) t)

/-- `if accumulator.is_none() { accumulator = Some(init.clone()) }; fold(acc, item)` (fold.rs:83-86) -/
def accumulate (f : β → α → β) (init : β) (acc : Option β) (a : α) : Option β :=
  some (f (acc.getD init) a)

/-- What the calls of `next()` following the end of an iteration hand out before the end marker
    (fold.rs:100-112): the accumulated value if there is one (timestamped iff a timestamp was
    recorded), then the maximum watermark if any was received. -/
def flush (st : State β) : List (Elem β) :=
  (match st.accumulator with
   | some acc => (match st.timestamp with
                  | some ts => [Elem.ts acc ts]
                  | none => [Elem.item acc])
   | none => []) ++
  (match st.maxWatermark with
   | some w => [Elem.wm w]
   | none => [])

/-- State after the flush: `accumulator.take()`, `timestamp.take()` *only if there was an
    accumulator* (fold.rs:101-102), `max_watermark.take()` (fold.rs:110). -/
def afterFlush (st : State β) (done : Bool) : State β :=
  ⟨none, if st.accumulator.isSome then none else st.timestamp, none, done⟩

/-- One upstream element (fold.rs:73-97) and everything `next()` returns before pulling again. -/
def step (f : β → α → β) (init : β) (st : State β) (e : Elem α) : State β × List (Elem β) :=
  if st.done then (st, []) else            -- `while !self.received_end` is never entered again
  match e with
  | .term => (afterFlush st true, flush st ++ [.term])                       -- fold.rs:74, 121
  | .far => (afterFlush st false, flush st ++ [.far])                        -- fold.rs:75-78, 115-119
  | .wm t => ({ st with maxWatermark := bump st.maxWatermark t }, [])        -- fold.rs:79-81
  | .item a => ({ st with accumulator := accumulate f init st.accumulator a }, [])   -- fold.rs:82-87
  | .ts a t => ({ st with timestamp := bump st.timestamp t,
                          accumulator := accumulate f init st.accumulator a }, [])   -- fold.rs:88-94
  | .flushBatch => (st, [])                                                  -- fold.rs:96

/-- run from a state: final state and everything emitted -/
def runFrom (f : β → α → β) (init : β) : State β → List (Elem α) → State β × List (Elem β)
  | st, [] => (st, [])
  | st, e :: es =>
    let r := step f init st e
    let r' := runFrom f init r.1 es
    (r'.1, r.2 ++ r'.2)

def run (f : β → α → β) (init : β) (es : List (Elem α)) : List (Elem β) :=
  (runFrom f init State.init es).2

/-- Outputs paired with the index of the upstream element whose pull produced them (what the
    harness observes through its pull-counting probe). -/
def runIdx (f : β → α → β) (init : β) : State β → Nat → List (Elem α) → List (Nat × Elem β)
  | _, _, [] => []
  | st, i, e :: es =>
    let r := step f init st e
    r.2.map (fun o => (i, o)) ++ runIdx f init r.1 (i + 1) es

/-! ### Specification vocabulary (independent of the transducer) -/

/-- payloads of the data elements, in order -/
def values (es : List (Elem α)) : List α := es.filterMap Elem.value

/-- maximum over a list of optional timestamps -/
def maxOpt : List Int → Option Int
  | [] => none
  | t :: ts => optMax (some t) (maxOpt ts)

/-- timestamps of the `Timestamped` elements -/
def dataTs (es : List (Elem α)) : List Int :=
  es.filterMap fun | .ts _ t => some t | _ => none

/-- timestamps of the `Watermark` elements -/
def wmTs (es : List (Elem α)) : List Int :=
  es.filterMap fun | .wm t => some t | _ => none

/-- a result element: timestamped iff there is a timestamp -/
def mk (v : β) : Option Int → Elem β
  | some t => .ts v t
  | none => .item v

/-- optional watermark element -/
def wmElem : Option Int → List (Elem β)
  | some w => [.wm w]
  | none => []

/-- an element that neither ends an iteration nor the stream -/
def isBody : Elem α → Bool
  | .far => false
  | .term => false
  | _ => true

end Noir.Fold

namespace Noir.KeyedFold
open Noir.Fold

variable {κ α β : Type}

/-- insert-or-update in an association list (the model of `HashMap::entry`); new keys are
    appended, so the list is in first-occurrence order — a canonical stand-in for the
    unspecified hash-map order (the drivers sort, the theorems quantify). -/
def upsert [DecidableEq κ] (l : List (κ × β)) (k : κ) (h : Option β → β) : List (κ × β) :=
  match l with
  | [] => [(k, h none)]
  | (k', v) :: rest => if k' = k then (k', h (some v)) :: rest else (k', v) :: upsert rest k h

def lookup [DecidableEq κ] (l : List (κ × β)) (k : κ) : Option β :=
  match l with
  | [] => none
  | (k', v) :: rest => if k' = k then some v else lookup rest k

/-- The mutable fields of `KeyedFold` (keyed_fold.rs:21-26). `ready` is always empty between two
    upstream pulls (it is filled and drained while `received_end` is set). -/
structure State (κ β : Type) where
  accumulators : List (κ × β)
  timestamps : List (κ × Int)
  maxWatermark : Option Int
  done : Bool
  deriving Repr, DecidableEq

def State.init : State κ β := ⟨[], [], none, false⟩

/-- `process_item` (keyed_fold.rs:89-104) -/
def processItem [DecidableEq κ] (f : β → α → β) (init : β) (accs : List (κ × β)) (k : κ) (v : α) :
    List (κ × β) :=
  upsert accs k (fun o => f (o.getD init) v)

/-- `timestamps.entry(k).and_modify(max).or_insert(ts)` (keyed_fold.rs:138-141) -/
def recordTs [DecidableEq κ] (tss : List (κ × Int)) (k : κ) (t : Int) : List (κ × Int) :=
  upsert tss k (fun o => max (o.getD t) t)

/-- `accumulators.drain().map(..)` then `ready.pop()` until empty, then the watermark
    (keyed_fold.rs:149-169). Order of the results: unspecified in Rust, insertion order here. -/
def flush [DecidableEq κ] (st : State κ β) : List (Elem (κ × β)) :=
  st.accumulators.map (fun kv => Fold.mk kv (lookup st.timestamps kv.1)) ++ Fold.wmElem st.maxWatermark

/-- `timestamps.remove(&key)` for every drained key (keyed_fold.rs:154) -/
def afterFlush [DecidableEq κ] (st : State κ β) (done : Bool) : State κ β :=
  ⟨[], st.timestamps.filter (fun p => (lookup st.accumulators p.1).isNone), none, done⟩

def step [DecidableEq κ] (f : β → α → β) (init : β) (st : State κ β) (e : Elem (κ × α)) :
    State κ β × List (Elem (κ × β)) :=
  if st.done then (st, []) else
  match e with
  | .term => (afterFlush st true, flush st ++ [.term])                       -- keyed_fold.rs:123, 178
  | .far => (afterFlush st false, flush st ++ [.far])                        -- keyed_fold.rs:124-127, 172-176
  | .wm t => ({ st with maxWatermark := bump st.maxWatermark t }, [])        -- keyed_fold.rs:128-130
  | .item kv => ({ st with accumulators := processItem f init st.accumulators kv.1 kv.2 }, [])  -- :131-134
  | .ts kv t => ({ st with accumulators := processItem f init st.accumulators kv.1 kv.2,
                           timestamps := recordTs st.timestamps kv.1 t }, [])                  -- :135-142
  | .flushBatch => (st, [])                                                  -- keyed_fold.rs:144

def runFrom [DecidableEq κ] (f : β → α → β) (init : β) :
    State κ β → List (Elem (κ × α)) → State κ β × List (Elem (κ × β))
  | st, [] => (st, [])
  | st, e :: es =>
    let r := step f init st e
    let r' := runFrom f init r.1 es
    (r'.1, r.2 ++ r'.2)

def run [DecidableEq κ] (f : β → α → β) (init : β) (es : List (Elem (κ × α))) : List (Elem (κ × β)) :=
  (runFrom f init State.init es).2

def runIdx [DecidableEq κ] (f : β → α → β) (init : β) :
    State κ β → Nat → List (Elem (κ × α)) → List (Nat × Elem (κ × β))
  | _, _, [] => []
  | st, i, e :: es =>
    let r := step f init st e
    r.2.map (fun o => (i, o)) ++ runIdx f init r.1 (i + 1) es

/-! ### Specification vocabulary -/

/-- the sub-stream of one key, keys stripped -/
def proj [DecidableEq κ] (k : κ) (es : List (Elem (κ × α))) : List (Elem α) :=
  es.filterMap fun
    | .item kv => if kv.1 = k then some (.item kv.2) else none
    | .ts kv t => if kv.1 = k then some (.ts kv.2 t) else none
    | _ => none

/-- the key occurs in a data element -/
def occurs [DecidableEq κ] (k : κ) (es : List (Elem (κ × α))) : Prop :=
  ∃ e ∈ es, ∃ kv, e.value = some kv ∧ kv.1 = k

/-- the result the property prescribes for key `k`: sequential fold over the key's
    sub-stream, stamped with its maximum timestamp -/
def resultFor [DecidableEq κ] (f : β → α → β) (init : β) (es : List (Elem (κ × α))) (k : κ) :
    Elem (κ × β) :=
  Fold.mk (k, (Fold.values (proj k es)).foldl f init) (Fold.maxOpt (Fold.dataTs (proj k es)))

end Noir.KeyedFold

namespace Noir.KeyedRichMap
open Noir.KeyedFold

variable {κ α β : Type}

/-- `RichMap::next` (src/operator/rich_map.rs:85-103) for a keyed stream whose stateful closure is
    a running fold `acc ← f acc v; emit acc` (the closure used by the harness; `rich_map` clones
    it once per key, rich_map.rs:92-98, so the per-key state is the accumulator). State:
    `maps_fn: HashMap<K, F>` (rich_map.rs:17) as an association list key ↦ accumulator.
    The map is NOT cleared at `FlushAndRestart`: the `clear()` is commented out (rich_map.rs:87-89). -/
def step [DecidableEq κ] (f : β → α → β) (init : β) (st : List (κ × β)) (e : Elem (κ × α)) :
    List (κ × β) × List (Elem (κ × β)) :=
  match e with
  | .item kv =>
    let st' := processItem f init st kv.1 kv.2
    (st', [.item (kv.1, (lookup st' kv.1).getD init)])
  | .ts kv t =>
    let st' := processItem f init st kv.1 kv.2
    (st', [.ts (kv.1, (lookup st' kv.1).getD init) t])
  | .wm t => (st, [.wm t])
  | .flushBatch => (st, [.flushBatch])
  | .far => (st, [.far])            -- rich_map.rs:87-89: `// self.maps_fn.clear();`
  | .term => (st, [.term])

def runFrom [DecidableEq κ] (f : β → α → β) (init : β) :
    List (κ × β) → List (Elem (κ × α)) → List (κ × β) × List (Elem (κ × β))
  | st, [] => (st, [])
  | st, e :: es =>
    let r := step f init st e
    let r' := runFrom f init r.1 es
    (r'.1, r.2 ++ r'.2)

def run [DecidableEq κ] (f : β → α → β) (init : β) (es : List (Elem (κ × α))) : List (Elem (κ × β)) :=
  (runFrom f init [] es).2

def runIdx [DecidableEq κ] (f : β → α → β) (init : β) :
    List (κ × β) → Nat → List (Elem (κ × α)) → List (Nat × Elem (κ × β))
  | _, _, [] => []
  | st, i, e :: es =>
    let r := step f init st e
    r.2.map (fun o => (i, o)) ++ runIdx f init r.1 (i + 1) es

/-! ### Specification vocabulary -/

/-- a single sequential run of the stateful closure (a running fold) over the sub-stream of ONE
    key: every data element is replaced by the state after folding it in -/
def seqRun (f : β → α → β) : β → List (Elem α) → List (Elem β)
  | _, [] => []
  | s, .item v :: rest => .item (f s v) :: seqRun f (f s v) rest
  | s, .ts v t :: rest => .ts (f s v) t :: seqRun f (f s v) rest
  | s, _ :: rest => seqRun f s rest

end Noir.KeyedRichMap
