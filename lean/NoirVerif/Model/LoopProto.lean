/-
  Model/LoopProto.lean — the distributed protocol of ONE loop (`replay`/`iterate`) as an abstract
  transition system (DESIGN.md §5 C10), plus a small executable two-level instance for nested loops.

  Participants (arbitrary finite index types):
  * hosts `h` with the per-host `IterationStateLock` (`syncs h` = number of `unlock`s, `locked h`;
    generation = 2·syncs + (1 if locked), Model/StateLock.lean) and the per-host state cell; `sidx h`
    is the index of the leader broadcast whose state the cell currently holds (0 = initial state);
  * loop-head replicas `r` (`Replay`/`Iterate`, replay.rs:170-200, iterate.rs:225-275) with
    `round r` = `FlushAndRestart`s emitted, `fb r` = feedback messages consumed, and a phase;
    `leaderOf h` is the local leader of host `h` (`select_leader`, state_handler.rs:60);
  * body replicas `b`: a block inside the loop behind a `Start` that holds this loop's lock
    (stream.rs:160): `fars b` = `FlushAndRestart`s emitted (`state_generation = 2·fars`),
    `passed b` = the first element after the last `FlushAndRestart` went through `wait_for_update`;
  * `IterationEnd` replicas `e` with `sent e` deltas (one per `FlushAndRestart`, iteration_end.rs:88-111);
  * the leader: `K` rounds completed (= broadcasts), `received` deltas of the running round
    (leader.rs:119-152); `got e` is a ghost counter of the deltas taken from `e`.
  Message delays are arbitrary: a feedback message `j` is "in flight" towards `r` while `fb r < j ≤ K`,
  a delta of `e` while `got e < sent e`; data is available to a body replica at any time (no guard),
  which only adds behaviours.
-/
import NoirVerif.Model.SeqLoop
namespace Noir.LoopProto

inductive Phase where
  /-- emitting the data of the current round (and, inside the head's block, evaluating the body) -/
  | emitting
  /-- `FlushAndRestart` sent, state locked, blocked in `wait_update` -/
  | waiting
  /-- feedback received (local leader: state cell written), waiting at the host barrier -/
  | atBarrier
  /-- the barrier opened; the local leader still has to `unlock` -/
  | released
  deriving DecidableEq, Repr

/-- static layout -/
structure Layout (Host Head Body End : Type) where
  hostOfHead : Head → Host
  hostOfBody : Body → Host
  leaderOf : Host → Head
  leader_host : ∀ h, hostOfHead (leaderOf h) = h
  /-- enumeration of the `IterationEnd` replicas; `n = ends.length` = `num_receivers` -/
  ends : List End
  ends_nodup : ends.Nodup
  ends_all : ∀ e, e ∈ ends

structure St (Host Head Body End : Type) where
  K : Nat
  received : Nat
  got : End → Nat
  sent : End → Nat
  fars : Body → Nat
  passed : Body → Bool
  round : Head → Nat
  phase : Head → Phase
  fb : Head → Nat
  syncs : Host → Nat
  locked : Host → Bool
  sidx : Host → Nat
  /-- ghost: number of openings of the host's barrier -/
  bar : Host → Nat

/-- point update -/
def upd {α β : Type} [DecidableEq α] (f : α → β) (a : α) (v : β) : α → β :=
  fun x => if x = a then v else f x

variable {Host Head Body End : Type} [DecidableEq Host] [DecidableEq Head] [DecidableEq Body] [DecidableEq End]

def init : St Host Head Body End :=
  { K := 0, received := 0, got := fun _ => 0, sent := fun _ => 0, fars := fun _ => 0,
    passed := fun _ => false, round := fun _ => 0, phase := fun _ => .emitting, fb := fun _ => 0,
    syncs := fun _ => 0, locked := fun _ => false, sidx := fun _ => 0, bar := fun _ => 0 }

/-- the transitions -/
inductive Step (L : Layout Host Head Body End) : St Host Head Body End → St Host Head Body End → Prop where
  /-- a head emits the `FlushAndRestart` of its round and locks the host's state
      (replay.rs:96-105, 178-182; iterate.rs:118-124, 140-144) -/
  | headFar (s) (r : Head) (h : s.phase r = .emitting) :
      Step L s { s with round := upd s.round r (s.round r + 1), phase := upd s.phase r .waiting,
                        locked := upd s.locked (L.hostOfHead r) true }
  /-- a body replica lets the first element after its last `FlushAndRestart` pass:
      `wait_for_update(state_generation)` returned, i.e. `2·fars ≤ generation` (start/mod.rs:272-279) -/
  | bodyPass (s) (b : Body) (h1 : s.passed b = false) (h2 : s.fars b ≤ s.syncs (L.hostOfBody b)) :
      Step L s { s with passed := upd s.passed b true }
  /-- a body replica emits a `FlushAndRestart`: all its producers sent theirs (start/mod.rs:222-231) -/
  | bodyFar (s) (b : Body) (h : ∀ r, s.fars b < s.round r) :
      Step L s { s with fars := upd s.fars b (s.fars b + 1), passed := upd s.passed b false }
  /-- an `IterationEnd` replica sees the `FlushAndRestart` of all its producers and sends its delta -/
  | endSend (s) (e : End) (h : ∀ b, s.sent e < s.fars b) :
      Step L s { s with sent := upd s.sent e (s.sent e + 1) }
  /-- the leader takes a delta out of its channel -/
  | leaderRecv (s) (e : End) (h1 : s.got e < s.sent e) (h2 : s.received < L.ends.length) :
      Step L s { s with got := upd s.got e (s.got e + 1), received := s.received + 1 }
  /-- `num_receivers` deltas received: new state computed, broadcast number `K + 1` sent (leader.rs:206-227) -/
  | leaderBroadcast (s) (h : s.received = L.ends.length) :
      Step L s { s with K := s.K + 1, received := 0 }
  /-- a waiting head receives the next feedback message; the local leader writes the state cell
      (state_handler.rs:108-121) -/
  | headRecv (s) (r : Head) (h1 : s.phase r = .waiting) (h2 : s.fb r < s.K) :
      Step L s { s with fb := upd s.fb r (s.fb r + 1), phase := upd s.phase r .atBarrier,
                        sidx := if r = L.leaderOf (L.hostOfHead r)
                                then upd s.sidx (L.hostOfHead r) (s.fb r + 1) else s.sidx }
  /-- all heads of a host are at the barrier: it opens (state_handler.rs:124-126) -/
  | barrier (s) (h : Host) (hall : ∀ r, L.hostOfHead r = h → s.phase r = .atBarrier) :
      Step L s { s with phase := fun r => if L.hostOfHead r = h then .released else s.phase r,
                        bar := upd s.bar h (s.bar h + 1) }
  /-- a released head goes on with the next round; the local leader unlocks first (state_handler.rs:128-131) -/
  | resume (s) (r : Head) (h : s.phase r = .released) :
      Step L s { s with phase := upd s.phase r .emitting,
                        syncs := if r = L.leaderOf (L.hostOfHead r)
                                 then upd s.syncs (L.hostOfHead r) (s.syncs (L.hostOfHead r) + 1) else s.syncs,
                        locked := if r = L.leaderOf (L.hostOfHead r)
                                  then upd s.locked (L.hostOfHead r) false else s.locked }

inductive Reachable (L : Layout Host Head Body End) : St Host Head Body End → Prop where
  | init : Reachable L init
  | step {s s'} : Reachable L s → Step L s s' → Reachable L s'

/-! ## The data-carrying refinement

`LoopProto` above is data-free. Here the same transitions additionally move the data of a `replay`
loop: the per-host state cell holds a VALUE, a body replica records the value it reads when it lets
the first element of a round pass, at its `FlushAndRestart` it has computed
`foldl localFold delta0 (body stateRead part)` (its `IterationEnd` sends exactly that),
the leader folds the deltas in arrival order, applies `loop_condition` and broadcasts the new value.
`IterationEnd` replica `e` is chained to body replica `bodyOf e` (same block, iteration_end.rs);
`part b` is the replica's share of the replayed input (the same in every round, `Replay` refeeds it).
The loop is unbounded here (the leader always continues); termination is `leader_round` /
`loop_seq`. Simplification: a body replica takes part in every round (it reads the state before its
`FlushAndRestart`); a replica without data sends `delta0` whatever it would have read. -/

structure DataCfg (Body End σ δ α : Type) where
  loop : SeqLoop.Loop σ δ α
  bodyOf : End → Body
  part : Body → List α

/-- the delta of body replica `b` when it evaluates the body against `S` -/
def DataCfg.dval {Body End σ δ α : Type} (D : DataCfg Body End σ δ α) (b : Body) (S : σ) : δ :=
  (D.loop.body S (D.part b)).foldl D.loop.localFold D.loop.delta0

structure DSt (Host Head Body End σ δ : Type) where
  base : St Host Head Body End
  /-- the per-host state cell (`IterationStateRef`) -/
  cell : Host → σ
  /-- the value a body replica read when it let the round's first element pass -/
  readSt : Body → σ
  /-- the delta the replica's local fold produced at its last `FlushAndRestart` -/
  dlast : Body → δ
  /-- delta in flight from an `IterationEnd` replica to the leader -/
  dq : End → Option δ
  /-- the leader's `state` -/
  lstate : σ
  /-- ghost: the replicas whose delta the leader has folded in the running round, newest first -/
  recvd : List End
  /-- ghost: `hist j` = the value carried by broadcast number `j` (0: the initial state) -/
  hist : Nat → σ

section Data
variable {σ δ α : Type}

def dinit (D : DataCfg Body End σ δ α) : DSt Host Head Body End σ δ :=
  { base := init, cell := fun _ => D.loop.init, readSt := fun _ => D.loop.init,
    dlast := fun _ => D.loop.delta0, dq := fun _ => none, lstate := D.loop.init, recvd := [],
    hist := fun _ => D.loop.init }

/-- the transitions of `Step` with the data they move -/
inductive DStep (L : Layout Host Head Body End) (D : DataCfg Body End σ δ α) :
    DSt Host Head Body End σ δ → DSt Host Head Body End σ δ → Prop where
  | headFar (s) (b') (r : Head) (h : s.base.phase r = .emitting)
      (hb : b' = { s.base with round := upd s.base.round r (s.base.round r + 1), phase := upd s.base.phase r .waiting,
                               locked := upd s.base.locked (L.hostOfHead r) true }) :
      DStep L D s { s with base := b' }
  /-- the state handle is read (`state.get()`): the host's cell -/
  | bodyPass (s) (b') (b : Body) (h1 : s.base.passed b = false) (h2 : s.base.fars b ≤ s.base.syncs (L.hostOfBody b))
      (hb : b' = { s.base with passed := upd s.base.passed b true }) :
      DStep L D s { s with base := b', readSt := upd s.readSt b (s.cell (L.hostOfBody b)) }
  /-- end of the replica's round: the local fold has reduced `body stateRead part` -/
  | bodyFar (s) (b') (b : Body) (h : ∀ r, s.base.fars b < s.base.round r) (hp : s.base.passed b = true)
      (hb : b' = { s.base with fars := upd s.base.fars b (s.base.fars b + 1), passed := upd s.base.passed b false }) :
      DStep L D s { s with base := b', dlast := upd s.dlast b (D.dval b (s.readSt b)) }
  | endSend (s) (b') (e : End) (h : ∀ b, s.base.sent e < s.base.fars b)
      (hb : b' = { s.base with sent := upd s.base.sent e (s.base.sent e + 1) }) :
      DStep L D s { s with base := b', dq := upd s.dq e (some (s.dlast (D.bodyOf e))) }
  /-- `global_fold(state, delta)` in arrival order -/
  | leaderRecv (s) (b') (e : End) (d : δ) (h1 : s.base.got e < s.base.sent e) (h2 : s.base.received < L.ends.length)
      (hd : s.dq e = some d)
      (hb : b' = { s.base with got := upd s.base.got e (s.base.got e + 1), received := s.base.received + 1 }) :
      DStep L D s { s with base := b', dq := upd s.dq e none, lstate := D.loop.global s.lstate d,
                           recvd := e :: s.recvd }
  /-- `loop_condition(&mut state)`, broadcast of the new state -/
  | leaderBroadcast (s) (b') (h : s.base.received = L.ends.length)
      (hb : b' = { s.base with K := s.base.K + 1, received := 0 }) :
      DStep L D s { s with base := b', lstate := (D.loop.cond s.lstate).2, recvd := [],
                           hist := upd s.hist (s.base.K + 1) (D.loop.cond s.lstate).2 }
  /-- the local leader writes the received value into the cell -/
  | headRecv (s) (b') (r : Head) (h1 : s.base.phase r = .waiting) (h2 : s.base.fb r < s.base.K)
      (hb : b' = { s.base with fb := upd s.base.fb r (s.base.fb r + 1), phase := upd s.base.phase r Phase.atBarrier,
                               sidx := (if r = L.leaderOf (L.hostOfHead r)
                                then upd s.base.sidx (L.hostOfHead r) (s.base.fb r + 1) else s.base.sidx) }) :
      DStep L D s { s with base := b',
                           cell := if r = L.leaderOf (L.hostOfHead r)
                                   then upd s.cell (L.hostOfHead r) (s.hist (s.base.fb r + 1)) else s.cell }
  | barrier (s) (b') (h : Host) (hall : ∀ r, L.hostOfHead r = h → s.base.phase r = .atBarrier)
      (hb : b' = { s.base with phase := fun r => if L.hostOfHead r = h then .released else s.base.phase r,
                               bar := upd s.base.bar h (s.base.bar h + 1) }) :
      DStep L D s { s with base := b' }
  | resume (s) (b') (r : Head) (h : s.base.phase r = .released)
      (hb : b' = { s.base with phase := upd s.base.phase r .emitting,
                               syncs := (if r = L.leaderOf (L.hostOfHead r)
                                 then upd s.base.syncs (L.hostOfHead r) (s.base.syncs (L.hostOfHead r) + 1) else s.base.syncs),
                               locked := (if r = L.leaderOf (L.hostOfHead r)
                                  then upd s.base.locked (L.hostOfHead r) false else s.base.locked) }) :
      DStep L D s { s with base := b' }

inductive DReachable (L : Layout Host Head Body End) (D : DataCfg Body End σ δ α) :
    DSt Host Head Body End σ δ → Prop where
  | init : DReachable L D (dinit D)
  | step {s s'} : DReachable L D s → DStep L D s s' → DReachable L D s'

/-- the sequential states: `seqS 0` = initial state, `seqS (k+1)` = `loop_condition` applied to the
    global fold of the replicas' local folds of the body evaluated against `seqS k`
    (`SeqLoop.foldRound`, the parts being the replicas' shares in the order `L.ends`) -/
def seqS (L : Layout Host Head Body End) (D : DataCfg Body End σ δ α) : Nat → σ
  | 0 => D.loop.init
  | k + 1 =>
    (D.loop.cond (SeqLoop.foldRound D.loop (seqS L D k)
      (L.ends.map fun e => D.loop.body (seqS L D k) (D.part (D.bodyOf e))))).2

end Data

/-! ## Nested loops: a small executable two-level instance (F9)

Two hosts; on each host ONE thread runs the block that contains the outer `Replay` chained with the
inner `Replay` (no shuffle between them) and is the local leader of both loops; on each host one
replica of the inner body sits behind a shuffle: its `Start` holds only the INNER loop's lock
(`iteration_ctx.last()`, stream.rs:160). The inner loop runs `innerRounds` rounds per outer round.
The inner/outer `IterationEnd`s and leaders are merged into "all inner-body replicas emitted the
`FlushAndRestart`". Executable (`exec`), so concrete schedules are checked by `decide`. -/
namespace Nested

/-- the head thread of a host -/
inductive HPhase where
  /-- emitting the data of (outer round `ko`, inner round `ki`) -/
  | emit
  /-- inner `FlushAndRestart` sent, waiting for the inner leader's feedback -/
  | waitInner
  /-- inner loop finished; the outer `Replay` waits for the outer leader's feedback -/
  | waitOuter
  deriving DecidableEq, Repr

structure HostSt where
  phase : HPhase
  ko : Nat          -- outer round the head is in
  ki : Nat          -- inner round within it
  innerFars : Nat   -- inner FlushAndRestarts emitted by the head (all outer rounds together)
  ifb : Nat         -- inner feedback messages consumed
  ofb : Nat         -- outer feedback messages consumed
  iSyncs : Nat      -- unlocks of the inner lock on this host
  oIdx : Nat        -- index of the outer broadcast held by the host's OUTER state cell
  -- the inner-body replica of this host
  bFars : Nat
  bPassed : Bool
  /-- ghost: outer round of the data whose first element was let through -/
  bTag : Nat
  /-- ghost: a stale read of the outer state happened (`oIdx ≠` outer round of the data) -/
  stale : Bool
  deriving DecidableEq, Repr

structure NSt where
  hosts : List HostSt
  iK : Nat          -- inner leader: broadcasts so far
  oK : Nat          -- outer leader: broadcasts so far
  deriving DecidableEq, Repr

inductive Act where
  | headFar (h : Nat)
  | bodyPass (h : Nat) (src : Nat)   -- first element of the new inner round, produced by host `src`'s head
  | bodyFar (h : Nat)
  | innerBroadcast
  | outerBroadcast
  | headRecvInner (h : Nat)
  | headRecvOuter (h : Nat)
  deriving DecidableEq, Repr

def hostInit : HostSt := ⟨.emit, 0, 0, 0, 0, 0, 0, 0, 0, false, 0, false⟩
def ninit (H : Nat) : NSt := ⟨List.replicate H hostInit, 0, 0⟩

def setHost (s : NSt) (h : Nat) (x : HostSt) : NSt := { s with hosts := s.hosts.set h x }

/-- one guarded transition (`none` = not enabled); `I` = inner rounds per outer round (≥ 1);
    `fixed = true` models the candidate fix: the body `Start` also waits for the OUTER lock -/
def step (I : Nat) (fixed : Bool) (s : NSt) : Act → Option NSt
  | .headFar h => do
    let x ← s.hosts[h]?
    if x.phase = .emit then some (setHost s h { x with phase := .waitInner, innerFars := x.innerFars + 1 }) else none
  | .bodyPass h src => do
    let x ← s.hosts[h]?
    let p ← s.hosts[src]?
    -- data of the body's next inner round exists at `src`, and the INNER lock lets it pass
    if x.bPassed = false ∧ p.phase = .emit ∧ p.innerFars = x.bFars ∧ x.bFars ≤ x.iSyncs
        ∧ (fixed = false ∨ p.ko ≤ x.ofb) then
      some (setHost s h { x with bPassed := true, bTag := p.ko, stale := x.stale || decide (x.oIdx ≠ p.ko) })
    else none
  | .bodyFar h => do
    let x ← s.hosts[h]?
    if s.hosts.all (fun p => decide (x.bFars < p.innerFars)) then
      some (setHost s h { x with bFars := x.bFars + 1, bPassed := false }) else none
  | .innerBroadcast =>
    if s.hosts.all (fun x => decide (s.iK < x.bFars)) then some { s with iK := s.iK + 1 } else none
  | .outerBroadcast =>
    -- the inner loop of outer round `oK + 1` has finished: `I·(oK+1)` inner broadcasts
    if I * (s.oK + 1) ≤ s.iK then some { s with oK := s.oK + 1 } else none
  | .headRecvInner h => do
    let x ← s.hosts[h]?
    if x.phase = .waitInner ∧ x.ifb < s.iK then
      -- inner state written, inner lock unlocked; continue or finish the inner loop
      if x.ki + 1 < I then
        some (setHost s h { x with ifb := x.ifb + 1, iSyncs := x.iSyncs + 1, ki := x.ki + 1, phase := .emit })
      else
        some (setHost s h { x with ifb := x.ifb + 1, iSyncs := x.iSyncs + 1, ki := 0, phase := .waitOuter })
    else none
  | .headRecvOuter h => do
    let x ← s.hosts[h]?
    if x.phase = .waitOuter ∧ x.ofb < s.oK then
      some (setHost s h { x with ofb := x.ofb + 1, oIdx := x.ofb + 1, ko := x.ko + 1, phase := .emit })
    else none

def exec (I : Nat) (fixed : Bool) : NSt → List Act → Option NSt
  | s, [] => some s
  | s, a :: as => match step I fixed s a with
    | some s' => exec I fixed s' as
    | none => none

def anyStale (s : NSt) : Bool := s.hosts.any (·.stale)

/-- The F9 schedule (2 hosts, 1 inner round per outer round): both hosts run outer round 0; host 0
    receives the inner and the outer feedback and starts outer round 1; host 1 has only received the
    inner feedback when its inner-body replica accepts host 0's first element of outer round 1. -/
def f9Schedule : List Act :=
  [.bodyPass 0 0, .bodyPass 1 0, .headFar 0, .headFar 1, .bodyFar 0, .bodyFar 1,
   .innerBroadcast, .outerBroadcast,
   .headRecvInner 0, .headRecvOuter 0,     -- host 0 is in outer round 1
   .headRecvInner 1,                       -- host 1: inner lock released, OUTER feedback still in flight
   .bodyPass 1 0]                          -- host 1's inner body accepts host 0's data of outer round 1

end Nested

end Noir.LoopProto
