/-
  Model/NetSim.lean — C04 layer 2: an executable small-step model of a whole acyclic job made of
  *unary* blocks (every non-source block has exactly one upstream block; a block may have several
  downstream blocks — split / fan-out). Every replica of every block is a process; the scheduler is
  an arbitrary sequence of process ids.

  What a replica process does (src/worker.rs: pull the chain until `Terminate`):

  * a SOURCE replica emits its finite input, then `FlushAndRestart`, then `Terminate`
    (`script = input ++ [far, term]`);
  * any other replica RECEIVES one element from its input channel (blocks while it is empty) and
    runs `Noir.Start.step` on it (src/operator/start/mod.rs:213-300, `n = replicas (prev b)`);
  * the operator chain of the block is the identity (see "simplifications");
  * `End::next` (src/operator/end.rs:190-217) turns every element that reaches the end of the chain
    into SENDS: a data element goes to ONE replica of every downstream block (chosen by an arbitrary
    routing oracle `route`, `index % len` as in end.rs:212), `Watermark` / `FlushAndRestart` /
    `Terminate` go to EVERY replica of every downstream block, `FlushBatch` to nobody. The sends
    are done one at a time, block by block, replica by replica, each one BLOCKING while the target
    channel is full (bounded flume channel, src/network/network_channel.rs);
  * a replica finishes after it has forwarded `Terminate` (a sink: after it has consumed it —
    src/operator/sink/collect_vec.rs publishes its result at `Terminate`; `published` counts that).

  Channels: one bounded FIFO of capacity `cap` per (consumer replica, upstream block) endpoint,
  shared by all replicas of the upstream block (multi-producer / single-consumer). As every block is
  unary a channel is identified by its consumer `(b, r)`.

  Simplifications (stated in Props/C04Sim.lean as well):
  * unary blocks only: fan-in of several blocks into one (binary start: join / merge / zip) is out
    of scope (the binary start temporarily refuses one side — assumption A4 of layer 1);
  * batch mode `Single`: a message is one stream element tagged with the sender replica. Batching
    only groups consecutive elements of one link into one message and is covered by C02;
  * the chain is the identity: a stateless chain preserves the stream grammar element by element;
    stateful operators only add or remove data elements between the markers — out of scope here;
  * no receive timeouts (they only make `Start` produce `FlushBatch`, which `End` sends to nobody);
  * no loops (C10), the job graph is a forest of blocks in topological order (`prev b < b`).

  Import-free apart from the other models.
-/
import NoirVerif.Model.Consts
import NoirVerif.Model.Elem
import NoirVerif.Model.Net
import NoirVerif.Model.Start
namespace Noir.NetSim

/-- A job: `nblocks` blocks `0 … nblocks-1` in topological order. -/
structure Job where
  nblocks : Nat
  /-- number of replicas of block `b` -/
  replicas : Nat → Nat
  /-- the only upstream block of `b`; `none` = `b` is a source -/
  prev : Nat → Option Nat
  /-- what replica `r` of the source block `b` emits before `FlushAndRestart`, `Terminate` -/
  input : Nat → Nat → List (Elem Nat)
  /-- capacity of every channel (`CHANNEL_CAPACITY`) -/
  cap : Nat := Consts.CHANNEL_CAPACITY
  /-- routing oracle: `route b r c e k` = the index `NextStrategy::index` yields when replica
      `(b, r)` sends its `k`-th element `e` towards block `c` (taken modulo `replicas c`) -/
  route : Nat → Nat → Nat → Elem Nat → Nat → Nat

/-- the static well-formedness of a job -/
structure Job.WF (j : Job) : Prop where
  cap_pos : 0 < j.cap
  /-- every block has at least one replica -/
  rep_pos : ∀ b, b < j.nblocks → 1 ≤ j.replicas b
  /-- topological order -/
  topo : ∀ b p, b < j.nblocks → j.prev b = some p → p < b
  /-- a source emits `Terminate` only at the very end (real sources emit items, timestamped items
      and watermarks only) -/
  input_ok : ∀ b r e, e ∈ j.input b r → e ≠ Elem.term

/-- `(b, r)` is a replica of the job -/
def Job.valid (j : Job) (b r : Nat) : Prop := b < j.nblocks ∧ r < j.replicas b

instance (j : Job) (b r : Nat) : Decidable (j.valid b r) := by unfold Job.valid; infer_instance

/-- the downstream blocks of `b`, ascending (`block_senders` of its `End`) -/
def Job.next (j : Job) (b : Nat) : List Nat :=
  (List.range j.nblocks).filter fun c => j.prev c == some b

/-- a message in a channel: one element tagged with the sending replica -/
structure Msg where
  sender : Nat
  elem : Elem Nat
  deriving Repr, DecidableEq

/-- a pending `enqueue` of an `End`: target replica `(blk, rep)` and element -/
structure Send where
  blk : Nat
  rep : Nat
  elem : Elem Nat
  deriving Repr, DecidableEq

/-- `End::next` (end.rs:190-217) for the `k`-th element `e` of replica `(b, r)`. -/
def sendsOf (j : Job) (b r k : Nat) (e : Elem Nat) : List Send :=
  match e with
  | .item _ | .ts _ _ =>
    (j.next b).map fun c => ⟨c, j.route b r c e k % j.replicas c, e⟩
  | .wm _ | .far | .term =>
    (j.next b).flatMap fun c => (List.range (j.replicas c)).map fun i => ⟨c, i, e⟩
  | .flushBatch => []

/-- the state of one replica process -/
structure Proc where
  /-- sources: what is still to be emitted -/
  script : List (Elem Nat)
  /-- the `Start` of a non-source block -/
  start : Start.State
  /-- the sends `End::next` still has to do for the current element, in order -/
  pending : List Send
  /-- number of elements handed to the chain so far -/
  clock : Nat
  /-- ghost: the elements handed to the chain (what the `Start` / source yielded), in order;
      for a sink: what it consumed -/
  log : List (Elem Nat)
  /-- number of `Terminate`s that reached the end of the chain (sink: times it published) -/
  published : Nat
  deriving Repr

structure State where
  proc : Nat → Nat → Proc
  chan : Nat → Nat → List Msg

/-- pointwise update -/
def set2 {β : Type} (f : Nat → Nat → β) (b r : Nat) (v : β) : Nat → Nat → β :=
  fun b' r' => if b' = b ∧ r' = r then v else f b' r'

def initProc (j : Job) (b r : Nat) : Proc :=
  { script := match j.prev b with
      | none => j.input b r ++ [.far, .term]
      | some _ => []
    start := match j.prev b with
      | none => Start.init 0
      | some pb => Start.init (j.replicas pb)
    pending := [], clock := 0, log := [], published := 0 }

def init (j : Job) : State := { proc := initProc j, chan := fun _ _ => [] }

/-- the replica has pulled `Terminate` out of its source / `Start` -/
def done (j : Job) (b : Nat) (p : Proc) : Bool :=
  match j.prev b with
  | none => p.script.isEmpty
  | some _ => p.start.missingTerm == 0

/-- the elements `outs` reach the end of the chain of replica `(b, r)` -/
def emit (j : Job) (b r : Nat) (p : Proc) (outs : List (Elem Nat)) : Proc :=
  { p with
    pending := outs.flatMap (sendsOf j b r p.clock)
    clock := p.clock + outs.length
    log := p.log ++ outs
    published := p.published + outs.countP Elem.isTerm }

/-- One scheduler slot given to replica `(b, r)`. A blocked or finished replica does nothing. -/
def step (j : Job) (s : State) (b r : Nat) : State :=
  if j.valid b r then
    let p := s.proc b r
    match p.pending with
    | sd :: rest =>
      -- blocking send of the next pending element
      if (s.chan sd.blk sd.rep).length < j.cap then
        { proc := set2 s.proc b r { p with pending := rest }
          chan := set2 s.chan sd.blk sd.rep (s.chan sd.blk sd.rep ++ [⟨r, sd.elem⟩]) }
      else s
    | [] =>
      if done j b p then s else
      match j.prev b with
      | none =>
        match p.script with
        | [] => s
        | e :: es => { s with proc := set2 s.proc b r (emit j b r { p with script := es } [e]) }
      | some _ =>
        match s.chan b r with
        | [] => s
        | m :: ms =>
          let res := Start.step p.start (.elem m.sender m.elem)
          { proc := set2 s.proc b r (emit j b r { p with start := res.1 } res.2)
            chan := set2 s.chan b r ms }
  else s

/-- `R`: an upper bound of all replica counts; process `(b, r)` is the layer-1 process
    `b * R + r`, and so is its input channel -/
def maxRep (j : Job) : Nat := (List.range j.nblocks).foldl (fun m b => max m (j.replicas b)) 0

def pid (j : Job) (b r : Nat) : Nat := b * maxRep j + r

/-- the layer-1 status of replica `(b, r)` -/
def status (j : Job) (s : State) (b r : Nat) : Net.Status :=
  let p := s.proc b r
  match p.pending with
  | sd :: _ =>
    if (s.chan sd.blk sd.rep).length < j.cap then .runnable else .sendBlocked (pid j sd.blk sd.rep)
  | [] =>
    if done j b p then .finished else
    match j.prev b with
    | none => .runnable
    | some _ => if (s.chan b r).isEmpty then .recvBlocked [pid j b r] else .runnable

/-- a slot given to `(b, r)` is a real step -/
def enabled (j : Job) (s : State) (b r : Nat) : Prop := j.valid b r ∧ status j s b r = .runnable

instance (j : Job) (s : State) (b r : Nat) : Decidable (enabled j s b r) := by
  unfold enabled; infer_instance

/-- every replica has finished -/
def final (j : Job) (s : State) : Prop := ∀ b r, j.valid b r → status j s b r = .finished

def finalB (j : Job) (s : State) : Bool :=
  (List.range j.nblocks).all fun b => (List.range (j.replicas b)).all fun r =>
    status j s b r == .finished

/-- run a schedule -/
def run (j : Job) (s : State) (sched : List (Nat × Nat)) : State :=
  sched.foldl (fun s p => step j s p.1 p.2) s

/-- number of real steps of a schedule -/
def realSteps (j : Job) : State → List (Nat × Nat) → Nat
  | _, [] => 0
  | s, p :: rest => (if enabled j s p.1 p.2 then 1 else 0) + realSteps j (step j s p.1 p.2) rest

/-- the states an execution can reach -/
inductive Reachable (j : Job) : State → Prop where
  | init : Reachable j (init j)
  | step {s : State} (b r : Nat) : Reachable j s → Reachable j (step j s b r)

/-- The layer-1 configuration of a state. Processes `b * R + r` with `r ≥ replicas b` are padding
    (finished, no channels). Channel `ch` is the input channel of process `ch`. -/
def toConfig (j : Job) (s : State) : Net.Config where
  nproc := j.nblocks * maxRep j
  status := fun p =>
    if p % maxRep j < j.replicas (p / maxRep j) then status j s (p / maxRep j) (p % maxRep j)
    else .finished
  len := fun ch => (s.chan (ch / maxRep j) (ch % maxRep j)).length
  cap := fun _ => j.cap
  consumer := fun ch => ch
  producers := fun ch =>
    if j.valid (ch / maxRep j) (ch % maxRep j) then
      match j.prev (ch / maxRep j) with
      | some pb => (List.range (j.replicas pb)).map (pid j pb)
      | none => []
    else []
  rank := fun p => p / maxRep j

/-! ## observations used by the theorems and the examples -/

/-- the data elements of a list -/
def dataOf (l : List (Elem Nat)) : List (Elem Nat) := l.filter Elem.isData

/-- everything the replicas of block `b` handed to their chains -/
def blockLog (j : Job) (s : State) (b : Nat) : List (Elem Nat) :=
  (List.range (j.replicas b)).flatMap fun r => (s.proc b r).log

/-- round-robin schedule: `k` rounds over all replicas -/
def allPids (j : Job) : List (Nat × Nat) :=
  (List.range j.nblocks).flatMap fun b => (List.range (j.replicas b)).map fun r => (b, r)

def roundRobin (j : Job) (k : Nat) : List (Nat × Nat) := (List.replicate k (allPids j)).flatten

end Noir.NetSim
