/-
  Model/Reorder.lean — `Reorder::next` (src/operator/reorder.rs:107-146) as a push-driven
  transducer over `Elem`.

  `next()` pulls while `!received_end && last_watermark.is_none()`. A watermark sets
  `last_watermark` and (stably, glidesort) sorts the buffer; the following calls pop the buffer
  front while `front.timestamp <= w`, then return the watermark itself and clear
  `last_watermark`. A `FlushAndRestart` sorts, the following calls pop everything and then return
  the `FlushAndRestart`. Nothing is pulled in between, so `last_watermark` / `received_end` are
  only set *during* such a drain and the state between two upstream pulls is the buffer alone.
-/
import NoirVerif.Model.Elem
namespace Noir.Reorder

variable {α : Type}

/-- `TimestampedItem { item, timestamp }` (reorder.rs:10-13), ordered by timestamp only -/
abbrev TItem (α : Type) := α × Int

/-- stable insertion (an element goes before the first strictly later one *after* it was
    compared with all earlier arrivals — see `sort`) -/
def insert (x : TItem α) : List (TItem α) → List (TItem α)
  | [] => [x]
  | y :: ys => if x.2 ≤ y.2 then x :: y :: ys else y :: insert x ys

/-- stable sort by timestamp (`glidesort::sort_with_vec`, reorder.rs:116, 121): elements with equal
    timestamps keep their arrival order -/
def sort : List (TItem α) → List (TItem α)
  | [] => []
  | x :: xs => insert x (sort xs)

def emit (x : TItem α) : Elem α := .ts x.1 x.2

/-- One upstream element and everything `next()` returns before pulling again. -/
def step (buf : List (TItem α)) (e : Elem α) : List (TItem α) × List (Elem α) :=
  match e with
  | .item a => (buf, [.item a])                                   -- reorder.rs:110 (not buffered)
  | .ts a t => (buf ++ [(a, t)], [])                              -- reorder.rs:111-113
  | .wm w =>                                                      -- reorder.rs:114-117, 127-134
    let s := sort buf
    (s.dropWhile (fun x => decide (x.2 ≤ w)), (s.takeWhile (fun x => decide (x.2 ≤ w))).map emit ++ [.wm w])
  | .flushBatch => (buf, [.flushBatch])                           -- reorder.rs:118
  | .far => ([], (sort buf).map emit ++ [.far])                   -- reorder.rs:119-122, 137-144
  | .term => (buf, [.term])                                       -- reorder.rs:123 (buffer NOT flushed)

def runFrom : List (TItem α) → List (Elem α) → List (TItem α) × List (Elem α)
  | buf, [] => (buf, [])
  | buf, e :: es =>
    let r := step buf e
    let r' := runFrom r.1 es
    (r'.1, r.2 ++ r'.2)

def run (es : List (Elem α)) : List (Elem α) := (runFrom [] es).2

/-- outputs paired with the index of the upstream element whose pull produced them -/
def runIdx : List (TItem α) → Nat → List (Elem α) → List (Nat × Elem α)
  | _, _, [] => []
  | buf, i, e :: es =>
    let r := step buf e
    r.2.map (fun o => (i, o)) ++ runIdx r.1 (i + 1) es

/-- timestamps carried by a trace (data and watermarks), in order -/
def stamps (es : List (Elem α)) : List Int := es.filterMap Elem.timestamp

end Noir.Reorder
