/-
  Model/LoopCycleMulti.lean — C04, the DATA PHASE of one round of an `iterate` loop with SEVERAL
  replicas coupled by a shuffle inside the body (finding F18). Companion of Model/LoopCycle.lean
  (one replica: the cycle cannot jam for non-expanding bodies); here the cycles of the replicas
  share channels and it can.

      Iterate r ──(End, shuffle: element x goes to replica `route x mod reps`)──► chanB r'
      chanB r' ──► body block r' (non-expanding: the identity) ──► chanF r' ──► Iterate r'.feedback_receiver

  * `Iterate r` (src/operator/iteration/iterate.rs:232-249): while its `End` holds an element
    (`hold r`) it does ONE blocking send into the input channel of the TARGET replica's body block
    — a channel shared by all `Iterate` replicas (multi-producer, src/operator/end.rs:210-216);
    otherwise `next()`: drain its OWN feedback channel `chanF r` into `fb r`, then take the next
    element of the round.
  * body block `r'`: receive one element from `chanB r'`, send it (blocking) into `chanF r'`.

  Simplifications: the body block and the feedback block of a replica are ONE process (the real
  cycle has one more block and channel per replica — more buffer, the same wait-for graph); one
  channel slot = one batch = one element; the round's `FlushAndRestart`, the leader and later
  rounds are not modelled: the deadlock of F18 is reached inside the data phase of a round. Every
  replica behaves exactly as the single replica of Model/LoopCycle.lean (in particular it DRAINS in
  front of every `next()`).

  Import-free.
-/
namespace Noir.LoopCycleMulti

structure Cfg where
  cap : Nat
  reps : Nat
  /-- `NextStrategy::index` of an element (taken modulo `reps`) -/
  route : Nat → Nat
  /-- what replica `r` has to emit in this round -/
  input : Nat → List Nat

structure State where
  toEmit : Nat → List Nat
  /-- the element the `End` of `Iterate r` is sending -/
  hold : Nat → Option Nat
  /-- input channel of body block `r` (shared by all `Iterate` replicas) -/
  chanB : Nat → List Nat
  /-- the element body block `r` has received and is sending on -/
  bpend : Nat → Option Nat
  /-- feedback channel into `Iterate r` -/
  chanF : Nat → List Nat
  /-- `feedback_content` of `Iterate r` -/
  fb : Nat → List Nat

inductive Ev where
  | iter (r : Nat)
  | body (r : Nat)
  deriving Repr, DecidableEq

def setF {β : Type} (g : Nat → β) (i : Nat) (v : β) : Nat → β := fun j => if j = i then v else g j

def init (c : Cfg) : State where
  toEmit := c.input
  hold := fun _ => none
  chanB := fun _ => []
  bpend := fun _ => none
  chanF := fun _ => []
  fb := fun _ => []

def step (c : Cfg) (s : State) : Ev → State
  | .iter r =>
    if r < c.reps then
      match s.hold r with
      | some x =>
        let t := c.route x % c.reps
        if (s.chanB t).length < c.cap then
          { s with hold := setF s.hold r none, chanB := setF s.chanB t (s.chanB t ++ [x]) }
        else s   -- blocked in the send: NO drain
      | none =>
        -- `next()`: the drain first (iterate.rs:235-237) …
        let s1 := { s with fb := setF s.fb r (s.fb r ++ s.chanF r), chanF := setF s.chanF r [] }
        -- … then the next element of the round
        match s.toEmit r with
        | x :: rest => { s1 with toEmit := setF s.toEmit r rest, hold := setF s.hold r (some x) }
        | [] => s1
    else s
  | .body r =>
    if r < c.reps then
      match s.bpend r with
      | some x =>
        if (s.chanF r).length < c.cap then
          { s with bpend := setF s.bpend r none, chanF := setF s.chanF r (s.chanF r ++ [x]) }
        else s
      | none =>
        match s.chanB r with
        | x :: rest => { s with chanB := setF s.chanB r rest, bpend := setF s.bpend r (some x) }
        | [] => s
    else s

def enabledB (c : Cfg) (s : State) : Ev → Bool
  | .iter r =>
    decide (r < c.reps) &&
      (match s.hold r with
       | some x => decide ((s.chanB (c.route x % c.reps)).length < c.cap)
       | none => !(s.toEmit r).isEmpty || !(s.chanF r).isEmpty)
  | .body r =>
    decide (r < c.reps) &&
      (match s.bpend r with
       | some _ => decide ((s.chanF r).length < c.cap)
       | none => !(s.chanB r).isEmpty)

def enabled (c : Cfg) (s : State) (e : Ev) : Prop := enabledB c s e = true

/-- everything has been emitted, has travelled the cycle and has been drained -/
def finalB (c : Cfg) (s : State) : Bool :=
  (List.range c.reps).all fun r =>
    (s.toEmit r).isEmpty && (s.hold r).isNone && (s.chanB r).isEmpty && (s.bpend r).isNone &&
      (s.chanF r).isEmpty

def events (c : Cfg) : List Ev :=
  (List.range c.reps).map Ev.iter ++ (List.range c.reps).map Ev.body

def stuck (c : Cfg) (s : State) : Bool := (events c).all fun e => !enabledB c s e

def run (c : Cfg) (s : State) (sched : List Ev) : State := sched.foldl (step c) s

inductive Reachable (c : Cfg) : State → Prop where
  | init : Reachable c (init c)
  | step {s : State} (e : Ev) : Reachable c s → Reachable c (step c s e)

end Noir.LoopCycleMulti
