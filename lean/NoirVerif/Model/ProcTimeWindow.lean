/-
  Model/ProcTimeWindow.lean — `ProcessingTimeWindowManager::process`
  (src/operator/window/descr/processing_time.rs:47-89).

  The wall clock is an explicit argument: `now : Nat` is the value (nanoseconds since an arbitrary base)
  `Instant::now()` returns in the call (processing_time.rs:49); the theorems quantify over
  non-decreasing clock sequences (`Instant` is monotone). `Duration`s are `Nat` nanoseconds.
  The accumulator is the free accumulator (list of processed elements), as in Model/CountWindow.
  The `VecDeque` is a `List` (front = head, back = last).
-/
import NoirVerif.Model.Elem
namespace Noir.ProcTimeWindow

variable {α : Type}

/-- `Slot<A>` (processing_time.rs:19): accumulator (free), `start`, `end` (here `stop`), `active`. -/
structure Slot (α : Type) where
  items : List α
  start : Nat
  stop : Nat
  active : Bool
  deriving Repr, DecidableEq

/-- `Slot::new(init.clone(), start, end)`: `active = false` -/
def Slot.new (start stop : Nat) : Slot α := ⟨[], start, stop, false⟩

/-- `w.acc.process(item.clone()); w.active = true` -/
def Slot.add (s : Slot α) (x : α) : Slot α := ⟨s.items ++ [x], s.start, s.stop, true⟩

/-- `size`, `slide` in nanoseconds (both `> 0` is asserted by the constructors, lines 102-103/109). -/
structure Cfg where
  size : Nat
  slide : Nat
  deriving Repr

/-- `while self.ws.back().map(|b| b.start < now).unwrap_or(true) { push_back(next) }` (lines 55-62)
    with `next_start = back.start + slide`, or `now` for an empty deque. The loop runs at most
    `now + 2` times when `slide ≥ 1` (`grow_fuel_enough` / `grow_spec` in Lemmas/TimeWindows, restated as
    `ptwin_deque_sorted` in Props/C14); `fuel` makes the
    recursion structural. With `slide = 0` the Rust loop would not terminate (excluded by the assert). -/
def growLoop (c : Cfg) (now : Nat) : Nat → List (Slot α) → List (Slot α)
  | 0, ws => ws
  | fuel + 1, ws =>
    match ws.getLast? with
    | none => growLoop c now fuel (ws ++ [Slot.new now (now + c.size)])
    | some b =>
      if b.start < now then
        growLoop c now fuel (ws ++ [Slot.new (b.start + c.slide) (b.start + c.slide + c.size)])
      else ws

def grow (c : Cfg) (now : Nat) (ws : List (Slot α)) : List (Slot α) := growLoop c now (now + 2) ws

/-- `.take_while(|w| w.start <= now).for_each(add)` (lines 66-70) -/
def markTake (now : Nat) (x : α) : List (Slot α) → List (Slot α)
  | [] => []
  | s :: ws => if s.start ≤ now then s.add x :: markTake now x ws else s :: ws

/-- `.iter_mut().skip_while(|w| w.end <= now)` (line 65), then `markTake` -/
def mark (now : Nat) (x : α) : List (Slot α) → List (Slot α)
  | [] => []
  | s :: ws => if s.stop ≤ now then s :: mark now x ws else markTake now x (s :: ws)

/-- lines 83-88: `split = partition_point(|w| w.end < now)`, `drain(..split).filter(active).map(output)`.
    The deque is sorted by `end` (`Lemmas/TimeWindows: Chain`), so the partition point is the length
    of the longest prefix with `end < now`. -/
def drainOld (now : Nat) (ws : List (Slot α)) : List (Slot α) × List (List α) :=
  (ws.dropWhile (fun w => w.stop < now),
   ((ws.takeWhile (fun w => w.stop < now)).filter (·.active)).map (·.items))

/-- lines 72-79: `drain(..).filter(active).map(output)` -/
def drainAll (ws : List (Slot α)) : List (Slot α) × List (List α) :=
  ([], (ws.filter (·.active)).map (·.items))

/-- data branch, lines 53-71 then 83-88 -/
def processItem (c : Cfg) (ws : List (Slot α)) (now : Nat) (x : α) : List (Slot α) × List (List α) :=
  drainOld now (mark now x (grow c now ws))

/-- `WindowManager::process` with the clock value read in this call. -/
def process (c : Cfg) (ws : List (Slot α)) (now : Nat) : Elem α → List (Slot α) × List (List α)
  | .item x => processItem c ws now x
  | .ts x _ => processItem c ws now x
  | .far | .term => drainAll ws
  | _ => drainOld now ws           -- FlushBatch / Watermark: `_ => {}` then lines 83-88

/-- Run over timed ops `(now, element)`; every result is paired with the index of the op that emitted it. -/
def runFrom (c : Cfg) : List (Slot α) → Nat → List (Nat × Elem α) → List (Nat × List α)
  | _, _, [] => []
  | ws, i, (now, e) :: es =>
    let r := process c ws now e
    r.2.map (fun o => (i, o)) ++ runFrom c r.1 (i + 1) es

def run (c : Cfg) (es : List (Nat × Elem α)) : List (Nat × List α) := runFrom c [] 0 es

/-- state after a run -/
def stateAfter (c : Cfg) : List (Slot α) → List (Nat × Elem α) → List (Slot α)
  | ws, [] => ws
  | ws, (now, e) :: es => stateAfter c (process c ws now e).1 es

/-- results only, in emission order -/
def outputs (c : Cfg) : List (Slot α) → List (Nat × Elem α) → List (List α)
  | _, [] => []
  | ws, (now, e) :: es => (process c ws now e).2 ++ outputs c (process c ws now e).1 es

end Noir.ProcTimeWindow
