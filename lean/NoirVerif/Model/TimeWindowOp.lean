/-
  Model/TimeWindowOp.lean — the keyed dispatch loop of `WindowOperator::next`
  (src/operator/window/mod.rs:173-221) for window managers that read the wall clock
  (`SessionWindowManager`, `ProcessingTimeWindowManager`): a clock-threaded variant of
  Model/WindowOp.lean.

  Every `process` call of a manager reads `Instant::now()` itself. An input element of the operator
  therefore comes with the readings `now : κ → Nat`: `now k` is what the manager of key `k` reads if it
  is called for this element (a data element calls only the manager of its key, mod.rs:181-196; a
  Watermark / FlushAndRestart / Terminate calls every manager in turn, mod.rs:198-218, each with its
  own reading; FlushBatch calls none, mod.rs:197). The harness freezes the clock per pulled element,
  i.e. uses constant functions; the theorems only assume that the readings *of one key* are
  non-decreasing.

  Both managers use the default `recycle() = false` (mod.rs:75), so managers are never dropped, and
  all their results are `WindowResult::Item`. `KeyedWindowManager::windows` (a `HashMap`) is an
  association list in insertion order; what depends on the iteration order (the order of the results
  of different keys for ONE control element) is canonicalised by the driver and quantified away by
  the per-key theorems.
-/
import NoirVerif.Model.SessionWindow
import NoirVerif.Model.ProcTimeWindow
namespace Noir.TimeWindowOp

/-- a clock-reading window manager: `init` (cloned for every new key) and `process` -/
structure TMgr (σ α β : Type) where
  init : σ
  step : σ → Nat → Elem α → σ × List β

variable {κ σ α β : Type}

/-- `windows.entry(key).or_insert_with(|| init.clone())` then `mgr.process(el)` (mod.rs:185-191) -/
def upsert [DecidableEq κ] (m : TMgr σ α β) (k : κ) (now : Nat) (e : Elem α) :
    List (κ × σ) → List (κ × σ) × List β
  | [] => let r := m.step m.init now e; ([(k, r.1)], r.2)
  | (k', s) :: rest =>
    if k' = k then let r := m.step s now e; ((k', r.1) :: rest, r.2)
    else let r := upsert m k now e rest; ((k', s) :: r.1, r.2)

/-- `windows.retain(|key, mgr| { let ret = mgr.process(el.clone()); buffer.extend(ret…); true })`
    (mod.rs:201-208, `recycle` is constantly false) -/
def broadcast (m : TMgr σ α β) (now : κ → Nat) (e : Elem α) :
    List (κ × σ) → List (κ × σ) × List (Elem (κ × β))
  | [] => ([], [])
  | (k, s) :: rest =>
    let r := m.step s (now k) e
    let rr := broadcast m now e rest
    ((k, r.1) :: rr.1, r.2.map (fun v => Elem.item (k, v)) ++ rr.2)

/-- one input element pulled from `prev` → new map and the elements returned by `next` until the
    next pull (results first, then the forwarded control element) -/
def step [DecidableEq κ] (m : TMgr σ α β) (ws : List (κ × σ)) (now : κ → Nat) :
    Elem (κ × α) → List (κ × σ) × List (Elem (κ × β))
  | .item (k, x) =>
    let r := upsert m k (now k) (.item x) ws
    (r.1, r.2.map (fun v => Elem.item (k, v)))
  | .ts (k, x) t =>
    let r := upsert m k (now k) (.ts x t) ws
    (r.1, r.2.map (fun v => Elem.item (k, v)))
  | .flushBatch => (ws, [.flushBatch])
  | .wm w => let r := broadcast m now (.wm w) ws; (r.1, r.2 ++ [.wm w])
  | .term => let r := broadcast m now .term ws; (r.1, r.2 ++ [.term])
  | .far => let r := broadcast m now .far ws; (r.1, r.2 ++ [.far])

/-- outputs per input element (the unit inside which the hash-map order shows) -/
def runUnits [DecidableEq κ] (m : TMgr σ α β) :
    List (κ × σ) → List ((κ → Nat) × Elem (κ × α)) → List (List (Elem (κ × β)))
  | _, [] => []
  | ws, (now, e) :: es => (step m ws now e).2 :: runUnits m (step m ws now e).1 es

def stateAfter [DecidableEq κ] (m : TMgr σ α β) :
    List (κ × σ) → List ((κ → Nat) × Elem (κ × α)) → List (κ × σ)
  | ws, [] => ws
  | ws, (now, e) :: es => stateAfter m (step m ws now e).1 es

/-- the output stream of the operator -/
def run [DecidableEq κ] (m : TMgr σ α β) (es : List ((κ → Nat) × Elem (κ × α))) : List (Elem (κ × β)) :=
  (runUnits m [] es).flatten

/-! ### the two managers -/

/-- `SessionWindow::new(gap).build(acc)` with the free accumulator -/
def sessionMgr (α : Type) (gap : Nat) : TMgr (SessionWindow.State α) α (List α) where
  init := none
  step := fun w now e => let r := SessionWindow.process gap w now e; (r.1, r.2.toList)

/-- `ProcessingTimeWindow::sliding(size, slide).build(acc)` with the free accumulator -/
def ptwinMgr (α : Type) (c : ProcTimeWindow.Cfg) : TMgr (List (ProcTimeWindow.Slot α)) α (List α) where
  init := []
  step := fun ws now e => ProcTimeWindow.process c ws now e

end Noir.TimeWindowOp
