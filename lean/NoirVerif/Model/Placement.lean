/-
  Model/Placement.lean — from (job graph, host list) to the execution graph (C19).

  * `Replication::{intersect, clamp}`                       src/block/mod.rs:130-147
  * `Scheduler::{local_block_info, remote_block_info}`      src/scheduler.rs:375-472
  * `Scheduler::build_execution_graph`                      src/scheduler.rs:275-299
  * `NetworkTopology::{connect, build}` (port assignment)   src/network/topology.rs:435-532
  * the part of the `Stream` API that creates blocks and job-graph edges
    (`split_block`, `binary_connection`, `clone_block`, `iterate`)   src/stream.rs:136-277,
    src/environment.rs:126-165, src/operator/mod.rs, src/operator/iteration/iterate.rs:364-538

  The model is a function of the job graph and of the host list. It does NOT take `host_id`:
  every host computes the same value (`graph_independent_of_host_id` holds by construction; the
  correspondence check compares the dump of every host of the real code with this one value).
  Every `HashMap`/`HashSet`/`IndexSet` of the Rust code is replaced by a sorted list; the dump
  hook of the real code (`Scheduler::verif_graph`) sorts in the same way.

  Import-free (core Lean only): linked into `noir_model`.
-/
namespace Noir.Placement

/-! ## Replication (src/block/mod.rs:96-147) -/

/-- `enum Replication` -/
inductive Replication where
  | unlimited
  | limited (n : Nat)
  | host
  | one
  deriving Repr, DecidableEq, Inhabited

/-- `Replication::intersect` (block/mod.rs:130), same arm order. -/
def Replication.intersect : Replication → Replication → Replication
  | .one, _ => .one
  | _, .one => .one
  | .host, _ => .host
  | _, .host => .host
  | .limited n, .limited m => .limited (min n m)
  | .limited n, _ => .limited n
  | _, .limited n => .limited n
  | .unlimited, .unlimited => .unlimited

/-- `Replication::clamp` (block/mod.rs:140). -/
def Replication.clamp : Replication → Nat → Nat
  | .unlimited, n => n
  | .limited q, n => min n q
  | .host, _ => 1
  | .one, _ => 1

/-! ## Coordinates (src/network/mod.rs:56-100); `derive(Ord)` = lexicographic in field order -/

/-- `Coord { block_id, host_id, replica_id }` -/
structure Coord where
  block : Nat
  host : Nat
  replica : Nat
  deriving Repr, DecidableEq, Inhabited

/-- lexicographic order on lists of naturals: the image of every derived `Ord` used below -/
def lexLe : List Nat → List Nat → Bool
  | [], _ => true
  | _ :: _, [] => false
  | a :: as, b :: bs => a < b || (a == b && lexLe as bs)

def Coord.key (c : Coord) : List Nat := [c.block, c.host, c.replica]

/-- an execution-graph link `(from, to, fragile)` (one entry of `NetworkTopology::next`) -/
structure Link where
  src : Coord
  dst : Coord
  fragile : Bool
  deriving Repr, DecidableEq, Inhabited

def Link.key (l : Link) : List Nat := l.src.key ++ l.dst.key ++ [if l.fragile then 1 else 0]

/-- `DemuxCoord { coord: BlockCoord { block_id, host_id }, prev_block_id }` -/
structure Demux where
  block : Nat
  host : Nat
  prev : Nat
  deriving Repr, DecidableEq, Inhabited

def Demux.key (d : Demux) : List Nat := [d.block, d.host, d.prev]

/-- `DemuxCoord::new(from, to)` (network/mod.rs:160) -/
def demuxOf (l : Link) : Demux := ⟨l.dst.block, l.dst.host, l.src.block⟩

/-! ## Configuration (src/config.rs:106-151) -/

/-- `HostConfig`: the address is an opaque name (a number here), `base_port`, `num_cores`. -/
structure Host where
  addr : Nat
  basePort : Nat
  cores : Nat
  deriving Repr, DecidableEq, Inhabited

/-- `RuntimeConfig` without `host_id` -/
inductive Config where
  | loc (parallelism : Nat)
  | remote (hosts : List Host)
  deriving Repr, Inhabited

/-! ## Job graph -/

/-- what the scheduler knows of a block when it is scheduled -/
structure Block where
  id : Nat
  repl : Replication
  onlyOne : Bool
  deriving Repr, DecidableEq, Inhabited

/-- `connect_blocks` / `connect_blocks_fragile` (the `TypeId` is irrelevant to the shape) -/
structure Edge where
  src : Nat
  dst : Nat
  fragile : Bool
  deriving Repr, DecidableEq, Inhabited

structure Job where
  blocks : List Block
  edges : List Edge
  deriving Repr, Inhabited

/-! ## Block placement (scheduler.rs:375-472) -/

/-- `Replication::Limited(mut remaining)` arm: `n = remaining.min(num_cores); remaining -= n`. -/
def limitedCounts : Nat → List Host → List Nat
  | _, [] => []
  | remaining, h :: hs =>
    let n := min remaining h.cores
    n :: limitedCounts (remaining - n) hs

/-- Number of replicas per host: entry `i` is the `$n` of `add_replicas!(i, _, $n)`; hosts without
    an entry never got an `add_replicas!` call (only possible for `One`).
    `One` on an empty host list: `remote.hosts[0]` panics (index out of bounds); we return `[1]`. -/
def remoteCounts (hosts : List Host) : Replication → List Nat
  | .unlimited => hosts.map (·.cores)
  | .limited n => limitedCounts n hosts
  | .host => hosts.map (fun _ => 1)
  | .one => [1]

/-- `local_block_info`: one host (id 0) with `replication.clamp(parallelism)` replicas. -/
def counts : Config → Replication → List Nat
  | .loc p, r => [r.clamp p]
  | .remote hosts, r => remoteCounts hosts r

/-- the coordinates created host by host, `for replica_id in 0..n`, starting at host `h` -/
def replicasFrom (b : Nat) : Nat → List Nat → List Coord
  | _, [] => []
  | h, n :: ns => (List.range n).map (fun r => (⟨b, h, r⟩ : Coord)) ++ replicasFrom b (h + 1) ns

/-- `SchedulerBlockInfo` (`replicas` as per-host counts, `is_only_one_strategy`) -/
structure BlockInfo where
  id : Nat
  counts : List Nat
  onlyOne : Bool
  deriving Repr, DecidableEq, Inhabited

/-- all replicas in creation order; the position in this list is the `global_id`
    (`global_counter` is incremented at every push, scheduler.rs:436; `r` itself locally) -/
def BlockInfo.replicas (bi : BlockInfo) : List Coord := replicasFrom bi.id 0 bi.counts

/-- `global_ids[&coord]` -/
def BlockInfo.globalId (bi : BlockInfo) (c : Coord) : Nat := bi.replicas.idxOf c

def blockInfo (cfg : Config) (b : Block) : BlockInfo := ⟨b.id, counts cfg b.repl, b.onlyOne⟩

/-! ## Execution graph (scheduler.rs:275-316)

  History: before commit 3deb123 ("fix: forward connections never leave a producer replica without
  a consumer") there was no `orphan` branch: a producer replica of an `OnlyOne` link without a
  same-(host, replica) consumer, towards a block with more than one replica, got NO consumer and
  its output was silently dropped by `End` (finding F4; witness: 4 local cores,
  `Unlimited → Limited(3)`, producer replica `(0,0,3)`; the real job lost 25 of 100 elements). -/

/-- the test deciding whether `from_coord → to_coord` is connected in the inner loop -/
def connects (fromOnlyOne fragile : Bool) (toLen : Nat) (f t : Coord) : Bool :=
  if fromOnlyOne || fragile then
    toLen == 1 || (t.host == f.host && t.replica == f.replica)
  else true

/-- `orphan` (scheduler.rs:286-292): a non-fragile `OnlyOne` producer replica without
    same-(host, replica) consumer, towards a block with more than one replica -/
def orphan (fromOnlyOne fragile : Bool) (tos : List Coord) (f : Coord) : Bool :=
  fromOnlyOne && !fragile && decide (tos.length > 1) &&
    !tos.any (fun t => t.host == f.host && t.replica == f.replica)

/-- The consumers of producer replica `f` on one job-graph edge, in `connect` order: first the
    fallback of an orphan, `sorted[global_ids[from_coord] % sorted.len()]`, then the inner loop.
    `sorted` is `to.replicas`: the model builds it in coordinate order already
    (`Lemmas/Placement.replicas_sorted`). -/
def consumers (from_ to : BlockInfo) (fragile : Bool) (f : Coord) : List Coord :=
  (if orphan from_.onlyOne fragile to.replicas f then
    match to.replicas[from_.globalId f % to.replicas.length]? with
    | some t => [t]
    | none => []
   else []) ++
  to.replicas.filter (connects from_.onlyOne fragile to.replicas.length f)

/-- the producers of consumer replica `t` on one job-graph edge -/
def producers (from_ to : BlockInfo) (fragile : Bool) (t : Coord) : List Coord :=
  from_.replicas.filter (fun f => (consumers from_ to fragile f).contains t)

/-- all links of one job-graph edge -/
def edgeLinks (from_ to : BlockInfo) (fragile : Bool) : List Link :=
  from_.replicas.flatMap fun f => (consumers from_ to fragile f).map fun t => ⟨f, t, fragile⟩

def findInfo (infos : List BlockInfo) (id : Nat) : Option BlockInfo := infos.find? (·.id == id)

/-- `self.block_info[&id]` panics for a block that was never scheduled; we produce no link. -/
def allLinks (infos : List BlockInfo) (edges : List Edge) : List Link :=
  edges.flatMap fun e =>
    match findInfo infos e.src, findInfo infos e.dst with
    | some f, some t => edgeLinks f t e.fragile
    | _, _ => []

def sortLinks (ls : List Link) : List Link := ls.mergeSort (fun a b => lexLe a.key b.key)

/-! ## Demultiplexer addresses (topology.rs:503-532) -/

/-- duplicates removed (`IndexSet::insert`) -/
def dedup {α : Type} [DecidableEq α] : List α → List α
  | [] => []
  | a :: l => if a ∈ l then dedup l else a :: dedup l

/-- `coords.sort()` of the set of `DemuxCoord::new(from, to)` over all links -/
def demuxCoords (links : List Link) : List Demux :=
  (dedup (links.map demuxOf)).mergeSort (fun a b => lexLe a.key b.key)

structure Address where
  demux : Demux
  addr : Nat
  port : Nat
  deriving Repr, DecidableEq, Inhabited

/-- The loop of `build`: `used` is `used_ports` (`entry(host).or_default()` = 0).
    `config.hosts[host_id]` cannot be out of bounds for coordinates made by `remoteCounts`
    (except `One` on an empty list, which panicked before); `base_port + offset` is `u16`
    arithmetic and panics on overflow in debug builds: `base_port + #endpoints ≤ 65535` is a
    configuration precondition. -/
def assignPorts (hosts : List Host) : (Nat → Nat) → List Demux → List Address
  | _, [] => []
  | used, d :: ds =>
    let host := hosts[d.host]?.getD default
    ⟨d, host.addr, host.basePort + used d.host⟩ ::
      assignPorts hosts (fun h => if h = d.host then used h + 1 else used h) ds

/-- `build` returns immediately for a local configuration -/
def addresses (cfg : Config) (links : List Link) : List Address :=
  match cfg with
  | .loc _ => []
  | .remote hosts => assignPorts hosts (fun _ => 0) (demuxCoords links)

/-! ## The whole dump -/

structure Dump where
  blocks : List BlockInfo
  links : List Link
  addrs : List Address
  deriving Repr, DecidableEq, Inhabited

/-- `Scheduler::verif_graph` on any host -/
def executionGraph (cfg : Config) (job : Job) : Dump :=
  let infos := (job.blocks.map (blockInfo cfg)).mergeSort (fun a b => a.id ≤ b.id)
  let links := allLinks infos job.edges
  ⟨infos, sortLinks links, addresses cfg links⟩

/-- F8 well-formedness: every consumer replica has at least one producer on each input edge
    (otherwise worker setup panics: "Channel for endpoint … not registered"). -/
def wellFormed (d : Dump) (edges : List Edge) : Bool :=
  edges.all fun e =>
    match findInfo d.blocks e.src, findInfo d.blocks e.dst with
    | some f, some t => t.replicas.all fun tc => !(producers f t e.fragile tc).isEmpty
    | _, _ => false

/-! ## From a program (sequence of `Stream` API calls) to the job graph -/

/-- One call inside a loop body `|s, _| s.….…` (the body works on one stream). -/
inductive BodyOp where
  /-- `map`: no block -/
  | noop
  /-- `shuffle` / `group_by`: `split_block` with a non-`OnlyOne` strategy -/
  | exchange
  /-- a nested `replay` with the identity body (its state stream continues the outer body) -/
  | replay
  deriving Repr, DecidableEq, Inhabited

/-- The API calls that create blocks. Streams are named by numbers chosen by the caller. -/
inductive Op where
  /-- `ctx.stream(source)` with `source.replication() = r` -/
  | source (out : Nat) (r : Replication)
  /-- `shuffle` / `group_by` / `broadcast`: `split_block` with a non-`OnlyOne` strategy -/
  | exchange (s out : Nat)
  /-- `replication(r)`: `split_block(OnlyOne)` + `scheduling.replication(r)` -/
  | replication (s out : Nat) (r : Replication)
  /-- `split(outs.length)`: the last stream is the new block, the others are its clones -/
  | split (s : Nat) (outs : List Nat)
  /-- `merge`: `binary_connection(OnlyOne, OnlyOne)` -/
  | merge (a b out : Nat)
  /-- `zip`: the same + `scheduling.replication(One)` -/
  | zip (a b out : Nat)
  /-- `join` with `ship_hash`: `binary_connection(GroupBy, GroupBy)` -/
  | join (a b out : Nat)
  /-- `join_with(..).ship_broadcast_right()`: `binary_connection(OnlyOne, All)` -/
  | bjoin (a b out : Nat)
  /-- `for_each`: `finalize_block` -/
  | sinkEach (s : Nat)
  /-- `collect_vec`: `replication(One)` + `finalize_block` -/
  | sinkVec (s : Nat)
  /-- `iterate` with the given loop body; outputs (state stream, items stream) -/
  | iterate (s outState outItems : Nat) (body : List BodyOp)
  /-- `replay` with the given loop body (no nested `replay` inside); output = the state stream -/
  | replay (s out : Nat) (body : List BodyOp)
  deriving Repr, Inhabited

/-- an open stream: its current (not yet scheduled) block and `block.scheduling.replication` -/
structure OpenStream where
  name : Nat
  block : Nat
  repl : Replication
  deriving Repr, Inhabited

structure Builder where
  /-- `block_count` -/
  next : Nat := 0
  streams : List OpenStream := []
  blocks : List Block := []
  edges : List Edge := []
  /-- first panic raised by the API, if any -/
  panic : Option String := none
  deriving Repr, Inhabited

namespace Builder

def find (b : Builder) (s : Nat) : Option OpenStream := b.streams.find? (·.name == s)

def remove (b : Builder) (s : Nat) : Builder := { b with streams := b.streams.filter (·.name != s) }

def fresh (b : Builder) (s : Nat) : Bool := (b.find s).isNone

/-- `split_block` (stream.rs:136): schedule the old block, create the next one (`Start`:
    `Replication::Unlimited`), connect. Returns the new block id. -/
def splitBlock (b : Builder) (st : OpenStream) (onlyOne : Bool) : Builder × Nat :=
  let newId := b.next
  ({ b with next := b.next + 1,
            blocks := b.blocks ++ [⟨st.block, st.repl, onlyOne⟩],
            edges := b.edges ++ [⟨st.block, newId, false⟩] }, newId)

/-- `binary_connection` (stream.rs:180) -/
def binary (b : Builder) (x y : OpenStream) (one1 one2 : Bool) (out : Nat)
    (post : Replication → Replication) : Builder :=
  if one1 && one2 && x.repl != y.repl then
    { b with panic := some "panic:other:the_parallelism_of_the_2_blocks_coming_i" }
  else
    let newId := b.next
    let repl := if one1 then x.repl else if one2 then y.repl else Replication.unlimited
    { b with next := b.next + 1,
             blocks := b.blocks ++ [⟨x.block, x.repl, one1⟩, ⟨y.block, y.repl, one2⟩],
             edges := b.edges ++ [⟨x.block, newId, false⟩, ⟨y.block, newId, false⟩],
             streams := ((b.remove x.name).remove y.name).streams ++ [⟨out, newId, post repl⟩] }

/-- `clone_block` (environment.rs:152): new id, same scheduling, same previous blocks. -/
def cloneBlock (b : Builder) (blk : Nat) (repl : Replication) (name : Nat) : Builder :=
  let newId := b.next
  let prevs := b.edges.filter (·.dst == blk)
  { b with next := b.next + 1,
           edges := b.edges ++ prevs.map (fun e => ⟨e.src, newId, false⟩),
           streams := b.streams ++ [⟨name, newId, repl⟩] }

def cloneMany (b : Builder) (blk : Nat) (repl : Replication) : List Nat → Builder
  | [] => b
  | n :: ns => cloneMany (cloneBlock b blk repl n) blk repl ns

/-- One call of a loop body on the current open block `cur` (always `Unlimited`: `Iterate`/`Start`
    sources, or the asserted-unlimited input block of `replay`). Returns the new current block.
    `replay` (replay.rs:283-357, identity body): leader block `lr` (`IterationLeader`: `One`) is
    created first; `cur` gets `Replay … IterationEnd` and is scheduled; `cur → lr`, `lr → cur`;
    `lr.split_block(Random)` creates the block that carries the state stream on. -/
def bodyStep (p : Builder × Nat) : BodyOp → Builder × Nat
  | .noop => p
  | .exchange =>
    let (b, cur) := p
    ({ b with next := b.next + 1,
              blocks := b.blocks ++ [⟨cur, .unlimited, false⟩],
              edges := b.edges ++ [⟨cur, b.next, false⟩] }, b.next)
  | .replay =>
    let (b, cur) := p
    let lr := b.next
    let lo := b.next + 1
    ({ b with next := b.next + 2,
              blocks := b.blocks ++ [⟨cur, .unlimited, false⟩, ⟨lr, .one, false⟩],
              edges := b.edges ++ [⟨cur, lr, false⟩, ⟨lr, cur, false⟩, ⟨lr, lo, false⟩] }, lo)

/-- One API call. An op naming a stream that does not exist (or an output name that is taken) is
    skipped, so that every subset of a program is a program. After a panic nothing happens. -/
def step (b : Builder) (op : Op) : Builder :=
  if b.panic.isSome then b else
  match op with
  | .source out r =>
    if !b.fresh out then b else
    { b with next := b.next + 1, streams := b.streams ++ [⟨out, b.next, r⟩] }
  | .exchange s out =>
    match b.find s with
    | none => b
    | some st =>
      if !b.fresh out then b else
      let (b1, id) := (b.remove s).splitBlock st false
      { b1 with streams := b1.streams ++ [⟨out, id, .unlimited⟩] }
  | .replication s out r =>
    match b.find s with
    | none => b
    | some st =>
      if !b.fresh out then b else
      let (b1, id) := (b.remove s).splitBlock st true
      { b1 with streams := b1.streams ++ [⟨out, id, Replication.unlimited.intersect r⟩] }
  | .split s outs =>
    match b.find s, outs.reverse with
    | some st, last :: restRev =>
      if !(outs.all b.fresh) || !outs.Nodup then b else
      -- `new_stream.block.scheduling = scheduler_requirements` (operator/mod.rs:1722)
      let (b1, id) := (b.remove s).splitBlock st true
      let b2 := cloneMany b1 id st.repl restRev.reverse
      { b2 with streams := b2.streams ++ [⟨last, id, st.repl⟩] }
    | _, _ => b
  | .merge x y out =>
    match b.find x, b.find y with
    | some sx, some sy => if x == y || !b.fresh out then b else binary b sx sy true true out id
    | _, _ => b
  | .zip x y out =>
    match b.find x, b.find y with
    | some sx, some sy =>
      if x == y || !b.fresh out then b else binary b sx sy true true out (·.intersect .one)
    | _, _ => b
  | .join x y out =>
    match b.find x, b.find y with
    | some sx, some sy => if x == y || !b.fresh out then b else binary b sx sy false false out id
    | _, _ => b
  | .bjoin x y out =>
    match b.find x, b.find y with
    | some sx, some sy => if x == y || !b.fresh out then b else binary b sx sy true false out id
    | _, _ => b
  | .sinkEach s =>
    match b.find s with
    | none => b
    | some st => { (b.remove s) with blocks := b.blocks ++ [⟨st.block, st.repl, false⟩] }
  | .sinkVec s =>
    match b.find s with
    | none => b
    | some st =>
      let (b1, id) := (b.remove s).splitBlock st true
      { b1 with blocks := b1.blocks ++ [⟨id, Replication.unlimited.intersect .one, false⟩] }
  | .iterate s outState outItems body =>
    match b.find s with
    | none => b
    | some st =>
      if !b.fresh outState || !b.fresh outItems || outState == outItems then b else
      if st.repl != .unlimited then
        { b with panic := some "panic:other:cannot_have_an_iteration_block_with_limi" }
      else
        -- iterate.rs:399-538
        let leader := b.next          -- IterationLeader: Replication::One
        let iter := b.next + 1        -- Iterate: Unlimited
        let output := b.next + 2      -- Start::single(iter): Unlimited
        -- the body runs on the Iterate block; its last block is closed by split_block(OnlyOne)
        let (b2, last) := body.foldl bodyStep ({ b with next := b.next + 3 }, iter)
        let bodyEnd := b2.next        -- ends with the feedback End(OnlyOne)
        let state := b2.next + 1      -- Start::single(bodyEnd) → fold → IterationEnd
        let leaderOut := b2.next + 2  -- leader.split_block(Random)
        { b2 with
          next := b2.next + 3,
          blocks := b2.blocks ++ [⟨last, .unlimited, true⟩, ⟨state, .unlimited, false⟩,
            ⟨bodyEnd, .unlimited, true⟩, ⟨st.block, st.repl, true⟩, ⟨leader, .one, false⟩],
          edges := b2.edges ++ [⟨last, bodyEnd, false⟩, ⟨st.block, iter, false⟩,
            ⟨bodyEnd, state, false⟩, ⟨state, leader, false⟩, ⟨leader, iter, false⟩,
            ⟨bodyEnd, iter, false⟩, ⟨iter, output, true⟩, ⟨leader, leaderOut, false⟩],
          streams := (b.remove s).streams ++
            [⟨outState, leaderOut, .unlimited⟩, ⟨outItems, output, .unlimited⟩] }
  | .replay s out body =>
    match b.find s with
    | none => b
    | some st =>
      if !b.fresh out then b else
      if st.repl != .unlimited then
        { b with panic := some "panic:other:cannot_have_an_iteration_block_with_limi" }
      else
        -- replay.rs:283-357: the leader first, then the body on the input block itself
        let lr := b.next
        let (b2, last) := body.foldl bodyStep ({ b with next := b.next + 1 }, st.block)
        let lo := b2.next
        { b2 with
          next := b2.next + 1,
          blocks := b2.blocks ++ [⟨last, .unlimited, false⟩, ⟨lr, .one, false⟩],
          edges := b2.edges ++ [⟨last, lr, false⟩, ⟨lr, st.block, false⟩, ⟨lr, lo, false⟩],
          streams := (b.remove s).streams ++ [⟨out, lo, .unlimited⟩] }

/-- every stream still open gets a `for_each` sink -/
def finish (b : Builder) : Builder :=
  if b.panic.isSome then b else
  { b with blocks := b.blocks ++ b.streams.map (fun st => ⟨st.block, st.repl, false⟩), streams := [] }

def run (ops : List Op) : Builder := (ops.foldl step {}).finish

def job (b : Builder) : Job := ⟨b.blocks, b.edges⟩

end Builder

end Noir.Placement
