/-
  Model/TransactionWindow.lean — `TransactionWindowManager` (src/operator/window/descr/transaction.rs:18-97).
  Free accumulator (the list of items given to the window). The user logic `f : &In → TransactionOp`
  is a parameter.
-/
import NoirVerif.Model.WindowOp
namespace Noir.TransactionWindow
open Noir.WindowOp

variable {α : Type}

/-- `TransactionOp` (transaction.rs:6-16) -/
inductive TxOp where
  | continue_
  | commit
  | commitAfter (t : Int)
  | discard
  deriving Repr, DecidableEq

/-- `Slot<A>` (transaction.rs:30): accumulator, `close` -/
structure Slot (α : Type) where
  items : List α
  close : Option Int
  deriving Repr, DecidableEq

/-- manager state: `w: Option<Slot<A>>` -/
abbrev State (α : Type) := Option (Slot α)

abbrev Res (α : Type) := WResult (List α)

/-- `return_current!()`: `Some(WindowResult::Item(self.w.take().unwrap().acc.output()))` -/
def out (s : Slot α) : List (Res α) := [⟨s.items, none⟩]

/-- `self.w.as_ref().and_then(|w| w.close)` -/
def closeOf (st : State α) : Option Int := st.bind (·.close)

/-- `WindowManager::process` (transaction.rs:53-92) -/
def process (f : α → TxOp) (st : State α) : Elem α → State α × List (Res α)
  | .ts x _ =>
    -- `get_or_insert_with(Slot::new(init.clone()))`, `command = f(&item)`, `acc.process(item)`
    let slot : Slot α := match st with
      | some s => s
      | none => ⟨[], none⟩
    let slot := { slot with items := slot.items ++ [x] }
    match f x with
    | .commit => (none, out slot)
    | .commitAfter t => (some { slot with close := some t }, [])
    | .discard => (none, [])
    | .continue_ => (some slot, [])
  | .wm w =>
    match st with
    | some s =>
      match s.close with
      | some cl => if cl < w then (none, out s) else (st, [])
      | none => (st, [])
    | none => (st, [])
  | .term | .far =>
    -- only a window with a registered close time is committed; any other open window is KEPT
    -- (it survives a `FlushAndRestart`, and is dropped silently at the end of the stream)
    match st with
    | some s => if s.close.isSome then (none, out s) else (st, [])
    | none => (st, [])
  | .item _ => (st, [])        -- panics (transaction.rs:86-88)
  | .flushBatch => (st, [])

def panics (_ : State α) : Elem α → Option String
  | .item _ => some "other:non_timestamped_streams_are_not_currentl"
  | _ => none

/-- `recycle` (transaction.rs:94-96) -/
def recycle (st : State α) : Bool := st.isNone

def mgr (f : α → TxOp) : Mgr (State α) α (List α) := ⟨none, process f, recycle, panics⟩

def runFrom (f : α → TxOp) : State α → Nat → List (Elem α) → List (Nat × Res α)
  | _, _, [] => []
  | st, i, e :: es => ((process f st e).2.map fun r => (i, r)) ++ runFrom f (process f st e).1 (i + 1) es

def run (f : α → TxOp) (es : List (Elem α)) : List (Nat × Res α) := runFrom f none 0 es

def stateAfter (f : α → TxOp) : State α → List (Elem α) → State α
  | st, [] => st
  | st, e :: es => stateAfter f (process f st e).1 es

def firstPanic (f : α → TxOp) : State α → List (Elem α) → Option String
  | _, [] => none
  | st, e :: es => (panics st e).or (firstPanic f (process f st e).1 es)

end Noir.TransactionWindow
