/-
  Model/Range.lean — `IntoParallelSource::generate_iterator(index, peers)` for integer ranges
  (src/operator/source/parallel_iterator.rs:27-78, as of the fix commit ebec77c), with the exact machine
  arithmetic of a build with overflow checks (debug profile, which is what the harness and the test-suite
  use):

  * `impl IntoParallelSource for Range<u64>` (lines 27-42): `saturating_sub`, `saturating_add` (clamped at
    `u64::MAX`), checked `peers - 1` and `index * chunk_size`;
  * `impl_into_parallel_source_range!($t)` (lines 44-68) for u8 u16 u32 usize i8 i16 i32 i64 isize:
    everything is computed in `i128` (`as i128` is value preserving for every one of these types and for
    the `u64` index / peers), `saturating_mul` / `saturating_add` clamp at the `i128` bounds, `/` is the
    truncating division, the two bounds are converted back with `try_into().unwrap()`.

  All integers are modelled as `Int`; the value of a Rust `Range { start, end }` is `Res.range start end`
  (it yields `start, start+1, …, end-1`, nothing when `end ≤ start`).

  History (not modelled any more): before ebec77c the macro computed in `i64` without clamping and the
  `u64` impl used a plain subtraction; `(10u8..0).generate_iterator(1,4)` returned `9..10`,
  `(5u64..3)` panicked on the subtraction (F1), `(2^63..2^63+10usize)` panicked in `try_into` (F7) and
  `(250u8..255).generate_iterator(6,8)` panicked because the start offset 256 does not fit `u8` (F10).
  These four inputs are the fixed first cases of every `range` harness run.
-/
namespace Noir.Range

/-- Outcome of `generate_iterator`. -/
inductive Res where
  /-- arithmetic overflow panic (`attempt to subtract/multiply with overflow`) -/
  | overflow
  /-- `attempt to divide by zero` -/
  | divzero
  /-- `try_into().unwrap()` on a value that does not fit -/
  | unwrap
  /-- the returned `Range { start, end }` -/
  | range (s e : Int)
  deriving Repr, DecidableEq

def U64_MAX : Int := 18446744073709551615   -- 2^64 - 1
def I64_MAX : Int := 9223372036854775807    -- 2^63 - 1
def I64_MIN : Int := -9223372036854775808   -- -2^63
def I128_MAX : Int := 170141183460469231731687303715884105727    -- 2^127 - 1
def I128_MIN : Int := -170141183460469231731687303715884105728   -- -2^127

/-- `a.saturating_add(b)` for an integer type with bounds `[lo, hi]` -/
def satAdd (lo hi a b : Int) : Int := max lo (min hi (a + b))

/-- `a.saturating_mul(b)` for an integer type with bounds `[lo, hi]` -/
def satMul (lo hi a b : Int) : Int := max lo (min hi (a * b))

/-- `impl IntoParallelSource for Range<u64>` (parallel_iterator.rs:30-41). `s`,`e` ∈ [0, 2^64),
    `index`, `peers` are `u64` values. -/
def genU64 (s e : Int) (index peers : Nat) : Res :=
  -- :32 `let n = self.end.saturating_sub(self.start);`
  let n := max 0 (e - s)
  -- :33 `(n.saturating_add(peers - 1)) / peers`  (`peers - 1` panics for peers = 0)
  if peers = 0 then .overflow else
  let chunk := (satAdd 0 U64_MAX n ((peers : Int) - 1)) / (peers : Int)
  -- :34 `index * chunk_size` (checked multiplication)
  let prod := (index : Int) * chunk
  if prod > U64_MAX then .overflow else
  let start := satAdd 0 U64_MAX s prod
  -- :35-37
  let end_ := max (min (satAdd 0 U64_MAX start chunk) e) s
  .range start end_

/-- The integer types the macro is instantiated for (parallel_iterator.rs:70-78). -/
inductive Ty where
  | u8 | u16 | u32 | usize | i8 | i16 | i32 | i64 | isize
  deriving Repr, DecidableEq

def Ty.lo : Ty → Int
  | .u8 | .u16 | .u32 | .usize => 0
  | .i8 => -128
  | .i16 => -32768
  | .i32 => -2147483648
  | .i64 | .isize => I64_MIN

def Ty.hi : Ty → Int
  | .u8 => 255
  | .u16 => 65535
  | .u32 => 4294967295
  | .usize => U64_MAX          -- 64-bit target
  | .i8 => 127
  | .i16 => 32767
  | .i32 => 2147483647
  | .i64 | .isize => I64_MAX

/-- `v.try_into::<t>()` for an `i128` value: `none` = `Err(TryFromIntError)`. -/
def Ty.fromI128 (t : Ty) (v : Int) : Option Int := if t.lo ≤ v ∧ v ≤ t.hi then some v else none

/-- `impl_into_parallel_source_range!(t)` (parallel_iterator.rs:49-65). `s`,`e` ∈ [t.lo, t.hi];
    `index`, `peers` are `u64` values, so `index as i128`, `peers as i128`, `self.start as i128`,
    `self.end as i128` are the values themselves and `last - first`, `n + peers - 1` cannot overflow `i128`
    (|last - first| < 2^65, peers < 2^64). -/
def genMacro (t : Ty) (s e : Int) (index peers : Nat) : Res :=
  -- :51-53
  let first := s
  let last := e
  -- :55 `let n = (last - first).max(0);`
  let n := max (last - first) 0
  -- :56 `(n + peers - 1) / peers`  (i128 division truncates towards zero; `/ 0` panics)
  if peers = 0 then .divzero else
  let chunk := Int.tdiv (n + (peers : Int) - 1) (peers : Int)
  -- :58-61 `first.saturating_add(index.saturating_mul(chunk_size)).min(last).max(first)`
  let start := max (min (satAdd I128_MIN I128_MAX first (satMul I128_MIN I128_MAX (index : Int) chunk)) last) first
  -- :62 `start.saturating_add(chunk_size).min(last).max(start)`
  let end_ := max (min (satAdd I128_MIN I128_MAX start chunk) last) start
  -- :64 `(start.try_into().unwrap(), end.try_into().unwrap())`
  match t.fromI128 start, t.fromI128 end_ with
  | some a, some b => .range a b
  | _, _ => .unwrap

/-- The items a result yields (`Range::next` until `None`): `start, …, end-1`. -/
def upTo (a : Int) : Nat → List Int
  | 0 => []
  | k + 1 => a :: upTo (a + 1) k

/-- `[a, b)` as a list, empty when `b ≤ a` -/
def intRange (a b : Int) : List Int := upTo a (b - a).toNat

def Res.elems : Res → List Int
  | .range a b => intRange a b
  | _ => []

def Res.isPanic : Res → Bool
  | .range _ _ => false
  | _ => true

/-! ### Non-parallel source: `IteratorSource` (src/operator/source/iterator.rs)
`Source::replication() = Replication::One` (iterator.rs:48-50) and `Clone` panics (:92-95), so exactly one
replica exists; its `next` (iterator.rs:62-75) is modelled below. -/

/-- what `next` returns: `Item(t)` / `FlushAndRestart` / `Terminate` -/
inductive SrcOut (α : Type) where
  | item (a : α)
  | far
  | term
  deriving Repr, DecidableEq

/-- `IteratorSource::next` on the state `(inner, terminated)` -/
def iterNext {α : Type} : List α × Bool → (List α × Bool) × SrcOut α
  | (xs, true) => ((xs, true), .term)              -- :63-65
  | (x :: xs, false) => ((xs, false), .item x)     -- :68
  | ([], false) => (([], true), .far)              -- :69-72

/-- pull `next` until `Terminate` (at most `fuel` times) -/
def iterRun {α : Type} : Nat → List α × Bool → List (SrcOut α)
  | 0, _ => []
  | fuel + 1, st =>
    match iterNext st with
    | (_, .term) => [.term]
    | (st', o) => o :: iterRun fuel st'

end Noir.Range
