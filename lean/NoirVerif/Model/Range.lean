/-
  Model/Range.lean — `IntoParallelSource::generate_iterator(index, peers)` for integer ranges
  (src/operator/source/parallel_iterator.rs:27-73), with the exact machine arithmetic of a build with
  overflow checks (debug profile, which is what the harness and the test-suite use):

  * `impl IntoParallelSource for Range<u64>` (lines 27-40): `u64` subtraction / multiplication panic on
    overflow, `saturating_add` clamps at `u64::MAX`;
  * `impl_into_parallel_source_range!($t)` (lines 42-62) for u8 u16 u32 usize i8 i16 i32 i64 isize:
    everything is computed in `i64` (`as i64` casts — a wrapping reinterpretation for `usize` — checked
    `-`/`*`, `saturating_add`, truncating `/`), the two bounds are converted back with `try_into().unwrap()`.

  All integers are modelled as `Int`; the value of a Rust `Range { start, end }` is `Res.range start end`
  (it yields `start, start+1, …, end-1`, nothing when `end ≤ start`).
-/
namespace Noir.Range

/-- Outcome of `generate_iterator`. -/
inductive Res where
  /-- arithmetic overflow panic (`attempt to subtract/multiply with overflow`) -/
  | overflow
  /-- `try_into().unwrap()` on a value that does not fit -/
  | unwrap
  /-- the returned `Range { start, end }` -/
  | range (s e : Int)
  deriving Repr, DecidableEq

def U64_MAX : Int := 18446744073709551615   -- 2^64 - 1
def I64_MAX : Int := 9223372036854775807    -- 2^63 - 1
def I64_MIN : Int := -9223372036854775808   -- -2^63

/-- `a.saturating_add(b)` for an integer type with bounds `[lo, hi]` -/
def satAdd (lo hi a b : Int) : Int := max lo (min hi (a + b))

/-- `impl IntoParallelSource for Range<u64>` (parallel_iterator.rs:30-39). `s`,`e` ∈ [0, 2^64). -/
def genU64 (s e : Int) (index peers : Nat) : Res :=
  -- :31 `let n = self.end - self.start;`  (u64 subtraction: panics when end < start)
  if e < s then .overflow else
  let n := e - s
  -- :32 `(n.saturating_add(peers - 1)) / peers`  (`peers - 1` panics for peers = 0)
  if peers = 0 then .overflow else
  let chunk := (satAdd 0 U64_MAX n ((peers : Int) - 1)) / (peers : Int)
  -- :33 `index * chunk_size` (checked multiplication)
  let prod := (index : Int) * chunk
  if prod > U64_MAX then .overflow else
  let start := satAdd 0 U64_MAX s prod
  -- :34-36
  let end_ := max (min (satAdd 0 U64_MAX start chunk) e) s
  .range start end_

/-- The integer types the macro is instantiated for (parallel_iterator.rs:64-73). -/
inductive Ty where
  | u8 | u16 | u32 | usize | i8 | i16 | i32 | i64 | isize
  deriving Repr, DecidableEq

def Ty.lo : Ty → Int
  | .u8 | .u16 | .u32 | .usize => 0
  | .i8 => -128
  | .i16 => -32768
  | .i32 => -2147483648
  | .i64 | .isize => I64_MIN

def Ty.hi : Ty → Int
  | .u8 => 255
  | .u16 => 65535
  | .u32 => 4294967295
  | .usize => U64_MAX          -- 64-bit target
  | .i8 => 127
  | .i16 => 32767
  | .i32 => 2147483647
  | .i64 | .isize => I64_MAX

/-- `x as i64` for a value `x` of type `t` (only `usize` values ≥ 2^63 change: two's complement wrap). -/
def Ty.asI64 (_t : Ty) (x : Int) : Int := if x > I64_MAX then x - 18446744073709551616 else x

/-- `v.try_into::<t>()` for an `i64` value: `none` = `Err(TryFromIntError)`. -/
def Ty.fromI64 (t : Ty) (v : Int) : Option Int := if t.lo ≤ v ∧ v ≤ t.hi then some v else none

/-- checked `i64` result: `none` when outside the `i64` range (overflow panic) -/
def chkI64 (v : Int) : Option Int := if I64_MIN ≤ v ∧ v ≤ I64_MAX then some v else none

/-- `impl_into_parallel_source_range!(t)` (parallel_iterator.rs:46-59). `s`,`e` ∈ [t.lo, t.hi]. -/
def genMacro (t : Ty) (s e : Int) (index peers : Nat) : Res :=
  -- :47-48 `index.try_into().unwrap()`, `peers.try_into().unwrap()` (u64 → i64)
  if (index : Int) > I64_MAX then .unwrap else
  if (peers : Int) > I64_MAX then .unwrap else
  let s64 := t.asI64 s
  let e64 := t.asI64 e
  -- :49 `let n = self.end as i64 - self.start as i64;`
  match chkI64 (e64 - s64) with
  | none => .overflow
  | some n =>
    -- :50 `(n.saturating_add(peers - 1)) / peers`  (i64 division truncates towards zero; `/ 0` panics)
    if peers = 0 then .overflow else
    let chunk := Int.tdiv (satAdd I64_MIN I64_MAX n ((peers : Int) - 1)) (peers : Int)
    -- :51 `index * chunk_size`
    match chkI64 ((index : Int) * chunk) with
    | none => .overflow
    | some prod =>
      let start := satAdd I64_MIN I64_MAX s64 prod
      -- :52-54
      let end_ := max (min (satAdd I64_MIN I64_MAX start chunk) e64) s64
      -- :56 `(start.try_into().unwrap(), end.try_into().unwrap())`
      match t.fromI64 start, t.fromI64 end_ with
      | some a, some b => .range a b
      | _, _ => .unwrap

/-- The items a result yields (`Range::next` until `None`): `start, …, end-1`. -/
def upTo (a : Int) : Nat → List Int
  | 0 => []
  | k + 1 => a :: upTo (a + 1) k

/-- `[a, b)` as a list, empty when `b ≤ a` -/
def intRange (a b : Int) : List Int := upTo a (b - a).toNat

def Res.elems : Res → List Int
  | .range a b => intRange a b
  | _ => []

def Res.isPanic : Res → Bool
  | .range _ _ => false
  | _ => true

/-! ### Non-parallel source: `IteratorSource` (src/operator/source/iterator.rs)
`Source::replication() = Replication::One` (iterator.rs:48-50) and `Clone` panics (:92-95), so exactly one
replica exists; its `next` (iterator.rs:62-75) is modelled below. -/

/-- what `next` returns: `Item(t)` / `FlushAndRestart` / `Terminate` -/
inductive SrcOut (α : Type) where
  | item (a : α)
  | far
  | term
  deriving Repr, DecidableEq

/-- `IteratorSource::next` on the state `(inner, terminated)` -/
def iterNext {α : Type} : List α × Bool → (List α × Bool) × SrcOut α
  | (xs, true) => ((xs, true), .term)              -- :63-65
  | (x :: xs, false) => ((xs, false), .item x)     -- :68
  | ([], false) => (([], true), .far)              -- :69-72

/-- pull `next` until `Terminate` (at most `fuel` times) -/
def iterRun {α : Type} : Nat → List α × Bool → List (SrcOut α)
  | 0, _ => []
  | fuel + 1, st =>
    match iterNext st with
    | (_, .term) => [.term]
    | (st', o) => o :: iterRun fuel st'

end Noir.Range
