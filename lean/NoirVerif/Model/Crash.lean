/-
  Model/Crash.lean — fail-stop model of an acyclic job (C20).

  Processes are the replicas (workers) of the execution graph; `up p` lists the direct upstream
  replicas of `p`. A worker is `running`, `done` (its chain yielded `Terminate`: `do_work` returned
  normally — for a sink replica this is the only moment at which it publishes its result,
  src/operator/sink/collect_vec.rs:60-65) or `crashed` (unwound by a panic; its channel handles
  were dropped). Transitions:
  * `crash`    — a user function panics in a running worker (any worker, any time);
  * `finish`   — a running worker whose direct upstream replicas are all `done` emits `Terminate`
                 (a `Start` emits `Terminate` only after receiving one from every upstream replica;
                 a crashed upstream never sends one: dropping a sender does not synthesise it);
  * `failRecv` — a running worker all of whose upstream replicas have stopped, at least one of them
                 crashed, fails its receive (`recv()` on a channel with no senders left and an empty
                 queue returns `Err` → `expect("Network receiver failed")` panics,
                 src/operator/start/simple.rs:64);
  * `failSend` — a running worker with a crashed direct consumer fails its send
                 (`remote_sender.send(..).unwrap()` in src/block/batcher.rs panics).
  Channel disconnect semantics (flume) are trusted.
-/
namespace Noir.Crash

inductive St where
  | running | done | crashed
  deriving DecidableEq, Repr

structure Net where
  n : Nat
  up : Nat → List Nat
  rank : Nat → Nat

/-- well-formed acyclic network -/
structure Net.Ok (net : Net) : Prop where
  inRange : ∀ p q, p < net.n → q ∈ net.up p → q < net.n
  acyclic : ∀ p q, q ∈ net.up p → net.rank q < net.rank p

abbrev State := Nat → St

def upd (s : State) (p : Nat) (v : St) : State := fun q => if q = p then v else s q

inductive Step (net : Net) : State → State → Prop where
  | crash (s : State) (p : Nat) : p < net.n → s p = .running → Step net s (upd s p .crashed)
  | finish (s : State) (p : Nat) : p < net.n → s p = .running → (∀ q ∈ net.up p, s q = .done) →
      Step net s (upd s p .done)
  | failRecv (s : State) (p : Nat) : p < net.n → s p = .running → (∀ q ∈ net.up p, s q ≠ .running) →
      (∃ q ∈ net.up p, s q = .crashed) → Step net s (upd s p .crashed)
  | failSend (s : State) (p c : Nat) : p < net.n → c < net.n → s p = .running → p ∈ net.up c →
      s c = .crashed → Step net s (upd s p .crashed)

def init : State := fun _ => .running

inductive Reach (net : Net) : State → Prop where
  | init : Reach net init
  | step (s s' : State) : Reach net s → Step net s s' → Reach net s'

/-- `q` is (transitively) upstream of `p` -/
inductive UpStar (net : Net) : Nat → Nat → Prop where
  | direct (q p : Nat) : q ∈ net.up p → UpStar net q p
  | trans (r q p : Nat) : UpStar net r q → q ∈ net.up p → UpStar net r p

/-- number of running processes among `0..n-1` -/
def runningCount (s : State) : Nat → Nat
  | 0 => 0
  | k + 1 => runningCount s k + (if s k = .running then 1 else 0)

end Noir.Crash
