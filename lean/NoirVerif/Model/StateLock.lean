/-
  Model/StateLock.lean — `IterationStateLock` (src/operator/iteration/mod.rs:165-197): the per-host
  generation counter guarding the iteration state, and the `Start` side of it
  (`wait_for_state` / `state_generation`, src/operator/start/mod.rs:222-232, 272-279).
-/
namespace Noir.StateLock

/-- `generation: Mutex<usize>` -/
structure Lock where
  gen : Nat
  deriving Repr, DecidableEq

def Lock.new : Lock := ⟨0⟩

def Lock.locked (l : Lock) : Bool := l.gen % 2 == 1

/-- `lock` (mod.rs:172-177): idempotent until `unlock` -/
def Lock.lock (l : Lock) : Lock := if l.gen % 2 == 0 then ⟨l.gen + 1⟩ else l

/-- `unlock` (mod.rs:182-187): `assert_eq!(*lock % 2, 1)` — `none` = the Rust code panics -/
def Lock.unlock (l : Lock) : Option Lock := if l.gen % 2 == 1 then some ⟨l.gen + 1⟩ else none

/-- `wait_for_update(generation)` (mod.rs:190-196) returns iff `¬ (gen < generation)` -/
def Lock.passes (l : Lock) (generation : Nat) : Bool := decide (generation ≤ l.gen)

/-- operations of the loop head on the lock -/
inductive Op where
  | lock
  | unlock
  deriving Repr, DecidableEq

/-- run a sequence of operations; `none` as soon as an `unlock` would panic -/
def runOps : Lock → List Op → Option Lock
  | l, [] => some l
  | l, .lock :: ops => runOps l.lock ops
  | l, .unlock :: ops => match l.unlock with
    | some l' => runOps l' ops
    | none => none

/-- number of `unlock`s in a trace = rounds completed on this host -/
def unlocks : List Op → Nat
  | [] => 0
  | .lock :: ops => unlocks ops
  | .unlock :: ops => unlocks ops + 1

/-- The `Start` of a body block: `state_generation` after `fars` emitted `FlushAndRestart`s
    (start/mod.rs:229 `self.state_generation += 2`). -/
def startGeneration (fars : Nat) : Nat := 2 * fars

end Noir.StateLock
