/-
  Model/BinaryStart.lean — `Start<BinaryStartReceiver>` (src/operator/start/binary.rs) composed with
  the generic `Start` (src/operator/start/mod.rs:213-311, model: `Noir.Start.step`).

  The state contains the two endpoint channels (one per upstream block) as FIFO queues of batches
  `(sender replica, elements)`, the two `SideReceiver`s, `first_message`, the `Start` counters and
  `already_timed_out`. A history is a list of `Op`s: `enq` appends a batch to a queue, `pump` is
  what the harness does after a batch: call `next()` until the timeout-generated `FlushBatch`
  (or `Terminate`). Upstream replicas are numbered globally for `Start`'s frontier: left replica
  `r` is `r`, right replica `r` is `left.instances + r` (`prev_replicas`, binary.rs:321-325).

  Both payload types are the same `α` here (the harness instantiates both with `Val`).
-/
import NoirVerif.Model.Elem
import NoirVerif.Model.Start
namespace Noir.BinaryStart

/-- `BinaryElement<OutL, OutR>` (binary.rs:18-27) -/
inductive Bin (α : Type) where
  | left (a : α)
  | right (a : α)
  | leftEnd
  | rightEnd
  deriving Repr, DecidableEq, BEq, Inhabited

/-- a `NetworkMessage`: sender replica and elements -/
abbrev Batch (β : Type) := Nat × List (Elem β)

/-- `SideReceiver` (binary.rs:31-48) without the channel -/
structure Side (α : Type) where
  instances : Nat
  missingFar : Nat          -- missing_flush_and_restart
  missingTerm : Nat         -- missing_terminate
  cached : Bool
  cache : List (Batch (Bin α))
  cacheFull : Bool
  cachePointer : Nat
  deriving Repr, DecidableEq

variable {α : Type}

/-- `SideReceiver::new` + `setup` (binary.rs:51-69) -/
def Side.init (n : Nat) (cached : Bool) : Side α := ⟨n, n, n, cached, [], false, 0⟩

/-- `is_terminated` (binary.rs:97) -/
def Side.isTerminated (s : Side α) : Bool := s.missingTerm == 0

/-- `is_ended` (binary.rs:88-94) -/
def Side.isEnded (s : Side α) : Bool := if s.cached then s.isTerminated else s.missingFar == 0

/-- `cache_finished` (binary.rs:102) -/
def Side.cacheFinished (s : Side α) : Bool := decide (s.cache.length ≤ s.cachePointer)

/-- `reset` (binary.rs:79-85) -/
def Side.reset (s : Side α) : Side α :=
  if s.cached then { s with missingFar := s.instances, cacheFull := true, cachePointer := 0 }
  else { s with missingFar := s.instances }

/-- `next_cached_item` (binary.rs:107-115); only called when `!cache_finished` -/
def Side.nextCached (s : Side α) : Side α × Batch (Bin α) :=
  let p := s.cachePointer + 1
  let s' := { s with cachePointer := p }
  let s'' := if s'.cacheFinished then { s' with missingFar := 0 } else s'
  (s'', s.cache.getD s.cachePointer (0, []))

/-- The `flat_map` closure of `process_side` (binary.rs:160-180), threading the two counters.
    Returns `(missing_flush_and_restart, missing_terminate, mapped elements, underflow)`;
    `underflow` = a `usize` counter would be decremented below zero (panic in a debug build). -/
def processElems (wrap : α → Bin α) (end_ : Bin α) (cached : Bool) :
    Nat → Nat → List (Elem α) → Nat × Nat × List (Elem (Bin α)) × Bool
  | mf, mt, [] => (mf, mt, [], false)
  | mf, mt, e :: es =>
    let uf := (e.isFar && mf == 0) || (e.isTerm && mt == 0)
    let mf' := if e.isFar then mf - 1 else mf
    -- "make sure to add this message before `FlushAndRestart`"
    let pre : List (Elem (Bin α)) := if e.isFar && mf' == 0 then [Elem.item end_] else []
    let mt' := if e.isTerm then mt - 1 else mt
    -- "StreamElement::Terminate should not be put in the cache"
    let cur : List (Elem (Bin α)) := if !cached || !e.isTerm then [e.map wrap] else []
    let (a, b, rest, uf') := processElems wrap end_ cached mf' mt' es
    (a, b, pre ++ cur ++ rest, uf || uf')

/-- `process_side` (binary.rs:153-188); `sender` is the global replica index. -/
def Side.process (s : Side α) (wrap : α → Bin α) (end_ : Bin α) (sender : Nat) (es : List (Elem α)) :
    Side α × Batch (Bin α) × Bool :=
  let (mf, mt, out, uf) := processElems wrap end_ s.cached s.missingFar s.missingTerm es
  let s' := { s with missingFar := mf, missingTerm := mt }
  let s'' := if s.cached then
      -- "the elements are already out, ignore the cache for this round"
      { s' with cache := s'.cache ++ [(sender, out)], cachePointer := s'.cache.length + 1 }
    else s'
  (s'', (sender, out), uf)

/-- `BinaryStartReceiver` + the `Start` around it + the two channels -/
structure State (α : Type) where
  left : Side α
  right : Side α
  firstMessage : Bool
  qL : List (Batch α)       -- channel of the left endpoint (sender = replica index within the side)
  qR : List (Batch α)
  start : Noir.Start.State
  alreadyTimedOut : Bool
  /-- number of `select`s over both channels that found both non-empty so far: which one is taken is
      unspecified (flume `Selector`); the model asks the oracle `ch : Nat → Bool` (`true` = left) -/
  ambig : Nat
  /-- global index of the first replica of each side (`prev_replicas`, binary.rs: left replicas first) -/
  offL : Nat
  offR : Nat
  deriving Repr, DecidableEq

/-- `Start::multiple` + `setup` -/
def init (nL nR : Nat) (lc rc : Bool) : State α :=
  { left := Side.init nL lc, right := Side.init nR rc, firstMessage := false, qL := [], qR := [],
    start := Noir.Start.init (nL + nR), alreadyTimedOut := false, ambig := 0, offL := 0, offR := nL }

/-- what one call of `select` does -/
inductive Sel (α : Type) where
  /-- a batch was received from a channel (`left` = which) and processed -/
  | recv (left : Bool) (b : Batch (Bin α))
  /-- a batch of the cache was returned without receiving -/
  | replay (left : Bool) (b : Batch (Bin α))
  /-- the synthetic batch of `Terminate`s of the cached side -/
  | synth (b : Batch (Bin α))
  /-- the channel(s) `select` listens to are empty: timeout, or blocks for ever -/
  | block
  /-- counter underflow in `process_side` -/
  | panic
  deriving Repr, DecidableEq

def recvLeft (st : State α) : State α × Sel α :=
  match st.qL with
  | [] => (st, .block)
  | (r, es) :: q =>
    let p := st.left.process Bin.left Bin.leftEnd (st.offL + r) es
    if p.2.2 then (st, .panic) else ({ st with left := p.1, qL := q }, .recv true p.2.1)

def recvRight (st : State α) : State α × Sel α :=
  match st.qR with
  | [] => (st, .block)
  | (r, es) :: q =>
    let p := st.right.process Bin.right Bin.rightEnd (st.offR + r) es
    if p.2.2 then (st, .panic) else ({ st with right := p.1, qR := q }, .recv false p.2.1)

/-- number of synthetic `Terminate`s (binary.rs:201-207) -/
def numTerminates (st : State α) : Nat :=
  if st.left.cached then st.left.instances
  else if st.right.cached then st.right.instances else 0

/-- (2) binary.rs:219-227: both sides ended and the caches were replayed: prepare the next iteration -/
def prepare (st : State α) : State α :=
  if st.left.isEnded && st.right.isEnded && st.left.cacheFinished && st.right.cacheFinished
  then { st with left := st.left.reset, right := st.right.reset, firstMessage := true } else st

/-- (5) binary.rs:265-306: receive from the side(s) that have not ended the iteration -/
def selectRecv (ch : Nat → Bool) (st : State α) : State α × Sel α :=
  if st.left.isEnded then recvRight st
  else if st.right.isEnded then recvLeft st
  else
    match st.left.isTerminated, st.right.isTerminated with
    | false, false =>
      match st.qL, st.qR with
      | [], _ => recvRight st
      | _ :: _, [] => recvLeft st
      | _ :: _, _ :: _ =>
        if ch st.ambig then recvLeft { st with ambig := st.ambig + 1 }
        else recvRight { st with ambig := st.ambig + 1 }
    | true, false => recvRight st
    | false, true => recvLeft st
    | true, true => (st, .block)     -- `Err(Disconnected)`; unreachable (Start has terminated)

def Sel.isBlock : Sel α → Bool
  | .block => true
  | _ => false

/-- (3)-(5) binary.rs:237-306 -/
def selectBody (ch : Nat → Bool) (st : State α) : State α × Sel α :=
  -- (3) binary.rs:237-249: first message of the iteration with a cached side: ask the OTHER side;
  --     `first_message` stays set when that receive fails (times out).
  --     (Before 14727d5 the flag was cleared before the receive, also on a timeout: finding F6b.)
  if st.firstMessage && (st.left.cached || st.right.cached) then
    let r := if st.left.cached then recvRight st else recvLeft st
    ({ r.1 with firstMessage := r.2.isBlock }, r.2)
  -- (4) binary.rs:250-264: replay the cache, unless the other side already started terminating
  --     (before 6c83288 there was no condition on the other side's `missing_terminate`: finding F6)
  else if st.left.cached && st.left.cacheFull && !st.left.cacheFinished
      && st.right.missingTerm == st.right.instances then
    ({ st with left := st.left.nextCached.1 }, .replay true st.left.nextCached.2)
  else if st.right.cached && st.right.cacheFull && !st.right.cacheFinished
      && st.left.missingTerm == st.left.instances then
    ({ st with right := st.right.nextCached.1 }, .replay false st.right.nextCached.2)
  else selectRecv ch st

/-- `select` (binary.rs:194-323). -/
def select (ch : Nat → Bool) (st : State α) : State α × Sel α :=
  -- (1) binary.rs:200-216: both sides terminated, the cached side's Terminates were never emitted
  if st.left.isTerminated && st.right.isTerminated && decide (numTerminates st > 0) then
    (st, .synth (0, List.replicate (numTerminates st) Elem.term))
  else selectBody ch (prepare st)

/-- `Start::next` consuming one batch element by element (mod.rs:233-281) -/
def feed {β : Type} (s : Noir.Start.State) (r : Nat) : List (Elem β) → Noir.Start.State × List (Elem β)
  | [] => (s, [])
  | e :: es =>
    let (s1, o1) := Noir.Start.step s (.elem r e)
    let (s2, o2) := feed s1 r es
    (s2, o1 ++ o2)

/-- how a pump ended -/
inductive Outcome where
  | idle       -- the receive timed out: `FlushBatch` returned (not printed), the harness stops pulling
  | done       -- `Terminate` returned
  | blocked    -- `recv()` without timeout on empty channel(s): blocks for ever
  | panic
  | fuel       -- out of fuel (never happens with the fuel used by `pumpFuel`)
  deriving Repr, DecidableEq

/-- the batch handed to `Start` by a `select`, if any -/
def Sel.batch? : Sel α → Option (Batch (Bin α))
  | .recv _ b => some b
  | .replay _ b => some b
  | .synth b => some b
  | .block => none
  | .panic => none

def Sel.isPanic : Sel α → Bool
  | .panic => true
  | _ => false

/-- Pull `next()` until the timeout `FlushBatch` or `Terminate` (mod.rs:213-311). Returns the
    elements returned before that and the `select` results in order. -/
def pump (ch : Nat → Bool) : Nat → State α → State α × List (Elem (Bin α)) × List (Sel α) × Outcome
  | 0, st => (st, [], [], .fuel)
  | fuel + 1, st =>
    if st.start.missingTerm = 0 then (st, [], [], .done) else
    let st' := (select ch st).1
    let sel := (select ch st).2
    match sel.batch? with
    | none =>
      if sel.isPanic then (st', [], [sel], .panic)
      -- mod.rs:284-307: with `already_timed_out` the receive has no timeout
      else if st.alreadyTimedOut then ({ st' with alreadyTimedOut := false }, [], [sel], .blocked)
      else
        -- the receive times out: `Start` handles the fake `FlushBatch` (a pending watermark
        -- announcement goes out first, mod.rs `pending_watermark`); the `FlushBatch` itself is the
        -- protocol's end-of-pull marker and is not part of the output
        let t := Noir.Start.step st'.start (Noir.Start.Arrival.timeout : Noir.Start.Arrival (Bin α))
        ({ st' with start := t.1, alreadyTimedOut := true }, t.2.dropLast, [sel], .idle)
    | some b =>
      let fed := feed st'.start b.1 b.2
      let st'' := { st' with start := fed.1, alreadyTimedOut := false }
      if fed.1.missingTerm = 0 then (st'', fed.2, [sel], .done) else
      let rest := pump ch fuel st''
      (rest.1, fed.2 ++ rest.2.1, sel :: rest.2.2.1, rest.2.2.2)

/-- enough fuel: every iteration consumes a queued batch or a cached batch or ends the pump -/
def pumpFuel (st : State α) : Nat :=
  (st.qL.length + st.qR.length + 2) * (st.left.cache.length + st.right.cache.length + st.qL.length + st.qR.length + 2) + 2

inductive Op (α : Type) where
  | enq (left : Bool) (r : Nat) (es : List (Elem α))
  | pump
  deriving Repr, DecidableEq

def enqueue (st : State α) (left : Bool) (r : Nat) (es : List (Elem α)) : State α :=
  if left then { st with qL := st.qL ++ [(r, es)] } else { st with qR := st.qR ++ [(r, es)] }

/-- Run a history; the outputs are tagged with the index of the op that produced them; stops at
    the first pump that does not end `idle`; the last component is the index of that pump. -/
def runFrom (ch : Nat → Bool) (st : State α) (i : Nat) : List (Op α) → State α × List (Nat × Elem (Bin α)) × Outcome × Nat
  | [] => (st, [], .idle, i)
  | .enq l r es :: ops => runFrom ch (enqueue st l r es) (i + 1) ops
  | .pump :: ops =>
    let (st', out, _, oc) := pump ch (pumpFuel st) st
    let tagged := out.map (fun e => (i, e))
    match oc with
    | .idle =>
      let (st'', out', oc') := runFrom ch st' (i + 1) ops
      (st'', tagged ++ out', oc')
    | oc => (st', tagged, oc, i)

def run (ch : Nat → Bool) (nL nR : Nat) (lc rc : Bool) (ops : List (Op α)) : List (Elem (Bin α)) × Outcome :=
  let (_, out, oc, _) := runFrom ch (init nL nR lc rc) 0 ops
  (out.map (·.2), oc)

/-- the `select` results of a whole history, in order (used to say which channel was read) -/
def selsFrom (ch : Nat → Bool) (st : State α) : List (Op α) → List (Sel α)
  | [] => []
  | .enq l r es :: ops => selsFrom ch (enqueue st l r es) ops
  | .pump :: ops =>
    let (st', _, sels, oc) := pump ch (pumpFuel st) st
    match oc with
    | .idle => sels ++ selsFrom ch st' ops
    | _ => sels

/-- harness op `b`: send a batch, then pump -/
def Op.b (left : Bool) (r : Nat) (es : List (Elem α)) : List (Op α) := [.enq left r es, .pump]

/-! ## Specification side: the input contract of a binary start with a cached side (batch level) -/

/-- neither `FlushAndRestart` nor `Terminate` -/
def plainE {β : Type} (e : Elem β) : Bool := !e.isFar && !e.isTerm

/-- the control tail of a batch: `(has FlushAndRestart, has Terminate)` -/
def tailKind {β : Type} : List (Elem β) → Option (Bool × Bool)
  | [] => some (false, false)
  | [.far] => some (true, false)
  | [.far, .term] => some (true, true)
  | [.term] => some (false, true)
  | _ => none

/-- a batch is `plain elements ++ control tail` -/
def batchKind {β : Type} (es : List (Elem β)) : Option (Bool × Bool) := tailKind (es.dropWhile plainE)

def plainPart {β : Type} (es : List (Elem β)) : List (Elem β) := es.takeWhile plainE

def b2n (b : Bool) : Nat := if b then 1 else 0


/-! ### Contract

  Batches are `plain elements ++ control tail` (`End` flushes at `FlushAndRestart` and at `Terminate`,
  src/operator/end.rs:223-228). Replicas are not told apart: only counts matter to the receiver. -/

/-- **cached side** (one iteration, then every replica terminates): `f` / `t` = `FlushAndRestart`s /
    `Terminate`s sent so far; never more than `n`, a `Terminate` only after a `FlushAndRestart`, no data
    once all replicas have ended. -/
def cachedOk (n : Nat) : Nat → Nat → List (Batch α) → Bool
  | _, _, [] => true
  | f, t, (_, es) :: bs =>
    match batchKind es with
    | none => false
    | some (hf, ht) =>
      decide (f + b2n hf ≤ n) && decide (t + b2n ht ≤ f + b2n hf) && (decide (f < n) || (plainPart es).isEmpty)
        && cachedOk n (f + b2n hf) (t + b2n ht) bs

/-- **loop side**: rounds of `n` `FlushAndRestart`s (`f` = sent in the current round, `o` = the round
    has been opened by some batch), a batch ends at its `FlushAndRestart`; `Terminate`s (`t` so far)
    travel alone, only between rounds, after at least one round (`k`), and nothing follows them. -/
def loopOk (n : Nat) : Nat → Nat → Bool → Bool → List (Batch α) → Bool
  | _, _, _, _, [] => true
  | f, t, k, o, (_, es) :: bs =>
    match batchKind es with
    | some (hf, false) =>
      decide (t = 0) && decide (f < n) &&
        (if hf && f + 1 == n then loopOk n 0 0 true false bs
         else loopOk n (f + b2n hf) 0 k true bs)
    | some (false, true) =>
      (plainPart es).isEmpty && !o && k && decide (t < n) && loopOk n 0 (t + 1) k false bs
    | _ => false

/-- batches sent on one side by a history, in order -/
def sentBatches (left : Bool) : List (Op α) → List (Batch α)
  | [] => []
  | .enq l r es :: ops => if l = left then (r, es) :: sentBatches left ops else sentBatches left ops
  | .pump :: ops => sentBatches left ops

/-- the input contract of a history for `nL` / `nR` replicas with the LEFT side cached -/
def contractL (nL nR : Nat) (ops : List (Op α)) : Bool :=
  decide (0 < nL) && decide (0 < nR) && cachedOk nL 0 0 (sentBatches true ops)
    && loopOk nR 0 0 false false (sentBatches false ops)


/-- the input contract of a history for `nL` / `nR` replicas with the RIGHT side cached (the mirror image:
    the right side sends one iteration and terminates, the left side is the loop side) -/
def contractR (nL nR : Nat) (ops : List (Op α)) : Bool :=
  decide (0 < nL) && decide (0 < nR) && cachedOk nR 0 0 (sentBatches false ops)
    && loopOk nL 0 0 false false (sentBatches true ops)

end Noir.BinaryStart
