/-
  Model/SortMergeJoin.lean — `JoinLocalSortMerge` (src/operator/join/local_sort_merge.rs:20-237).
  Keys are `Int` (`Key: Ord`). The two `Vec<(Key, Out)>` are lists in push order; `Vec::pop`/`last`
  work on the *end*, so after both sides ended the model reverses the sorted vectors once and
  consumes them from the head (`merge`). `sort_unstable_by` (order among equal keys unspecified) is
  modelled by a stable insertion sort; statements about the output are up to `List.Perm`.
  `advance()` produces tuples incrementally while `next` is pulled; nothing is pulled from `prev`
  until both vectors and the buffer are empty (local_sort_merge.rs:170-178), so the model emits the
  whole merge at the step that makes both sides ended.
-/
import NoirVerif.Model.HashJoin
namespace Noir.Join.SortMerge

variable {α β γ : Type}

/-- insert after all elements with a key `≤` (stable) -/
def insertByKey (x : Int × γ) : List (Int × γ) → List (Int × γ)
  | [] => [x]
  | y :: ys => if x.1 < y.1 then x :: y :: ys else y :: insertByKey x ys

/-- `sort_unstable_by(|(k1,_),(k2,_)| k1.cmp(k2))`, ascending -/
def sortByKey (l : List (Int × γ)) : List (Int × γ) :=
  l.foldl (fun acc x => insertByKey x acc) []

/-- `discard_right` (local_sort_merge.rs:98-107): the popped right element is reported as unmatched
    unless its key equals the key of the last processed left element. -/
def discardRight (ro : Bool) (last : Option Int) (r : Int × β) : List (Out Int α β) :=
  if last = some r.1 then [] else if ro then [(r.1, none, some r.2)] else []

/-- all iterations of `advance` (local_sort_merge.rs:111-156) until both vectors are empty.
    `ls`, `rs` are the vectors *reversed* (head = `Vec::last`), i.e. in descending key order. -/
def merge (lo ro : Bool) : List (Int × α) → List (Int × β) → Option Int → List (Out Int α β)
  | [], rs, last => rs.flatMap (discardRight ro last)        -- `while !self.right.is_empty() { discard_right() }`
  | (lk, lv) :: ls, rs, last =>
    -- `take_while(|(rkey,_)| rkey > &lkey).count()` elements are discarded
    let disc := rs.takeWhile fun r => decide (r.1 > lk)
    let rs' := rs.dropWhile fun r => decide (r.1 > lk)
    -- `has_matches` ⇔ the following run of equal keys is non-empty
    let m := rs'.takeWhile fun r => decide (r.1 = lk)
    disc.flatMap (discardRight ro last)
      ++ (match m with
          | [] => if lo then [(lk, some lv, none)] else []
          | _ :: _ => m.map fun r => (lk, some lv, some r.2))
      ++ merge lo ro ls rs' (some lk)

/-- `last_left_key` after the merge -/
def lastKeyAfter (ls : List (Int × α)) (last : Option Int) : Option Int :=
  match ls.getLast? with
  | some l => some l.1
  | none => last

structure State (α β : Type) where
  left : List (Int × α)
  right : List (Int × β)
  leftEnded : Bool
  rightEnded : Bool
  lastLeftKey : Option Int
  deriving Repr, DecidableEq

def State.init : State α β := ⟨[], [], false, false, none⟩

/-- the top of the `loop` in `next`: `if buffer.is_empty() && left_ended && right_ended { advance() }`,
    repeated until the vectors are empty -/
def drain (v : Variant) (s : State α β) : State α β × List (Out Int α β) :=
  if s.leftEnded && s.rightEnded then
    ({ s with left := [], right := [], lastLeftKey := lastKeyAfter s.left.reverse s.lastLeftKey },
      merge v.leftOuter v.rightOuter s.left.reverse s.right.reverse s.lastLeftKey)
  else (s, [])

variable (v : Variant) (kl : α → Int) (kr : β → Int)

/-- the four `Item(..)` arms (local_sort_merge.rs:181-194) followed by the drain -/
def stepBin (s : State α β) : Bin α β → State α β × List (Out Int α β)
  | .left a => drain v { s with left := s.left ++ [(kl a, a)] }
  | .right b => drain v { s with right := s.right ++ [(kr b, b)] }
  | .leftEnd => drain v { s with leftEnded := true, left := sortByKey s.left }
  | .rightEnd => drain v { s with rightEnded := true, right := sortByKey s.right }

/-- the four `assert!`s at `FlushAndRestart` (local_sort_merge.rs:199-206) -/
def farOk (s : State α β) : Bool :=
  s.leftEnded && s.rightEnded && s.left.isEmpty && s.right.isEmpty

/-- reset at `FlushAndRestart` (local_sort_merge.rs:209-211) -/
def far (s : State α β) : State α β :=
  { s with leftEnded := false, rightEnded := false, lastLeftKey := none }

def feed : State α β → List (Bin α β) → List (Out Int α β)
  | _, [] => []
  | s, b :: bs => (stepBin v kl kr s b).2 ++ feed (stepBin v kl kr s b).1 bs

def stateAfterBin : State α β → List (Bin α β) → State α β
  | s, [] => s
  | s, b :: bs => stateAfterBin (stepBin v kl kr s b).1 bs

def run (tr : List (Bin α β)) : List (Out Int α β) := feed v kl kr State.init tr

end Noir.Join.SortMerge
