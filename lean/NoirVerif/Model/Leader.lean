/-
  Model/Leader.lean — `IterationLeader` (src/operator/iteration/leader.rs:119-236) as a transducer
  over the elements that arrive on its delta channel.

  The leader owns a `Start::single(feedback_block_id, None)` (leader.rs:188). All replicas of the
  `IterationEnd` block share ONE channel, so "arrival order" is the order of the batches in that
  channel. The inner `Start` (start/mod.rs:213-281)
    * hands `Item(delta)` through in arrival order,
    * swallows the per-replica `FlushAndRestart`s and emits one when all replicas sent theirs — the
      leader ignores it (leader.rs:148), so FARs are irrelevant and modelled as ignored,
    * produces `FlushBatch` (batch content or 1 ms timeout) — ignored by the leader (leader.rs:148),
    * returns `Terminate` once every replica sent its `Terminate` (checked at the loop top, so the
      rest of the current batch is dropped).
  `next()` (leader.rs:199-236) loops over rounds; it returns only with `Item(final state)`, then
  `FlushAndRestart` (flag `flush_and_restart`), or `Terminate`. As a transducer the three outputs of
  the final round are produced at the arrival of the round's last delta.
-/
import NoirVerif.Model.Elem
namespace Noir.Leader

variable {σ δ : Type}

/-- The user functions and constants of the leader. `cond` is `loop_condition: Fn(&mut State) -> bool`
    (it may mutate the state, leader.rs:155), `global` is `global_fold: Fn(&mut State, Delta)`. -/
structure Cfg (σ δ : Type) where
  init : σ
  maxIter : Nat
  /-- `num_receivers` = replicas of the `IterationEnd` block (leader.rs:190) -/
  n : Nat
  global : σ → δ → σ
  cond : σ → Bool × σ

/-- leader state between two arrivals -/
structure St (σ : Type) where
  /-- `self.state` -/
  state : σ
  /-- `self.iteration_index` -/
  idx : Nat
  /-- `missing_state_updates` of the running `process_updates` call (leader.rs:120) -/
  missing : Nat
  /-- `Terminate`s consumed by the inner Start (`num - missing_terminate`) -/
  terms : Nat
  /-- `Terminate` has been returned -/
  done : Bool
  deriving Repr, DecidableEq

/-- observable actions -/
inductive Out (σ : Type) where
  /-- the broadcast `(IterationResult::from_condition(cont), state)` to every feedback sender (leader.rs:215-226) -/
  | feedback (cont : Bool) (s : σ)
  /-- an element returned by `next()` -/
  | elem (e : Elem σ)
  deriving Repr, DecidableEq

def init (c : Cfg σ δ) : St σ := ⟨c.init, 0, c.n, 0, false⟩

/-- end of a round: `iteration_index += 1; final_result()` (leader.rs:154-176, 211-233) -/
def endRound (c : Cfg σ δ) (st : St σ) (s1 : σ) : St σ × List (Out σ) :=
  let idx := st.idx + 1
  let (lc, s2) := c.cond s1                       -- loop_condition(self.state.as_mut())
  let cont := lc && decide (idx < c.maxIter)      -- should_continue
  if cont then
    ({ st with state := s2, idx := idx, missing := c.n }, [.feedback true s2])
  else
    -- `state.take()`, `self.state = initial_state.clone()` BEFORE the broadcast: the final
    -- feedback carries the reset state; then `Item(state)`, `iteration_index = 0`, later FAR
    ({ st with state := c.init, idx := 0, missing := c.n },
      [.feedback false c.init, .elem (.item s2), .elem .far])

/-- one delta (`StreamElement::Item(state_update)`, leader.rs:126-134) -/
def onDelta (c : Cfg σ δ) (st : St σ) (d : δ) : St σ × List (Out σ) :=
  let s1 := c.global st.state d
  if st.missing ≤ 1 then endRound c st s1
  else ({ st with state := s1, missing := st.missing - 1 }, [])

/-- one arrival on the delta channel -/
def step (c : Cfg σ δ) (st : St σ) : Elem δ → St σ × List (Out σ)
  | .item d => if st.done then (st, []) else onDelta c st d
  | .term =>
    if st.done then (st, [])
    else if st.terms + 1 ≥ c.n then ({ st with terms := st.terms + 1, done := true }, [.elem .term])
    else ({ st with terms := st.terms + 1 }, [])
  | .far => (st, [])          -- leader.rs:148
  | .flushBatch => (st, [])   -- leader.rs:148
  -- `Timestamped`/`Watermark`: `unreachable!` (leader.rs:149) — the Rust code panics; never generated
  | .ts _ _ => (st, [])
  | .wm _ => (st, [])

def run (c : Cfg σ δ) : St σ → List (Elem δ) → St σ × List (Out σ)
  | st, [] => (st, [])
  | st, e :: es =>
    let (st1, o1) := step c st e
    let (st2, o2) := run c st1 es
    (st2, o1 ++ o2)

/-- feed pure deltas -/
def runDeltas (c : Cfg σ δ) (st : St σ) (ds : List δ) : St σ × List (Out σ) :=
  run c st (ds.map Elem.item)

end Noir.Leader

/-! `IterationEnd` (src/operator/iteration/iteration_end.rs:84-116): what it sends to the leader. -/
namespace Noir.IterEnd

variable {δ : Type}

/-- state = `has_received_item`; input = element returned by the local fold in front of it;
    output = messages sent to the leader -/
def step (delta0 : δ) (has : Bool) : Elem δ → Bool × List (Elem δ)
  | .item d => (true, [.item d])                                   -- iteration_end.rs:87-92
  | .far => (false, if has then [] else [.item delta0])            -- :93-106 default delta when nothing arrived
  | .term => (has, [.term])                                        -- :107-111
  | _ => (has, [])                                                 -- FlushBatch; others `unreachable!`

def run (delta0 : δ) : Bool → List (Elem δ) → Bool × List (Elem δ)
  | has, [] => (has, [])
  | has, e :: es =>
    let r := step delta0 has e
    let r2 := run delta0 r.1 es
    (r2.1, r.2 ++ r2.2)

end Noir.IterEnd

/-! `Replay` (src/operator/iteration/replay.rs:86-200): the loop head of `replay`, as a transducer over
    what it receives: elements of its input (`prev.next()`, only while `!input_finished`) and the
    leader's `(continue?, state)` messages (consumed in `wait_update`). -/
namespace Noir.Replay

variable {α : Type}

structure St (α : Type) where
  /-- `content`: the recorded input of this execution of the loop (ends with `far` once complete) -/
  content : List (Elem α)
  /-- `input_finished` -/
  inputFinished : Bool
  deriving Repr, DecidableEq

inductive Ev (α : Type) where
  | input (e : Elem α)
  | state (cont : Bool)

inductive Act (α : Type) where
  /-- element handed to the loop body -/
  | emit (e : Elem α)
  /-- `self.state.lock()` -/
  | lock
  /-- `wait_sync_state`: local state written, barrier, unlock -/
  | sync
  deriving Repr, DecidableEq

def init : St α := ⟨[], false⟩

def step (st : St α) : Ev α → St α × List (Act α)
  | .input e =>
    if st.inputFinished then (st, [])            -- `input_next` returns None: the input is not pulled
    else match e with
      | .far => (⟨st.content ++ [.far], true⟩, [.lock, .emit .far])         -- replay.rs:93-105
      | .flushBatch => (st, [.emit .flushBatch])                            -- forwarded, not recorded
      | .term => (st, [.emit .term])
      | e => (⟨st.content ++ [e], false⟩, [.emit e])                        -- recorded and forwarded
  | .state cont =>
    if !st.inputFinished then (st, [])           -- not in `wait_update`: the message stays in its channel
    else if cont then
      -- replay.rs:176-186: `content_index = 0`, the whole content is handed out again, `lock` at its `far`
      (st, .sync :: (st.content.flatMap fun e => if e.isFar then [.lock, .emit e] else [.emit e]))
    else
      -- replay.rs:192-196: cleanup for the next execution (nested loops)
      (⟨[], false⟩, [.sync])

def run : St α → List (Ev α) → St α × List (Act α)
  | st, [] => (st, [])
  | st, e :: es =>
    let r := step st e
    let r2 := run r.1 es
    (r2.1, r.2 ++ r2.2)

/-- the elements handed to the body -/
def emitted (as : List (Act α)) : List (Elem α) := as.filterMap fun | .emit e => some e | _ => none

end Noir.Replay

/-! `Iterate` (src/operator/iteration/iterate.rs:100-280): the loop head of `iterate`. It receives the
    outside input (`input_stash`), the loop's own output of the running round (`feedback_content`) and
    the leader's messages; it hands `content` to the body and, when the loop finishes, sends the last
    round's elements to the output block (`output_sender`). -/
namespace Noir.Iterate

variable {α : Type}

structure St (α : Type) where
  content : List (Elem α)
  stash : List (Elem α)
  fb : List (Elem α)
  inputFinished : Bool
  /-- blocked in `wait_update` (the feedback of the round is complete and was moved to `content`) -/
  waiting : Bool
  /-- leader messages that arrived before `wait_update` was reached (they wait in their channel) -/
  sq : List Bool
  deriving Repr, DecidableEq

inductive Ev (α : Type) where
  | input (b : List (Elem α))
  | feedback (b : List (Elem α))
  | state (cont : Bool)

inductive Act (α : Type) where
  | emit (e : Elem α)
  | lock
  | sync
  /-- `output_sender.send(batch)`: one batch to the output block -/
  | out (b : List (Elem α))
  deriving Repr, DecidableEq

def init : St α := ⟨[], [], [], false, false, []⟩

/-- one turn of the `next()` loop (iterate.rs:228-275); `none` = blocked on a receive -/
def pstep (st : St α) : Option (St α × List (Act α)) :=
  if st.waiting then
    match st.sq with
    | [] => none
    | c :: sq =>
      -- `wait_sync_state` (iterate.rs:258-268)
      if c then some ({ st with waiting := false, sq := sq }, [.sync])
      else some ({ st with waiting := false, sq := sq, inputFinished := false, content := [] },
                 [.sync, .out st.content])
  else if !st.inputFinished then
    match st.stash with
    | [] => none
    | .far :: rest => some ({ st with stash := rest, inputFinished := true }, [.lock, .emit .far])   -- :118-124
    | .term :: rest => some ({ st with stash := rest }, [.out [.term], .emit .term])                 -- :129-134
    | e :: rest => some ({ st with stash := rest }, [.emit e])
  else
    match st.content with
    | e :: rest =>                                                                                   -- `next_stored`
      some ({ st with content := rest }, if e.isFar then [.lock, .emit e] else [.emit e])
    | [] =>
      if (st.fb.getLast?.map Elem.isFar).getD false then                                                             -- `feedback_finished`
        some ({ st with content := st.fb, fb := [], waiting := true }, [])                           -- swap, `wait_update`
      else none

def pump : Nat → St α → St α × List (Act α)
  | 0, st => (st, [])
  | fuel + 1, st =>
    match pstep st with
    | none => (st, [])
    | some (st', a) =>
      let r := pump fuel st'
      (r.1, a ++ r.2)

def size (st : St α) : Nat := st.content.length + st.stash.length + 2 * st.fb.length + st.sq.length

def apply (st : St α) : Ev α → St α
  | .input b => { st with stash := st.stash ++ b }
  | .feedback b => { st with fb := st.fb ++ b }
  | .state c => { st with sq := st.sq ++ [c] }

/-- deliver one message, then run until blocked -/
def step (st : St α) (ev : Ev α) : St α × List (Act α) :=
  pump (size (apply st ev) + 3) (apply st ev)

def run : St α → List (Ev α) → St α × List (Act α)
  | st, [] => (st, [])
  | st, e :: es =>
    let r := step st e
    let r2 := run r.1 es
    (r2.1, r.2 ++ r2.2)

def emitted (as : List (Act α)) : List (Elem α) := as.filterMap fun | .emit e => some e | _ => none
def outputs (as : List (Act α)) : List (List (Elem α)) := as.filterMap fun | .out b => some b | _ => none

end Noir.Iterate
