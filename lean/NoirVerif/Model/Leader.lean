/-
  Model/Leader.lean — `IterationLeader` (src/operator/iteration/leader.rs:119-236) as a transducer
  over the elements that arrive on its delta channel.

  The leader owns a `Start::single(feedback_block_id, None)` (leader.rs:188). All replicas of the
  `IterationEnd` block share ONE channel, so "arrival order" is the order of the batches in that
  channel. The inner `Start` (start/mod.rs:213-281)
    * hands `Item(delta)` through in arrival order,
    * swallows the per-replica `FlushAndRestart`s and emits one when all replicas sent theirs — the
      leader ignores it (leader.rs:148), so FARs are irrelevant and modelled as ignored,
    * produces `FlushBatch` (batch content or 1 ms timeout) — ignored by the leader (leader.rs:148),
    * returns `Terminate` once every replica sent its `Terminate` (checked at the loop top, so the
      rest of the current batch is dropped).
  `next()` (leader.rs:199-236) loops over rounds; it returns only with `Item(final state)`, then
  `FlushAndRestart` (flag `flush_and_restart`), or `Terminate`. As a transducer the three outputs of
  the final round are produced at the arrival of the round's last delta.
-/
import NoirVerif.Model.Elem
namespace Noir.Leader

variable {σ δ : Type}

/-- The user functions and constants of the leader. `cond` is `loop_condition: Fn(&mut State) -> bool`
    (it may mutate the state, leader.rs:155), `global` is `global_fold: Fn(&mut State, Delta)`. -/
structure Cfg (σ δ : Type) where
  init : σ
  maxIter : Nat
  /-- `num_receivers` = replicas of the `IterationEnd` block (leader.rs:190) -/
  n : Nat
  global : σ → δ → σ
  cond : σ → Bool × σ

/-- leader state between two arrivals -/
structure St (σ : Type) where
  /-- `self.state` -/
  state : σ
  /-- `self.iteration_index` -/
  idx : Nat
  /-- `missing_state_updates` of the running `process_updates` call (leader.rs:120) -/
  missing : Nat
  /-- `Terminate`s consumed by the inner Start (`num - missing_terminate`) -/
  terms : Nat
  /-- `Terminate` has been returned -/
  done : Bool
  deriving Repr, DecidableEq

/-- observable actions -/
inductive Out (σ : Type) where
  /-- the broadcast `(IterationResult::from_condition(cont), state)` to every feedback sender (leader.rs:215-226) -/
  | feedback (cont : Bool) (s : σ)
  /-- an element returned by `next()` -/
  | elem (e : Elem σ)
  deriving Repr, DecidableEq

def init (c : Cfg σ δ) : St σ := ⟨c.init, 0, c.n, 0, false⟩

/-- end of a round: `iteration_index += 1; final_result()` (leader.rs:154-176, 211-233) -/
def endRound (c : Cfg σ δ) (st : St σ) (s1 : σ) : St σ × List (Out σ) :=
  let idx := st.idx + 1
  let (lc, s2) := c.cond s1                       -- loop_condition(self.state.as_mut())
  let cont := lc && decide (idx < c.maxIter)      -- should_continue
  if cont then
    ({ st with state := s2, idx := idx, missing := c.n }, [.feedback true s2])
  else
    -- `state.take()`, `self.state = initial_state.clone()` BEFORE the broadcast: the final
    -- feedback carries the reset state; then `Item(state)`, `iteration_index = 0`, later FAR
    ({ st with state := c.init, idx := 0, missing := c.n },
      [.feedback false c.init, .elem (.item s2), .elem .far])

/-- one delta (`StreamElement::Item(state_update)`, leader.rs:126-134) -/
def onDelta (c : Cfg σ δ) (st : St σ) (d : δ) : St σ × List (Out σ) :=
  let s1 := c.global st.state d
  if st.missing ≤ 1 then endRound c st s1
  else ({ st with state := s1, missing := st.missing - 1 }, [])

/-- one arrival on the delta channel -/
def step (c : Cfg σ δ) (st : St σ) : Elem δ → St σ × List (Out σ)
  | .item d => if st.done then (st, []) else onDelta c st d
  | .term =>
    if st.done then (st, [])
    else if st.terms + 1 ≥ c.n then ({ st with terms := st.terms + 1, done := true }, [.elem .term])
    else ({ st with terms := st.terms + 1 }, [])
  | .far => (st, [])          -- leader.rs:148
  | .flushBatch => (st, [])   -- leader.rs:148
  -- `Timestamped`/`Watermark`: `unreachable!` (leader.rs:149) — the Rust code panics; never generated
  | .ts _ _ => (st, [])
  | .wm _ => (st, [])

def run (c : Cfg σ δ) : St σ → List (Elem δ) → St σ × List (Out σ)
  | st, [] => (st, [])
  | st, e :: es =>
    let (st1, o1) := step c st e
    let (st2, o2) := run c st1 es
    (st2, o1 ++ o2)

/-- feed pure deltas -/
def runDeltas (c : Cfg σ δ) (st : St σ) (ds : List δ) : St σ × List (Out σ) :=
  run c st (ds.map Elem.item)

end Noir.Leader

/-! `IterationEnd` (src/operator/iteration/iteration_end.rs:84-116): what it sends to the leader. -/
namespace Noir.IterEnd

variable {δ : Type}

/-- state = `has_received_item`; input = element returned by the local fold in front of it;
    output = messages sent to the leader -/
def step (delta0 : δ) (has : Bool) : Elem δ → Bool × List (Elem δ)
  | .item d => (true, [.item d])                                   -- iteration_end.rs:87-92
  | .far => (false, if has then [] else [.item delta0])            -- :93-106 default delta when nothing arrived
  | .term => (has, [.term])                                        -- :107-111
  | _ => (has, [])                                                 -- FlushBatch; others `unreachable!`

def run (delta0 : δ) : Bool → List (Elem δ) → Bool × List (Elem δ)
  | has, [] => (has, [])
  | has, e :: es =>
    let r := step delta0 has e
    let r2 := run delta0 r.1 es
    (r2.1, r.2 ++ r2.2)

end Noir.IterEnd
