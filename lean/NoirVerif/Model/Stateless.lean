/-
  Model/Stateless.lean — the stateless ("per element") operators of a block's operator chain as
  transducers on streams. Import-free apart from the stream vocabulary: linked into the
  `noir_model` driver executable (Driver/Stateless.lean) and used by the proofs of
  Lemmas/SeqChain.lean / Props/C16Chain.lean.

  * `liftStage f` — `map` (map.rs:70, `StreamElement::map`), `filter` (filter.rs:54-61),
    `filter_map` (filter_map.rs:64-83), `flat_map` / `flatten` and their keyed forms
    (flat_map.rs:102-137, 244-283; flatten.rs:98-135, 231-270), `inspect` (inspect.rs:51-60),
    `key_by` (key_by.rs:70-81), `rich_map_custom` with `|eg| eg.next().map(f)`
    (rich_map_custom.rs:89-92), `unkey` / `drop_key`: a data element is replaced by its children in
    order, a child of `Timestamped(_, t)` is `Timestamped(_, t)`, a child of `Item` is an `Item`;
    `Watermark`, `FlushBatch`, `FlushAndRestart`, `Terminate` pass unchanged and in place.
  * `liftStageAcc` — the same with a user state threaded through the data elements in order
    (`rich_map` rich_map.rs:85-102 and what is built on it: `rich_flat_map`, `rich_filter_map`);
    the state is NOT reset by `FlushAndRestart` (rich_map.rs:87-89: the `clear()` is commented out).
  * `dropTs` — `drop_timestamps` (add_timestamps.rs:135-143): watermarks vanish, `Timestamped`
    becomes `Item`.
  * `addTs` — `add_timestamps` (add_timestamps.rs:71-89) on a stream without timestamps: an `Item`
    becomes `Timestamped(item, ts_gen(item))`, followed at once (next call) by the watermark
    `watermark_gen(item, ts)` if there is one; `Timestamped` / `Watermark` input would panic.
-/
import NoirVerif.Model.Elem
namespace Noir.Stateless

variable {α β γ σ : Type}

/-- one element through a stage: data elements are expanded (a timestamped one keeps its
    timestamp on every result, flat_map.rs:110-113), everything else passes unchanged -/
def liftElem (f : α → List β) : Elem α → List (Elem β)
  | .item a => (f a).map .item
  | .ts a t => (f a).map (fun b => .ts b t)
  | .wm t => [.wm t]
  | .flushBatch => [.flushBatch]
  | .term => [.term]
  | .far => [.far]

/-- an operator chain `stage` (map / filter / flat_map / inspect and compositions) on a stream -/
def liftStage (f : α → List β) (l : List (Elem α)) : List (Elem β) := l.flatMap (liftElem f)

/-- Kleisli composition of stages -/
def kleisli (f : α → List β) (g : β → List γ) : α → List γ := fun a => (f a).flatMap g

/-- a stage with user state: `step s a` = new state and the children of `a` -/
def liftStageAcc (step : σ → α → σ × List β) : σ → List (Elem α) → List (Elem β)
  | _, [] => []
  | s, .item a :: l => (step s a).2.map .item ++ liftStageAcc step (step s a).1 l
  | s, .ts a t :: l => (step s a).2.map (fun b => .ts b t) ++ liftStageAcc step (step s a).1 l
  | s, .wm t :: l => .wm t :: liftStageAcc step s l
  | s, .flushBatch :: l => .flushBatch :: liftStageAcc step s l
  | s, .term :: l => .term :: liftStageAcc step s l
  | s, .far :: l => .far :: liftStageAcc step s l

/-- `drop_timestamps` -/
def dropTs : List (Elem α) → List (Elem α)
  | [] => []
  | .wm _ :: l => dropTs l
  | .ts a _ :: l => .item a :: dropTs l
  | e :: l => e :: dropTs l

/-- `add_timestamps(ts_gen, watermark_gen)`; `none` = the operator panics ("AddTimestamp received
    invalid variant") -/
def addTs (tsGen : α → Int) (wmGen : α → Int → Option Int) : List (Elem α) → Option (List (Elem α))
  | [] => some []
  | .item a :: l =>
    let t := tsGen a
    (addTs tsGen wmGen l).map fun rest =>
      .ts a t :: (match wmGen a t with | some w => [.wm w] | none => []) ++ rest
  | .ts _ _ :: _ => none
  | .wm _ :: _ => none
  | e :: l => (addTs tsGen wmGen l).map (e :: ·)

end Noir.Stateless
