/-
  Model/KeyedJoin.lean — `JoinKeyedOuter` (src/operator/join/keyed_join.rs:50-262, a hand-inlined copy of
  `JoinLocalHash` over `(K, V)` items that strips the key from the joined values) and `JoinKeyedInner`
  (keyed_join.rs:264-401). Same representation choices as Model/HashJoin.lean: a `HashMap<K, Vec<V>>`
  is the flat list of stored `(k, v)` in arrival order, `get(&key)` = `lookup`.
-/
import NoirVerif.Model.HashJoin
namespace Noir.Join.KeyedJoin
open Noir.Join.HashJoin (Side State lookup)

variable {κ α β : Type} [DecidableEq κ]

/-! ### `JoinKeyedOuter::process_item` (keyed_join.rs:84-186), written out arm by arm as in the Rust text -/

def outerStepBin (v : Variant) (s : State κ (κ × α) (κ × β)) :
    Bin (κ × α) (κ × β) → State κ (κ × α) (κ × β) × List (Out κ α β)
  | .left (key, v1) =>
    let out : List (Out κ α β) :=
      match lookup Prod.fst s.right.data key with
      | [] => if s.right.ended && v.leftOuter then [(key, some v1, none)] else []   -- keyed_join.rs:97
      | m :: ms => (m :: ms).map fun r => (key, some v1, some r.2)                   -- keyed_join.rs:91
    let keys := if v.rightOuter then s.left.keys ++ [key] else s.left.keys           -- keyed_join.rs:103
    let data := if !s.right.ended then s.left.data ++ [(key, v1)] else s.left.data   -- keyed_join.rs:106
    ({ s with left := { s.left with keys := keys, data := data } }, out)
  | .right (key, v2) =>
    let out : List (Out κ α β) :=
      match lookup Prod.fst s.left.data key with
      | [] => if s.left.ended && v.rightOuter then [(key, none, some v2)] else []    -- keyed_join.rs:119
      | m :: ms => (m :: ms).map fun l => (key, some l.2, some v2)                    -- keyed_join.rs:113
    let keys := if v.leftOuter then s.right.keys ++ [key] else s.right.keys          -- keyed_join.rs:125
    let data := if !s.left.ended then s.right.data ++ [(key, v2)] else s.right.data  -- keyed_join.rs:128
    ({ s with right := { s.right with keys := keys, data := data } }, out)
  | .leftEnd =>
    let out : List (Out κ α β) :=
      if v.rightOuter then                                                             -- keyed_join.rs:139
        (s.right.data.filter fun r => !s.left.keys.contains r.1).map fun r => (r.1, none, some r.2)
      else []
    ({ left := { s.left with keys := [], ended := true }, right := { s.right with data := [] } }, out)
  | .rightEnd =>
    let out : List (Out κ α β) :=
      if v.leftOuter then                                                              -- keyed_join.rs:165
        (s.left.data.filter fun l => !s.right.keys.contains l.1).map fun l => (l.1, some l.2, none)
      else []
    ({ left := { s.left with data := [] }, right := { s.right with keys := [], ended := true } }, out)

def outerFeed (v : Variant) : State κ (κ × α) (κ × β) → List (Bin (κ × α) (κ × β)) → List (Out κ α β)
  | _, [] => []
  | s, b :: bs => (outerStepBin v s b).2 ++ outerFeed v (outerStepBin v s b).1 bs

/-- `KeyedStream::join_outer` builds `JoinKeyedOuter::new(prev, JoinVariant::Outer)` (keyed_join.rs:417) -/
def outerRun (tr : List (Bin (κ × α) (κ × β))) : List (Out κ α β) :=
  outerFeed .outer HashJoin.State.init tr

/-! ### `JoinKeyedInner` (keyed_join.rs:264-401) -/

/-- `left`, `right` maps and the two end flags -/
structure InnerState (κ α β : Type) where
  left : List (κ × α)
  right : List (κ × β)
  leftEnded : Bool
  rightEnded : Bool
  deriving Repr, DecidableEq

def InnerState.init : InnerState κ α β := ⟨[], [], false, false⟩

/-- `JoinKeyedInner::process_item` (keyed_join.rs:312-351) -/
def innerStepBin (s : InnerState κ α β) :
    Bin (κ × α) (κ × β) → InnerState κ α β × List (κ × α × β)
  | .left (key, v1) =>
    -- `if let Some(right) = self.right.get(&key) { for v2 in right {…} }` then unconditional push
    ({ s with left := s.left ++ [(key, v1)] },
      (lookup Prod.fst s.right key).map fun r => (key, v1, r.2))
  | .right (key, v2) =>
    ({ s with right := s.right ++ [(key, v2)] },
      (lookup Prod.fst s.left key).map fun l => (key, l.2, v2))
  | .leftEnd =>
    -- `left_ended = true; right.clear(); if right_ended { left.clear(); right.clear() }`
    ({ s with leftEnded := true, right := [], left := if s.rightEnded then [] else s.left }, [])
  | .rightEnd =>
    ({ s with rightEnded := true, left := [], right := if s.leftEnded then [] else s.right }, [])

def innerFeed : InnerState κ α β → List (Bin (κ × α) (κ × β)) → List (κ × α × β)
  | _, [] => []
  | s, b :: bs => (innerStepBin s b).2 ++ innerFeed (innerStepBin s b).1 bs

def innerStateAfter : InnerState κ α β → List (Bin (κ × α) (κ × β)) → InnerState κ α β
  | s, [] => s
  | s, b :: bs => innerStateAfter (innerStepBin s b).1 bs

def innerRun (tr : List (Bin (κ × α) (κ × β))) : List (κ × α × β) := innerFeed InnerState.init tr

/-- the two `assert!`s of the `FlushAndRestart` arm (keyed_join.rs:372-373) -/
def innerFarOk (s : InnerState κ α β) : Bool := s.left.isEmpty && s.right.isEmpty

/-- `FlushAndRestart`: `left_ended = false; right_ended = false` (keyed_join.rs:378) -/
def innerFar (s : InnerState κ α β) : InnerState κ α β :=
  { s with leftEnded := false, rightEnded := false }

/-- the inner relational join on keyed values -/
def relJoinInner (L : List (κ × α)) (R : List (κ × β)) : List (κ × α × β) :=
  L.flatMap fun l => (R.filter fun r => decide (r.1 = l.1)).map fun r => (l.1, l.2, r.2)

end Noir.Join.KeyedJoin
