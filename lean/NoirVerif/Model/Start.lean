/-
  Model/Start.lean — `WatermarkFrontier` (src/operator/start/watermark_frontier.rs) and the
  `Start` operator over a simple receiver (src/operator/start/mod.rs:213-300).

  Upstream replicas are identified by their index `r < n` in `prev_replicas`. The input is the
  *arrival sequence* `(r, e)`: element `e` of a batch sent by replica `r`, in the order in which
  `Start::next` consumes them (batches of one endpoint channel are consumed whole and in FIFO
  order, so every batch-level schedule is an element-level arrival sequence). The fake
  `FlushBatch` produced on a receive timeout is the arrival `timeout`.
-/
import NoirVerif.Model.Elem
namespace Noir.Start

variable {α : Type}

/-! ## WatermarkFrontier -/

structure Frontier where
  /-- `map`: latest watermark per upstream replica -/
  latest : List (Option Int)
  /-- `front`: last frontier computed -/
  front : Option Int
  deriving Repr, DecidableEq

/-- `opt_join(min, x, std::cmp::min)` -/
def optJoinMin : Option Int → Option Int → Option Int
  | some a, some b => some (min a b)
  | some a, none => some a
  | none, b => b

/-- `compute_frontier`: fold `(all & x.is_some(), opt_join(min, x))`, `None` unless complete. -/
def computeFold : List (Option Int) → Bool × Option Int → Bool × Option Int
  | [], acc => acc
  | x :: xs, (all, m) => computeFold xs (all && x.isSome, optJoinMin m x)

def compute (l : List (Option Int)) : Option Int :=
  let (complete, m) := computeFold l (true, none)
  if complete then m else none

def Frontier.new (n : Nat) : Frontier := ⟨List.replicate n none, none⟩

/-- the `match (prev_frontier, self.front)` at the end of `update` -/
def announce : Option Int → Option Int → Option Int
  | none, some new => some new
  | some old, some new => if old ≠ new then some new else none
  | _, _ => none

/-- `update(coord, ts)`: returns the new state and `Some(ts')` if `ts'` is now safe. -/
def Frontier.update (f : Frontier) (r : Nat) (t : Int) : Frontier × Option Int :=
  match f.latest[r]? with
  | none => (f, none)                       -- `self.map[&coord]` would panic: unknown sender (unreachable)
  | some t0 =>
    if (match t0 with | some t' => decide (t' ≥ t) | none => false) then (f, none)   -- old watermark
    else
      let latest := f.latest.set r (some t)
      let front := compute latest
      (⟨latest, front⟩, announce f.front front)

/-- `reset` -/
def Frontier.reset (f : Frontier) : Frontier := ⟨f.latest.map (fun _ => none), none⟩

/-! ## Start -/

structure State where
  n : Nat                 -- num_previous_replicas
  missingTerm : Nat
  missingFar : Nat
  frontier : Frontier
  /-- `pending_watermark`: a frontier increase caused by a replica ending its iteration, announced
      right before the next data element unless a later watermark supersedes it -/
  pending : Option Int := none
  deriving Repr, DecidableEq

def init (n : Nat) : State := ⟨n, n, n, Frontier.new n, none⟩

/-- One arrival. -/
inductive Arrival (α : Type) where
  | elem (r : Nat) (e : Elem α)
  | timeout
  deriving Repr

/-- After an element has been consumed the loop of `next` re-checks, in this order,
    `missing_terminate == 0` (emit `Terminate`) and `missing_flush_and_restart == 0`
    (emit `FlushAndRestart`, reset). -/
def afterCounters (s : State) : State × List (Elem α) :=
  if s.missingTerm = 0 then (s, [.term])
  else if s.missingFar = 0 then
    ({ s with missingFar := s.n, frontier := s.frontier.reset, pending := none }, [.far])
  else (s, [])

/-- Process one arrival, returning what `next()` yields because of it (in order). -/
def step (s : State) (a : Arrival α) : State × List (Elem α) :=
  if s.missingTerm = 0 then (s, [])        -- already terminated: nothing is ever consumed again
  else
  match a with
  | .timeout =>
    -- the fake `FlushBatch` of a receive timeout: a pending announcement goes out first
    match s.pending with
    | some p => ({ s with pending := none }, [.wm p, .flushBatch])
    | none => (s, [.flushBatch])
  | .elem r e =>
    match e with
    | .wm t =>
      let (f, out) := s.frontier.update r t
      match out with
      | some t' => ({ s with frontier := f, pending := none }, [.wm t'])   -- supersedes a pending one
      | none => ({ s with frontier := f }, [])
    | .far =>
      -- `if let Some(ts) = self.watermark_frontier.update(sender, Timestamp::MAX) { pending = Some(ts) }`
      let (f, out) := s.frontier.update r TS_MAX
      afterCounters { s with frontier := f, missingFar := s.missingFar - 1,
                             pending := match out with | some t' => some t' | none => s.pending }
    | .term => afterCounters { s with missingTerm := s.missingTerm - 1 }
    | .item a =>
      match s.pending with
      | some p => ({ s with pending := none }, [.wm p, .item a])   -- the stashed element follows
      | none => (s, [.item a])
    | .ts a t =>
      match s.pending with
      | some p => ({ s with pending := none }, [.wm p, .ts a t])
      | none => (s, [.ts a t])
    | .flushBatch =>
      match s.pending with
      | some p => ({ s with pending := none }, [.wm p, .flushBatch])
      | none => (s, [.flushBatch])

/-- Outputs of a whole arrival sequence, each tagged with the index of the arrival causing it. -/
def runFrom (s : State) (i : Nat) : List (Arrival α) → List (Nat × Elem α)
  | [] => []
  | a :: as =>
    let (s', out) := step s a
    out.map (fun e => (i, e)) ++ runFrom s' (i + 1) as

def run (n : Nat) (as : List (Arrival α)) : List (Elem α) := (runFrom (init n) 0 as).map (·.2)

def stateAfter (s : State) : List (Arrival α) → State
  | [] => s
  | a :: as => stateAfter (step s a).1 as

end Noir.Start
