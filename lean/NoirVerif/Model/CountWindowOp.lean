/-
  Model/CountWindowOp.lean — `CountWindowManager` (Model/CountWindow.lean) as a manager of the keyed
  dispatch of `WindowOperator` (Model/WindowOp.lean): what
  `stream.key_by(..).window(CountWindow::new(n, s, exact)).fold(..)` instantiates
  (src/operator/window/mod.rs:258-280, descr/count.rs:140-155).
-/
import NoirVerif.Model.CountWindow
import NoirVerif.Model.WindowOp
namespace Noir.CountWindow
open Noir.WindowOp

variable {α : Type}

/-- `WindowResult::new(acc.output(), ts)` (count.rs:75, 87) -/
def Result.toW (r : Result α) : WResult (List α) := ⟨r.items, r.ts⟩

/-- The manager as seen by `WindowOperator`: `init` = the manager built by `CountWindow::build`
    (no slot), `process` returns `Option<WindowResult>` (0 or 1 result), `recycle` is the trait's
    default `false` (mod.rs:75-77; count.rs does not override it, so a key's manager is never
    dropped). `process` does not panic for `size ≥ 1`, `slide ≥ 1` (for `slide = 0` it divides by
    zero, for `size = 0` it unwraps the front of an empty deque; outside the quantifier of C12). -/
def mgr (c : Cfg) : Mgr (List (Slot α)) α (List α) :=
  ⟨[], fun ws e => ((process c ws e).1, ((process c ws e).2.map Result.toW).toList), fun _ => false,
    fun _ _ => none⟩

end Noir.CountWindow
