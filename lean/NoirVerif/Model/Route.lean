/-
  Model/Route.lean — `RoutingEnd::{setup, setup_endpoints, next}` (src/operator/route.rs:157-285), the
  operator behind `Stream::route()` (`RouterBuilder::build_inner`, route.rs:64-100: one new block per
  route, the routes are `(block id, filter)` in `add_route` order, strategy `OnlyOne`).

  Built on `Model/Router.lean`: `senders` (the sorted, non-fragile connections of the replica),
  `routeGroups` (`setup_endpoints`: per route the indexes of the senders towards its block) and
  `routeData` (the data arm: the first route whose filter accepts the item, `indexes[index]`).
  Batching is not modelled (C02): an `enqueue` is an output of the step.
-/
import NoirVerif.Model.Elem
import NoirVerif.Model.Placement
import NoirVerif.Model.Router
namespace Noir.Route
open Noir.Placement (Coord)
open Noir.Router (Endpoint)

/-- a set-up `RoutingEnd` -/
structure State where
  senders : List Endpoint
  /-- `endpoints[i].block_senders.indexes`, in route order -/
  groups : List (List Nat)
  /-- `senders.drain(..)` happened (after `Terminate`) -/
  closed : Bool := false
  /-- an index panic happened (`self.senders[sender_idx]` after the drain, or `indexes[index]`) -/
  panicked : Bool := false
  deriving Repr, Inhabited

/-- `setup` (route.rs:209-222): all non-fragile connections, sorted (`sort_unstable_by_key` on
    distinct keys), then `setup_endpoints`; `none` = one of its `expect`/`assert!` fails. -/
def setup (meBlock : Nat) (routes : List Nat) (next : List (Coord × Bool)) : Option State :=
  let ss := Router.senders { strategy := .onlyOne } meBlock next
  (Router.routeGroups routes ss).map fun gs => { senders := ss, groups := gs }

variable {α : Type}

/-- which routes' filters accept the item -/
def accepts (preds : List (α → Bool)) (a : α) : List Bool := preds.map (· a)

/-- `RoutingEnd::next` for one element pulled from `prev` (route.rs:224-285). `index` is
    `next_strategy.index(item)` (0 for `OnlyOne`, the only strategy `route()` uses). -/
def step (preds : List (α → Bool)) (index : Nat) (st : State) (e : Elem α) : State × List (Nat × Elem α) :=
  if st.panicked then (st, []) else
  let targets : Option (List Nat) :=
    match e with
    -- "Broadcast messages" (route.rs:233-242): every sender of every endpoint
    | .wm _ | .far | .term => some st.groups.flatten
    -- "Direct messages" (route.rs:244-260): first matching endpoint only; unmatched: nothing
    | .item a | .ts a _ => Router.routeData st.groups (accepts preds a) index
    | .flushBatch => some []
  match targets with
  | none => ({ st with panicked := true }, [])          -- `indexes[index]` out of range
  | some ts =>
    -- after `Terminate` the senders are gone (route.rs:277): touching one is an index panic
    if st.closed && !ts.isEmpty then ({ st with panicked := true }, [])
    else
      let st' := if e.isTerm then { st with closed := true } else st
      (st', ts.map fun i => (i, e))

def run (preds : List (α → Bool)) (index : Nat) : State → List (Elem α) → List (List (Nat × Elem α))
  | _, [] => []
  | st, e :: es => (step preds index st e).2 :: run preds index (step preds index st e).1 es

/-- the block a sender index leads to -/
def State.blockAt (st : State) (i : Nat) : Option Nat := st.senders[i]?.map (·.coord.block)

/-- position of the first accepting route -/
def firstMatch (preds : List (α → Bool)) (a : α) : Option Nat :=
  (accepts preds a).findIdx? id

end Noir.Route
