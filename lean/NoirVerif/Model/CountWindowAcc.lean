/-
  Model/CountWindowAcc.lean — `CountWindowManager<A>::process` (src/operator/window/descr/count.rs:52-93)
  with a REAL accumulator `A` in every slot (an `Acc` triple of Model/WindowAggr.lean), exactly as the
  Rust code keeps it: `Slot { count, acc, ts }`, `Slot::new(self.init.clone())`,
  `acc.process(el)` in `update_slot`, `acc.output()` when the slot is emitted.
  Model/CountWindow.lean is the same manager with the free accumulator (the list of elements);
  Props/C12.lean (`countWindow_acc_simulation`) proves that this model is its image under
  "fold the accumulator over the list".
-/
import NoirVerif.Model.CountWindow
import NoirVerif.Model.WindowAggr
namespace Noir.CountWindow
open Noir.WindowAggr

variable {α σ β : Type}

/-- `Slot<A>` (count.rs:22-26) -/
structure SlotA (σ : Type) where
  count : Nat
  acc : σ
  ts : Option Int

/-- `Slot::new(self.init.clone())` (count.rs:30-36, 67) -/
def SlotA.empty (a : Acc α σ β) : SlotA σ := ⟨0, a.init, none⟩

/-- `update_slot` (count.rs:41-49) -/
def SlotA.update (a : Acc α σ β) (s : SlotA σ) (x : α) (t : Option Int) : SlotA σ :=
  ⟨s.count + 1, a.process s.acc x, optMax s.ts t⟩

def padA (a : Acc α σ β) (c : Cfg) (ws : List (SlotA σ)) : List (SlotA σ) :=
  ws ++ List.replicate ((c.size + c.slide - 1) / c.slide - ws.length) (SlotA.empty a)

def updFirstA (a : Acc α σ β) : Nat → α → Option Int → List (SlotA σ) → List (SlotA σ)
  | 0, _, _, ws => ws
  | _ + 1, _, _, [] => []
  | k + 1, x, t, s :: ws => s.update a x t :: updFirstA a k x t ws

/-- data element branch (count.rs:66-80); a result is `(acc.output(), ts)` -/
def processItemA (a : Acc α σ β) (c : Cfg) (ws : List (SlotA σ)) (x : α) (t : Option Int) :
    List (SlotA σ) × Option (β × Option Int) :=
  let ws1 := padA a c ws
  match ws1 with
  | [] => ([], none)
  | s0 :: _ =>
    let k := s0.count / c.slide + 1
    match updFirstA a k x t ws1 with
    | [] => ([], none)
    | r :: rest => if r.count = c.size then (rest, some (a.output r.acc, r.ts)) else (r :: rest, none)

/-- `FlushAndRestart | Terminate` branch (count.rs:81-91) -/
def processEndA (a : Acc α σ β) (c : Cfg) (ws : List (SlotA σ)) : List (SlotA σ) × Option (β × Option Int) :=
  let ret :=
    if c.exact then none
    else match ws with
      | [] => none
      | r :: _ => if r.count > 0 then some (a.output r.acc, r.ts) else none
  ([], ret)

def processA (a : Acc α σ β) (c : Cfg) (ws : List (SlotA σ)) : Elem α → List (SlotA σ) × Option (β × Option Int)
  | .item x => processItemA a c ws x none
  | .ts x t => processItemA a c ws x (some t)
  | .far => processEndA a c ws
  | .term => processEndA a c ws
  | _ => (ws, none)

def runFromA (a : Acc α σ β) (c : Cfg) : List (SlotA σ) → Nat → List (Elem α) → List (Nat × β × Option Int)
  | _, _, [] => []
  | ws, i, e :: es =>
    match (processA a c ws e).2 with
    | some r => (i, r) :: runFromA a c (processA a c ws e).1 (i + 1) es
    | none => runFromA a c (processA a c ws e).1 (i + 1) es

/-- the manager with accumulator `a`, from its initial state -/
def runA (a : Acc α σ β) (c : Cfg) (es : List (Elem α)) : List (Nat × β × Option Int) := runFromA a c [] 0 es

/-- a slot of the free-accumulator model seen with accumulator `a` -/
def Slot.withAcc (a : Acc α σ β) (s : Slot α) : SlotA σ := ⟨s.count, s.items.foldl a.process a.init, s.ts⟩

def Result.withAcc (a : Acc α σ β) (r : Result α) : β × Option Int := (a.run r.items, r.ts)

end Noir.CountWindow
