/-
  Model/WindowAggr.lean — the window accumulators of src/operator/window/aggr/*.rs as
  `(init, process, output)` triples (`trait WindowAccumulator`, window/mod.rs:36-44:
  `process(&mut self, el)`, `output(self)`). A window manager clones the initial accumulator for
  every window, calls `process` once per element of the window in arrival order, and `output`
  when the window is emitted: `Acc.run`.
  Only aggr/{fold, collect_vec, count, max, min, nth, sum}.rs are compiled (aggr/mod.rs);
  first.rs, last.rs, collect.rs are dead files.
-/
namespace Noir.WindowAggr

/-- a `WindowAccumulator`: `init` = the accumulator the window description was built with -/
structure Acc (α σ β : Type) where
  init : σ
  process : σ → α → σ
  output : σ → β

variable {α σ β : Type}

/-- clone `init`, `process` every element in order, `output` -/
def Acc.run (a : Acc α σ β) (xs : List α) : β := a.output (xs.foldl a.process a.init)

/-- `Fold { state, f }` (fold.rs:9-47): `process` = `f(&mut state, el)`, `output` = `state` -/
def fold (init : σ) (f : σ → α → σ) : Acc α σ σ := ⟨init, f, id⟩

/-- `FoldFirst { state: Option<I>, f }` (fold.rs:50-88): the first element becomes the state.
    `output` = `state.expect(..)`: `none` stands for the panic (no element was processed). -/
def foldFirst (f : α → α → α) : Acc α (Option α) (Option α) :=
  ⟨none, fun s x => match s with | none => some x | some m => some (f m x), id⟩

/-- `Count(usize)` (count.rs:6-21) -/
def count : Acc α Nat Nat := ⟨0, fun n _ => n + 1, id⟩

/-- `First(Option<T>)` (nth.rs:6-25): keeps the first element; `output` = `expect` (`none` = panic) -/
def first : Acc α (Option α) (Option α) :=
  ⟨none, fun s x => match s with | none => some x | some y => some y, id⟩

/-- `Last(Option<T>)` (nth.rs:27-45): keeps the last element; `output` = `expect` (`none` = panic) -/
def last : Acc α (Option α) (Option α) := ⟨none, fun _ x => some x, id⟩

/-- `CollectVec { vec, f }` (collect_vec.rs:6-35, behind `WindowedStream::map`): `push`, then `f(vec)` -/
def collectVec (f : List α → β) : Acc α (List α) β := ⟨[], fun v x => v ++ [x], f⟩

/-- `sum()` (sum.rs:14-19): `Fold::new(NewOut::default(), |sum, x| *sum += x)` -/
def sum (zero : σ) (add : σ → α → σ) : Acc α σ σ := fold zero add

/-- `max()`, `max_by_key`, `max_by` (max.rs): `FoldFirst::new(|max, x| if x > *max { *max = x })`,
    `gt x m` = "x is strictly greater than the current maximum" — on ties the earlier element stays -/
def maxBy (gt : α → α → Bool) : Acc α (Option α) (Option α) := foldFirst fun m x => if gt x m then x else m

/-- `min()`, `min_by_key`, `min_by` (min.rs): `FoldFirst::new(|min, x| if x < *min { *min = x })` -/
def minBy (lt : α → α → Bool) : Acc α (Option α) (Option α) := foldFirst fun m x => if lt x m then x else m

end Noir.WindowAggr
