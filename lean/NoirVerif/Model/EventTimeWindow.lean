/-
  Model/EventTimeWindow.lean — `EventTimeWindowManager` (src/operator/window/descr/event_time.rs:7-117, after the fixes of F2 and F3).

  The accumulator is the *free* accumulator: a slot holds the list of the elements it was given
  (`WindowAccumulator::process` appends, `output` returns the list), each together with the
  timestamp it arrived with (ghost information: the Rust accumulator only sees the item; the
  timestamp is kept so that the interval property can be stated).

  `Timestamp = i64` is `Int` (no overflow, DESIGN.md §3). `size > 0`, `slide > 0` are asserted by
  `EventTimeWindow::sliding/tumbling` (event_time.rs:127-137).
-/
import NoirVerif.Model.WindowOp
namespace Noir.EventTimeWindow
open Noir.WindowOp

variable {α : Type}

/-- `size`, `slide` of the manager -/
structure Cfg where
  size : Int
  slide : Int
  deriving Repr, DecidableEq

/-- `Slot<A>` (event_time.rs:47): accumulator (free: the items with their timestamps),
    `start`, `end` (here `stop`), `active`. -/
structure Slot (α : Type) where
  start : Int
  stop : Int
  items : List (α × Int)
  active : Bool
  deriving Repr, DecidableEq

/-- `Slot::new` (event_time.rs:56) -/
def Slot.new (start stop : Int) : Slot α := ⟨start, stop, [], false⟩

/-- `w.acc.process(item.clone()); w.active = true` (event_time.rs:85-86) -/
def Slot.update (s : Slot α) (x : α) (t : Int) : Slot α :=
  { s with items := s.items ++ [(x, t)], active := true }

/-- manager state: `last_watermark`, `ws` (front of the deque = head of the list) -/
structure State (α : Type) where
  lw : Option Int
  ws : List (Slot α)
  deriving Repr, DecidableEq

def State.init : State α := ⟨none, []⟩

/-- what a result carries: the accumulated items -/
abbrev Res (α : Type) := WResult (List (α × Int))

/-- condition of the forward loop of `alloc_windows`: `self.ws.back().map(|b| b.start < ts).unwrap_or(true)` (event_time.rs:29) -/
def needMore (t : Int) (ws : List (Slot α)) : Bool :=
  match ws.getLast? with
  | some b => decide (b.start < t)
  | none => true

/-- start of the slot pushed by one iteration of the forward loop (event_time.rs:30-34):
    `back.start + slide` (or `ts` when there is no slot), moved forward by whole slides up to the
    last watermark ("skip empty windows"). `/` on a non-negative numerator and positive `slide`
    is the same for Rust's truncating and Lean's Euclidean division. -/
def nextStart (c : Cfg) (lw : Option Int) (t : Int) (ws : List (Slot α)) : Int :=
  let ns := match ws.getLast? with
    | some b => b.start + c.slide
    | none => t
  match lw with
  | some w => ns + (max (w - ns) 0) / c.slide * c.slide
  | none => ns

/-- the second (forward) `while` loop of `alloc_windows` (event_time.rs:29-42), with fuel. -/
def allocLoop (c : Cfg) (lw : Option Int) (t : Int) : Nat → List (Slot α) → List (Slot α)
  | 0, ws => ws       -- out of fuel: unreachable for `slide > 0` with the fuel given by `alloc` (`alloc_back`)
  | fuel + 1, ws =>
    if needMore t ws then
      let ns := nextStart c lw t ws
      allocLoop c lw t fuel (ws ++ [Slot.new ns (ns + c.size)])
    else ws

/-- the first `while` loop of `alloc_windows` (event_time.rs:21-27: comment + loop at 23-27, added by the fix of F2):
    `while ws.front().map(|f| f.start > ts).unwrap_or(false) { push_front(Slot::new(front.start - slide, …)) }`
    — windows are also allocated *backwards*, so that an element that is not late but earlier than
    the oldest open window finds a slot. With fuel. (Before the fix this loop did not exist: slots
    were anchored at the first timestamp and only ever allocated forward, and such an element was
    silently dropped.) -/
def allocBack (c : Cfg) (t : Int) : Nat → List (Slot α) → List (Slot α)
  | 0, ws => ws       -- out of fuel: unreachable for `slide > 0` with the fuel given by `alloc` (`allocBack_front`)
  | fuel + 1, ws =>
    match ws with
    | [] => []
    | f :: rest =>
      if f.start > t then
        allocBack c t fuel (Slot.new (f.start - c.slide) (f.start - c.slide + c.size) :: f :: rest)
      else f :: rest

/-- `alloc_windows` (event_time.rs:18-44). The `assert!` of line 19 (`ts >= last_watermark`) is
    `panics` below. Backward loop: every iteration moves `front.start` back by `slide ≥ 1`, so
    `front.start - ts` iterations are enough. Forward loop: every iteration moves `back.start`
    forward by at least `slide ≥ 1`, so `ts - back.start + 1` iterations are enough (one when
    there is no slot). -/
def alloc (c : Cfg) (lw : Option Int) (t : Int) (ws : List (Slot α)) : List (Slot α) :=
  let fuelB := match ws.head? with
    | some f => (f.start - t).toNat
    | none => 0
  let ws1 := allocBack c t fuelB ws
  let fuel := match ws1.getLast? with
    | some b => (t - b.start).toNat + 1
    | none => 1
  allocLoop c lw t fuel ws1

/-- `.take_while(|w| w.start <= ts).for_each(update)` (event_time.rs:83-87) -/
def assignTake (x : α) (t : Int) : List (Slot α) → List (Slot α)
  | [] => []
  | s :: rest => if s.start ≤ t then s.update x t :: assignTake x t rest else s :: rest

/-- `ws.iter_mut().skip_while(|w| w.end <= ts).take_while(..).for_each(..)` (event_time.rs:80-87) -/
def assign (x : α) (t : Int) : List (Slot α) → List (Slot α)
  | [] => []
  | s :: rest => if s.stop ≤ t then s :: assign x t rest else assignTake x t (s :: rest)

/-- `.filter(|w| w.active).map(|w| WindowResult::Timestamped(w.acc.output(), w.end))` (event_time.rs:96-97, 103-104) -/
def emit (ws : List (Slot α)) : List (Res α) :=
  (ws.filter (·.active)).map fun s => ⟨s.items, some s.stop⟩

/-- `WindowManager::process` (event_time.rs:76-112). `partition_point(|w| w.end <= ts)` is a binary
    search; on a deque whose `end`s are increasing (invariant `Sorted`, Lemmas/EventTimeWindow.lean)
    it is the length of the longest prefix with `end <= ts`. (Before the fix of F3 the predicate
    was `w.end < ts`: a window stamped `end` was emitted only after `Watermark(end)` had been
    forwarded.) -/
def process (c : Cfg) (st : State α) : Elem α → State α × List (Res α)
  | .ts x t => ({ st with ws := assign x t (alloc c st.lw t st.ws) }, [])
  | .wm w => (⟨some w, st.ws.dropWhile (fun s => decide (s.stop ≤ w))⟩,
              emit (st.ws.takeWhile (fun s => decide (s.stop ≤ w))))
  | .far => ({ st with ws := [] }, emit st.ws)      -- NB: `last_watermark` is kept
  | .term => ({ st with ws := [] }, emit st.ws)
  | .item _ => (st, [])                             -- panics (event_time.rs:107-109)
  | .flushBatch => (st, [])

/-- panic classes (as printed by the harness): the `assert!` of `alloc_windows` and the `Item` branch -/
def panics (st : State α) : Elem α → Option String
  | .ts _ t => match st.lw with
    | some w => if t < w then some "unwrap" else none     -- message contains `unwrap_or`
    | none => none
  | .item _ => some "other:event_time_windows_can_only_handle_times"
  | _ => none

/-- The input contract the code itself enforces (`assert!(ts >= last_watermark)`, event_time.rs:19):
    like `wmSafeGo` (Model/Elem.lean) but an element stamped EXACTLY the last watermark is
    accepted. Such an element violates the engine's watermark contract (C06: strictly later than
    every earlier watermark), but the manager neither panics nor mishandles it: see
    `etwin_preserves_wmsafe_lax`. -/
def wmSafeLaxGo {β : Type} : Option Int → List (Elem β) → Bool
  | _, [] => true
  | w, Elem.ts _ t :: rest =>
      (match w with | some w => decide (w ≤ t) | none => true) && wmSafeLaxGo w rest
  | w, Elem.wm t :: rest =>
      (match w with | some w => decide (w < t) | none => true) && wmSafeLaxGo (some t) rest
  | _, Elem.far :: rest => wmSafeLaxGo none rest
  | w, _ :: rest => wmSafeLaxGo w rest

def wmSafeLaxOk {β : Type} (tr : List (Elem β)) : Bool := wmSafeLaxGo none tr

/-- `recycle` (event_time.rs:113-115) -/
def recycle (st : State α) : Bool := st.ws.isEmpty

/-- the manager as seen by `WindowOperator` -/
def mgr (c : Cfg) : Mgr (State α) α (List (α × Int)) := ⟨State.init, process c, recycle, panics⟩

/-- run one manager: outputs paired with the index of the triggering element -/
def runFrom (c : Cfg) : State α → Nat → List (Elem α) → List (Nat × Res α)
  | _, _, [] => []
  | st, i, e :: es => ((process c st e).2.map fun r => (i, r)) ++ runFrom c (process c st e).1 (i + 1) es

def run (c : Cfg) (es : List (Elem α)) : List (Nat × Res α) := runFrom c State.init 0 es

def stateAfter (c : Cfg) : State α → List (Elem α) → State α
  | st, [] => st
  | st, e :: es => stateAfter c (process c st e).1 es

/-- first panic of a run, if any -/
def firstPanic (c : Cfg) : State α → List (Elem α) → Option String
  | _, [] => none
  | st, e :: es => (panics st e).or (firstPanic c (process c st e).1 es)

/-- all results of a run, in order -/
def results (c : Cfg) : State α → List (Elem α) → List (Res α)
  | _, [] => []
  | st, e :: es => (process c st e).2 ++ results c (process c st e).1 es

end Noir.EventTimeWindow
