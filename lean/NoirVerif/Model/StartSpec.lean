/-
  Model/StartSpec.lean — the *input contract* of a block input and the specification-side
  watermark frontier (used by the theorems of C05/C06/C17 and by the driver's oracle).

  The contract is an online checker over the arrival sequence `(r, e)`:
  * every link is watermark-safe (no timestamp or watermark ≤ an earlier watermark of the same
    link in the same iteration) and timestamps fit `i64`;
  * iterations are synchronised: after its `FlushAndRestart` a replica sends nothing but
    `Terminate` until every replica has ended the iteration (guaranteed by acyclicity outside
    loops and by the leader barrier inside loops, see C10);
  * `Terminate` is the last thing a replica sends, after at least one complete iteration, and no
    replica starts a new iteration once some replica has terminated.
-/
import NoirVerif.Model.Elem
namespace Noir.StartSpec

variable {α : Type}

/-- what the checker remembers about one upstream replica -/
structure Rep where
  lw : Option Int := none     -- last watermark in the current iteration
  ended : Bool := false       -- sent `FlushAndRestart` for the current iteration
  dirty : Bool := false       -- sent anything in the current iteration
  termd : Bool := false       -- sent `Terminate`
  deriving Repr, DecidableEq

structure InSt where
  reps : List Rep
  completed : Nat             -- iterations completed so far
  deriving Repr, DecidableEq

def InSt.init (n : Nat) : InSt := ⟨List.replicate n {}, 0⟩

def idle (s : InSt) : Bool := s.reps.all (fun p => !p.dirty && !p.ended)
def anyTermd (s : InSt) : Bool := s.reps.any (·.termd)

def above (lw : Option Int) (t : Int) : Bool :=
  match lw with | some w => decide (w < t) | none => true

/-- Start of a new iteration for everybody: forget watermarks, ended and dirty flags. -/
def resetIter (s : InSt) : InSt :=
  ⟨s.reps.map (fun p => { p with lw := none, ended := false, dirty := false }), s.completed + 1⟩

/-- One arrival; `none` = the arrival violates the contract. -/
def inStep (s : InSt) (r : Nat) (e : Elem α) : Option InSt :=
  match s.reps[r]? with
  | none => none
  | some p =>
    if p.termd then none else
    match e with
    | .term =>
      if p.ended || (idle s && decide (s.completed ≥ 1)) then
        some { s with reps := s.reps.set r { p with termd := true } }
      else none
    | .flushBatch => none
    | e =>
      if p.ended || anyTermd s && idle s then none else
      match e with
      | .item _ => some { s with reps := s.reps.set r { p with dirty := true } }
      | .ts _ t =>
        if decide (t ≤ TS_MAX) && above p.lw t then
          some { s with reps := s.reps.set r { p with dirty := true } } else none
      | .wm t =>
        if decide (t ≤ TS_MAX) && above p.lw t then
          some { s with reps := s.reps.set r { p with dirty := true, lw := some t } } else none
      | .far =>
        let s' : InSt := { s with reps := s.reps.set r { p with dirty := true, ended := true } }
        if s'.reps.all (·.ended) then some (resetIter s') else some s'
      | _ => none

/-- the whole arrival sequence respects the contract -/
def inputOkFrom (s : InSt) : List (Nat × Elem α) → Bool
  | [] => true
  | (r, e) :: rest =>
    match inStep s r e with
    | some s' => inputOkFrom s' rest
    | none => false

def inputOk (n : Nat) (arr : List (Nat × Elem α)) : Bool := inputOkFrom (InSt.init n) arr

def inStateAfter (s : InSt) : List (Nat × Elem α) → InSt
  | [] => s
  | (r, e) :: rest =>
    match inStep s r e with
    | some s' => inStateAfter s' rest
    | none => s

/-- every replica terminated -/
def complete (s : InSt) : Bool := s.reps.all (·.termd)

/-- `min` of a list of integers, `none` if empty -/
def minList : List Int → Option Int
  | [] => none
  | x :: xs => match minList xs with | none => some x | some m => some (min x m)

/-- **Specification frontier**: the minimum, over the replicas that have not yet ended the
    iteration, of their latest watermark; defined when each of them has one and there is one. -/
def specFront (s : InSt) : Option Int :=
  let active := s.reps.filter (fun p => !p.ended)
  if active.all (fun p => p.lw.isSome) then minList (active.filterMap (·.lw)) else none

end Noir.StartSpec
