/-
  Model/Router.lean — how the last operator of a block routes elements to the next blocks (C03).

  * `End::{setup, setup_senders, next}`            src/operator/end.rs:119-242
  * `NextStrategy::index`                          src/block/next_strategy.rs:96-102
  * `NetworkTopology::get_senders`                 src/network/topology.rs:190-211
  * `RoutingEnd::{setup_endpoints, next}`          src/operator/route.rs:157-262

  Batching is not modelled here (C02): an `enqueue` is an output of the step.
  Import-free apart from the other models.
-/
import NoirVerif.Model.Elem
import NoirVerif.Model.Placement
namespace Noir.Router
open Noir.Placement (Coord lexLe)

/-- `ReceiverEndpoint { coord, prev_block_id }`, `derive(Ord)` -/
structure Endpoint where
  coord : Coord
  prev : Nat
  deriving Repr, DecidableEq, Inhabited

def Endpoint.key (e : Endpoint) : List Nat := e.coord.key ++ [e.prev]

/-- `NextStrategy` (the key hash of `GroupBy` is a parameter of `step`) -/
inductive Strategy where
  | onlyOne
  | random
  | groupBy
  | all
  deriving Repr, DecidableEq, Inhabited

/-- `NextStrategy::index`: `0` for `OnlyOne`/`All`, a random number, `keyer(message) as usize`. -/
def Strategy.index (s : Strategy) (rnd hash : Nat) : Nat :=
  match s with
  | .onlyOne | .all => 0
  | .random => rnd
  | .groupBy => hash

/-- the configuration of an `End` -/
structure Cfg where
  strategy : Strategy
  /-- `mark_feedback` -/
  feedback : Option Nat := none
  /-- `ignore_destination` -/
  ignore : List Nat := []
  deriving Repr, Inhabited

/-- `get_senders(coord)`: the non-fragile entries of `next[(coord, typ)]` as endpoints
    `ReceiverEndpoint::new(c, coord.block_id)`. -/
def getSenders (meBlock : Nat) (next : List (Coord × Bool)) : List Endpoint :=
  (next.filter (fun p => !p.2)).map fun p => ⟨p.1, meBlock⟩

/-- `setup`: drop the ignored destinations, then `sort_by_key(|s| s.0)` (stable). -/
def senders (cfg : Cfg) (meBlock : Nat) (next : List (Coord × Bool)) : List Endpoint :=
  ((getSenders meBlock next).filter (fun e => !cfg.ignore.contains e.coord.block)).mergeSort
    (fun a b => lexLe a.key b.key)

/-- the distinct downstream blocks (of the block ids of the sorted senders), in order of first
    appearance -/
def blocksOf : List Nat → List Nat
  | [] => []
  | b :: bs => b :: (blocksOf bs).filter (· != b)

/-- indexes (ascending) of the senders towards block `b`, given the block id of every sender:
    `map.entry(coord.coord.block_id).or_default().push(i)` -/
def indexesOf (bs : List Nat) (b : Nat) : List Nat :=
  (List.range bs.length).filter fun i => bs[i]? == some b

/-- `block_senders` from the block ids of the sorted senders: `All` = one group per sender;
    otherwise one group per downstream block.
    (`HashMap::into_values` yields the groups in an unspecified order; groups are disjoint, so the
    order does not influence what any sender receives. We list them by first appearance.) -/
def groups (s : Strategy) (bs : List Nat) : List (List Nat) :=
  match s with
  | .all => (List.range bs.length).map fun i => [i]
  | _ => (blocksOf bs).map (indexesOf bs)

/-- `assert_eq!(s.indexes.len(), 1)` for `OnlyOne` (end.rs:140): `false` = `setup` panics. -/
def setupOk (s : Strategy) (gs : List (List Nat)) : Bool :=
  match s with
  | .onlyOne => gs.all (·.length == 1)
  | _ => true

/-- the state of a set-up `End` -/
structure State where
  senders : List Endpoint
  groups : List (List Nat)
  /-- `senders.drain(..)` happened (after `Terminate`) -/
  closed : Bool := false
  /-- an index panic happened (`self.senders[sender_idx]` after the drain) -/
  panicked : Bool := false
  deriving Repr, Inhabited

def setup (cfg : Cfg) (meBlock : Nat) (next : List (Coord × Bool)) : State :=
  let ss := senders cfg meBlock next
  { senders := ss, groups := groups cfg.strategy (ss.map (·.coord.block)) }

variable {α : Type}

/-- the `enqueue`s of the broadcast arm (end.rs:190-208): `(sender index, element)` -/
def controlTargets (cfg : Cfg) (st : State) (isTerm : Bool) : List Nat :=
  st.groups.flatMap fun g => g.filter fun i =>
    !(isTerm && (st.senders[i]?.map (·.coord.block)) == cfg.feedback && cfg.feedback.isSome)

/-- the `enqueue`s of the direct arm (end.rs:210-217): for every group `indexes[index % len]`.
    (`len = 0` would be a division by zero; groups are never empty.) -/
def dataTargets (st : State) (index : Nat) : List Nat :=
  st.groups.filterMap fun g => g[index % g.length]?

/-- `End::next` for one element pulled from `prev`. `rnd` is the value drawn by `Random`,
    `hash` gives `keyer(item) as usize`. Returns the new state and the `enqueue`s. -/
def step (cfg : Cfg) (hash : α → Nat) (rnd : Nat) (st : State) (e : Elem α) :
    State × List (Nat × Elem α) :=
  if st.panicked then (st, []) else
  let targets : List Nat :=
    match e with
    | .wm _ | .far => controlTargets cfg st false
    | .term => controlTargets cfg st true
    | .item a | .ts a _ => dataTargets st (cfg.strategy.index rnd (hash a))
    | .flushBatch => []
  -- after `Terminate` the senders are gone: touching one is an index panic; the broadcast arm
  -- indexes `self.senders[sender_idx]` before it looks at the feedback exception (end.rs:195)
  let touched : List Nat :=
    match e with
    | .wm _ | .far | .term => controlTargets { cfg with feedback := none } st false
    | _ => targets
  if st.closed && !touched.isEmpty then ({ st with panicked := true }, [])
  else
    let st' := if e.isTerm then { st with closed := true } else st
    (st', targets.map fun i => (i, e))

/-- run a script; `rnds` supplies the random draws (one per element, default 0) -/
def run (cfg : Cfg) (hash : α → Nat) : State → List Nat → List (Elem α) → List (List (Nat × Elem α))
  | _, _, [] => []
  | st, rnds, e :: es =>
    let (st', out) := step cfg hash (rnds.headD 0) st e
    out :: run cfg hash st' rnds.tail es

/-! ## RoutingEnd (route.rs) -/

/-- `setup_endpoints`: one endpoint per route, in route order, with the (sorted) senders towards
    the route's block. `none` = a route without connection or a connection without route (panic). -/
def routeGroups (routes : List Nat) (ss : List Endpoint) : Option (List (List Nat)) :=
  let bs := ss.map (·.coord.block)
  if routes.all (fun b => !(indexesOf bs b).isEmpty) && (blocksOf bs).all routes.contains
      && routes.Nodup then
    some (routes.map (indexesOf bs))
  else none

/-- data arm of `RoutingEnd::next` (route.rs:240-256): the first matching route only,
    `indexes[index]` **without** modulo (an index panic — `none` — if `index ≥ len`; `route()`
    always uses `OnlyOne`, i.e. index 0). `accept` = which routes' filters accept the item. -/
def routeData (gs : List (List Nat)) (accept : List Bool) (index : Nat) : Option (List Nat) :=
  match (gs.zip accept).find? (·.2) with
  | none => some []
  | some (g, _) => (g[index]?).map fun i => [i]

/- The step function of `RoutingEnd` built on `routeGroups`/`routeData` is `Model/Route.lean` (C09). -/

end Noir.Router
