/-
  Model/HashJoin.lean — `JoinLocalHash` (src/operator/join/local_hash.rs:16-250), the relational-join
  specification `relJoin`, the `BinaryElement` vocabulary (src/operator/start/binary.rs:17-26) and the
  `LeftEnd`/`RightEnd` injection of `BinaryStartReceiver::process_side` (binary.rs:150-187).

  Representation choices (all observable behaviour is preserved):
  * `SideHashMap::data : HashMap<Key, Vec<Out>>` is modelled by the *flat list of stored items in arrival
    order*; `data.get(&key)` is `Some(vec)` iff some stored item has that key (entries are only ever created
    by `entry(key).or_default().push(item)`, local_hash.rs:153, so no entry is empty) and `vec` is the
    sub-list of items with that key in arrival order: `lookup`.
  * `SideHashMap::keys : HashSet<Key>` is a list used only through `contains`.
  * `data.drain()` iterates in hash order (unspecified): the model drains in arrival order; every
    statement about drained output is up to `List.Perm`.
  * `count` is only logged and is omitted. `buffer` (VecDeque) is filled and completely emptied between
    two calls of `prev.next()` (the `while self.buffer.is_empty()` loop, local_hash.rs:195), so a step
    returns the list of produced elements in buffer order.
  Import-free (core Lean only): linked into the `noir_model` executable.
-/
import NoirVerif.Model.Elem
namespace Noir.Join

/-- `BinaryElement<OutL, OutR>` (binary.rs:17) -/
inductive Bin (α β : Type) where
  | left (a : α)
  | right (b : β)
  | leftEnd
  | rightEnd
  deriving Repr, DecidableEq, Inhabited

/-- `JoinVariant` (join/mod.rs:29) -/
inductive Variant where
  | inner
  | left
  | outer
  deriving Repr, DecidableEq, Inhabited

/-- `JoinVariant::left_outer` (join/mod.rs:36) -/
def Variant.leftOuter : Variant → Bool
  | .inner => false
  | .left => true
  | .outer => true

/-- `JoinVariant::right_outer` (join/mod.rs:40) -/
def Variant.rightOuter : Variant → Bool
  | .outer => true
  | _ => false

/-- `(Key, OuterJoinTuple<Out1, Out2>)` -/
abbrev Out (κ α β : Type) := κ × Option α × Option β

/-- A stream is an interleaving of two streams (order inside each side is preserved). -/
inductive Interleave {γ : Type} : List γ → List γ → List γ → Prop where
  | nil : Interleave [] [] []
  | left {x xs ys zs} : Interleave xs ys zs → Interleave (x :: xs) ys (x :: zs)
  | right {y xs ys zs} : Interleave xs ys zs → Interleave xs (y :: ys) (y :: zs)

/-! ### Specification: the relational join of two multisets -/
section Spec
variable {κ α β : Type} [DecidableEq κ]

/-- all matching pairs, nested loop -/
def pairs (kl : α → κ) (kr : β → κ) (L : List α) (R : List β) : List (Out κ α β) :=
  L.flatMap fun l => (R.filter fun r => decide (kr r = kl l)).map fun r => (kl l, some l, some r)

/-- left elements without a partner, padded with `None` -/
def unmatchedL (kl : α → κ) (kr : β → κ) (L : List α) (R : List β) : List (Out κ α β) :=
  (L.filter fun l => (R.filter fun r => decide (kr r = kl l)).isEmpty).map fun l => (kl l, some l, none)

/-- right elements without a partner, padded with `None` -/
def unmatchedR (kl : α → κ) (kr : β → κ) (L : List α) (R : List β) : List (Out κ α β) :=
  (R.filter fun r => (L.filter fun l => decide (kl l = kr r)).isEmpty).map fun r => (kr r, none, some r)

/-- `relJoin`: every matching pair once, plus (left/outer) each unmatched left element once, plus
    (outer) each unmatched right element once. -/
def relJoin (v : Variant) (kl : α → κ) (kr : β → κ) (L : List α) (R : List β) : List (Out κ α β) :=
  pairs kl kr L R
    ++ (if v.leftOuter then unmatchedL kl kr L R else [])
    ++ (if v.rightOuter then unmatchedR kl kr L R else [])

end Spec

/-! ### `JoinLocalHash` -/
namespace HashJoin

/-- `SideHashMap<Key, Out>` (local_hash.rs:18) -/
structure Side (κ γ : Type) where
  data : List γ
  keys : List κ
  ended : Bool
  deriving Repr, DecidableEq

def Side.empty {κ γ : Type} : Side κ γ := ⟨[], [], false⟩

structure State (κ α β : Type) where
  left : Side κ α
  right : Side κ β
  deriving Repr, DecidableEq

def State.init {κ α β : Type} : State κ α β := ⟨Side.empty, Side.empty⟩

section Ops
variable {κ α β : Type} [DecidableEq κ]

/-- `data.get(&key)`: the stored items with that key, in arrival order (`[]` = `None`). -/
def lookup {γ : Type} (k : γ → κ) (data : List γ) (key : κ) : List γ :=
  data.filter fun x => decide (k x = key)

/-- `add_item` (local_hash.rs:124-156), written for the "left" role `γ` against the other side `δ`.
    Returns the updated own side and the tuples pushed to the buffer. -/
def addItem {γ δ : Type} (kd : δ → κ) (key : κ) (item : γ)
    (own : Side κ γ) (other : Side κ δ) (ownOuter otherOuter : Bool)
    (mk : Option γ → Option δ → Option α × Option β) : Side κ γ × List (Out κ α β) :=
  let out :=
    match lookup kd other.data key with
    | [] =>
      -- `else if right.ended && left_outer` (local_hash.rs:141)
      if other.ended && ownOuter then [(key, mk (some item) none)] else []
    | m :: ms =>
      -- `for rhs in right` (local_hash.rs:135)
      (m :: ms).map fun rhs => (key, mk (some item) (some rhs))
  let keys := if otherOuter then own.keys ++ [key] else own.keys          -- local_hash.rs:149
  let data := if !other.ended then own.data ++ [item] else own.data       -- local_hash.rs:152
  ({ own with keys := keys, data := data }, out)

/-- `side_ended` (local_hash.rs:161-187) for the ending side `own` against `other`.
    Returns updated (own, other) and the tuples pushed to the buffer. -/
def sideEnded {γ δ : Type} (kd : δ → κ) (otherOuter : Bool)
    (own : Side κ γ) (other : Side κ δ)
    (mk : Option γ → Option δ → Option α × Option β) :
    Side κ γ × Side κ δ × List (Out κ α β) :=
  let out :=
    if otherOuter then
      -- `for (key, right) in right.data.drain() { if !left.keys.contains(&key) { … } }`
      (other.data.filter fun r => !own.keys.contains (kd r)).map fun r => (kd r, mk none (some r))
    else []
  ({ own with keys := [], ended := true }, { other with data := [] }, out)

variable (v : Variant) (kl : α → κ) (kr : β → κ)

/-- processing of one `BinaryElement` (the four `Item(..)` arms of `next`, local_hash.rs:197-244) -/
def stepBin (s : State κ α β) : Bin α β → State κ α β × List (Out κ α β)
  | .left a =>
    let (l, out) := addItem kr (kl a) a s.left s.right v.leftOuter v.rightOuter (fun x y => (x, y))
    ({ s with left := l }, out)
  | .right b =>
    let (r, out) := addItem kl (kr b) b s.right s.left v.rightOuter v.leftOuter (fun x y => (y, x))
    ({ s with right := r }, out)
  | .leftEnd =>
    let (l, r, out) := sideEnded kr v.rightOuter s.left s.right (fun x y => (x, y))
    ({ left := l, right := r }, out)
  | .rightEnd =>
    let (r, l, out) := sideEnded kl v.leftOuter s.right s.left (fun x y => (y, x))
    ({ left := l, right := r }, out)

/-- the six `assert!`s of the `FlushAndRestart` arm (local_hash.rs:246-251) -/
def farOk (s : State κ α β) : Bool :=
  s.left.ended && s.right.ended && s.left.data.isEmpty && s.right.data.isEmpty
    && s.left.keys.isEmpty && s.right.keys.isEmpty

/-- would `next` panic on this element in this state? (asserts at `FlushAndRestart`;
    "Cannot yet join timestamped streams", local_hash.rs:261) -/
def panics (s : State κ α β) : Elem (Bin α β) → Bool
  | .ts _ _ => true
  | .wm _ => true
  | .far => !farOk s
  | _ => false

/-- one element pulled from `prev` → new state and everything returned downstream before the next pull.
    (Where the Rust code panics — see `panics` — the state is left unchanged and nothing is emitted.) -/
def step (s : State κ α β) : Elem (Bin α β) → State κ α β × List (Elem (Out κ α β))
  | .item b => let (s', out) := stepBin v kl kr s b; (s', out.map Elem.item)
  | .far =>
    -- `self.left.ended = false; self.right.ended = false` (counts omitted)
    ({ left := { s.left with ended := false }, right := { s.right with ended := false } }, [.far])
  | .term => (s, [.term])
  | .flushBatch => (s, [.flushBatch])
  | .ts _ _ => (s, [])
  | .wm _ => (s, [])

/-- feed a list of `BinaryElement`s, collecting the produced tuples -/
def feed : State κ α β → List (Bin α β) → List (Out κ α β)
  | _, [] => []
  | s, b :: bs => (stepBin v kl kr s b).2 ++ feed (stepBin v kl kr s b).1 bs

def stateAfterBin : State κ α β → List (Bin α β) → State κ α β
  | s, [] => s
  | s, b :: bs => stateAfterBin (stepBin v kl kr s b).1 bs

/-- `HashJoin.run`: the tuples produced from the initial state -/
def run (tr : List (Bin α β)) : List (Out κ α β) := feed v kl kr State.init tr

/-- full stream version: outputs (with `far`/`term`/`flushBatch`) from a given state -/
def runElems : State κ α β → List (Elem (Bin α β)) → List (Elem (Out κ α β))
  | _, [] => []
  | s, e :: es => (step v kl kr s e).2 ++ runElems (step v kl kr s e).1 es

def stateAfter : State κ α β → List (Elem (Bin α β)) → State κ α β
  | s, [] => s
  | s, e :: es => stateAfter (step v kl kr s e).1 es

/-- does any element of the stream hit a panic? -/
def anyPanic : State κ α β → List (Elem (Bin α β)) → Bool
  | _, [] => false
  | s, e :: es => panics s e || anyPanic (step v kl kr s e).1 es

end Ops
end HashJoin

/-! ### `BinaryStartReceiver::process_side` + `Start::next` as far as joins see them -/
namespace BinStart

/-- state: how many replicas of each side have not yet sent `FlushAndRestart` in this iteration
    (`SideReceiver::missing_flush_and_restart`, binary.rs:37) and the number of replicas. -/
structure State where
  nL : Nat
  nR : Nat
  missL : Nat
  missR : Nat
  missTerm : Nat
  deriving Repr, DecidableEq

def State.init (nL nR : Nat) : State := ⟨nL, nR, nL, nR, nL + nR⟩

/-- One element of a batch coming from the left (`isLeft = true`) or right side, as it leaves
    `Start<BinaryStartReceiver>::next`:
    data is wrapped; the last `FlushAndRestart` of a side is preceded by the end marker
    (binary.rs:166-171); `FlushAndRestart`s are swallowed by `Start` until every replica of both
    sides has sent one, then a single one is emitted (start/mod.rs:214-223, 247-254); `Terminate`
    likewise (start/mod.rs:210, 255). Watermarks are not modelled (joins reject them). -/
def stepElem {α β γ : Type} (s : State) (isLeft : Bool) (wrap : γ → Bin α β)
    (e : Elem γ) : State × List (Elem (Bin α β)) :=
  match e with
  | .item a => (s, [.item (wrap a)])
  | .ts a t => (s, [.ts (wrap a) t])
  | .wm _ => (s, [])
  | .flushBatch => (s, [.flushBatch])
  | .far =>
    if isLeft then
      let m := s.missL - 1
      let endm : List (Elem (Bin α β)) := if m = 0 then [.item .leftEnd] else []
      if m = 0 ∧ s.missR = 0 then ({ s with missL := s.nL, missR := s.nR }, endm ++ [.far])
      else ({ s with missL := m }, endm)
    else
      let m := s.missR - 1
      let endm : List (Elem (Bin α β)) := if m = 0 then [.item .rightEnd] else []
      if m = 0 ∧ s.missL = 0 then ({ s with missL := s.nL, missR := s.nR }, endm ++ [.far])
      else ({ s with missR := m }, endm)
  | .term =>
    let m := s.missTerm - 1
    ({ s with missTerm := m }, if m = 0 then [.term] else [])

end BinStart
end Noir.Join
