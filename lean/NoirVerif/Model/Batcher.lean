/-
  Model/Batcher.lean — `Batcher` (src/block/batcher.rs:49-120) and the way `End::next`
  (src/operator/end.rs:176-234) drives one batcher.

  The network sender is modelled by the list of batches handed to `remote_sender.send`, in
  order. `last_send` / coarsetime are abstracted by the Boolean `elapsed` carried by every
  `enqueue` ("`self.last_send.elapsed() > max_delay`" at batcher.rs:78): the theorems quantify
  over it, so they hold for every behaviour of the clock.
-/
import NoirVerif.Model.Elem
namespace Noir.Batcher

variable {α : Type}

/-- `BatchMode` (batcher.rs:17). `n` models a `NonZeroUsize`: the constructors
    `BatchMode::fixed/adaptive` panic for 0, theorems that need it carry `1 ≤ n`. -/
inductive Mode where
  | fixed (n : Nat)
  | adaptive (n : Nat)
  | single
  deriving Repr, DecidableEq, Inhabited

/-- `BatchMode::max_size` (batcher.rs:29) -/
def Mode.maxSize : Mode → Nat
  | .fixed n => n
  | .adaptive n => n
  | .single => 1

/-- The calls `End` makes on a batcher. -/
inductive Op (α : Type) where
  | enqueue (e : α) (elapsed : Bool)
  | flush
  | end_
  deriving Repr, DecidableEq

/-- `Batcher::flush` (batcher.rs:97): `if !self.buffer.is_empty() { send(buffer); buffer = [] }`.
    Result: new buffer, batches sent. -/
def flush (buf : List α) : List α × List (List α) :=
  if buf.isEmpty then (buf, []) else ([], [buf])

/-- `Batcher::enqueue` (batcher.rs:73), same branch order as the Rust `match self.mode`. -/
def enqueue (m : Mode) (buf : List α) (e : α) (elapsed : Bool) : List α × List (List α) :=
  match m with
  | .adaptive n =>
    let buf := buf ++ [e]
    if buf.length ≥ n || elapsed then flush buf else (buf, [])
  | .fixed n =>
    let buf := buf ++ [e]
    if buf.length ≥ n then flush buf else (buf, [])
  | .single => (buf, [[e]])      -- `NetworkMessage::new_single`, the buffer is not touched

/-- `Batcher::end` (batcher.rs:113): sends the remaining messages; consumes `self`
    (the model keeps an empty buffer; no Rust call can follow). -/
def end_ (buf : List α) : List α × List (List α) :=
  if buf.isEmpty then (buf, []) else ([], [buf])

/-- one call -/
def step (m : Mode) (buf : List α) : Op α → List α × List (List α)
  | .enqueue e el => enqueue m buf e el
  | .flush => flush buf
  | .end_ => end_ buf

/-- a sequence of calls from buffer `buf`: final buffer and all batches sent, in order -/
def run (m : Mode) : List α → List (Op α) → List α × List (List α)
  | buf, [] => (buf, [])
  | buf, op :: ops =>
    let r := step m buf op
    let r' := run m r.1 ops
    (r'.1, r.2 ++ r'.2)

/-- the elements enqueued by a sequence of calls, in order -/
def enqueued : List (Op α) → List α
  | [] => []
  | .enqueue e _ :: ops => e :: enqueued ops
  | _ :: ops => enqueued ops

/-! ### `End::next` on top of one batcher (end.rs:176-234, one downstream replica, no feedback) -/

/-- The batcher calls `End::next` makes for one stream element: control elements and data are
    enqueued (`FlushBatch` is not); `FlushAndRestart`/`FlushBatch` then flush, `Terminate` ends. -/
def opsOfElem (elapsed : Bool) : Elem α → List (Op (Elem α))
  | .flushBatch => [.flush]
  | .far => [.enqueue .far elapsed, .flush]
  | .term => [.enqueue .term elapsed, .end_]
  | e => [.enqueue e elapsed]

/-- Drive the batcher with a script as the harness does: per script element, the index of the
    `next()` call and the batches sent during it. Stops after the first `Terminate`
    (`End` drains its senders there). -/
def runScript (m : Mode) : List (Elem α) → Nat → List (Elem α) → List (Nat × List (Elem α))
  | _, _, [] => []
  | buf, i, e :: es =>
    let r := run m buf (opsOfElem false e)
    let here := r.2.map (fun b => (i, b))
    match e with
    | .term => here
    | _ => here ++ runScript m r.1 (i + 1) es

/-- Same with a scripted clock: every script element carries the Boolean
    "`last_send.elapsed() > max_delay`" its `enqueue` will see (hook `verif::set_batcher_elapsed`). -/
def runScriptTimed (m : Mode) : List (Elem α) → Nat → List (Elem α × Bool) → List (Nat × List (Elem α))
  | _, _, [] => []
  | buf, i, (e, el) :: es =>
    let r := run m buf (opsOfElem el e)
    let here := r.2.map (fun b => (i, b))
    match e with
    | .term => here
    | _ => here ++ runScriptTimed m r.1 (i + 1) es

end Noir.Batcher
