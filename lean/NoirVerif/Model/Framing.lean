/-
  Model/Framing.lean — the wire format of a multiplexed TCP connection
  (src/network/sync/remote.rs:29-158).

  `remote_send` writes `MessageHeader { size: u32, replica_id: u64, sender_block_id: u64 }`
  serialised by bincode with `FixintEncoding` (fixed width, little endian, fields in declaration
  order) followed by `size` bytes of payload; `remote_recv` does `read_exact(HEADER_SIZE)`,
  decodes the header, then `read_exact(size)`.

  The payload (bincode of `NetworkMessage<T>`) is an opaque byte string here.
  `HEADER_SIZE` comes from the generated `Consts` (re-extracted from /repo on every run).
-/
import NoirVerif.Model.Consts
namespace Noir.Framing

/-- `k` bytes, little endian (bincode `FixintEncoding`): `u32` = 4, `u64` = 8 -/
def leBytes : Nat → Nat → List UInt8
  | 0, _ => []
  | k + 1, n => UInt8.ofNat (n % 256) :: leBytes k (n / 256)

/-- value of a little-endian byte string -/
def leVal : List UInt8 → Nat
  | [] => 0
  | b :: bs => b.toNat + 256 * leVal bs

/-- `MessageHeader` (remote.rs:32) -/
structure Header where
  size : Nat          -- u32
  replica : Nat       -- u64 (`ReplicaId`)
  senderBlock : Nat   -- u64 (`BlockId`)
  deriving Repr, DecidableEq, Inhabited

/-- the values fit their Rust types (`serialized_len.try_into().unwrap()` panics otherwise) -/
def Header.Valid (h : Header) : Prop :=
  h.size < 2 ^ 32 ∧ h.replica < 2 ^ 64 ∧ h.senderBlock < 2 ^ 64

/-- `BINCODE_HEADER_CONFIG.serialize_into(&mut buf, &header)` -/
def encodeHeader (h : Header) : List UInt8 :=
  leBytes 4 h.size ++ leBytes 8 h.replica ++ leBytes 8 h.senderBlock

/-- `BINCODE_HEADER_CONFIG.deserialize(&header)` on the bytes read for the header. -/
def decodeHeader (bs : List UInt8) : Header :=
  ⟨leVal (bs.take 4), leVal ((bs.drop 4).take 8), leVal ((bs.drop 12).take 8)⟩

/-- One message on the wire: routing tag (`dest.coord.replica_id`, `dest.prev_block_id`) and the
    serialised `NetworkMessage`. -/
structure Frame where
  replica : Nat
  senderBlock : Nat
  payload : List UInt8
  deriving Repr, DecidableEq, Inhabited

def Frame.header (f : Frame) : Header := ⟨f.payload.length, f.replica, f.senderBlock⟩

/-- size guard: payload shorter than 2³² bytes, ids are `u64` -/
def Frame.Valid (f : Frame) : Prop := f.header.Valid

/-- `remote_send`: header, then payload, in one `write_all` (remote.rs:63-95) -/
def frame (f : Frame) : List UInt8 := encodeHeader f.header ++ f.payload

/-- Repeated `remote_recv` over everything that arrived so far (remote.rs:110-150): the frames
    decoded and the bytes that do not make a complete frame yet.
    Rust: an incomplete header at end-of-stream ends the demux loop (`None`), an incomplete
    payload at end-of-stream panics ("Failed to receive"); both show up here as a non-empty
    rest (`rest.length < HEADER_SIZE` resp. `≥`). -/
def deframe (bs : List UInt8) : List Frame × List UInt8 :=
  if _h : bs.length < Noir.Consts.HEADER_SIZE ∨ Noir.Consts.HEADER_SIZE = 0 then ([], bs)
  else
    let hd := decodeHeader (bs.take Noir.Consts.HEADER_SIZE)
    let rest := bs.drop Noir.Consts.HEADER_SIZE
    if rest.length < hd.size then ([], bs)
    else
      let r := deframe (rest.drop hd.size)
      (⟨hd.replica, hd.senderBlock, rest.take hd.size⟩ :: r.1, r.2)
termination_by bs.length
decreasing_by simp only [List.length_drop]; omega

/-- Adler-32 style checksum used by the `frame` harness to compare byte strings -/
def checksum (bs : List UInt8) : Nat :=
  let r := bs.foldl (fun (p : Nat × Nat) b =>
    let a := (p.1 + b.toNat) % 65521
    (a, (p.2 + a) % 65521)) (1, 0)
  r.2 * 65536 + r.1

end Noir.Framing
