/-
  Lemmas/Loop.lean — helper lemmas for C10 (leader transducer, generation lock, folds).
-/
import NoirVerif.Model.Leader
import NoirVerif.Model.StateLock
import NoirVerif.Model.SeqLoop
import NoirVerif.Model.LoopProto
namespace Noir.Leader

variable {σ δ : Type}

theorem run_append (c : Cfg σ δ) (st : St σ) (xs ys : List (Elem δ)) :
    run c st (xs ++ ys) =
      ((run c (run c st xs).1 ys).1, (run c st xs).2 ++ (run c (run c st xs).1 ys).2) := by
  induction xs generalizing st with
  | nil => simp [run]
  | cons x xs ih =>
    simp only [List.cons_append, run]
    rw [ih]
    simp [List.append_assoc]

theorem runDeltas_append (c : Cfg σ δ) (st : St σ) (xs ys : List δ) :
    runDeltas c st (xs ++ ys) =
      ((runDeltas c (runDeltas c st xs).1 ys).1,
       (runDeltas c st xs).2 ++ (runDeltas c (runDeltas c st xs).1 ys).2) := by
  simp [runDeltas, run_append]

/-- fewer deltas than the round still misses: nothing is emitted, they are folded into the state -/
theorem run_within_round (c : Cfg σ δ) (ds : List δ) :
    ∀ (st : St σ), st.done = false → ds.length < st.missing →
      runDeltas c st ds =
        ({ st with state := ds.foldl c.global st.state, missing := st.missing - ds.length }, []) := by
  induction ds with
  | nil => intro st _ _; simp [runDeltas, run]
  | cons d ds ih =>
    intro st hd hl
    simp only [List.length_cons] at hl
    have hm : ¬ st.missing ≤ 1 := by omega
    have ih' := ih { st with state := c.global st.state d, missing := st.missing - 1 } hd (by simp; omega)
    simp only [runDeltas, hd] at ih'
    simp only [runDeltas, List.map_cons, run, step, hd, onDelta, hm, if_false, List.foldl_cons,
      List.length_cons, Bool.false_eq_true]
    rw [ih']
    simp only [List.nil_append]
    congr 2
    omega

/-- the last delta of a round -/
theorem run_last (c : Cfg σ δ) (st : St σ) (d : δ) (hd : st.done = false) (hm : st.missing = 1) :
    runDeltas c st [d] = endRound c st (c.global st.state d) := by
  simp [runDeltas, run, step, hd, onDelta, hm]

/-- a right-commutative fold does not depend on the order -/
theorem foldl_perm {α β : Type} (g : β → α → β) (hg : ∀ s a b, g (g s a) b = g (g s b) a)
    {xs ys : List α} (h : xs.Perm ys) : ∀ s, xs.foldl g s = ys.foldl g s := by
  induction h with
  | nil => intro s; rfl
  | cons x _ ih => intro s; simp [ih]
  | swap x y l => intro s; simp [hg]
  | trans _ _ ih1 ih2 => intro s; rw [ih1, ih2]

end Noir.Leader

namespace Noir.StateLock

theorem runOps_gen (ops : List Op) : ∀ (l l' : Lock), runOps l ops = some l' →
    l'.gen / 2 = l.gen / 2 + unlocks ops := by
  induction ops with
  | nil => intro l l' h; simp [runOps] at h; subst h; simp [unlocks]
  | cons op ops ih =>
    intro l l' h
    cases op with
    | lock =>
      simp only [runOps] at h
      have := ih _ _ h
      simp only [unlocks]
      rw [this]
      unfold Lock.lock
      split
      · rename_i h2; simp at h2; simp; omega
      · rfl
    | unlock =>
      simp only [runOps] at h
      cases hu : l.unlock with
      | none => simp [hu] at h
      | some l1 =>
        simp only [hu] at h
        have := ih _ _ h
        simp only [unlocks]
        rw [this]
        unfold Lock.unlock at hu
        split at hu
        · rename_i h2
          simp at h2 hu
          subst hu
          show (l.gen + 1) / 2 + unlocks ops = l.gen / 2 + (unlocks ops + 1)
          omega
        · simp at hu

end Noir.StateLock

/-! ## LoopProto: the invariant -/
namespace Noir.LoopProto

variable {Host Head Body End : Type} [DecidableEq Host] [DecidableEq Head] [DecidableEq Body] [DecidableEq End]

@[simp] theorem upd_same {α β : Type} [DecidableEq α] (f : α → β) (a : α) (v : β) : upd f a v a = v := by
  simp [upd]

theorem upd_other {α β : Type} [DecidableEq α] (f : α → β) (a x : α) (v : β) (h : x ≠ a) :
    upd f a v x = f x := by
  simp [upd, h]

/-- sum of a function over the enumeration of the end replicas -/
def total (l : List End) (f : End → Nat) : Nat := (l.map f).sum

theorem total_cons (x : End) (xs : List End) (f : End → Nat) : total (x :: xs) f = f x + total xs f := by
  simp [total]

theorem total_upd_notin (l : List End) (f : End → Nat) (e : End) (v : Nat) (h : e ∉ l) :
    total l (upd f e v) = total l f := by
  induction l with
  | nil => rfl
  | cons x xs ih =>
    have hx : x ≠ e := fun hh => h (by simp [hh])
    have hxs : e ∉ xs := fun hh => h (by simp [hh])
    rw [total_cons, total_cons, upd_other f e x v hx, ih hxs]

theorem total_upd (l : List End) (hnd : l.Nodup) (f : End → Nat) (e : End) (v : Nat) (h : e ∈ l) :
    total l (upd f e v) + f e = total l f + v := by
  induction l with
  | nil => simp at h
  | cons x xs ih =>
    rw [List.nodup_cons] at hnd
    rw [total_cons, total_cons]
    by_cases hx : x = e
    · subst hx
      rw [total_upd_notin xs f x v hnd.1, upd_same]
      omega
    · have hm : e ∈ xs := by
        cases h with
        | head => exact absurd rfl hx
        | tail _ hh => exact hh
      have := ih hnd.2 hm
      rw [upd_other f e x v hx]
      omega

theorem total_congr (l : List End) (f g : End → Nat) (h : ∀ e ∈ l, f e = g e) : total l f = total l g := by
  induction l with
  | nil => rfl
  | cons x xs ih =>
    rw [total_cons, total_cons, h x (by simp), ih (fun e he => h e (by simp [he]))]

theorem total_le_length (l : List End) (f : End → Nat) (h1 : ∀ e ∈ l, f e ≤ 1) : total l f ≤ l.length := by
  induction l with
  | nil => simp [total]
  | cons x xs ih =>
    have := ih (fun e he => h1 e (by simp [he]))
    have hx := h1 x (by simp)
    rw [total_cons, List.length_cons]
    omega

/-- pigeonhole: every summand is at most 1 and the sum is the length, so every summand is 1 -/
theorem all_one_of_total (l : List End) (f : End → Nat) (h1 : ∀ e ∈ l, f e ≤ 1) (hs : total l f = l.length) :
    ∀ e ∈ l, f e = 1 := by
  induction l with
  | nil => intro e he; simp at he
  | cons x xs ih =>
    have hle := total_le_length xs f (fun e he => h1 e (by simp [he]))
    have hx := h1 x (by simp)
    rw [total_cons, List.length_cons] at hs
    have hxs : total xs f = xs.length := by omega
    intro e he
    cases he with
    | head => omega
    | tail _ hh => exact ih (fun e he => h1 e (by simp [he])) hxs e hh

/-- the protocol invariant (DESIGN.md §5 C10: I1–I3 follow from it) -/
structure Inv (L : Layout Host Head Body End) (s : St Host Head Body End) : Prop where
  got_le_sent : ∀ e, s.got e ≤ s.sent e
  sent_le_fars : ∀ e b, s.sent e ≤ s.fars b
  fars_le_round : ∀ b r, s.fars b ≤ s.round r
  round_fb : ∀ r, (s.phase r = .waiting → s.round r = s.fb r + 1) ∧ (s.phase r ≠ .waiting → s.round r = s.fb r)
  fb_le_K : ∀ r, s.fb r ≤ s.K
  K_le_got : ∀ e, s.K ≤ s.got e
  got_le_K1 : ∀ e, s.got e ≤ s.K + 1
  recv_sum : s.received = total L.ends (fun e => s.got e - s.K)
  sidx_fb : ∀ h, s.sidx h = s.fb (L.leaderOf h)
  syncs_a : ∀ h, (s.phase (L.leaderOf h) = .emitting ∨ s.phase (L.leaderOf h) = .waiting) →
    s.syncs h = s.fb (L.leaderOf h)
  syncs_b : ∀ h, (s.phase (L.leaderOf h) = .atBarrier ∨ s.phase (L.leaderOf h) = .released) →
    s.syncs h + 1 = s.fb (L.leaderOf h)
  passed_sync : ∀ b, s.passed b = true → s.fars b ≤ s.syncs (L.hostOfBody b)

theorem inv_init (L : Layout Host Head Body End) : Inv L (init : St Host Head Body End) := by
  refine ⟨?_, ?_, ?_, ?_, ?_, ?_, ?_, ?_, ?_, ?_, ?_, ?_⟩ <;> simp [init]
  · show 0 = total L.ends (fun _ => 0)
    induction L.ends with
    | nil => rfl
    | cons x xs ih => rw [total_cons, ← ih]

theorem not_leader_of_ne (L : Layout Host Head Body End) (r : Head)
    (h : ¬ r = L.leaderOf (L.hostOfHead r)) (h' : Host) : L.leaderOf h' ≠ r := by
  intro e
  apply h
  rw [← e, L.leader_host]


/-- phases other than the new one, for the leader case analysis -/
theorem phase_upd_cases (f : Head → Phase) (r x : Head) (v : Phase) :
    (x = r ∧ upd f r v x = v) ∨ (x ≠ r ∧ upd f r v x = f x) := by
  by_cases h : x = r
  · left; subst h; simp
  · right; exact ⟨h, upd_other f r x v h⟩

theorem inv_step (L : Layout Host Head Body End) (r0 : Head) (b0 : Body)
    {s s' : St Host Head Body End} (inv : Inv L s) (st : Step L s s') : Inv L s' := by
  cases st with
  | headFar r h =>
    have hrf : s.round r = s.fb r := (inv.round_fb r).2 (by rw [h]; decide)
    exact {
      got_le_sent := inv.got_le_sent
      sent_le_fars := inv.sent_le_fars
      fars_le_round := fun b x => by
        show s.fars b ≤ upd s.round r (s.round r + 1) x
        have := inv.fars_le_round b x
        unfold upd; split
        · subst_vars; omega
        · exact this
      round_fb := fun x => by
        show (upd s.phase r .waiting x = .waiting → upd s.round r (s.round r + 1) x = s.fb x + 1) ∧
             (upd s.phase r .waiting x ≠ .waiting → upd s.round r (s.round r + 1) x = s.fb x)
        by_cases hx : x = r
        · subst hx; simp [hrf]
        · rw [upd_other _ _ _ _ hx, upd_other _ _ _ _ hx]; exact inv.round_fb x
      fb_le_K := inv.fb_le_K
      K_le_got := inv.K_le_got
      got_le_K1 := inv.got_le_K1
      recv_sum := inv.recv_sum
      sidx_fb := inv.sidx_fb
      syncs_a := fun h' => by
        show (upd s.phase r .waiting (L.leaderOf h') = .emitting ∨ upd s.phase r .waiting (L.leaderOf h') = .waiting) → _
        intro hp
        rcases phase_upd_cases s.phase r (L.leaderOf h') .waiting with ⟨e, _⟩ | ⟨_, e2⟩
        · exact inv.syncs_a h' (Or.inl (by rw [e]; exact h))
        · rw [e2] at hp; exact inv.syncs_a h' hp
      syncs_b := fun h' => by
        show (upd s.phase r .waiting (L.leaderOf h') = .atBarrier ∨ upd s.phase r .waiting (L.leaderOf h') = .released) → _
        intro hp
        rcases phase_upd_cases s.phase r (L.leaderOf h') .waiting with ⟨_, e2⟩ | ⟨_, e2⟩
        · rw [e2] at hp; rcases hp with hp | hp <;> cases hp
        · rw [e2] at hp; exact inv.syncs_b h' hp
      passed_sync := inv.passed_sync }
  | bodyPass b h1 h2 =>
    exact {
      got_le_sent := inv.got_le_sent
      sent_le_fars := inv.sent_le_fars
      fars_le_round := inv.fars_le_round
      round_fb := inv.round_fb
      fb_le_K := inv.fb_le_K
      K_le_got := inv.K_le_got
      got_le_K1 := inv.got_le_K1
      recv_sum := inv.recv_sum
      sidx_fb := inv.sidx_fb
      syncs_a := inv.syncs_a
      syncs_b := inv.syncs_b
      passed_sync := fun x => by
        show upd s.passed b true x = true → _
        by_cases hx : x = b
        · subst hx; intro _; exact h2
        · rw [upd_other _ _ _ _ hx]; exact inv.passed_sync x }
  | bodyFar b h =>
    exact {
      got_le_sent := inv.got_le_sent
      sent_le_fars := fun e x => by
        show s.sent e ≤ upd s.fars b (s.fars b + 1) x
        have := inv.sent_le_fars e x
        unfold upd; split
        · subst_vars; omega
        · exact this
      fars_le_round := fun x r => by
        show upd s.fars b (s.fars b + 1) x ≤ s.round r
        have := inv.fars_le_round x r
        have := h r
        unfold upd; split
        · omega
        · assumption
      round_fb := inv.round_fb
      fb_le_K := inv.fb_le_K
      K_le_got := inv.K_le_got
      got_le_K1 := inv.got_le_K1
      recv_sum := inv.recv_sum
      sidx_fb := inv.sidx_fb
      syncs_a := inv.syncs_a
      syncs_b := inv.syncs_b
      passed_sync := fun x => by
        show upd s.passed b false x = true → upd s.fars b (s.fars b + 1) x ≤ _
        by_cases hx : x = b
        · subst hx; simp
        · rw [upd_other _ _ _ _ hx, upd_other _ _ _ _ hx]; exact inv.passed_sync x }
  | endSend e h =>
    exact {
      got_le_sent := fun x => by
        show s.got x ≤ upd s.sent e (s.sent e + 1) x
        have := inv.got_le_sent x
        unfold upd; split
        · subst_vars; omega
        · exact this
      sent_le_fars := fun x b => by
        show upd s.sent e (s.sent e + 1) x ≤ s.fars b
        have := inv.sent_le_fars x b
        have := h b
        unfold upd; split
        · omega
        · assumption
      fars_le_round := inv.fars_le_round
      round_fb := inv.round_fb
      fb_le_K := inv.fb_le_K
      K_le_got := inv.K_le_got
      got_le_K1 := inv.got_le_K1
      recv_sum := inv.recv_sum
      sidx_fb := inv.sidx_fb
      syncs_a := inv.syncs_a
      syncs_b := inv.syncs_b
      passed_sync := inv.passed_sync }
  | leaderRecv e h1 h2 =>
    -- got e < sent e ≤ fars b0 ≤ round r0 ≤ fb r0 + 1 ≤ K + 1
    have c1 := inv.sent_le_fars e b0
    have c2 := inv.fars_le_round b0 r0
    have c3 : s.round r0 ≤ s.fb r0 + 1 := by
      by_cases hp : s.phase r0 = .waiting
      · have := (inv.round_fb r0).1 hp; omega
      · have := (inv.round_fb r0).2 hp; omega
    have c4 := inv.fb_le_K r0
    have c5 := inv.K_le_got e
    have hge : s.got e = s.K := by omega
    exact {
      got_le_sent := fun x => by
        show upd s.got e (s.got e + 1) x ≤ s.sent x
        have := inv.got_le_sent x
        unfold upd; split
        · subst_vars; omega
        · exact this
      sent_le_fars := inv.sent_le_fars
      fars_le_round := inv.fars_le_round
      round_fb := inv.round_fb
      fb_le_K := inv.fb_le_K
      K_le_got := fun x => by
        show s.K ≤ upd s.got e (s.got e + 1) x
        have := inv.K_le_got x
        unfold upd; split
        · omega
        · exact this
      got_le_K1 := fun x => by
        show upd s.got e (s.got e + 1) x ≤ s.K + 1
        have := inv.got_le_K1 x
        unfold upd; split
        · omega
        · exact this
      recv_sum := by
        show s.received + 1 = total L.ends (fun x => upd s.got e (s.got e + 1) x - s.K)
        have hfun : (fun x => upd s.got e (s.got e + 1) x - s.K) = upd (fun x => s.got x - s.K) e 1 := by
          funext x
          unfold upd; split
          · omega
          · rfl
        rw [hfun]
        have h3 := total_upd L.ends L.ends_nodup (fun x => s.got x - s.K) e 1 (L.ends_all e)
        have h4 := inv.recv_sum
        omega
      sidx_fb := inv.sidx_fb
      syncs_a := inv.syncs_a
      syncs_b := inv.syncs_b
      passed_sync := inv.passed_sync }
  | leaderBroadcast h =>
    have hall : ∀ e, s.got e = s.K + 1 := by
      intro e
      have h1 : ∀ x ∈ L.ends, (fun e => s.got e - s.K) x ≤ 1 := by
        intro x _; have := inv.got_le_K1 x; simp only; omega
      have := all_one_of_total L.ends (fun e => s.got e - s.K) h1 (by rw [← inv.recv_sum]; exact h) e (L.ends_all e)
      have := inv.K_le_got e
      simp only at *
      omega
    exact {
      got_le_sent := inv.got_le_sent
      sent_le_fars := inv.sent_le_fars
      fars_le_round := inv.fars_le_round
      round_fb := inv.round_fb
      fb_le_K := fun r => by have := inv.fb_le_K r; show s.fb r ≤ s.K + 1; omega
      K_le_got := fun e => by show s.K + 1 ≤ s.got e; rw [hall e]; exact Nat.le_refl _
      got_le_K1 := fun e => by show s.got e ≤ s.K + 1 + 1; rw [hall e]; omega
      recv_sum := by
        show 0 = total L.ends (fun e => s.got e - (s.K + 1))
        rw [total_congr L.ends _ (fun _ => 0) (fun e _ => by rw [hall e]; omega)]
        clear hall h inv
        induction L.ends with
        | nil => rfl
        | cons x xs ih => rw [total_cons, ← ih]
      sidx_fb := inv.sidx_fb
      syncs_a := inv.syncs_a
      syncs_b := inv.syncs_b
      passed_sync := inv.passed_sync }
  | headRecv r h1 h2 =>
    have hrf : s.round r = s.fb r + 1 := (inv.round_fb r).1 h1
    exact {
      got_le_sent := inv.got_le_sent
      sent_le_fars := inv.sent_le_fars
      fars_le_round := inv.fars_le_round
      round_fb := fun x => by
        show (upd s.phase r .atBarrier x = .waiting → s.round x = upd s.fb r (s.fb r + 1) x + 1) ∧
             (upd s.phase r .atBarrier x ≠ .waiting → s.round x = upd s.fb r (s.fb r + 1) x)
        by_cases hx : x = r
        · subst hx; simp [hrf]
        · rw [upd_other _ _ _ _ hx, upd_other _ _ _ _ hx]; exact inv.round_fb x
      fb_le_K := fun x => by
        show upd s.fb r (s.fb r + 1) x ≤ s.K
        have := inv.fb_le_K x
        unfold upd; split
        · omega
        · exact this
      K_le_got := inv.K_le_got
      got_le_K1 := inv.got_le_K1
      recv_sum := inv.recv_sum
      sidx_fb := fun h' => by
        show (if r = L.leaderOf (L.hostOfHead r) then upd s.sidx (L.hostOfHead r) (s.fb r + 1) else s.sidx) h'
          = upd s.fb r (s.fb r + 1) (L.leaderOf h')
        by_cases hl : r = L.leaderOf (L.hostOfHead r)
        · rw [if_pos hl]
          by_cases hh : h' = L.hostOfHead r
          · subst hh; rw [← hl]; simp
          · have : L.leaderOf h' ≠ r := by
              intro e; apply hh; rw [← e, L.leader_host]
            rw [upd_other _ _ _ _ hh, upd_other _ _ _ _ this]; exact inv.sidx_fb h'
        · rw [if_neg hl, upd_other _ _ _ _ (not_leader_of_ne L r hl h')]; exact inv.sidx_fb h'
      syncs_a := fun h' => by
        show (upd s.phase r .atBarrier (L.leaderOf h') = .emitting ∨ upd s.phase r .atBarrier (L.leaderOf h') = .waiting) →
          s.syncs h' = upd s.fb r (s.fb r + 1) (L.leaderOf h')
        intro hp
        rcases phase_upd_cases s.phase r (L.leaderOf h') .atBarrier with ⟨_, e2⟩ | ⟨e1, e2⟩
        · rw [e2] at hp; rcases hp with hp | hp <;> cases hp
        · rw [e2] at hp; rw [upd_other _ _ _ _ e1]; exact inv.syncs_a h' hp
      syncs_b := fun h' => by
        show (upd s.phase r .atBarrier (L.leaderOf h') = .atBarrier ∨ upd s.phase r .atBarrier (L.leaderOf h') = .released) →
          s.syncs h' + 1 = upd s.fb r (s.fb r + 1) (L.leaderOf h')
        intro hp
        rcases phase_upd_cases s.phase r (L.leaderOf h') .atBarrier with ⟨e1, _⟩ | ⟨e1, e2⟩
        · rw [e1, upd_same]
          have := inv.syncs_a h' (Or.inr (by rw [e1]; exact h1))
          rw [e1] at this; omega
        · rw [e2] at hp; rw [upd_other _ _ _ _ e1]; exact inv.syncs_b h' hp
      passed_sync := inv.passed_sync }
  | barrier h hall =>
    have hph : ∀ x, ((if L.hostOfHead x = h then Phase.released else s.phase x) = .waiting ↔ s.phase x = .waiting) := by
      intro x
      by_cases hx : L.hostOfHead x = h
      · rw [if_pos hx, hall x hx]; constructor <;> intro hh <;> cases hh
      · rw [if_neg hx]
    exact {
      got_le_sent := inv.got_le_sent
      sent_le_fars := inv.sent_le_fars
      fars_le_round := inv.fars_le_round
      round_fb := fun x => by
        show ((if L.hostOfHead x = h then Phase.released else s.phase x) = .waiting → _) ∧
             ((if L.hostOfHead x = h then Phase.released else s.phase x) ≠ .waiting → _)
        have := inv.round_fb x
        constructor
        · intro hw; exact this.1 ((hph x).1 hw)
        · intro hw; exact this.2 (fun h2 => hw ((hph x).2 h2))
      fb_le_K := inv.fb_le_K
      K_le_got := inv.K_le_got
      got_le_K1 := inv.got_le_K1
      recv_sum := inv.recv_sum
      sidx_fb := inv.sidx_fb
      syncs_a := fun h' => by
        show ((if L.hostOfHead (L.leaderOf h') = h then Phase.released else s.phase (L.leaderOf h')) = .emitting ∨
              (if L.hostOfHead (L.leaderOf h') = h then Phase.released else s.phase (L.leaderOf h')) = .waiting) → _
        intro hp
        by_cases hx : L.hostOfHead (L.leaderOf h') = h
        · rw [if_pos hx] at hp; rcases hp with hp | hp <;> cases hp
        · rw [if_neg hx] at hp; exact inv.syncs_a h' hp
      syncs_b := fun h' => by
        show ((if L.hostOfHead (L.leaderOf h') = h then Phase.released else s.phase (L.leaderOf h')) = .atBarrier ∨
              (if L.hostOfHead (L.leaderOf h') = h then Phase.released else s.phase (L.leaderOf h')) = .released) → _
        intro hp
        by_cases hx : L.hostOfHead (L.leaderOf h') = h
        · exact inv.syncs_b h' (Or.inl (hall _ hx))
        · rw [if_neg hx] at hp; exact inv.syncs_b h' hp
      passed_sync := inv.passed_sync }
  | resume r h =>
    have hrf : s.round r = s.fb r := (inv.round_fb r).2 (by rw [h]; decide)
    have hsync_mono : ∀ h', s.syncs h' ≤
        (if r = L.leaderOf (L.hostOfHead r) then upd s.syncs (L.hostOfHead r) (s.syncs (L.hostOfHead r) + 1) else s.syncs) h' := by
      intro h'
      split
      · unfold upd; split
        · subst_vars; omega
        · exact Nat.le_refl _
      · exact Nat.le_refl _
    exact {
      got_le_sent := inv.got_le_sent
      sent_le_fars := inv.sent_le_fars
      fars_le_round := inv.fars_le_round
      round_fb := fun x => by
        show (upd s.phase r .emitting x = .waiting → _) ∧ (upd s.phase r .emitting x ≠ .waiting → _)
        by_cases hx : x = r
        · subst hx; simp [hrf]
        · rw [upd_other _ _ _ _ hx]; exact inv.round_fb x
      fb_le_K := inv.fb_le_K
      K_le_got := inv.K_le_got
      got_le_K1 := inv.got_le_K1
      recv_sum := inv.recv_sum
      sidx_fb := inv.sidx_fb
      syncs_a := fun h' => by
        show (upd s.phase r .emitting (L.leaderOf h') = .emitting ∨ upd s.phase r .emitting (L.leaderOf h') = .waiting) →
          (if r = L.leaderOf (L.hostOfHead r) then upd s.syncs (L.hostOfHead r) (s.syncs (L.hostOfHead r) + 1) else s.syncs) h'
            = s.fb (L.leaderOf h')
        intro hp
        rcases phase_upd_cases s.phase r (L.leaderOf h') .emitting with ⟨e1, _⟩ | ⟨e1, e2⟩
        · -- the local leader of h' resumes: unlock
          have hh : L.hostOfHead r = h' := by rw [← e1, L.leader_host]
          have hl : r = L.leaderOf (L.hostOfHead r) := by rw [hh, e1]
          rw [if_pos hl, hh, upd_same]
          have := inv.syncs_b h' (Or.inr (by rw [e1]; exact h))
          exact this
        · rw [e2] at hp
          have hne : ¬ (r = L.leaderOf (L.hostOfHead r) ∧ L.hostOfHead r = h') := by
            intro ⟨a, b⟩; apply e1; rw [← b, ← a]
          by_cases hl : r = L.leaderOf (L.hostOfHead r)
          · rw [if_pos hl, upd_other _ _ _ _ (fun e => hne ⟨hl, e.symm⟩)]; exact inv.syncs_a h' hp
          · rw [if_neg hl]; exact inv.syncs_a h' hp
      syncs_b := fun h' => by
        show (upd s.phase r .emitting (L.leaderOf h') = .atBarrier ∨ upd s.phase r .emitting (L.leaderOf h') = .released) →
          (if r = L.leaderOf (L.hostOfHead r) then upd s.syncs (L.hostOfHead r) (s.syncs (L.hostOfHead r) + 1) else s.syncs) h' + 1
            = s.fb (L.leaderOf h')
        intro hp
        rcases phase_upd_cases s.phase r (L.leaderOf h') .emitting with ⟨_, e2⟩ | ⟨e1, e2⟩
        · rw [e2] at hp; rcases hp with hp | hp <;> cases hp
        · rw [e2] at hp
          have hne : ¬ (r = L.leaderOf (L.hostOfHead r) ∧ L.hostOfHead r = h') := by
            intro ⟨a, b⟩; apply e1; rw [← b, ← a]
          by_cases hl : r = L.leaderOf (L.hostOfHead r)
          · rw [if_pos hl, upd_other _ _ _ _ (fun e => hne ⟨hl, e.symm⟩)]; exact inv.syncs_b h' hp
          · rw [if_neg hl]; exact inv.syncs_b h' hp
      passed_sync := fun b hb => Nat.le_trans (inv.passed_sync b hb) (hsync_mono _) }

/-- the host barrier keeps the heads of a host in step (`bar h` = openings of host `h`'s barrier) -/
structure BarInv (L : Layout Host Head Body End) (s : St Host Head Body End) : Prop where
  bar_a : ∀ r, s.phase r ≠ .atBarrier → s.fb r = s.bar (L.hostOfHead r)
  bar_b : ∀ r, s.phase r = .atBarrier → s.fb r = s.bar (L.hostOfHead r) + 1

theorem barInv_step (L : Layout Host Head Body End) {s s' : St Host Head Body End}
    (inv : BarInv L s) (st : Step L s s') : BarInv L s' := by
  cases st with
  | headFar r h =>
    exact {
      bar_a := fun x => by
        show upd s.phase r .waiting x ≠ .atBarrier → _
        rcases phase_upd_cases s.phase r x .waiting with ⟨e1, _⟩ | ⟨_, e2⟩
        · intro _; subst e1; exact inv.bar_a _ (by rw [h]; decide)
        · rw [e2]; exact inv.bar_a x
      bar_b := fun x => by
        show upd s.phase r .waiting x = .atBarrier → _
        rcases phase_upd_cases s.phase r x .waiting with ⟨_, e2⟩ | ⟨_, e2⟩
        · rw [e2]; intro hh; cases hh
        · rw [e2]; exact inv.bar_b x }
  | bodyPass b h1 h2 => exact ⟨inv.bar_a, inv.bar_b⟩
  | bodyFar b h => exact ⟨inv.bar_a, inv.bar_b⟩
  | endSend e h => exact ⟨inv.bar_a, inv.bar_b⟩
  | leaderRecv e h1 h2 => exact ⟨inv.bar_a, inv.bar_b⟩
  | leaderBroadcast h => exact ⟨inv.bar_a, inv.bar_b⟩
  | headRecv r h1 h2 =>
    exact {
      bar_a := fun x => by
        show upd s.phase r .atBarrier x ≠ .atBarrier → upd s.fb r (s.fb r + 1) x = _
        rcases phase_upd_cases s.phase r x .atBarrier with ⟨_, e2⟩ | ⟨e1, e2⟩
        · rw [e2]; intro hh; exact absurd rfl hh
        · rw [e2, upd_other _ _ _ _ e1]; exact inv.bar_a x
      bar_b := fun x => by
        show upd s.phase r .atBarrier x = .atBarrier → upd s.fb r (s.fb r + 1) x = _
        rcases phase_upd_cases s.phase r x .atBarrier with ⟨e1, _⟩ | ⟨e1, e2⟩
        · intro _; subst e1; rw [upd_same]
          have := inv.bar_a x (by rw [h1]; decide)
          show s.fb x + 1 = s.bar (L.hostOfHead x) + 1
          omega
        · rw [e2, upd_other _ _ _ _ e1]; exact inv.bar_b x }
  | barrier h hall =>
    exact {
      bar_a := fun x => by
        show (if L.hostOfHead x = h then Phase.released else s.phase x) ≠ .atBarrier →
          s.fb x = upd s.bar h (s.bar h + 1) (L.hostOfHead x)
        by_cases hx : L.hostOfHead x = h
        · intro _; rw [hx, upd_same]
          have := inv.bar_b x (hall x hx)
          rw [hx] at this; exact this
        · rw [if_neg hx, upd_other _ _ _ _ hx]; exact inv.bar_a x
      bar_b := fun x => by
        show (if L.hostOfHead x = h then Phase.released else s.phase x) = .atBarrier →
          s.fb x = upd s.bar h (s.bar h + 1) (L.hostOfHead x) + 1
        by_cases hx : L.hostOfHead x = h
        · rw [if_pos hx]; intro hh; cases hh
        · rw [if_neg hx, upd_other _ _ _ _ hx]; exact inv.bar_b x }
  | resume r h =>
    exact {
      bar_a := fun x => by
        show upd s.phase r .emitting x ≠ .atBarrier → _
        rcases phase_upd_cases s.phase r x .emitting with ⟨e1, _⟩ | ⟨_, e2⟩
        · intro _; subst e1; exact inv.bar_a _ (by rw [h]; decide)
        · rw [e2]; exact inv.bar_a x
      bar_b := fun x => by
        show upd s.phase r .emitting x = .atBarrier → _
        rcases phase_upd_cases s.phase r x .emitting with ⟨_, e2⟩ | ⟨_, e2⟩
        · rw [e2]; intro hh; cases hh
        · rw [e2]; exact inv.bar_b x }

theorem barInv_reachable (L : Layout Host Head Body End) {s : St Host Head Body End}
    (h : Reachable L s) : BarInv L s := by
  induction h with
  | init => exact ⟨fun _ _ => rfl, fun r hh => by cases hh⟩
  | step _ st ih => exact barInv_step L ih st

theorem inv_reachable (L : Layout Host Head Body End) (r0 : Head) (b0 : Body)
    {s : St Host Head Body End} (h : Reachable L s) : Inv L s := by
  induction h with
  | init => exact inv_init L
  | step _ st ih => exact inv_step L r0 b0 ih st

end Noir.LoopProto

namespace Noir.SeqLoop

variable {σ δ α : Type}

theorem rounds_ne_nil (l : Loop σ δ α) (feed : Bool) (split : List α → List (List α))
    (rem : Nat) (S : σ) (inp : List α) : rounds l feed split rem S inp ≠ [] := by
  cases rem with
  | zero => simp [rounds]
  | succ r =>
    rw [rounds]
    split <;> simp

/-- the elements returned by `next()` among the leader's actions -/
def returned (o : List (Leader.Out σ)) : List (Elem σ) :=
  o.filterMap fun | .elem e => some e | _ => none

theorem expectOuts_returned (init : σ) (d : σ × List α) : ∀ (rs : List (σ × List α)), rs ≠ [] →
    returned (expectOuts init rs) = [.item (lastD rs d).1, .far]
  | [], h => absurd rfl h
  | [(S, o)], _ => by simp [expectOuts, returned, lastD]
  | (S, o) :: r2 :: rest, _ => by
    have := expectOuts_returned init d (r2 :: rest) (by simp)
    simp only [expectOuts, returned, List.filterMap_cons, lastD] at this ⊢
    exact this

end Noir.SeqLoop

/-! ## Replay / Iterate loop heads -/
namespace Noir.Replay
variable {α : Type}

def acts (c : List (Elem α)) : List (Act α) := c.flatMap fun e => if e.isFar then [.lock, .emit e] else [.emit e]

theorem emitted_acts (c : List (Elem α)) : emitted (acts c) = c := by
  induction c with
  | nil => rfl
  | cons e es ih =>
    simp only [acts, List.flatMap_cons, emitted] at ih ⊢
    cases h : e.isFar <;> simp [List.filterMap_append, ih]

theorem emitted_append (a b : List (Act α)) : emitted (a ++ b) = emitted a ++ emitted b := by
  simp [emitted, List.filterMap_append]

/-- first round: the input is forwarded and recorded -/
theorem run_input (xs : List α) : ∀ (st : St α), st.inputFinished = false →
    run st (xs.map (fun x => Ev.input (Elem.item x))) =
      (⟨st.content ++ xs.map Elem.item, false⟩, xs.map (fun x => Act.emit (Elem.item x))) := by
  induction xs with
  | nil => intro st h; cases st; simp_all [run]
  | cons x xs ih =>
    intro st h
    simp only [List.map_cons, run, step, h]
    rw [ih _ rfl]
    simp
end Noir.Replay

namespace Noir.Iterate
variable {α : Type}

def acts (c : List (Elem α)) : List (Act α) := c.flatMap fun e => if e.isFar then [.lock, .emit e] else [.emit e]

theorem emitted_acts (c : List (Elem α)) : emitted (acts c) = c := by
  induction c with
  | nil => rfl
  | cons e es ih =>
    simp only [acts, List.flatMap_cons, emitted] at ih ⊢
    cases h : e.isFar <;> simp [List.filterMap_append, ih]

theorem outputs_acts (c : List (Elem α)) : outputs (acts c) = [] := by
  induction c with
  | nil => rfl
  | cons e es ih =>
    simp only [acts, List.flatMap_cons, outputs] at ih ⊢
    cases h : e.isFar <;> simp [List.filterMap_append, ih]

theorem pump_content (C : List (Elem α)) : ∀ (fuel : Nat) (st : St α),
    st.waiting = false → st.inputFinished = true → st.content = C →
    pump (fuel + C.length) st =
      ((pump fuel { st with content := [] }).1, acts C ++ (pump fuel { st with content := [] }).2) := by
  induction C with
  | nil =>
    intro fuel st _ _ hc
    have : { st with content := [] } = st := by cases st; simp_all
    simp [this, acts]
  | cons e es ih =>
    intro fuel st hw hi hc
    show pump ((fuel + es.length) + 1) st = _
    have hp : pstep st = some ({ st with content := es }, if e.isFar then [.lock, .emit e] else [.emit e]) := by
      simp [pstep, hw, hi, hc]
    simp only [pump, hp]
    rw [ih fuel { st with content := es } hw hi rfl]
    simp [acts, List.append_assoc]


theorem pump_step (n : Nat) (st st' : St α) (a : List (Act α)) (h : pstep st = some (st', a)) :
    pump (n + 1) st = ((pump n st').1, a ++ (pump n st').2) := by
  simp [pump, h]

theorem pump_blocked (n : Nat) (st : St α) (h : pstep st = none) : pump n st = (st, []) := by
  cases n <;> simp [pump, h]

/-- state between two rounds: the input has ended, everything of the round was handed to the body -/
def mid : St α := ⟨[], [], [], true, false, []⟩

theorem mid_blocked : pstep (mid : St α) = none := by simp [pstep, mid]

/-- after the swap and the leader's message: the round's feedback is handed to the body again
    (`c = true`) or sent to the output (`c = false`) -/
theorem pump_waiting (F : List (Elem α)) (c : Bool) (n : Nat) :
    pump (F.length + 2 + n) (⟨F, [], [], true, true, [c]⟩ : St α) =
      if c then (mid, .sync :: acts F) else (init, [.sync, .out F]) := by
  cases c with
  | true =>
    have e : F.length + 2 + n = (n + 1 + F.length) + 1 := by omega
    rw [e, pump_step _ _ ⟨F, [], [], true, false, []⟩ [.sync] (by simp [pstep])]
    rw [pump_content F (n + 1) _ rfl rfl rfl]
    rw [pump_blocked _ _ (by simp [pstep])]
    simp [mid]
  | false =>
    have e : F.length + 2 + n = (F.length + 1 + n) + 1 := by omega
    rw [e, pump_step _ _ ⟨[], [], [], false, false, []⟩ [.sync, .out F] (by simp [pstep])]
    rw [pump_blocked _ _ (by simp [pstep])]
    simp [init]

theorem round_feedback_then_state (F : List (Elem α)) (hF : (F.getLast?.map Elem.isFar).getD false = true) (c : Bool) :
    run mid [.feedback F, .state c] =
      if c then (mid, .sync :: acts F) else (init, [.sync, .out F]) := by
  have h1 : step (mid : St α) (.feedback F) = (⟨F, [], [], true, true, []⟩, []) := by
    simp only [step, apply, mid, size, List.nil_append, List.length_nil]
    rw [pump_step _ _ ⟨F, [], [], true, true, []⟩ [] (by simp [pstep, hF])]
    rw [pump_blocked _ _ (by simp [pstep])]
    simp
  have h2 : step (⟨F, [], [], true, true, []⟩ : St α) (.state c) =
      if c then (mid, .sync :: acts F) else (init, [.sync, .out F]) := by
    simp only [step, apply, size, List.nil_append, List.length_nil, List.length_cons]
    have e : F.length + 0 + 2 * 0 + (0 + 1) + 3 = F.length + 2 + 2 := by omega
    rw [e, pump_waiting F c 2]
  simp only [run, h1, h2, List.nil_append]
  cases c <;> simp

/-- the leader's message may overtake the last feedback batch: it waits in its channel -/
theorem round_state_then_feedback (F : List (Elem α)) (hF : (F.getLast?.map Elem.isFar).getD false = true) (c : Bool) :
    run mid [.state c, .feedback F] =
      if c then (mid, .sync :: acts F) else (init, [.sync, .out F]) := by
  have h1 : step (mid : St α) (.state c) = (⟨[], [], [], true, false, [c]⟩, []) := by
    simp only [step, apply, mid, List.nil_append]
    rw [pump_blocked _ _ (by simp [pstep])]
  have h2 : step (⟨[], [], [], true, false, [c]⟩ : St α) (.feedback F) =
      if c then (mid, .sync :: acts F) else (init, [.sync, .out F]) := by
    simp only [step, apply, size, List.nil_append, List.length_nil, List.length_cons]
    have e : 0 + 0 + 2 * F.length + (0 + 1) + 3 = (F.length + 2 + (F.length + 1)) + 1 := by omega
    rw [e, pump_step _ _ ⟨F, [], [], true, true, [c]⟩ [] (by simp [pstep, hF])]
    rw [pump_waiting F c (F.length + 1)]
    cases c <;> simp
  simp only [run, h1, h2, List.nil_append]
  cases c <;> simp

end Noir.Iterate

/-! ## Nested instance: the positive invariant -/
namespace Noir.LoopProto.Nested

/-- every host's outer state cell holds the broadcast of the outer round its head is in; no stale read yet -/
def Good (s : NSt) : Prop := ∀ x ∈ s.hosts, x.oIdx = x.ko ∧ x.ofb = x.ko ∧ x.stale = false

/-- the data a body replica accepts comes from its own host (no shuffle inside the inner body) -/
def localOnly : Act → Bool
  | .bodyPass h src => h == src
  | _ => true

theorem good_setHost (s : NSt) (h : Nat) (x : HostSt) (g : Good s) (hx : x.oIdx = x.ko ∧ x.ofb = x.ko ∧ x.stale = false) :
    Good (setHost s h x) := by
  intro y hy
  simp only [setHost] at hy
  rcases List.mem_or_eq_of_mem_set hy with h1 | h1
  · exact g y h1
  · subst h1; exact hx

theorem setHost_length (s : NSt) (h : Nat) (x : HostSt) : (setHost s h x).hosts.length = s.hosts.length := by
  simp [setHost]

theorem good_step (I : Nat) (fixed : Bool) (s s' : NSt) (a : Act) (hs : step I fixed s a = some s')
    (g : Good s) (hl : localOnly a = true ∨ s.hosts.length ≤ 1) :
    Good s' ∧ s'.hosts.length = s.hosts.length := by
  cases a with
  | headFar h =>
    simp only [step, Option.bind_eq_bind, Option.bind_eq_some_iff] at hs
    obtain ⟨x, hx, hif⟩ := hs
    split at hif
    · simp only [Option.some.injEq] at hif; subst hif
      exact ⟨good_setHost s h _ g (g x (List.mem_of_getElem? hx)), setHost_length _ _ _⟩
    · simp at hif
  | bodyPass h src =>
    simp only [step, Option.bind_eq_bind, Option.bind_eq_some_iff] at hs
    obtain ⟨x, hx, p, hp, hif⟩ := hs
    split at hif
    · simp only [Option.some.injEq] at hif; subst hif
      have hxp : p = x := by
        rcases hl with h1 | h1
        · simp only [localOnly, beq_iff_eq] at h1; subst h1; rw [hx] at hp; exact (Option.some.inj hp).symm
        · have h2 := (List.getElem?_eq_some_iff.mp hx).1
          have h3 := (List.getElem?_eq_some_iff.mp hp).1
          have : h = src := by omega
          subst this; rw [hx] at hp; exact (Option.some.inj hp).symm
      have gx := g x (List.mem_of_getElem? hx)
      refine ⟨good_setHost s h _ g ⟨gx.1, gx.2.1, ?_⟩, setHost_length _ _ _⟩
      subst hxp
      simp [gx.1, gx.2.2]
    · simp at hif
  | bodyFar h =>
    simp only [step, Option.bind_eq_bind, Option.bind_eq_some_iff] at hs
    obtain ⟨x, hx, hif⟩ := hs
    split at hif
    · simp only [Option.some.injEq] at hif; subst hif
      exact ⟨good_setHost s h _ g (g x (List.mem_of_getElem? hx)), setHost_length _ _ _⟩
    · simp at hif
  | innerBroadcast =>
    simp only [step] at hs
    split at hs
    · simp only [Option.some.injEq] at hs; subst hs; exact ⟨g, rfl⟩
    · simp at hs
  | outerBroadcast =>
    simp only [step] at hs
    split at hs
    · simp only [Option.some.injEq] at hs; subst hs; exact ⟨g, rfl⟩
    · simp at hs
  | headRecvInner h =>
    simp only [step, Option.bind_eq_bind, Option.bind_eq_some_iff] at hs
    obtain ⟨x, hx, hif⟩ := hs
    have gx := g x (List.mem_of_getElem? hx)
    split at hif
    · split at hif <;>
      · simp only [Option.some.injEq] at hif; subst hif
        exact ⟨good_setHost s h _ g gx, setHost_length _ _ _⟩
    · simp at hif
  | headRecvOuter h =>
    simp only [step, Option.bind_eq_bind, Option.bind_eq_some_iff] at hs
    obtain ⟨x, hx, hif⟩ := hs
    have gx := g x (List.mem_of_getElem? hx)
    split at hif
    · rename_i hc
      simp only [Option.some.injEq] at hif; subst hif
      exact ⟨good_setHost s h _ g ⟨by simp [gx.2.1], by simp [gx.2.1], gx.2.2⟩, setHost_length _ _ _⟩
    · simp at hif

theorem good_init (H : Nat) : Good (ninit H) := by
  intro x hx
  simp only [ninit, List.mem_replicate] at hx
  rw [hx.2]; simp [hostInit]

theorem good_exec (I : Nat) (fixed : Bool) (sched : List Act) : ∀ (s s' : NSt),
    exec I fixed s sched = some s' → Good s →
    ((∀ a ∈ sched, localOnly a = true) ∨ s.hosts.length ≤ 1) → Good s' := by
  induction sched with
  | nil => intro s s' h g _; simp [exec] at h; subst h; exact g
  | cons a as ih =>
    intro s s' h g hl
    simp only [exec] at h
    cases hs : step I fixed s a with
    | none => simp [hs] at h
    | some s1 =>
      simp only [hs] at h
      have := good_step I fixed s s1 a hs g (by
        rcases hl with h1 | h1
        · exact Or.inl (h1 a (by simp))
        · exact Or.inr h1)
      exact ih s1 s' h this.1 (by
        rcases hl with h1 | h1
        · exact Or.inl (fun b hb => h1 b (by simp [hb]))
        · exact Or.inr (by rw [this.2]; exact h1))

theorem good_no_stale (s : NSt) (g : Good s) : anyStale s = false := by
  simp only [anyStale, List.any_eq_false]
  intro x hx
  simp [(g x hx).2.2]

end Noir.LoopProto.Nested

/-! ## The data-carrying refinement of LoopProto -/
namespace Noir.LoopProto

variable {Host Head Body End σ δ α : Type} [DecidableEq Host] [DecidableEq Head] [DecidableEq Body] [DecidableEq End]

theorem dstep_base (L : Layout Host Head Body End) (D : DataCfg Body End σ δ α)
    {s s' : DSt Host Head Body End σ δ} (st : DStep L D s s') : Step L s.base s'.base := by
  cases st with
  | headFar b' r h hb => subst hb; exact Step.headFar s.base r h
  | bodyPass b' b h1 h2 hb => subst hb; exact Step.bodyPass s.base b h1 h2
  | bodyFar b' b h hp hb => subst hb; exact Step.bodyFar s.base b h
  | endSend b' e h hb => subst hb; exact Step.endSend s.base e h
  | leaderRecv b' e d h1 h2 hd hb => subst hb; exact Step.leaderRecv s.base e h1 h2
  | leaderBroadcast b' h hb => subst hb; exact Step.leaderBroadcast s.base h
  | headRecv b' r h1 h2 hb => subst hb; exact Step.headRecv s.base r h1 h2
  | barrier b' h hall hb => subst hb; exact Step.barrier s.base h hall
  | resume b' r h hb => subst hb; exact Step.resume s.base r h

theorem dreach_base (L : Layout Host Head Body End) (D : DataCfg Body End σ δ α)
    {s : DSt Host Head Body End σ δ} (h : DReachable L D s) : Reachable L s.base := by
  induction h with
  | init => exact Reachable.init
  | step _ st ih => exact Reachable.step ih (dstep_base L D st)

/-- I3 on the invariant -/
theorem sidx_eq_fars (L : Layout Host Head Body End) (e0 : End) {s : St Host Head Body End} (inv : Inv L s)
    (b : Body) (hp : s.passed b = true) : s.sidx (L.hostOfBody b) = s.fars b := by
  have h1 := inv.passed_sync b hp
  have h2 := inv.sidx_fb (L.hostOfBody b)
  have h3 := inv.fb_le_K (L.leaderOf (L.hostOfBody b))
  have := inv.K_le_got e0
  have := inv.got_le_sent e0
  have := inv.sent_le_fars e0 b
  have ha := inv.syncs_a (L.hostOfBody b)
  have hb := inv.syncs_b (L.hostOfBody b)
  cases hph : s.phase (L.leaderOf (L.hostOfBody b)) with
  | emitting => have := ha (Or.inl hph); omega
  | waiting => have := ha (Or.inr hph); omega
  | atBarrier => have := hb (Or.inl hph); omega
  | released => have := hb (Or.inr hph); omega

/-- everything is at most one round ahead of the leader -/
theorem chain_le (L : Layout Host Head Body End) (r0 : Head) {s : St Host Head Body End} (inv : Inv L s) :
    (∀ b, s.fars b ≤ s.K + 1) ∧ (∀ e b, s.sent e ≤ s.fars b) := by
  refine ⟨fun b => ?_, inv.sent_le_fars⟩
  have c2 := inv.fars_le_round b r0
  have c4 := inv.fb_le_K r0
  by_cases hp : s.phase r0 = .waiting
  · have := (inv.round_fb r0).1 hp; omega
  · have := (inv.round_fb r0).2 hp; omega

/-- the leader's fold in arrival order equals the fold in the order of `ends` (right-commutative `global`) -/
theorem foldr_arrival (g : σ → δ → σ) (hg : ∀ s a b, g (g s a) b = g (g s b) a) (dv : End → δ) (S : σ)
    (recvd ends : List End) (hp : recvd.Perm ends) :
    recvd.foldr (fun e T => g T (dv e)) S = (ends.map dv).foldl g S := by
  have h1 : recvd.foldr (fun e T => g T (dv e)) S = recvd.reverse.foldl (fun T e => g T (dv e)) S := by
    rw [List.foldl_reverse]
  rw [h1, List.foldl_map]
  exact Leader.foldl_perm (fun T e => g T (dv e)) (fun s a b => hg s (dv a) (dv b))
    ((List.reverse_perm recvd).trans hp) S

structure DInv (L : Layout Host Head Body End) (D : DataCfg Body End σ δ α)
    (s : DSt Host Head Body End σ δ) : Prop where
  hist_seq : ∀ j, j ≤ s.base.K → s.hist j = seqS L D j
  cell_hist : ∀ h, s.cell h = s.hist (s.base.sidx h)
  read_hist : ∀ b, s.base.passed b = true → s.readSt b = s.hist (s.base.fars b)
  dlast_hist : ∀ b, 1 ≤ s.base.fars b → s.dlast b = D.dval b (s.hist (s.base.fars b - 1))
  dq_hist : ∀ e, s.base.got e < s.base.sent e → s.dq e = some (D.dval (D.bodyOf e) (s.hist s.base.K))
  lstate_fold : s.lstate =
    s.recvd.foldr (fun e T => D.loop.global T (D.dval (D.bodyOf e) (s.hist s.base.K))) (s.hist s.base.K)
  recvd_nodup : s.recvd.Nodup
  recvd_mem : ∀ e, e ∈ s.recvd ↔ s.base.got e = s.base.K + 1

theorem dinv_init (L : Layout Host Head Body End) (D : DataCfg Body End σ δ α) :
    DInv L D (dinit D : DSt Host Head Body End σ δ) := by
  refine ⟨?_, ?_, ?_, ?_, ?_, ?_, ?_, ?_⟩ <;> simp [dinit, init, seqS]

theorem seqS_succ (L : Layout Host Head Body End) (D : DataCfg Body End σ δ α) (k : Nat) :
    seqS L D (k + 1) =
      (D.loop.cond ((L.ends.map fun e => D.dval (D.bodyOf e) (seqS L D k)).foldl D.loop.global (seqS L D k))).2 := by
  simp only [seqS, SeqLoop.foldRound, SeqLoop.deltas, List.map_map]
  rfl

theorem dinv_step (L : Layout Host Head Body End) (D : DataCfg Body End σ δ α)
    (hcomm : ∀ s a b, D.loop.global (D.loop.global s a) b = D.loop.global (D.loop.global s b) a)
    (r0 : Head) (b0 : Body) (e0 : End)
    {s s' : DSt Host Head Body End σ δ} (rb : Reachable L s.base) (inv : DInv L D s)
    (st : DStep L D s s') : DInv L D s' := by
  have bi := inv_reachable L r0 b0 rb
  have bi' := inv_reachable L r0 b0 (Reachable.step rb (dstep_base L D st))
  have hch := chain_le L r0 bi
  cases st with
  | headFar b' r h hb =>
    subst hb
    exact ⟨inv.hist_seq, inv.cell_hist, inv.read_hist, inv.dlast_hist, inv.dq_hist, inv.lstate_fold,
      inv.recvd_nodup, inv.recvd_mem⟩
  | barrier b' h hall hb =>
    subst hb
    exact ⟨inv.hist_seq, inv.cell_hist, inv.read_hist, inv.dlast_hist, inv.dq_hist, inv.lstate_fold,
      inv.recvd_nodup, inv.recvd_mem⟩
  | resume b' r h hb =>
    subst hb
    exact ⟨inv.hist_seq, inv.cell_hist, inv.read_hist, inv.dlast_hist, inv.dq_hist, inv.lstate_fold,
      inv.recvd_nodup, inv.recvd_mem⟩
  | bodyPass b' b h1 h2 hb =>
    subst hb
    refine ⟨inv.hist_seq, inv.cell_hist, ?_, inv.dlast_hist, inv.dq_hist, inv.lstate_fold,
      inv.recvd_nodup, inv.recvd_mem⟩
    intro x hx
    show upd s.readSt b (s.cell (L.hostOfBody b)) x = s.hist (s.base.fars x)
    by_cases hxb : x = b
    · subst hxb
      rw [upd_same, inv.cell_hist]
      have := sidx_eq_fars L e0 bi' x (by show upd s.base.passed x true x = true; simp)
      exact congrArg s.hist this
    · rw [upd_other _ _ _ _ hxb]
      have : s.base.passed x = true := by
        have : upd s.base.passed b true x = true := hx
        rwa [upd_other _ _ _ _ hxb] at this
      exact inv.read_hist x this
  | bodyFar b' b h hp hb =>
    subst hb
    refine ⟨inv.hist_seq, inv.cell_hist, ?_, ?_, inv.dq_hist, inv.lstate_fold, inv.recvd_nodup, inv.recvd_mem⟩
    · intro x hx
      show s.readSt x = s.hist (upd s.base.fars b (s.base.fars b + 1) x)
      have hx' : upd s.base.passed b false x = true := hx
      by_cases hxb : x = b
      · subst hxb; simp at hx'
      · rw [upd_other _ _ _ _ hxb] at hx' ⊢; exact inv.read_hist x hx'
    · intro x hx
      show upd s.dlast b (D.dval b (s.readSt b)) x = D.dval x (s.hist (upd s.base.fars b (s.base.fars b + 1) x - 1))
      by_cases hxb : x = b
      · subst hxb
        rw [upd_same, upd_same, inv.read_hist x hp]
        simp
      · have hx' : 1 ≤ upd s.base.fars b (s.base.fars b + 1) x := hx
        rw [upd_other _ _ _ _ hxb] at hx' ⊢
        rw [upd_other _ _ _ _ hxb]; exact inv.dlast_hist x hx'
  | endSend b' e h hb =>
    subst hb
    refine ⟨inv.hist_seq, inv.cell_hist, inv.read_hist, inv.dlast_hist, ?_, inv.lstate_fold, inv.recvd_nodup, inv.recvd_mem⟩
    intro x hx
    show upd s.dq e (some (s.dlast (D.bodyOf e))) x = some (D.dval (D.bodyOf x) (s.hist s.base.K))
    by_cases hxe : x = e
    · subst hxe
      rw [upd_same]
      have h1 := h (D.bodyOf x)
      have h2 := hch.1 (D.bodyOf x)
      have h3 := bi.K_le_got x
      have h4 := bi.got_le_sent x
      rw [inv.dlast_hist (D.bodyOf x) (by omega)]
      have : s.base.fars (D.bodyOf x) - 1 = s.base.K := by omega
      rw [this]
    · have hx' : s.base.got x < upd s.base.sent e (s.base.sent e + 1) x := hx
      rw [upd_other _ _ _ _ hxe] at hx' ⊢
      exact inv.dq_hist x hx'
  | leaderRecv b' e d h1 h2 hd hb =>
    subst hb
    have hd' : d = D.dval (D.bodyOf e) (s.hist s.base.K) := by
      have := inv.dq_hist e h1; rw [hd] at this; exact Option.some.inj this
    have c1 := hch.2 e b0
    have c2 := hch.1 b0
    have c3 := bi.K_le_got e
    have hge : s.base.got e = s.base.K := by omega
    refine ⟨inv.hist_seq, inv.cell_hist, inv.read_hist, inv.dlast_hist, ?_, ?_, ?_, ?_⟩
    · intro x hx
      show upd s.dq e none x = _
      have hx' : upd s.base.got e (s.base.got e + 1) x < s.base.sent x := hx
      by_cases hxe : x = e
      · subst hxe; rw [upd_same] at hx'; omega
      · rw [upd_other _ _ _ _ hxe] at hx' ⊢; exact inv.dq_hist x hx'
    · show D.loop.global s.lstate d = List.foldr _ _ (e :: s.recvd)
      rw [List.foldr_cons, ← inv.lstate_fold, hd']
    · show (e :: s.recvd).Nodup
      rw [List.nodup_cons]
      refine ⟨fun hm => ?_, inv.recvd_nodup⟩
      have := (inv.recvd_mem e).1 hm; omega
    · intro x
      show x ∈ e :: s.recvd ↔ upd s.base.got e (s.base.got e + 1) x = s.base.K + 1
      by_cases hxe : x = e
      · subst hxe; rw [upd_same]; simp; omega
      · rw [upd_other _ _ _ _ hxe, List.mem_cons]
        constructor
        · rintro (h | h)
          · exact absurd h hxe
          · exact (inv.recvd_mem x).1 h
        · intro h; exact Or.inr ((inv.recvd_mem x).2 h)
  | leaderBroadcast b' h hb =>
    subst hb
    have hall : ∀ e, s.base.got e = s.base.K + 1 := by
      intro e
      have h1 : s.base.K + 1 ≤ s.base.got e := bi'.K_le_got e
      have h2 := bi.got_le_K1 e
      omega
    have hperm : s.recvd.Perm L.ends := by
      rw [List.perm_ext_iff_of_nodup inv.recvd_nodup L.ends_nodup]
      intro e
      exact ⟨fun _ => L.ends_all e, fun _ => (inv.recvd_mem e).2 (hall e)⟩
    have hv : (D.loop.cond s.lstate).2 = seqS L D (s.base.K + 1) := by
      rw [seqS_succ, inv.lstate_fold, inv.hist_seq s.base.K (Nat.le_refl _)]
      rw [foldr_arrival D.loop.global hcomm (fun e => D.dval (D.bodyOf e) (seqS L D s.base.K)) _ _ _ hperm]
    have hne : ∀ j, j ≤ s.base.K → upd s.hist (s.base.K + 1) (D.loop.cond s.lstate).2 j = s.hist j :=
      fun j hj => upd_other _ _ _ _ (by omega)
    refine ⟨?_, ?_, ?_, ?_, ?_, ?_, List.nodup_nil, ?_⟩
    · intro j hj
      show upd s.hist (s.base.K + 1) _ j = _
      have hj' : j ≤ s.base.K + 1 := hj
      by_cases hjk : j = s.base.K + 1
      · subst hjk; rw [upd_same]; exact hv
      · rw [hne j (by omega)]; exact inv.hist_seq j (by omega)
    · intro h'
      show s.cell h' = upd s.hist (s.base.K + 1) _ (s.base.sidx h')
      have h1 := bi.sidx_fb h'
      have h2 := bi.fb_le_K (L.leaderOf h')
      rw [hne _ (by omega)]; exact inv.cell_hist h'
    · intro b hp
      show s.readSt b = upd s.hist (s.base.K + 1) _ (s.base.fars b)
      have h0 := sidx_eq_fars L e0 bi b hp
      have h1 := bi.sidx_fb (L.hostOfBody b)
      have h2 := bi.fb_le_K (L.leaderOf (L.hostOfBody b))
      rw [hne _ (by omega)]; exact inv.read_hist b hp
    · intro b hb1
      show s.dlast b = D.dval b (upd s.hist (s.base.K + 1) _ (s.base.fars b - 1))
      have := hch.1 b
      rw [hne _ (by omega)]; exact inv.dlast_hist b hb1
    · intro e he
      have he' : s.base.got e < s.base.sent e := he
      have := hch.2 e b0
      have := hch.1 b0
      have := hall e
      omega
    · show (D.loop.cond s.lstate).2 = List.foldr _ (upd s.hist (s.base.K + 1) _ (s.base.K + 1)) []
      simp
    · intro e
      show e ∈ [] ↔ s.base.got e = s.base.K + 1 + 1
      have := hall e
      simp; omega
  | headRecv b' r h1 h2 hb =>
    subst hb
    refine ⟨inv.hist_seq, ?_, inv.read_hist, inv.dlast_hist, inv.dq_hist, inv.lstate_fold, inv.recvd_nodup, inv.recvd_mem⟩
    intro h'
    show (if r = L.leaderOf (L.hostOfHead r) then upd s.cell (L.hostOfHead r) (s.hist (s.base.fb r + 1)) else s.cell) h' =
      s.hist ((if r = L.leaderOf (L.hostOfHead r) then upd s.base.sidx (L.hostOfHead r) (s.base.fb r + 1) else s.base.sidx) h')
    by_cases hl : r = L.leaderOf (L.hostOfHead r)
    · rw [if_pos hl, if_pos hl]
      by_cases hh : h' = L.hostOfHead r
      · subst hh; rw [upd_same, upd_same]
      · rw [upd_other _ _ _ _ hh, upd_other _ _ _ _ hh]; exact inv.cell_hist h'
    · rw [if_neg hl, if_neg hl]; exact inv.cell_hist h'

theorem dinv_reachable (L : Layout Host Head Body End) (D : DataCfg Body End σ δ α)
    (hcomm : ∀ s a b, D.loop.global (D.loop.global s a) b = D.loop.global (D.loop.global s b) a)
    (r0 : Head) (b0 : Body) (e0 : End)
    {s : DSt Host Head Body End σ δ} (h : DReachable L D s) : DInv L D s := by
  induction h with
  | init => exact dinv_init L D
  | step hr st ih => exact dinv_step L D hcomm r0 b0 e0 (dreach_base L D hr) ih st


/-- the states of the sequential `rounds` are the `seqS`, whenever `split` distributes a round's output
    the way the replicas produce it -/
theorem rounds_states_eq_seqS (L : Layout Host Head Body End) (D : DataCfg Body End σ δ α)
    (split : List α → List (List α)) (input : List α)
    (hsplit : ∀ S, split (D.loop.body S input) = L.ends.map fun e => D.loop.body S (D.part (D.bodyOf e))) :
    ∀ (k rem k0 : Nat) (p : σ × List α),
      (SeqLoop.rounds D.loop false split rem (seqS L D k0) input)[k]? = some p → p.1 = seqS L D (k0 + k + 1) := by
  intro k
  induction k with
  | zero =>
    intro rem k0 p hp
    have hfirst : seqS L D (k0 + 1) =
        (D.loop.cond (SeqLoop.foldRound D.loop (seqS L D k0) (split (D.loop.body (seqS L D k0) input)))).2 := by
      rw [hsplit]; rfl
    cases rem with
    | zero => simp [SeqLoop.rounds] at hp; rw [← hp, hfirst]
    | succ rem =>
      rw [SeqLoop.rounds] at hp
      split at hp <;> (simp at hp; rw [← hp, hfirst])
  | succ k ih =>
    intro rem k0 p hp
    have hfirst : seqS L D (k0 + 1) =
        (D.loop.cond (SeqLoop.foldRound D.loop (seqS L D k0) (split (D.loop.body (seqS L D k0) input)))).2 := by
      rw [hsplit]; rfl
    cases rem with
    | zero => simp [SeqLoop.rounds] at hp
    | succ rem =>
      rw [SeqLoop.rounds] at hp
      split at hp
      · simp only [List.getElem?_cons_succ, Bool.false_eq_true, if_false] at hp
        rw [← hfirst] at hp
        have := ih rem (k0 + 1) p hp
        rw [this]; congr 1; omega
      · simp at hp

end Noir.LoopProto
