/-
  Lemmas/Loop.lean — helper lemmas for C10 (leader transducer, generation lock, folds).
-/
import NoirVerif.Model.Leader
import NoirVerif.Model.StateLock
import NoirVerif.Model.SeqLoop
import NoirVerif.Model.LoopProto
namespace Noir.Leader

variable {σ δ : Type}

theorem run_append (c : Cfg σ δ) (st : St σ) (xs ys : List (Elem δ)) :
    run c st (xs ++ ys) =
      ((run c (run c st xs).1 ys).1, (run c st xs).2 ++ (run c (run c st xs).1 ys).2) := by
  induction xs generalizing st with
  | nil => simp [run]
  | cons x xs ih =>
    simp only [List.cons_append, run]
    rw [ih]
    simp [List.append_assoc]

theorem runDeltas_append (c : Cfg σ δ) (st : St σ) (xs ys : List δ) :
    runDeltas c st (xs ++ ys) =
      ((runDeltas c (runDeltas c st xs).1 ys).1,
       (runDeltas c st xs).2 ++ (runDeltas c (runDeltas c st xs).1 ys).2) := by
  simp [runDeltas, run_append]

/-- fewer deltas than the round still misses: nothing is emitted, they are folded into the state -/
theorem run_within_round (c : Cfg σ δ) (ds : List δ) :
    ∀ (st : St σ), st.done = false → ds.length < st.missing →
      runDeltas c st ds =
        ({ st with state := ds.foldl c.global st.state, missing := st.missing - ds.length }, []) := by
  induction ds with
  | nil => intro st _ _; simp [runDeltas, run]
  | cons d ds ih =>
    intro st hd hl
    simp only [List.length_cons] at hl
    have hm : ¬ st.missing ≤ 1 := by omega
    have ih' := ih { st with state := c.global st.state d, missing := st.missing - 1 } hd (by simp; omega)
    simp only [runDeltas, hd] at ih'
    simp only [runDeltas, List.map_cons, run, step, hd, onDelta, hm, if_false, List.foldl_cons,
      List.length_cons, Bool.false_eq_true]
    rw [ih']
    simp only [List.nil_append]
    congr 2
    omega

/-- the last delta of a round -/
theorem run_last (c : Cfg σ δ) (st : St σ) (d : δ) (hd : st.done = false) (hm : st.missing = 1) :
    runDeltas c st [d] = endRound c st (c.global st.state d) := by
  simp [runDeltas, run, step, hd, onDelta, hm]

/-- a right-commutative fold does not depend on the order -/
theorem foldl_perm {α β : Type} (g : β → α → β) (hg : ∀ s a b, g (g s a) b = g (g s b) a)
    {xs ys : List α} (h : xs.Perm ys) : ∀ s, xs.foldl g s = ys.foldl g s := by
  induction h with
  | nil => intro s; rfl
  | cons x _ ih => intro s; simp [ih]
  | swap x y l => intro s; simp [hg]
  | trans _ _ ih1 ih2 => intro s; rw [ih1, ih2]

end Noir.Leader

namespace Noir.StateLock

theorem runOps_gen (ops : List Op) : ∀ (l l' : Lock), runOps l ops = some l' →
    l'.gen / 2 = l.gen / 2 + unlocks ops := by
  induction ops with
  | nil => intro l l' h; simp [runOps] at h; subst h; simp [unlocks]
  | cons op ops ih =>
    intro l l' h
    cases op with
    | lock =>
      simp only [runOps] at h
      have := ih _ _ h
      simp only [unlocks]
      rw [this]
      unfold Lock.lock
      split
      · rename_i h2; simp at h2; simp; omega
      · rfl
    | unlock =>
      simp only [runOps] at h
      cases hu : l.unlock with
      | none => simp [hu] at h
      | some l1 =>
        simp only [hu] at h
        have := ih _ _ h
        simp only [unlocks]
        rw [this]
        unfold Lock.unlock at hu
        split at hu
        · rename_i h2
          simp at h2 hu
          subst hu
          show (l.gen + 1) / 2 + unlocks ops = l.gen / 2 + (unlocks ops + 1)
          omega
        · simp at hu

end Noir.StateLock

/-! ## LoopProto: the invariant -/
namespace Noir.LoopProto

variable {Host Head Body End : Type} [DecidableEq Host] [DecidableEq Head] [DecidableEq Body] [DecidableEq End]

@[simp] theorem upd_same {α β : Type} [DecidableEq α] (f : α → β) (a : α) (v : β) : upd f a v a = v := by
  simp [upd]

theorem upd_other {α β : Type} [DecidableEq α] (f : α → β) (a x : α) (v : β) (h : x ≠ a) :
    upd f a v x = f x := by
  simp [upd, h]

/-- sum of a function over the enumeration of the end replicas -/
def total (l : List End) (f : End → Nat) : Nat := (l.map f).sum

theorem total_cons (x : End) (xs : List End) (f : End → Nat) : total (x :: xs) f = f x + total xs f := by
  simp [total]

theorem total_upd_notin (l : List End) (f : End → Nat) (e : End) (v : Nat) (h : e ∉ l) :
    total l (upd f e v) = total l f := by
  induction l with
  | nil => rfl
  | cons x xs ih =>
    have hx : x ≠ e := fun hh => h (by simp [hh])
    have hxs : e ∉ xs := fun hh => h (by simp [hh])
    rw [total_cons, total_cons, upd_other f e x v hx, ih hxs]

theorem total_upd (l : List End) (hnd : l.Nodup) (f : End → Nat) (e : End) (v : Nat) (h : e ∈ l) :
    total l (upd f e v) + f e = total l f + v := by
  induction l with
  | nil => simp at h
  | cons x xs ih =>
    rw [List.nodup_cons] at hnd
    rw [total_cons, total_cons]
    by_cases hx : x = e
    · subst hx
      rw [total_upd_notin xs f x v hnd.1, upd_same]
      omega
    · have hm : e ∈ xs := by
        cases h with
        | head => exact absurd rfl hx
        | tail _ hh => exact hh
      have := ih hnd.2 hm
      rw [upd_other f e x v hx]
      omega

theorem total_congr (l : List End) (f g : End → Nat) (h : ∀ e ∈ l, f e = g e) : total l f = total l g := by
  induction l with
  | nil => rfl
  | cons x xs ih =>
    rw [total_cons, total_cons, h x (by simp), ih (fun e he => h e (by simp [he]))]

theorem total_le_length (l : List End) (f : End → Nat) (h1 : ∀ e ∈ l, f e ≤ 1) : total l f ≤ l.length := by
  induction l with
  | nil => simp [total]
  | cons x xs ih =>
    have := ih (fun e he => h1 e (by simp [he]))
    have hx := h1 x (by simp)
    rw [total_cons, List.length_cons]
    omega

/-- pigeonhole: every summand is at most 1 and the sum is the length, so every summand is 1 -/
theorem all_one_of_total (l : List End) (f : End → Nat) (h1 : ∀ e ∈ l, f e ≤ 1) (hs : total l f = l.length) :
    ∀ e ∈ l, f e = 1 := by
  induction l with
  | nil => intro e he; simp at he
  | cons x xs ih =>
    have hle := total_le_length xs f (fun e he => h1 e (by simp [he]))
    have hx := h1 x (by simp)
    rw [total_cons, List.length_cons] at hs
    have hxs : total xs f = xs.length := by omega
    intro e he
    cases he with
    | head => omega
    | tail _ hh => exact ih (fun e he => h1 e (by simp [he])) hxs e hh

/-- the protocol invariant (DESIGN.md §5 C10: I1–I3 follow from it) -/
structure Inv (L : Layout Host Head Body End) (s : St Host Head Body End) : Prop where
  got_le_sent : ∀ e, s.got e ≤ s.sent e
  sent_le_fars : ∀ e b, s.sent e ≤ s.fars b
  fars_le_round : ∀ b r, s.fars b ≤ s.round r
  round_fb : ∀ r, (s.phase r = .waiting → s.round r = s.fb r + 1) ∧ (s.phase r ≠ .waiting → s.round r = s.fb r)
  fb_le_K : ∀ r, s.fb r ≤ s.K
  K_le_got : ∀ e, s.K ≤ s.got e
  got_le_K1 : ∀ e, s.got e ≤ s.K + 1
  recv_sum : s.received = total L.ends (fun e => s.got e - s.K)
  sidx_fb : ∀ h, s.sidx h = s.fb (L.leaderOf h)
  syncs_a : ∀ h, (s.phase (L.leaderOf h) = .emitting ∨ s.phase (L.leaderOf h) = .waiting) →
    s.syncs h = s.fb (L.leaderOf h)
  syncs_b : ∀ h, (s.phase (L.leaderOf h) = .atBarrier ∨ s.phase (L.leaderOf h) = .released) →
    s.syncs h + 1 = s.fb (L.leaderOf h)
  passed_sync : ∀ b, s.passed b = true → s.fars b ≤ s.syncs (L.hostOfBody b)

theorem inv_init (L : Layout Host Head Body End) : Inv L (init : St Host Head Body End) := by
  refine ⟨?_, ?_, ?_, ?_, ?_, ?_, ?_, ?_, ?_, ?_, ?_, ?_⟩ <;> simp [init]
  · show 0 = total L.ends (fun _ => 0)
    induction L.ends with
    | nil => rfl
    | cons x xs ih => rw [total_cons, ← ih]

theorem not_leader_of_ne (L : Layout Host Head Body End) (r : Head)
    (h : ¬ r = L.leaderOf (L.hostOfHead r)) (h' : Host) : L.leaderOf h' ≠ r := by
  intro e
  apply h
  rw [← e, L.leader_host]


/-- phases other than the new one, for the leader case analysis -/
theorem phase_upd_cases (f : Head → Phase) (r x : Head) (v : Phase) :
    (x = r ∧ upd f r v x = v) ∨ (x ≠ r ∧ upd f r v x = f x) := by
  by_cases h : x = r
  · left; subst h; simp
  · right; exact ⟨h, upd_other f r x v h⟩

theorem inv_step (L : Layout Host Head Body End) (r0 : Head) (b0 : Body)
    {s s' : St Host Head Body End} (inv : Inv L s) (st : Step L s s') : Inv L s' := by
  cases st with
  | headFar r h =>
    have hrf : s.round r = s.fb r := (inv.round_fb r).2 (by rw [h]; decide)
    exact {
      got_le_sent := inv.got_le_sent
      sent_le_fars := inv.sent_le_fars
      fars_le_round := fun b x => by
        show s.fars b ≤ upd s.round r (s.round r + 1) x
        have := inv.fars_le_round b x
        unfold upd; split
        · subst_vars; omega
        · exact this
      round_fb := fun x => by
        show (upd s.phase r .waiting x = .waiting → upd s.round r (s.round r + 1) x = s.fb x + 1) ∧
             (upd s.phase r .waiting x ≠ .waiting → upd s.round r (s.round r + 1) x = s.fb x)
        by_cases hx : x = r
        · subst hx; simp [hrf]
        · rw [upd_other _ _ _ _ hx, upd_other _ _ _ _ hx]; exact inv.round_fb x
      fb_le_K := inv.fb_le_K
      K_le_got := inv.K_le_got
      got_le_K1 := inv.got_le_K1
      recv_sum := inv.recv_sum
      sidx_fb := inv.sidx_fb
      syncs_a := fun h' => by
        show (upd s.phase r .waiting (L.leaderOf h') = .emitting ∨ upd s.phase r .waiting (L.leaderOf h') = .waiting) → _
        intro hp
        rcases phase_upd_cases s.phase r (L.leaderOf h') .waiting with ⟨e, _⟩ | ⟨_, e2⟩
        · exact inv.syncs_a h' (Or.inl (by rw [e]; exact h))
        · rw [e2] at hp; exact inv.syncs_a h' hp
      syncs_b := fun h' => by
        show (upd s.phase r .waiting (L.leaderOf h') = .atBarrier ∨ upd s.phase r .waiting (L.leaderOf h') = .released) → _
        intro hp
        rcases phase_upd_cases s.phase r (L.leaderOf h') .waiting with ⟨_, e2⟩ | ⟨_, e2⟩
        · rw [e2] at hp; rcases hp with hp | hp <;> cases hp
        · rw [e2] at hp; exact inv.syncs_b h' hp
      passed_sync := inv.passed_sync }
  | bodyPass b h1 h2 =>
    exact {
      got_le_sent := inv.got_le_sent
      sent_le_fars := inv.sent_le_fars
      fars_le_round := inv.fars_le_round
      round_fb := inv.round_fb
      fb_le_K := inv.fb_le_K
      K_le_got := inv.K_le_got
      got_le_K1 := inv.got_le_K1
      recv_sum := inv.recv_sum
      sidx_fb := inv.sidx_fb
      syncs_a := inv.syncs_a
      syncs_b := inv.syncs_b
      passed_sync := fun x => by
        show upd s.passed b true x = true → _
        by_cases hx : x = b
        · subst hx; intro _; exact h2
        · rw [upd_other _ _ _ _ hx]; exact inv.passed_sync x }
  | bodyFar b h =>
    exact {
      got_le_sent := inv.got_le_sent
      sent_le_fars := fun e x => by
        show s.sent e ≤ upd s.fars b (s.fars b + 1) x
        have := inv.sent_le_fars e x
        unfold upd; split
        · subst_vars; omega
        · exact this
      fars_le_round := fun x r => by
        show upd s.fars b (s.fars b + 1) x ≤ s.round r
        have := inv.fars_le_round x r
        have := h r
        unfold upd; split
        · omega
        · assumption
      round_fb := inv.round_fb
      fb_le_K := inv.fb_le_K
      K_le_got := inv.K_le_got
      got_le_K1 := inv.got_le_K1
      recv_sum := inv.recv_sum
      sidx_fb := inv.sidx_fb
      syncs_a := inv.syncs_a
      syncs_b := inv.syncs_b
      passed_sync := fun x => by
        show upd s.passed b false x = true → upd s.fars b (s.fars b + 1) x ≤ _
        by_cases hx : x = b
        · subst hx; simp
        · rw [upd_other _ _ _ _ hx, upd_other _ _ _ _ hx]; exact inv.passed_sync x }
  | endSend e h =>
    exact {
      got_le_sent := fun x => by
        show s.got x ≤ upd s.sent e (s.sent e + 1) x
        have := inv.got_le_sent x
        unfold upd; split
        · subst_vars; omega
        · exact this
      sent_le_fars := fun x b => by
        show upd s.sent e (s.sent e + 1) x ≤ s.fars b
        have := inv.sent_le_fars x b
        have := h b
        unfold upd; split
        · omega
        · assumption
      fars_le_round := inv.fars_le_round
      round_fb := inv.round_fb
      fb_le_K := inv.fb_le_K
      K_le_got := inv.K_le_got
      got_le_K1 := inv.got_le_K1
      recv_sum := inv.recv_sum
      sidx_fb := inv.sidx_fb
      syncs_a := inv.syncs_a
      syncs_b := inv.syncs_b
      passed_sync := inv.passed_sync }
  | leaderRecv e h1 h2 =>
    -- got e < sent e ≤ fars b0 ≤ round r0 ≤ fb r0 + 1 ≤ K + 1
    have c1 := inv.sent_le_fars e b0
    have c2 := inv.fars_le_round b0 r0
    have c3 : s.round r0 ≤ s.fb r0 + 1 := by
      by_cases hp : s.phase r0 = .waiting
      · have := (inv.round_fb r0).1 hp; omega
      · have := (inv.round_fb r0).2 hp; omega
    have c4 := inv.fb_le_K r0
    have c5 := inv.K_le_got e
    have hge : s.got e = s.K := by omega
    exact {
      got_le_sent := fun x => by
        show upd s.got e (s.got e + 1) x ≤ s.sent x
        have := inv.got_le_sent x
        unfold upd; split
        · subst_vars; omega
        · exact this
      sent_le_fars := inv.sent_le_fars
      fars_le_round := inv.fars_le_round
      round_fb := inv.round_fb
      fb_le_K := inv.fb_le_K
      K_le_got := fun x => by
        show s.K ≤ upd s.got e (s.got e + 1) x
        have := inv.K_le_got x
        unfold upd; split
        · omega
        · exact this
      got_le_K1 := fun x => by
        show upd s.got e (s.got e + 1) x ≤ s.K + 1
        have := inv.got_le_K1 x
        unfold upd; split
        · omega
        · exact this
      recv_sum := by
        show s.received + 1 = total L.ends (fun x => upd s.got e (s.got e + 1) x - s.K)
        have hfun : (fun x => upd s.got e (s.got e + 1) x - s.K) = upd (fun x => s.got x - s.K) e 1 := by
          funext x
          unfold upd; split
          · omega
          · rfl
        rw [hfun]
        have h3 := total_upd L.ends L.ends_nodup (fun x => s.got x - s.K) e 1 (L.ends_all e)
        have h4 := inv.recv_sum
        omega
      sidx_fb := inv.sidx_fb
      syncs_a := inv.syncs_a
      syncs_b := inv.syncs_b
      passed_sync := inv.passed_sync }
  | leaderBroadcast h =>
    have hall : ∀ e, s.got e = s.K + 1 := by
      intro e
      have h1 : ∀ x ∈ L.ends, (fun e => s.got e - s.K) x ≤ 1 := by
        intro x _; have := inv.got_le_K1 x; simp only; omega
      have := all_one_of_total L.ends (fun e => s.got e - s.K) h1 (by rw [← inv.recv_sum]; exact h) e (L.ends_all e)
      have := inv.K_le_got e
      simp only at *
      omega
    exact {
      got_le_sent := inv.got_le_sent
      sent_le_fars := inv.sent_le_fars
      fars_le_round := inv.fars_le_round
      round_fb := inv.round_fb
      fb_le_K := fun r => by have := inv.fb_le_K r; show s.fb r ≤ s.K + 1; omega
      K_le_got := fun e => by show s.K + 1 ≤ s.got e; rw [hall e]; exact Nat.le_refl _
      got_le_K1 := fun e => by show s.got e ≤ s.K + 1 + 1; rw [hall e]; omega
      recv_sum := by
        show 0 = total L.ends (fun e => s.got e - (s.K + 1))
        rw [total_congr L.ends _ (fun _ => 0) (fun e _ => by rw [hall e]; omega)]
        clear hall h inv
        induction L.ends with
        | nil => rfl
        | cons x xs ih => rw [total_cons, ← ih]
      sidx_fb := inv.sidx_fb
      syncs_a := inv.syncs_a
      syncs_b := inv.syncs_b
      passed_sync := inv.passed_sync }
  | headRecv r h1 h2 =>
    have hrf : s.round r = s.fb r + 1 := (inv.round_fb r).1 h1
    exact {
      got_le_sent := inv.got_le_sent
      sent_le_fars := inv.sent_le_fars
      fars_le_round := inv.fars_le_round
      round_fb := fun x => by
        show (upd s.phase r .atBarrier x = .waiting → s.round x = upd s.fb r (s.fb r + 1) x + 1) ∧
             (upd s.phase r .atBarrier x ≠ .waiting → s.round x = upd s.fb r (s.fb r + 1) x)
        by_cases hx : x = r
        · subst hx; simp [hrf]
        · rw [upd_other _ _ _ _ hx, upd_other _ _ _ _ hx]; exact inv.round_fb x
      fb_le_K := fun x => by
        show upd s.fb r (s.fb r + 1) x ≤ s.K
        have := inv.fb_le_K x
        unfold upd; split
        · omega
        · exact this
      K_le_got := inv.K_le_got
      got_le_K1 := inv.got_le_K1
      recv_sum := inv.recv_sum
      sidx_fb := fun h' => by
        show (if r = L.leaderOf (L.hostOfHead r) then upd s.sidx (L.hostOfHead r) (s.fb r + 1) else s.sidx) h'
          = upd s.fb r (s.fb r + 1) (L.leaderOf h')
        by_cases hl : r = L.leaderOf (L.hostOfHead r)
        · rw [if_pos hl]
          by_cases hh : h' = L.hostOfHead r
          · subst hh; rw [← hl]; simp
          · have : L.leaderOf h' ≠ r := by
              intro e; apply hh; rw [← e, L.leader_host]
            rw [upd_other _ _ _ _ hh, upd_other _ _ _ _ this]; exact inv.sidx_fb h'
        · rw [if_neg hl, upd_other _ _ _ _ (not_leader_of_ne L r hl h')]; exact inv.sidx_fb h'
      syncs_a := fun h' => by
        show (upd s.phase r .atBarrier (L.leaderOf h') = .emitting ∨ upd s.phase r .atBarrier (L.leaderOf h') = .waiting) →
          s.syncs h' = upd s.fb r (s.fb r + 1) (L.leaderOf h')
        intro hp
        rcases phase_upd_cases s.phase r (L.leaderOf h') .atBarrier with ⟨_, e2⟩ | ⟨e1, e2⟩
        · rw [e2] at hp; rcases hp with hp | hp <;> cases hp
        · rw [e2] at hp; rw [upd_other _ _ _ _ e1]; exact inv.syncs_a h' hp
      syncs_b := fun h' => by
        show (upd s.phase r .atBarrier (L.leaderOf h') = .atBarrier ∨ upd s.phase r .atBarrier (L.leaderOf h') = .released) →
          s.syncs h' + 1 = upd s.fb r (s.fb r + 1) (L.leaderOf h')
        intro hp
        rcases phase_upd_cases s.phase r (L.leaderOf h') .atBarrier with ⟨e1, _⟩ | ⟨e1, e2⟩
        · rw [e1, upd_same]
          have := inv.syncs_a h' (Or.inr (by rw [e1]; exact h1))
          rw [e1] at this; omega
        · rw [e2] at hp; rw [upd_other _ _ _ _ e1]; exact inv.syncs_b h' hp
      passed_sync := inv.passed_sync }
  | barrier h hall =>
    have hph : ∀ x, ((if L.hostOfHead x = h then Phase.released else s.phase x) = .waiting ↔ s.phase x = .waiting) := by
      intro x
      by_cases hx : L.hostOfHead x = h
      · rw [if_pos hx, hall x hx]; constructor <;> intro hh <;> cases hh
      · rw [if_neg hx]
    exact {
      got_le_sent := inv.got_le_sent
      sent_le_fars := inv.sent_le_fars
      fars_le_round := inv.fars_le_round
      round_fb := fun x => by
        show ((if L.hostOfHead x = h then Phase.released else s.phase x) = .waiting → _) ∧
             ((if L.hostOfHead x = h then Phase.released else s.phase x) ≠ .waiting → _)
        have := inv.round_fb x
        constructor
        · intro hw; exact this.1 ((hph x).1 hw)
        · intro hw; exact this.2 (fun h2 => hw ((hph x).2 h2))
      fb_le_K := inv.fb_le_K
      K_le_got := inv.K_le_got
      got_le_K1 := inv.got_le_K1
      recv_sum := inv.recv_sum
      sidx_fb := inv.sidx_fb
      syncs_a := fun h' => by
        show ((if L.hostOfHead (L.leaderOf h') = h then Phase.released else s.phase (L.leaderOf h')) = .emitting ∨
              (if L.hostOfHead (L.leaderOf h') = h then Phase.released else s.phase (L.leaderOf h')) = .waiting) → _
        intro hp
        by_cases hx : L.hostOfHead (L.leaderOf h') = h
        · rw [if_pos hx] at hp; rcases hp with hp | hp <;> cases hp
        · rw [if_neg hx] at hp; exact inv.syncs_a h' hp
      syncs_b := fun h' => by
        show ((if L.hostOfHead (L.leaderOf h') = h then Phase.released else s.phase (L.leaderOf h')) = .atBarrier ∨
              (if L.hostOfHead (L.leaderOf h') = h then Phase.released else s.phase (L.leaderOf h')) = .released) → _
        intro hp
        by_cases hx : L.hostOfHead (L.leaderOf h') = h
        · exact inv.syncs_b h' (Or.inl (hall _ hx))
        · rw [if_neg hx] at hp; exact inv.syncs_b h' hp
      passed_sync := inv.passed_sync }
  | resume r h =>
    have hrf : s.round r = s.fb r := (inv.round_fb r).2 (by rw [h]; decide)
    have hsync_mono : ∀ h', s.syncs h' ≤
        (if r = L.leaderOf (L.hostOfHead r) then upd s.syncs (L.hostOfHead r) (s.syncs (L.hostOfHead r) + 1) else s.syncs) h' := by
      intro h'
      split
      · unfold upd; split
        · subst_vars; omega
        · exact Nat.le_refl _
      · exact Nat.le_refl _
    exact {
      got_le_sent := inv.got_le_sent
      sent_le_fars := inv.sent_le_fars
      fars_le_round := inv.fars_le_round
      round_fb := fun x => by
        show (upd s.phase r .emitting x = .waiting → _) ∧ (upd s.phase r .emitting x ≠ .waiting → _)
        by_cases hx : x = r
        · subst hx; simp [hrf]
        · rw [upd_other _ _ _ _ hx]; exact inv.round_fb x
      fb_le_K := inv.fb_le_K
      K_le_got := inv.K_le_got
      got_le_K1 := inv.got_le_K1
      recv_sum := inv.recv_sum
      sidx_fb := inv.sidx_fb
      syncs_a := fun h' => by
        show (upd s.phase r .emitting (L.leaderOf h') = .emitting ∨ upd s.phase r .emitting (L.leaderOf h') = .waiting) →
          (if r = L.leaderOf (L.hostOfHead r) then upd s.syncs (L.hostOfHead r) (s.syncs (L.hostOfHead r) + 1) else s.syncs) h'
            = s.fb (L.leaderOf h')
        intro hp
        rcases phase_upd_cases s.phase r (L.leaderOf h') .emitting with ⟨e1, _⟩ | ⟨e1, e2⟩
        · -- the local leader of h' resumes: unlock
          have hh : L.hostOfHead r = h' := by rw [← e1, L.leader_host]
          have hl : r = L.leaderOf (L.hostOfHead r) := by rw [hh, e1]
          rw [if_pos hl, hh, upd_same]
          have := inv.syncs_b h' (Or.inr (by rw [e1]; exact h))
          exact this
        · rw [e2] at hp
          have hne : ¬ (r = L.leaderOf (L.hostOfHead r) ∧ L.hostOfHead r = h') := by
            intro ⟨a, b⟩; apply e1; rw [← b, ← a]
          by_cases hl : r = L.leaderOf (L.hostOfHead r)
          · rw [if_pos hl, upd_other _ _ _ _ (fun e => hne ⟨hl, e.symm⟩)]; exact inv.syncs_a h' hp
          · rw [if_neg hl]; exact inv.syncs_a h' hp
      syncs_b := fun h' => by
        show (upd s.phase r .emitting (L.leaderOf h') = .atBarrier ∨ upd s.phase r .emitting (L.leaderOf h') = .released) →
          (if r = L.leaderOf (L.hostOfHead r) then upd s.syncs (L.hostOfHead r) (s.syncs (L.hostOfHead r) + 1) else s.syncs) h' + 1
            = s.fb (L.leaderOf h')
        intro hp
        rcases phase_upd_cases s.phase r (L.leaderOf h') .emitting with ⟨_, e2⟩ | ⟨e1, e2⟩
        · rw [e2] at hp; rcases hp with hp | hp <;> cases hp
        · rw [e2] at hp
          have hne : ¬ (r = L.leaderOf (L.hostOfHead r) ∧ L.hostOfHead r = h') := by
            intro ⟨a, b⟩; apply e1; rw [← b, ← a]
          by_cases hl : r = L.leaderOf (L.hostOfHead r)
          · rw [if_pos hl, upd_other _ _ _ _ (fun e => hne ⟨hl, e.symm⟩)]; exact inv.syncs_b h' hp
          · rw [if_neg hl]; exact inv.syncs_b h' hp
      passed_sync := fun b hb => Nat.le_trans (inv.passed_sync b hb) (hsync_mono _) }

/-- the host barrier keeps the heads of a host in step (`bar h` = openings of host `h`'s barrier) -/
structure BarInv (L : Layout Host Head Body End) (s : St Host Head Body End) : Prop where
  bar_a : ∀ r, s.phase r ≠ .atBarrier → s.fb r = s.bar (L.hostOfHead r)
  bar_b : ∀ r, s.phase r = .atBarrier → s.fb r = s.bar (L.hostOfHead r) + 1

theorem barInv_step (L : Layout Host Head Body End) {s s' : St Host Head Body End}
    (inv : BarInv L s) (st : Step L s s') : BarInv L s' := by
  cases st with
  | headFar r h =>
    exact {
      bar_a := fun x => by
        show upd s.phase r .waiting x ≠ .atBarrier → _
        rcases phase_upd_cases s.phase r x .waiting with ⟨e1, _⟩ | ⟨_, e2⟩
        · intro _; subst e1; exact inv.bar_a _ (by rw [h]; decide)
        · rw [e2]; exact inv.bar_a x
      bar_b := fun x => by
        show upd s.phase r .waiting x = .atBarrier → _
        rcases phase_upd_cases s.phase r x .waiting with ⟨_, e2⟩ | ⟨_, e2⟩
        · rw [e2]; intro hh; cases hh
        · rw [e2]; exact inv.bar_b x }
  | bodyPass b h1 h2 => exact ⟨inv.bar_a, inv.bar_b⟩
  | bodyFar b h => exact ⟨inv.bar_a, inv.bar_b⟩
  | endSend e h => exact ⟨inv.bar_a, inv.bar_b⟩
  | leaderRecv e h1 h2 => exact ⟨inv.bar_a, inv.bar_b⟩
  | leaderBroadcast h => exact ⟨inv.bar_a, inv.bar_b⟩
  | headRecv r h1 h2 =>
    exact {
      bar_a := fun x => by
        show upd s.phase r .atBarrier x ≠ .atBarrier → upd s.fb r (s.fb r + 1) x = _
        rcases phase_upd_cases s.phase r x .atBarrier with ⟨_, e2⟩ | ⟨e1, e2⟩
        · rw [e2]; intro hh; exact absurd rfl hh
        · rw [e2, upd_other _ _ _ _ e1]; exact inv.bar_a x
      bar_b := fun x => by
        show upd s.phase r .atBarrier x = .atBarrier → upd s.fb r (s.fb r + 1) x = _
        rcases phase_upd_cases s.phase r x .atBarrier with ⟨e1, _⟩ | ⟨e1, e2⟩
        · intro _; subst e1; rw [upd_same]
          have := inv.bar_a x (by rw [h1]; decide)
          show s.fb x + 1 = s.bar (L.hostOfHead x) + 1
          omega
        · rw [e2, upd_other _ _ _ _ e1]; exact inv.bar_b x }
  | barrier h hall =>
    exact {
      bar_a := fun x => by
        show (if L.hostOfHead x = h then Phase.released else s.phase x) ≠ .atBarrier →
          s.fb x = upd s.bar h (s.bar h + 1) (L.hostOfHead x)
        by_cases hx : L.hostOfHead x = h
        · intro _; rw [hx, upd_same]
          have := inv.bar_b x (hall x hx)
          rw [hx] at this; exact this
        · rw [if_neg hx, upd_other _ _ _ _ hx]; exact inv.bar_a x
      bar_b := fun x => by
        show (if L.hostOfHead x = h then Phase.released else s.phase x) = .atBarrier →
          s.fb x = upd s.bar h (s.bar h + 1) (L.hostOfHead x) + 1
        by_cases hx : L.hostOfHead x = h
        · rw [if_pos hx]; intro hh; cases hh
        · rw [if_neg hx, upd_other _ _ _ _ hx]; exact inv.bar_b x }
  | resume r h =>
    exact {
      bar_a := fun x => by
        show upd s.phase r .emitting x ≠ .atBarrier → _
        rcases phase_upd_cases s.phase r x .emitting with ⟨e1, _⟩ | ⟨_, e2⟩
        · intro _; subst e1; exact inv.bar_a _ (by rw [h]; decide)
        · rw [e2]; exact inv.bar_a x
      bar_b := fun x => by
        show upd s.phase r .emitting x = .atBarrier → _
        rcases phase_upd_cases s.phase r x .emitting with ⟨_, e2⟩ | ⟨_, e2⟩
        · rw [e2]; intro hh; cases hh
        · rw [e2]; exact inv.bar_b x }

theorem barInv_reachable (L : Layout Host Head Body End) {s : St Host Head Body End}
    (h : Reachable L s) : BarInv L s := by
  induction h with
  | init => exact ⟨fun _ _ => rfl, fun r hh => by cases hh⟩
  | step _ st ih => exact barInv_step L ih st

theorem inv_reachable (L : Layout Host Head Body End) (r0 : Head) (b0 : Body)
    {s : St Host Head Body End} (h : Reachable L s) : Inv L s := by
  induction h with
  | init => exact inv_init L
  | step _ st ih => exact inv_step L r0 b0 ih st

end Noir.LoopProto

namespace Noir.SeqLoop

variable {σ δ α : Type}

theorem rounds_ne_nil (l : Loop σ δ α) (feed : Bool) (split : List α → List (List α))
    (rem : Nat) (S : σ) (inp : List α) : rounds l feed split rem S inp ≠ [] := by
  cases rem with
  | zero => simp [rounds]
  | succ r =>
    rw [rounds]
    split <;> simp

/-- the elements returned by `next()` among the leader's actions -/
def returned (o : List (Leader.Out σ)) : List (Elem σ) :=
  o.filterMap fun | .elem e => some e | _ => none

theorem expectOuts_returned (init : σ) (d : σ × List α) : ∀ (rs : List (σ × List α)), rs ≠ [] →
    returned (expectOuts init rs) = [.item (lastD rs d).1, .far]
  | [], h => absurd rfl h
  | [(S, o)], _ => by simp [expectOuts, returned, lastD]
  | (S, o) :: r2 :: rest, _ => by
    have := expectOuts_returned init d (r2 :: rest) (by simp)
    simp only [expectOuts, returned, List.filterMap_cons, lastD] at this ⊢
    exact this

end Noir.SeqLoop
