/-
  Lemmas/Loop.lean — helper lemmas for C10 (leader transducer, generation lock, folds).
-/
import NoirVerif.Model.Leader
import NoirVerif.Model.StateLock
import NoirVerif.Model.SeqLoop
namespace Noir.Leader

variable {σ δ : Type}

theorem run_append (c : Cfg σ δ) (st : St σ) (xs ys : List (Elem δ)) :
    run c st (xs ++ ys) =
      ((run c (run c st xs).1 ys).1, (run c st xs).2 ++ (run c (run c st xs).1 ys).2) := by
  induction xs generalizing st with
  | nil => simp [run]
  | cons x xs ih =>
    simp only [List.cons_append, run]
    rw [ih]
    simp [List.append_assoc]

theorem runDeltas_append (c : Cfg σ δ) (st : St σ) (xs ys : List δ) :
    runDeltas c st (xs ++ ys) =
      ((runDeltas c (runDeltas c st xs).1 ys).1,
       (runDeltas c st xs).2 ++ (runDeltas c (runDeltas c st xs).1 ys).2) := by
  simp [runDeltas, run_append]

/-- fewer deltas than the round still misses: nothing is emitted, they are folded into the state -/
theorem run_within_round (c : Cfg σ δ) (ds : List δ) :
    ∀ (st : St σ), st.done = false → ds.length < st.missing →
      runDeltas c st ds =
        ({ st with state := ds.foldl c.global st.state, missing := st.missing - ds.length }, []) := by
  induction ds with
  | nil => intro st _ _; simp [runDeltas, run]
  | cons d ds ih =>
    intro st hd hl
    simp only [List.length_cons] at hl
    have hm : ¬ st.missing ≤ 1 := by omega
    have ih' := ih { st with state := c.global st.state d, missing := st.missing - 1 } hd (by simp; omega)
    simp only [runDeltas, hd] at ih'
    simp only [runDeltas, List.map_cons, run, step, hd, onDelta, hm, if_false, List.foldl_cons,
      List.length_cons, Bool.false_eq_true]
    rw [ih']
    simp only [List.nil_append]
    congr 2
    omega

/-- the last delta of a round -/
theorem run_last (c : Cfg σ δ) (st : St σ) (d : δ) (hd : st.done = false) (hm : st.missing = 1) :
    runDeltas c st [d] = endRound c st (c.global st.state d) := by
  simp [runDeltas, run, step, hd, onDelta, hm]

/-- a right-commutative fold does not depend on the order -/
theorem foldl_perm {α β : Type} (g : β → α → β) (hg : ∀ s a b, g (g s a) b = g (g s b) a)
    {xs ys : List α} (h : xs.Perm ys) : ∀ s, xs.foldl g s = ys.foldl g s := by
  induction h with
  | nil => intro s; rfl
  | cons x _ ih => intro s; simp [ih]
  | swap x y l => intro s; simp [hg]
  | trans _ _ ih1 ih2 => intro s; rw [ih1, ih2]

end Noir.Leader

namespace Noir.StateLock

theorem runOps_gen (ops : List Op) : ∀ (l l' : Lock), runOps l ops = some l' →
    l'.gen / 2 = l.gen / 2 + unlocks ops := by
  induction ops with
  | nil => intro l l' h; simp [runOps] at h; subst h; simp [unlocks]
  | cons op ops ih =>
    intro l l' h
    cases op with
    | lock =>
      simp only [runOps] at h
      have := ih _ _ h
      simp only [unlocks]
      rw [this]
      unfold Lock.lock
      split
      · rename_i h2; simp at h2; simp; omega
      · rfl
    | unlock =>
      simp only [runOps] at h
      cases hu : l.unlock with
      | none => simp [hu] at h
      | some l1 =>
        simp only [hu] at h
        have := ih _ _ h
        simp only [unlocks]
        rw [this]
        unfold Lock.unlock at hu
        split at hu
        · rename_i h2
          simp at h2 hu
          subst hu
          show (l.gen + 1) / 2 + unlocks ops = l.gen / 2 + (unlocks ops + 1)
          omega
        · simp at hu

end Noir.StateLock
