/-
  Lemmas/Loop.lean — helper lemmas for C10 (leader transducer, generation lock, folds).
-/
import NoirVerif.Model.Leader
import NoirVerif.Model.StateLock
import NoirVerif.Model.SeqLoop
namespace Noir.Leader

variable {σ δ : Type}

theorem run_append (c : Cfg σ δ) (st : St σ) (xs ys : List (Elem δ)) :
    run c st (xs ++ ys) =
      ((run c (run c st xs).1 ys).1, (run c st xs).2 ++ (run c (run c st xs).1 ys).2) := by
  induction xs generalizing st with
  | nil => simp [run]
  | cons x xs ih =>
    simp only [List.cons_append, run]
    rw [ih]
    simp [List.append_assoc]

theorem runDeltas_append (c : Cfg σ δ) (st : St σ) (xs ys : List δ) :
    runDeltas c st (xs ++ ys) =
      ((runDeltas c (runDeltas c st xs).1 ys).1,
       (runDeltas c st xs).2 ++ (runDeltas c (runDeltas c st xs).1 ys).2) := by
  simp [runDeltas, run_append]

/-- fewer deltas than the round still misses: nothing is emitted, they are folded into the state -/
theorem run_within_round (c : Cfg σ δ) (ds : List δ) :
    ∀ (st : St σ), st.done = false → ds.length < st.missing →
      runDeltas c st ds =
        ({ st with state := ds.foldl c.global st.state, missing := st.missing - ds.length }, []) := by
  induction ds with
  | nil => intro st _ _; simp [runDeltas, run]
  | cons d ds ih =>
    intro st hd hl
    simp only [List.length_cons] at hl
    have hm : ¬ st.missing ≤ 1 := by omega
    have ih' := ih { st with state := c.global st.state d, missing := st.missing - 1 } hd (by simp; omega)
    simp only [runDeltas, hd] at ih'
    simp only [runDeltas, List.map_cons, run, step, hd, onDelta, hm, if_false, List.foldl_cons,
      List.length_cons, Bool.false_eq_true]
    rw [ih']
    simp only [List.nil_append]
    congr 2
    omega

/-- the last delta of a round -/
theorem run_last (c : Cfg σ δ) (st : St σ) (d : δ) (hd : st.done = false) (hm : st.missing = 1) :
    runDeltas c st [d] = endRound c st (c.global st.state d) := by
  simp [runDeltas, run, step, hd, onDelta, hm]

/-- a right-commutative fold does not depend on the order -/
theorem foldl_perm {α β : Type} (g : β → α → β) (hg : ∀ s a b, g (g s a) b = g (g s b) a)
    {xs ys : List α} (h : xs.Perm ys) : ∀ s, xs.foldl g s = ys.foldl g s := by
  induction h with
  | nil => intro s; rfl
  | cons x _ ih => intro s; simp [ih]
  | swap x y l => intro s; simp [hg]
  | trans _ _ ih1 ih2 => intro s; rw [ih1, ih2]

end Noir.Leader

namespace Noir.StateLock

theorem runOps_gen (ops : List Op) : ∀ (l l' : Lock), runOps l ops = some l' →
    l'.gen / 2 = l.gen / 2 + unlocks ops := by
  induction ops with
  | nil => intro l l' h; simp [runOps] at h; subst h; simp [unlocks]
  | cons op ops ih =>
    intro l l' h
    cases op with
    | lock =>
      simp only [runOps] at h
      have := ih _ _ h
      simp only [unlocks]
      rw [this]
      unfold Lock.lock
      split
      · rename_i h2; simp at h2; simp; omega
      · rfl
    | unlock =>
      simp only [runOps] at h
      cases hu : l.unlock with
      | none => simp [hu] at h
      | some l1 =>
        simp only [hu] at h
        have := ih _ _ h
        simp only [unlocks]
        rw [this]
        unfold Lock.unlock at hu
        split at hu
        · rename_i h2
          simp at h2 hu
          subst hu
          show (l.gen + 1) / 2 + unlocks ops = l.gen / 2 + (unlocks ops + 1)
          omega
        · simp at hu

end Noir.StateLock

/-! ## LoopProto: the invariant -/
namespace Noir.LoopProto

variable {Host Head Body End : Type} [DecidableEq Host] [DecidableEq Head] [DecidableEq Body] [DecidableEq End]

@[simp] theorem upd_same {α β : Type} [DecidableEq α] (f : α → β) (a : α) (v : β) : upd f a v a = v := by
  simp [upd]

theorem upd_other {α β : Type} [DecidableEq α] (f : α → β) (a x : α) (v : β) (h : x ≠ a) :
    upd f a v x = f x := by
  simp [upd, h]

/-- sum of a function over the enumeration of the end replicas -/
def total (l : List End) (f : End → Nat) : Nat := (l.map f).sum

theorem total_upd_notin (l : List End) (f : End → Nat) (e : End) (v : Nat) (h : e ∉ l) :
    total l (upd f e v) = total l f := by
  induction l with
  | nil => rfl
  | cons x xs ih =>
    have hx : x ≠ e := fun hh => h (by simp [hh])
    have hxs : e ∉ xs := fun hh => h (by simp [hh])
    simp only [total, List.map_cons, List.sum_cons] at ih ⊢
    rw [upd_other f e x v hx]
    have := ih hxs
    simp only [total] at this
    omega

theorem total_upd (l : List End) (hnd : l.Nodup) (f : End → Nat) (e : End) (v : Nat) (h : e ∈ l) :
    total l (upd f e v) + f e = total l f + v := by
  induction l with
  | nil => simp at h
  | cons x xs ih =>
    rw [List.nodup_cons] at hnd
    by_cases hx : x = e
    · subst hx
      have := total_upd_notin xs f x v hnd.1
      simp only [total, List.map_cons, List.sum_cons, upd_same] at this ⊢
      omega
    · have hm : e ∈ xs := by
        cases h with
        | head => exact absurd rfl hx
        | tail _ hh => exact hh
      have := ih hnd.2 hm
      simp only [total, List.map_cons, List.sum_cons] at this ⊢
      rw [upd_other f e x v hx]
      omega

theorem total_congr (l : List End) (f g : End → Nat) (h : ∀ e ∈ l, f e = g e) : total l f = total l g := by
  induction l with
  | nil => rfl
  | cons x xs ih =>
    simp only [total, List.map_cons, List.sum_cons]
    have := ih (fun e he => h e (by simp [he]))
    simp only [total] at this
    rw [h x (by simp), this]

/-- pigeonhole: every summand is at most 1 and the sum is the length, so every summand is 1 -/
theorem all_one_of_total (l : List End) (f : End → Nat) (h1 : ∀ e ∈ l, f e ≤ 1) (hs : total l f = l.length) :
    ∀ e ∈ l, f e = 1 := by
  induction l with
  | nil => intro e he; simp at he
  | cons x xs ih =>
    have hle : total xs f ≤ xs.length := by
      clear ih hs
      induction xs with
      | nil => simp [total]
      | cons y ys ih2 =>
        have := ih2 (fun e he => h1 e (by
          cases he with
          | head => simp
          | tail _ hh => simp [hh]))
        have hy := h1 y (by simp)
        simp only [total, List.map_cons, List.sum_cons, List.length_cons] at this ⊢
        omega
    have hx := h1 x (by simp)
    simp only [total, List.map_cons, List.sum_cons, List.length_cons] at hs hle
    have hxs : total xs f = xs.length := by simp only [total]; omega
    intro e he
    cases he with
    | head => omega
    | tail _ hh => exact ih (fun e he => h1 e (by simp [he])) hxs e hh

/-- the protocol invariant (DESIGN.md §5 C10: I1–I3 follow from it) -/
structure Inv (L : Layout Host Head Body End) (s : St Host Head Body End) : Prop where
  got_le_sent : ∀ e, s.got e ≤ s.sent e
  sent_le_fars : ∀ e b, s.sent e ≤ s.fars b
  fars_le_round : ∀ b r, s.fars b ≤ s.round r
  round_fb : ∀ r, (s.phase r = .waiting → s.round r = s.fb r + 1) ∧ (s.phase r ≠ .waiting → s.round r = s.fb r)
  fb_le_K : ∀ r, s.fb r ≤ s.K
  K_le_got : ∀ e, s.K ≤ s.got e
  got_le_K1 : ∀ e, s.got e ≤ s.K + 1
  recv_sum : s.received = total L.ends (fun e => s.got e - s.K)
  sidx_fb : ∀ h, s.sidx h = s.fb (L.leaderOf h)
  syncs_a : ∀ h, (s.phase (L.leaderOf h) = .emitting ∨ s.phase (L.leaderOf h) = .waiting) →
    s.syncs h = s.fb (L.leaderOf h)
  syncs_b : ∀ h, (s.phase (L.leaderOf h) = .atBarrier ∨ s.phase (L.leaderOf h) = .released) →
    s.syncs h + 1 = s.fb (L.leaderOf h)
  passed_sync : ∀ b, s.passed b = true → s.fars b ≤ s.syncs (L.hostOfBody b)

theorem inv_init (L : Layout Host Head Body End) : Inv L (init : St Host Head Body End) := by
  refine ⟨?_, ?_, ?_, ?_, ?_, ?_, ?_, ?_, ?_, ?_, ?_, ?_⟩ <;> simp [init]
  · show 0 = total L.ends (fun _ => 0)
    induction L.ends with
    | nil => rfl
    | cons x xs ih => simp only [total, List.map_cons, List.sum_cons] at ih ⊢; omega

theorem not_leader_of_ne (L : Layout Host Head Body End) (r : Head)
    (h : ¬ r = L.leaderOf (L.hostOfHead r)) (h' : Host) : L.leaderOf h' ≠ r := by
  intro e
  apply h
  rw [← e, L.leader_host]

end Noir.LoopProto
