/-
  Lemmas/SortMergeJoin.lean — `JoinLocalSortMerge`: (A) on every interleaving nothing is emitted until the
  second end marker, at which point the whole output is `merge` of the two sorted vectors; (B) `merge`
  of two vectors sorted by key is the relational join (DESIGN.md §5.21, sort-merge bullet).
-/
import NoirVerif.Model.SortMergeJoin
import NoirVerif.Lemmas.KeyedJoin
import NoirVerif.Lemmas.JoinShip
namespace Noir.Join.SortMerge
open Noir.Join.HashJoin (remL remR)
open Noir.Join.KeyedJoin (strip)

variable {α β γ : Type}

/-- sorted by key, descending (the reversed vectors) -/
def Desc (l : List (Int × γ)) : Prop := l.Pairwise fun a b => b.1 ≤ a.1

/-- sorted by key, ascending -/
def Asc (l : List (Int × γ)) : Prop := l.Pairwise fun a b => a.1 ≤ b.1

/-! ### the sort -/

theorem insertByKey_perm (x : Int × γ) (l : List (Int × γ)) : (insertByKey x l).Perm (x :: l) := by
  induction l with
  | nil => exact List.Perm.refl _
  | cons y ys ih =>
    unfold insertByKey
    split
    · exact List.Perm.refl _
    · exact (List.Perm.cons y ih).trans (List.Perm.swap x y ys)

theorem insertByKey_asc (x : Int × γ) (l : List (Int × γ)) (h : Asc l) : Asc (insertByKey x l) := by
  induction l with
  | nil => simp [insertByKey, Asc]
  | cons y ys ih =>
    unfold insertByKey
    have hy := List.pairwise_cons.mp h
    split
    · next hlt =>
      refine List.pairwise_cons.mpr ⟨?_, h⟩
      intro z hz
      rcases List.mem_cons.mp hz with rfl | hz
      · omega
      · have := hy.1 z hz; omega
    · next hge =>
      refine List.pairwise_cons.mpr ⟨?_, ih hy.2⟩
      intro z hz
      have hz' := (insertByKey_perm x ys).mem_iff.mp hz
      rcases List.mem_cons.mp hz' with rfl | hz'
      · omega
      · exact hy.1 z hz'

theorem foldl_insert_perm (l acc : List (Int × γ)) :
    (l.foldl (fun acc x => insertByKey x acc) acc).Perm (l ++ acc) := by
  induction l generalizing acc with
  | nil => simp
  | cons x xs ih =>
    simp only [List.foldl_cons]
    refine (ih _).trans ?_
    refine (List.Perm.append_left xs (insertByKey_perm x acc)).trans ?_
    simpa using (List.perm_middle (l₁ := xs) (l₂ := acc) (a := x))

theorem foldl_insert_asc (l acc : List (Int × γ)) (h : Asc acc) :
    Asc (l.foldl (fun acc x => insertByKey x acc) acc) := by
  induction l generalizing acc with
  | nil => simpa using h
  | cons x xs ih => exact ih _ (insertByKey_asc x acc h)

theorem sortByKey_perm (l : List (Int × γ)) : (sortByKey l).Perm l := by
  simpa [sortByKey] using foldl_insert_perm l []

theorem sortByKey_desc_reverse (l : List (Int × γ)) : Desc (sortByKey l).reverse := by
  have : Asc (sortByKey l) := foldl_insert_asc l [] (by simp [Asc])
  simpa [Desc, Asc, List.pairwise_reverse] using this

/-! ### facts about a descending list split at a key -/

theorem desc_dropWhile_le (lk : Int) (rs : List (Int × γ)) (h : Desc rs) :
    ∀ r ∈ rs.dropWhile (fun r => decide (r.1 > lk)), r.1 ≤ lk := by
  induction rs with
  | nil => simp
  | cons r rs ih =>
    have hr := List.pairwise_cons.mp h
    by_cases hgt : r.1 > lk
    · simpa [List.dropWhile_cons, hgt] using ih hr.2
    · intro z hz
      simp only [List.dropWhile_cons, hgt, decide_false, Bool.false_eq_true, if_false] at hz
      rcases List.mem_cons.mp hz with rfl | hz
      · omega
      · have := hr.1 z hz; omega

theorem desc_dropWhile (lk : Int) (rs : List (Int × γ)) (h : Desc rs) :
    Desc (rs.dropWhile fun r => decide (r.1 > lk)) :=
  List.Pairwise.sublist (List.dropWhile_sublist _) h

theorem takeWhile_gt (lk : Int) (rs : List (Int × γ)) :
    ∀ r ∈ rs.takeWhile (fun r => decide (r.1 > lk)), r.1 > lk := by
  induction rs with
  | nil => simp
  | cons z zs ih =>
    intro r hr
    by_cases hz : z.1 > lk
    · simp only [List.takeWhile_cons, hz, decide_true, if_true] at hr
      rcases List.mem_cons.mp hr with rfl | hr
      · exact hz
      · exact ih r hr
    · simp [List.takeWhile_cons, hz] at hr

theorem desc_takeWhile_eq_filter (lk : Int) (rs : List (Int × γ)) (h : Desc rs)
    (hle : ∀ r ∈ rs, r.1 ≤ lk) :
    rs.takeWhile (fun r => decide (r.1 = lk)) = rs.filter fun r => decide (r.1 = lk) := by
  induction rs with
  | nil => rfl
  | cons r rs ih =>
    have hr := List.pairwise_cons.mp h
    by_cases he : r.1 = lk
    · simp only [List.takeWhile_cons, List.filter_cons, he, decide_true, if_true]
      rw [ih hr.2 fun z hz => hle z (by simp [hz])]
    · have hlt : r.1 < lk := by have := hle r (by simp); omega
      have : (rs.filter fun r => decide (r.1 = lk)) = [] := by
        apply List.filter_eq_nil_iff.mpr
        intro z hz
        have := hr.1 z hz
        simp; omega
      simp [List.takeWhile_cons, List.filter_cons, he, this]

/-! ### (B) `merge` of sorted vectors is the relational join -/

/-- the join of two *keyed* vectors, keys stripped from the values, where right elements whose key
    equals `last` count as already matched -/
def spec (lo ro : Bool) (ls : List (Int × α)) (rs : List (Int × β)) (last : Option Int) :
    List (Out Int α β) :=
  (pairs Prod.fst Prod.fst ls rs
    ++ (if lo then unmatchedL Prod.fst Prod.fst ls rs else [])
    ++ (if ro then unmatchedR Prod.fst Prod.fst ls (rs.filter fun r => decide (last ≠ some r.1)) else [])).map strip

theorem flatMap_discard_eq (ro : Bool) (last : Option Int) (rs : List (Int × β)) :
    rs.flatMap (discardRight (α := α) ro last)
      = if ro then ((rs.filter fun r => decide (last ≠ some r.1)).map fun r => (r.1, none, some r.2)) else [] := by
  induction rs with
  | nil => cases ro <;> simp
  | cons r rs ih =>
    simp only [List.flatMap_cons, ih]
    by_cases h : last = some r.1 <;> cases ro <;> simp [discardRight, h, List.filter_cons]

/-- right elements that cannot match any left element are all reported -/
theorem unmatchedR_all (ls : List (Int × α)) (rs : List (Int × β))
    (h : ∀ r ∈ rs, ∀ l ∈ ls, l.1 ≠ r.1) :
    (unmatchedR Prod.fst Prod.fst ls rs).map strip = rs.map fun r => (r.1, none, some r.2) := by
  have : (rs.filter fun r => (ls.filter fun l => decide (l.1 = r.1)).isEmpty) = rs := by
    apply List.filter_eq_self.mpr
    intro r hr
    simp only [List.isEmpty_iff, List.filter_eq_nil_iff, decide_eq_true_eq]
    exact fun l hl => h r hr l hl
  simp [unmatchedR, this, strip, Function.comp_def]

theorem unmatchedR_nil_left (rs : List (Int × β)) :
    (unmatchedR Prod.fst Prod.fst ([] : List (Int × α)) rs).map strip = rs.map fun r => (r.1, none, some r.2) :=
  unmatchedR_all [] rs (by simp)

theorem merge_correct (lo ro : Bool) :
    ∀ (ls : List (Int × α)) (rs : List (Int × β)) (last : Option Int),
      Desc ls → Desc rs →
      (∀ k, last = some k → (∀ l ∈ ls, l.1 ≤ k) ∧ (∀ r ∈ rs, r.1 ≤ k)) →
      (merge lo ro ls rs last).Perm (spec lo ro ls rs last) := by
  classical
  intro ls
  induction ls with
  | nil =>
    intro rs last _ _ _
    rw [merge, flatMap_discard_eq]
    cases ro
    · simp [spec, pairs, unmatchedL]
    · simp only [spec, pairs, unmatchedL, List.flatMap_nil, List.filter_nil, List.map_nil, if_true,
        List.nil_append]
      cases lo <;> simp [unmatchedR_nil_left]
  | cons l ls ih =>
    intro rs last hls hrs hlast
    obtain ⟨lk, lv⟩ := l
    have hl := List.pairwise_cons.mp hls
    -- split the right vector
    let disc := rs.takeWhile fun r => decide (r.1 > lk)
    let rs' := rs.dropWhile fun r => decide (r.1 > lk)
    have hsplit : rs = disc ++ rs' := (List.takeWhile_append_dropWhile).symm
    have hdisc : ∀ r ∈ disc, r.1 > lk := takeWhile_gt lk rs
    have hrs'le : ∀ r ∈ rs', r.1 ≤ lk := desc_dropWhile_le lk rs hrs
    have hrs'desc : Desc rs' := desc_dropWhile lk rs hrs
    have hm : rs'.takeWhile (fun r => decide (r.1 = lk)) = rs'.filter fun r => decide (r.1 = lk) :=
      desc_takeWhile_eq_filter lk rs' hrs'desc hrs'le
    have hlsle : ∀ l ∈ ls, l.1 ≤ lk := fun l h => hl.1 l h
    -- induction hypothesis on the rest
    have ih' := ih rs' (some lk) hl.2 hrs'desc (by
      intro k hk; cases hk; exact ⟨hlsle, hrs'le⟩)
    -- no element of `disc` matches any left element
    have hdisc_nomatch : ∀ r ∈ disc, ∀ l ∈ (lk, lv) :: ls, l.1 ≠ r.1 := by
      intro r hr l hl'
      have := hdisc r hr
      rcases List.mem_cons.mp hl' with rfl | hl'
      · simp; omega
      · have := hlsle l hl'; omega
    -- matches of the remaining left elements are the same in `rs` and `rs'`
    have hcongr : ∀ l ∈ ls, (rs.filter fun r => decide (r.1 = l.1)) = rs'.filter fun r => decide (r.1 = l.1) := by
      intro l hl'
      rw [hsplit, List.filter_append]
      have : (disc.filter fun r => decide (r.1 = l.1)) = [] := by
        apply List.filter_eq_nil_iff.mpr
        intro r hr
        have := hdisc r hr; have := hlsle l hl'
        simp; omega
      rw [this, List.nil_append]
    have hmatch_l : (rs.filter fun r => decide (r.1 = lk)) = rs'.filter fun r => decide (r.1 = lk) := by
      rw [hsplit, List.filter_append]
      have : (disc.filter fun r => decide (r.1 = lk)) = [] := by
        apply List.filter_eq_nil_iff.mpr
        intro r hr
        have := hdisc r hr
        simp; omega
      rw [this, List.nil_append]
    -- unfold one step of merge
    rw [merge]
    show ((disc.flatMap (discardRight ro last)) ++
        (match rs'.takeWhile (fun (r : Int × β) => decide (r.1 = lk)) with
          | [] => if lo then [(lk, some lv, none)] else []
          | _ :: _ => (rs'.takeWhile (fun (r : Int × β) => decide (r.1 = lk))).map
              fun (r : Int × β) => ((lk, some lv, some r.2) : Out Int α β)) ++
        merge lo ro ls rs' (some lk)).Perm _
    rw [hm, flatMap_discard_eq]
    -- the spec, decomposed
    have hp : pairs Prod.fst Prod.fst ((lk, lv) :: ls) rs
        = ((rs'.filter fun r => decide (r.1 = lk)).map fun r => (lk, some (lk, lv), some r))
          ++ pairs Prod.fst Prod.fst ls rs' := by
      have : pairs Prod.fst Prod.fst ((lk, lv) :: ls) rs
          = pairs Prod.fst Prod.fst [(lk, lv)] rs ++ pairs Prod.fst Prod.fst ls rs := by simp [pairs]
      rw [this, pairs_singleton, pairs_congr_right Prod.fst Prod.fst ls rs rs' hcongr]
      simp only [hmatch_l]
    have hu : unmatchedL Prod.fst Prod.fst ((lk, lv) :: ls) rs
        = (if (rs'.filter fun r => decide (r.1 = lk)).isEmpty then [(lk, some (lk, lv), none)] else [])
          ++ unmatchedL Prod.fst Prod.fst ls rs' := by
      have : unmatchedL Prod.fst Prod.fst ((lk, lv) :: ls) rs
          = unmatchedL Prod.fst Prod.fst [(lk, lv)] rs ++ unmatchedL Prod.fst Prod.fst ls rs := by
        rw [← unmatchedL_append]; rfl
      rw [this, unmatchedL_congr_right Prod.fst Prod.fst ls rs rs' hcongr]
      congr 1
      simp only [unmatchedL, List.filter_cons, List.filter_nil, hmatch_l]
      split <;> simp
    -- right-outer part
    have hr1 : (unmatchedR Prod.fst Prod.fst ((lk, lv) :: ls)
          (rs.filter fun r => decide (last ≠ some r.1))).map strip
        = ((disc.filter fun r => decide (last ≠ some r.1)).map fun r => (r.1, none, some r.2))
          ++ (unmatchedR Prod.fst Prod.fst ls (rs'.filter fun r => decide (some lk ≠ some r.1))).map strip := by
      rw [hsplit, List.filter_append, unmatchedR_append, List.map_append]
      congr 1
      · apply unmatchedR_all
        intro r hr l hl'
        exact hdisc_nomatch r (List.mem_filter.mp hr).1 l hl'
      · -- inside rs': key = last implies key = lk (matched by the head), so the `last` filter is void
        congr 1
        unfold unmatchedR
        congr 1
        rw [List.filter_filter, List.filter_filter]
        apply List.filter_congr
        intro r hr
        have hrle := hrs'le r hr
        by_cases he : lk = r.1
        · simp [List.filter_cons, he]
        · have hne : ¬ (some lk = some r.1) := by simpa using he
          have hlast : last ≠ some r.1 := by
            intro hk
            have := (hlast r.1 hk).1 (lk, lv) (by simp)
            simp at this; omega
          simp [List.filter_cons, he, hlast]
    unfold spec at ih' ⊢
    rw [hp, hu]
    rw [List.perm_iff_count] at ih' ⊢
    intro x
    have hx := ih' x
    have hr1x := congrArg (List.count x) hr1
    cases hme : rs'.filter (fun r => decide (r.1 = lk)) <;> cases lo <;> cases ro <;>
      simp [List.count_append, List.count_cons, hme, strip, Function.comp_def] at hx hr1x ⊢ <;> omega


/-! ### glue: permutation invariance of the spec, tagging with keys -/

section Glue
variable {κ : Type} [DecidableEq κ] (kl : α → κ) (kr : β → κ)

theorem relJoin_perm (v : Variant) {L L' : List α} {R R' : List β} (hL : L.Perm L') (hR : R.Perm R') :
    (relJoin v kl kr L R).Perm (relJoin v kl kr L' R') := by
  have p1 : (pairs kl kr L R).Perm (pairs kl kr L' R') := by
    refine (pairs_perm_left kl kr hL R).trans ?_
    unfold pairs
    exact perm_flatMap_pointwise _ _ _ fun l _ => (hR.filter _).map _
  have p2 : (unmatchedL kl kr L R).Perm (unmatchedL kl kr L' R') := by
    refine (unmatchedL_perm_left kl kr hL R).trans ?_
    have : unmatchedL kl kr L' R = unmatchedL kl kr L' R' := by
      unfold unmatchedL; congr 1
      exact List.filter_congr fun l _ => (hR.filter _).isEmpty_eq
    rw [this]
  have p3 : (unmatchedR kl kr L R).Perm (unmatchedR kl kr L' R') := by
    refine (unmatchedR_perm_right kl kr L hR).trans ?_
    have : unmatchedR kl kr L R' = unmatchedR kl kr L' R' := by
      unfold unmatchedR; congr 1
      exact List.filter_congr fun r _ => (hL.filter _).isEmpty_eq
    rw [this]
  unfold relJoin
  refine List.Perm.append (List.Perm.append p1 ?_) ?_
  · split
    · exact p2
    · exact List.Perm.refl _
  · split
    · exact p3
    · exact List.Perm.refl _

end Glue

/-- `(keyer(&item), item)` -/
def tag {γ : Type} (k : γ → Int) (x : γ) : Int × γ := (k x, x)

theorem relJoin_tag (v : Variant) (kl : α → Int) (kr : β → Int) (L : List α) (R : List β) :
    (relJoin v Prod.fst Prod.fst (L.map (tag kl)) (R.map (tag kr))).map strip = relJoin v kl kr L R := by
  cases v <;>
    simp [relJoin, Variant.leftOuter, Variant.rightOuter, pairs, unmatchedL, unmatchedR, strip, tag,
      List.flatMap_map, List.map_flatMap, List.filter_map, Function.comp_def] <;> rfl

/-! ### (A) nothing is emitted before the second end marker -/

variable (v : Variant) (kl : α → Int) (kr : β → Int)

/-- the state after having seen `Ls`, `Rs` with end flags `le`, `re` (not both set) -/
def smStateOf (le re : Bool) (Ls : List α) (Rs : List β) : State α β :=
  { left := if le then sortByKey (Ls.map (tag kl)) else Ls.map (tag kl),
    right := if re then sortByKey (Rs.map (tag kr)) else Rs.map (tag kr),
    leftEnded := le, rightEnded := re, lastLeftKey := none }

/-- everything the operator emits, at the second end marker -/
def finalOut (L : List α) (R : List β) : List (Out Int α β) :=
  merge v.leftOuter v.rightOuter (sortByKey (L.map (tag kl))).reverse (sortByKey (R.map (tag kr))).reverse none

theorem interleave_nil_nil {γ : Type} {zs : List γ} (h : Interleave [] [] zs) : zs = [] := by
  cases h; rfl

theorem feed_interleaving :
    ∀ (tr : List (Bin α β)) (le re : Bool) (Ls Lr : List α) (Rs Rr : List β),
      (le && re) = false → (le = true → Lr = []) → (re = true → Rr = []) →
      Interleave (remL le Lr) (remR re Rr) tr →
      feed v kl kr (smStateOf kl kr le re Ls Rs) tr = finalOut v kl kr (Ls ++ Lr) (Rs ++ Rr)
        ∧ farOk (stateAfterBin v kl kr (smStateOf kl kr le re Ls Rs) tr) = true
        ∧ far (stateAfterBin v kl kr (smStateOf kl kr le re Ls Rs) tr) = State.init := by
  intro tr
  induction tr with
  | nil =>
    intro le re Ls Lr Rs Rr hb hl hr h
    obtain ⟨h1, h2⟩ := h.nil_inv
    cases le <;> cases re <;> simp [remL, remR] at h1 h2 hb
  | cons x tr ih =>
    intro le re Ls Lr Rs Rr hb hl hr h
    rcases h.cons_inv with ⟨xs', hx, h'⟩ | ⟨ys', hy, h'⟩
    · cases le with
      | true => simp [remL] at hx
      | false =>
        cases Lr with
        | nil =>
          simp [remL] at hx
          obtain ⟨rfl, rfl⟩ := hx
          cases re with
          | false =>
            have hrem : (remL true ([] : List α) : List (Bin α β)) = [] := rfl
            rw [← hrem] at h'
            have hstep : stepBin v kl kr (smStateOf kl kr false false Ls Rs) .leftEnd
                = (smStateOf kl kr true false Ls Rs, []) := by
              simp [stepBin, drain, smStateOf]
            have := ih true false Ls [] Rs Rr rfl (fun _ => rfl) hr h'
            simpa [feed, stateAfterBin, hstep] using this
          | true =>
            have hRr := hr rfl
            subst hRr
            have htr : tr = [] := by
              have : (remR true ([] : List β) : List (Bin α β)) = [] := rfl
              rw [this] at h'
              exact interleave_nil_nil h'
            subst htr
            simp [feed, stateAfterBin, stepBin, drain, smStateOf, finalOut, farOk, far, State.init]
        | cons a Lr =>
          simp [remL] at hx
          obtain ⟨rfl, rfl⟩ := hx
          have hrem : (List.map Bin.left Lr ++ [Bin.leftEnd] : List (Bin α β)) = remL false Lr := rfl
          rw [hrem] at h'
          have hstep : stepBin v kl kr (smStateOf kl kr false re Ls Rs) (.left a)
              = (smStateOf kl kr false re (Ls ++ [a]) Rs, []) := by
            simp [stepBin, drain, smStateOf, tag]
          have := ih false re (Ls ++ [a]) Lr Rs Rr rfl (fun h => by cases h) hr h'
          simpa [feed, stateAfterBin, hstep, List.append_assoc] using this
    · cases re with
      | true => simp [remR] at hy
      | false =>
        cases Rr with
        | nil =>
          simp [remR] at hy
          obtain ⟨rfl, rfl⟩ := hy
          cases le with
          | false =>
            have hrem : (remR true ([] : List β) : List (Bin α β)) = [] := rfl
            rw [← hrem] at h'
            have hstep : stepBin v kl kr (smStateOf kl kr false false Ls Rs) .rightEnd
                = (smStateOf kl kr false true Ls Rs, []) := by
              simp [stepBin, drain, smStateOf]
            have := ih false true Ls Lr Rs [] rfl hl (fun _ => rfl) h'
            simpa [feed, stateAfterBin, hstep] using this
          | true =>
            have hLr := hl rfl
            subst hLr
            have htr : tr = [] := by
              have : (remL true ([] : List α) : List (Bin α β)) = [] := rfl
              rw [this] at h'
              exact interleave_nil_nil h'
            subst htr
            simp [feed, stateAfterBin, stepBin, drain, smStateOf, finalOut, farOk, far, State.init]
        | cons b Rr =>
          simp [remR] at hy
          obtain ⟨rfl, rfl⟩ := hy
          have hrem : (List.map Bin.right Rr ++ [Bin.rightEnd] : List (Bin α β)) = remR false Rr := rfl
          rw [hrem] at h'
          have hstep : stepBin v kl kr (smStateOf kl kr le false Ls Rs) (.right b)
              = (smStateOf kl kr le false Ls (Rs ++ [b]), []) := by
            simp [stepBin, drain, smStateOf, tag]
          have := ih le false Ls Lr (Rs ++ [b]) Rr (by simp) hl (fun h => by cases h) h'
          simpa [feed, stateAfterBin, hstep, List.append_assoc] using this

/-- the whole output is the relational join -/
theorem finalOut_perm (L : List α) (R : List β) :
    (finalOut v kl kr L R).Perm (relJoin v kl kr L R) := by
  have hm := merge_correct v.leftOuter v.rightOuter
    (sortByKey (L.map (tag kl))).reverse (sortByKey (R.map (tag kr))).reverse none
    (sortByKey_desc_reverse _) (sortByKey_desc_reverse _) (fun k hk => by cases hk)
  have hs : spec v.leftOuter v.rightOuter (sortByKey (L.map (tag kl))).reverse
      (sortByKey (R.map (tag kr))).reverse none
      = (relJoin v Prod.fst Prod.fst (sortByKey (L.map (tag kl))).reverse
          (sortByKey (R.map (tag kr))).reverse).map strip := by
    have hf : ∀ l : List (Int × β), (l.filter fun _ => true) = l := fun l => by simp
    simp [spec, relJoin, hf]
  have hp := relJoin_perm (Prod.fst : Int × α → Int) (Prod.fst : Int × β → Int) v
    ((List.reverse_perm _).trans (sortByKey_perm (L.map (tag kl))))
    ((List.reverse_perm _).trans (sortByKey_perm (R.map (tag kr))))
  unfold finalOut
  refine hm.trans ?_
  rw [hs, ← relJoin_tag v kl kr L R]
  exact hp.map _

end Noir.Join.SortMerge
