/-
  Lemmas/TimeWindows.lean — helper definitions, invariants and lemmas for Props/C14
  (session windows and processing-time windows).
-/
import NoirVerif.Model.SessionWindow
import NoirVerif.Model.ProcTimeWindow

namespace Noir.TimeWin
variable {α : Type}

/-- payloads of the data elements of timed ops -/
def values (es : List (Nat × Elem α)) : List α := es.filterMap (fun p => p.2.value)

/-- data elements with their arrival clock reading -/
def timed (es : List (Nat × Elem α)) : List (Nat × α) :=
  es.filterMap (fun p => p.2.value.map (fun x => (p.1, x)))

/-- no end-of-iteration marker (`FlushAndRestart` / `Terminate`) among the ops -/
def NoEnd (es : List (Nat × Elem α)) : Prop := ∀ p ∈ es, p.2 ≠ Elem.far ∧ p.2 ≠ Elem.term

/-- clock readings of the ops -/
def clocks (es : List (Nat × Elem α)) : List Nat := es.map (·.1)

/-- the clock is non-decreasing (`std::time::Instant` is monotone) -/
def Mono (ts : List Nat) : Prop := ts.Pairwise (· ≤ ·)

@[simp] theorem values_nil : values ([] : List (Nat × Elem α)) = [] := rfl
@[simp] theorem timed_nil : timed ([] : List (Nat × Elem α)) = [] := rfl

theorem values_cons (p : Nat × Elem α) (es : List (Nat × Elem α)) :
    values (p :: es) = p.2.value.toList ++ values es := by
  unfold values
  cases h : p.2.value <;> simp [h]

theorem values_append (a b : List (Nat × Elem α)) : values (a ++ b) = values a ++ values b := by
  simp [values, List.filterMap_append]

theorem noEnd_cons {p : Nat × Elem α} {es : List (Nat × Elem α)} (h : NoEnd (p :: es)) :
    (p.2 ≠ Elem.far ∧ p.2 ≠ Elem.term) ∧ NoEnd es :=
  ⟨h p (by simp), fun q hq => h q (by simp [hq])⟩

end Noir.TimeWin

/-! ## Session windows -/
namespace Noir.SessionWindow
open Noir.TimeWin
variable {α : Type}

/-- an open session is never empty -/
def Ok (w : State α) : Prop := ∀ s, w = some s → s.items ≠ []

theorem ok_none : Ok (none : State α) := by intro s h; cases h

/-- one step: what is emitted plus what stays open = what was open plus the new element -/
theorem process_conserves (gap : Nat) (w : State α) (now : Nat) (e : Elem α) :
    ((process gap w now e).2.toList).flatten ++ pending (process gap w now e).1
      = pending w ++ e.value.toList := by
  cases w with
  | none => cases e <;> simp [process, expire, push, pending, Elem.value]
  | some s =>
    by_cases h : now - s.last > gap <;>
      cases e <;> simp [process, expire, push, pending, Elem.value, h]

theorem process_ok (gap : Nat) (w : State α) (now : Nat) (e : Elem α) (hw : Ok w) :
    Ok (process gap w now e).1 ∧ ∀ r, (process gap w now e).2 = some r → r ≠ [] := by
  cases w with
  | none =>
    cases e <;> simp [process, expire, push, Ok]
  | some s =>
    have hs : s.items ≠ [] := hw s rfl
    by_cases h : now - s.last > gap <;>
      cases e <;> simp [process, expire, push, Ok, h, hs]

theorem runFrom_cons (gap : Nat) (w : State α) (i now : Nat) (e : Elem α) (es : List (Nat × Elem α)) :
    (runFrom gap w i ((now, e) :: es)).map (·.2) =
      (process gap w now e).2.toList ++ (runFrom gap (process gap w now e).1 (i + 1) es).map (·.2) := by
  rw [runFrom]
  rcases hp : process gap w now e with ⟨w', _ | r⟩ <;> simp

theorem runFrom_index_irrelevant (gap : Nat) (es : List (Nat × Elem α)) :
    ∀ (w : State α) (i j : Nat), (runFrom gap w i es).map (·.2) = (runFrom gap w j es).map (·.2) := by
  induction es with
  | nil => intros; rfl
  | cons p es ih =>
    intro w i j
    obtain ⟨now, e⟩ := p
    rw [runFrom_cons, runFrom_cons, ih _ (i + 1) (j + 1)]

theorem outputs_cons (gap : Nat) (w : State α) (now : Nat) (e : Elem α) (es : List (Nat × Elem α)) :
    outputs gap w ((now, e) :: es) =
      (process gap w now e).2.toList ++ outputs gap (process gap w now e).1 es := by
  unfold outputs
  rw [runFrom_cons, runFrom_index_irrelevant gap es _ (0 + 1) 0]

@[simp] theorem outputs_nil (gap : Nat) (w : State α) : outputs gap w [] = [] := rfl

theorem stateAfter_append (gap : Nat) (es es' : List (Nat × Elem α)) :
    ∀ w : State α, stateAfter gap w (es ++ es') = stateAfter gap (stateAfter gap w es) es' := by
  induction es with
  | nil => intro w; rfl
  | cons p es ih => intro w; obtain ⟨now, e⟩ := p; simp [stateAfter, ih]

theorem outputs_append (gap : Nat) (es es' : List (Nat × Elem α)) :
    ∀ w : State α, outputs gap w (es ++ es') = outputs gap w es ++ outputs gap (stateAfter gap w es) es' := by
  induction es with
  | nil => intro w; simp [stateAfter]
  | cons p es ih =>
    intro w; obtain ⟨now, e⟩ := p
    simp [outputs_cons, stateAfter, ih]

/-- conservation over a whole run (any element kinds, any clock) -/
theorem run_conserves (gap : Nat) (es : List (Nat × Elem α)) :
    ∀ w : State α, (outputs gap w es).flatten ++ pending (stateAfter gap w es) = pending w ++ values es := by
  induction es with
  | nil => intro w; simp [stateAfter]
  | cons p es ih =>
    intro w; obtain ⟨now, e⟩ := p
    rw [outputs_cons, stateAfter, List.flatten_append, List.append_assoc, ih, values_cons,
      ← List.append_assoc, process_conserves, List.append_assoc]

theorem run_ok (gap : Nat) (es : List (Nat × Elem α)) :
    ∀ w : State α, Ok w → Ok (stateAfter gap w es) ∧ ∀ r ∈ outputs gap w es, r ≠ [] := by
  induction es with
  | nil => intro w hw; simp [stateAfter, hw]
  | cons p es ih =>
    intro w hw; obtain ⟨now, e⟩ := p
    obtain ⟨h1, h2⟩ := process_ok gap w now e hw
    obtain ⟨h3, h4⟩ := ih _ h1
    refine ⟨by simpa [stateAfter] using h3, ?_⟩
    intro r hr
    rw [outputs_cons, List.mem_append] at hr
    rcases hr with hr | hr
    · exact h2 r (by simpa [Option.mem_toList] using hr)
    · exact h4 r hr

/-! ### where the sessions split -/

/-- One iteration from a state `some ⟨cur, last⟩` (B) or from the state `none` reached because an
    expiry check closed `cur` (A): the outputs are the session groups of the timed data. -/
theorem outputs_groups_aux (gap t : Nat) (es : List (Nat × Elem α)) :
    NoEnd es → Mono (clocks es ++ [t]) →
    (∀ (cur : List α) (last : Nat), (∀ u ∈ clocks es, u - last > gap) →
      cur :: outputs gap none (es ++ [(t, Elem.far)]) = groupsGo gap cur last (timed es)) ∧
    (∀ (cur : List α) (last : Nat), (∀ u ∈ clocks es ++ [t], last ≤ u) →
      outputs gap (some ⟨cur, last⟩) (es ++ [(t, Elem.far)]) = groupsGo gap cur last (timed es)) := by
  induction es with
  | nil =>
    intro _ _
    constructor
    · intro cur last _
      simp [outputs_cons, process, expire, timed, groupsGo]
    · intro cur last _
      by_cases h : t - last > gap <;>
        simp [outputs_cons, process, expire, timed, groupsGo, h]
  | cons p es ih =>
    intro hne hmono
    obtain ⟨now, e⟩ := p
    obtain ⟨⟨hfar, hterm⟩, hne'⟩ := noEnd_cons hne
    simp only [clocks, List.map_cons, List.cons_append, Mono, List.pairwise_cons] at hmono
    obtain ⟨hnow, hmono'⟩ := hmono
    obtain ⟨ihA, ihB⟩ := ih hne' hmono'
    have hB := fun (c : List α) => ihB c now hnow
    constructor
    · intro cur last hgap
      have hg : now - last > gap := hgap now (by simp [clocks])
      have hgap' : ∀ u ∈ clocks es, u - last > gap :=
        fun u hu => hgap u (by simp only [clocks, List.map_cons, List.mem_cons]; right; exact hu)
      cases e with
      | far => exact absurd rfl hfar
      | term => exact absurd rfl hterm
      | item x =>
        simp only [List.cons_append, outputs_cons, process, expire, push, Option.toList, List.nil_append, hB]
        simp [timed, Elem.value, groupsGo, hg]
      | ts x tt =>
        simp only [List.cons_append, outputs_cons, process, expire, push, Option.toList, List.nil_append, hB]
        simp [timed, Elem.value, groupsGo, hg]
      | wm tt =>
        simp only [List.cons_append, outputs_cons, process, expire, Option.toList, List.nil_append, ihA cur last hgap']
        simp [timed, Elem.value]
      | flushBatch =>
        simp only [List.cons_append, outputs_cons, process, expire, Option.toList, List.nil_append, ihA cur last hgap']
        simp [timed, Elem.value]
    · intro cur last hlast
      have hl : last ≤ now := hlast now (by simp [clocks])
      have hlast' : ∀ u ∈ clocks es ++ [t], last ≤ u := fun u hu => Nat.le_trans hl (hnow u hu)
      by_cases hg : now - last > gap
      · have hgap' : ∀ u ∈ clocks es, u - last > gap := by
          intro u hu
          have := hnow u (List.mem_append_left _ hu)
          omega
        cases e with
        | far => exact absurd rfl hfar
        | term => exact absurd rfl hterm
        | item x =>
          simp only [List.cons_append, outputs_cons, process, expire, hg, if_true, push, Option.toList, hB]
          simp [timed, Elem.value, groupsGo, hg]
        | ts x tt =>
          simp only [List.cons_append, outputs_cons, process, expire, hg, if_true, push, Option.toList, hB]
          simp [timed, Elem.value, groupsGo, hg]
        | wm tt =>
          simp only [List.cons_append, outputs_cons, process, expire, hg, if_true, Option.toList]
          simpa [timed, Elem.value] using ihA cur last hgap'
        | flushBatch =>
          simp only [List.cons_append, outputs_cons, process, expire, hg, if_true, Option.toList]
          simpa [timed, Elem.value] using ihA cur last hgap'
      · cases e with
        | far => exact absurd rfl hfar
        | term => exact absurd rfl hterm
        | item x =>
          simp only [List.cons_append, outputs_cons, process, expire, hg, if_false, push, Option.toList, hB,
            List.nil_append]
          simp [timed, Elem.value, groupsGo, hg]
        | ts x tt =>
          simp only [List.cons_append, outputs_cons, process, expire, hg, if_false, push, Option.toList, hB,
            List.nil_append]
          simp [timed, Elem.value, groupsGo, hg]
        | wm tt =>
          simp only [List.cons_append, outputs_cons, process, expire, hg, if_false, Option.toList, List.nil_append]
          simpa [timed, Elem.value] using ihB cur last hlast'
        | flushBatch =>
          simp only [List.cons_append, outputs_cons, process, expire, hg, if_false, Option.toList, List.nil_append]
          simpa [timed, Elem.value] using ihB cur last hlast'

/-- one whole iteration from the initial state -/
theorem outputs_groups (gap t : Nat) (es : List (Nat × Elem α)) :
    NoEnd es → Mono (clocks es ++ [t]) →
    outputs gap none (es ++ [(t, Elem.far)]) = groups gap (timed es) := by
  induction es with
  | nil => intro _ _; simp [outputs_cons, process, expire, timed, groups]
  | cons p es ih =>
    intro hne hmono
    obtain ⟨now, e⟩ := p
    obtain ⟨⟨hfar, hterm⟩, hne'⟩ := noEnd_cons hne
    simp only [clocks, List.map_cons, List.cons_append, Mono, List.pairwise_cons] at hmono
    obtain ⟨hnow, hmono'⟩ := hmono
    have hB := fun (c : List α) => (outputs_groups_aux gap t es hne' hmono').2 c now hnow
    cases e with
    | far => exact absurd rfl hfar
    | term => exact absurd rfl hterm
    | item x =>
      simp only [List.cons_append, outputs_cons, process, expire, push, Option.toList, List.nil_append, hB]
      simp [timed, Elem.value, groups]
    | ts x tt =>
      simp only [List.cons_append, outputs_cons, process, expire, push, Option.toList, List.nil_append, hB]
      simp [timed, Elem.value, groups]
    | wm tt =>
      simp only [List.cons_append, outputs_cons, process, expire, Option.toList, List.nil_append, ih hne' hmono']
      simp [timed, Elem.value]
    | flushBatch =>
      simp only [List.cons_append, outputs_cons, process, expire, Option.toList, List.nil_append, ih hne' hmono']
      simp [timed, Elem.value]

end Noir.SessionWindow

/-! ## Processing-time windows -/
namespace Noir.ProcTimeWindow
open Noir.TimeWin
variable {α : Type}

/-- everything held by the open slots, front to back -/
def content (ws : List (Slot α)) : List α := (ws.map (·.items)).flatten

@[simp] theorem content_nil : content ([] : List (Slot α)) = [] := rfl
@[simp] theorem content_cons (s : Slot α) (ws : List (Slot α)) : content (s :: ws) = s.items ++ content ws := by
  simp [content]
@[simp] theorem content_append (a b : List (Slot α)) : content (a ++ b) = content a ++ content b := by
  simp [content]

/-- `active` is set exactly on the slots that hold at least one element -/
def ActiveOk (ws : List (Slot α)) : Prop := ∀ s ∈ ws, (s.active = true ↔ s.items ≠ [])

theorem activeOk_nil : ActiveOk ([] : List (Slot α)) := by intro s h; cases h

theorem activeOk_cons {s : Slot α} {ws : List (Slot α)} :
    ActiveOk (s :: ws) ↔ (s.active = true ↔ s.items ≠ []) ∧ ActiveOk ws := by
  simp [ActiveOk]

/-- slots pushed by the `while` loop are empty and inactive -/
def Fresh (ext : List (Slot α)) : Prop := ∀ s ∈ ext, s.items = [] ∧ s.active = false

theorem growLoop_append (c : Cfg) (now : Nat) (fuel : Nat) :
    ∀ ws : List (Slot α), ∃ ext, growLoop c now fuel ws = ws ++ ext ∧ Fresh ext := by
  induction fuel with
  | zero => intro ws; exact ⟨[], by simp [growLoop], by intro s h; cases h⟩
  | succ fuel ih =>
    intro ws
    rw [growLoop]
    cases hl : ws.getLast? with
    | none =>
      obtain ⟨ext, h1, h2⟩ := ih (ws ++ [Slot.new now (now + c.size)])
      refine ⟨Slot.new now (now + c.size) :: ext, by simp [h1], ?_⟩
      intro s hs
      rcases List.mem_cons.mp hs with rfl | hs
      · simp [Slot.new]
      · exact h2 s hs
    | some b =>
      simp only
      split
      · obtain ⟨ext, h1, h2⟩ := ih (ws ++ [Slot.new (b.start + c.slide) (b.start + c.slide + c.size)])
        refine ⟨Slot.new (b.start + c.slide) (b.start + c.slide + c.size) :: ext, by simp [h1], ?_⟩
        intro s hs
        rcases List.mem_cons.mp hs with rfl | hs
        · simp [Slot.new]
        · exact h2 s hs
      · exact ⟨[], by simp, by intro s h; cases h⟩

theorem content_fresh (ext : List (Slot α)) (h : Fresh ext) : content ext = [] := by
  induction ext with
  | nil => rfl
  | cons s ext ih =>
    have := h s (by simp)
    simp [this.1, ih (fun s hs => h s (by simp [hs]))]

theorem activeOk_append_fresh {ws ext : List (Slot α)} (h : ActiveOk ws) (hf : Fresh ext) :
    ActiveOk (ws ++ ext) := by
  intro s hs
  rcases List.mem_append.mp hs with hs | hs
  · exact h s hs
  · have := hf s hs; simp [this.1, this.2]

/-! ### `mark` -/

theorem mem_markTake (now : Nat) (x : α) : ∀ (ws : List (Slot α)) (s' : Slot α),
    s' ∈ markTake now x ws → s' ∈ ws ∨ ∃ s ∈ ws, s' = s.add x ∧ s.start ≤ now := by
  intro ws
  induction ws with
  | nil => intro s' h; simp [markTake] at h
  | cons s ws ih =>
    intro s' h
    rw [markTake] at h
    split at h
    · rcases List.mem_cons.mp h with rfl | h
      · right; exact ⟨s, by simp, rfl, by assumption⟩
      · rcases ih s' h with h | ⟨s0, h0, h1⟩
        · left; simp [h]
        · right; exact ⟨s0, by simp [h0], h1⟩
    · left; exact h

theorem mem_mark (now : Nat) (x : α) : ∀ (ws : List (Slot α)) (s' : Slot α),
    s' ∈ mark now x ws → s' ∈ ws ∨ ∃ s ∈ ws, s' = s.add x ∧ s.start ≤ now := by
  intro ws
  induction ws with
  | nil => intro s' h; simp [mark] at h
  | cons s ws ih =>
    intro s' h
    rw [mark] at h
    split at h
    · rcases List.mem_cons.mp h with rfl | h
      · left; simp
      · rcases ih s' h with h | ⟨s0, h0, h1⟩
        · left; simp [h]
        · right; exact ⟨s0, by simp [h0], h1⟩
    · exact mem_markTake now x (s :: ws) s' h

theorem activeOk_mark (now : Nat) (x : α) (ws : List (Slot α)) (h : ActiveOk ws) :
    ActiveOk (mark now x ws) := by
  intro s' hs'
  rcases mem_mark now x ws s' hs' with h1 | ⟨s, _, rfl, _⟩
  · exact h s' h1
  · simp [Slot.add]

/-! ### draining -/

theorem filter_active_content (l : List (Slot α)) (h : ActiveOk l) :
    ((l.filter (·.active)).map (·.items)).flatten = content l := by
  induction l with
  | nil => rfl
  | cons s l ih =>
    obtain ⟨hs, hl⟩ := activeOk_cons.mp h
    cases ha : s.active with
    | true => simp [ha, ih hl]
    | false =>
      have : s.items = [] := by
        cases hi : s.items with
        | nil => rfl
        | cons a b => have := hs.mpr (by simp [hi]); simp [ha] at this
      simp [ha, ih hl, this]

theorem activeOk_of_subset {l l' : List (Slot α)} (h : ActiveOk l) (hs : ∀ s ∈ l', s ∈ l) : ActiveOk l' :=
  fun s hm => h s (hs s hm)

theorem mem_of_mem_takeWhile' {p : Slot α → Bool} {l : List (Slot α)} {s : Slot α}
    (h : s ∈ l.takeWhile p) : s ∈ l := (List.takeWhile_sublist p).subset h

theorem mem_of_mem_dropWhile' {p : Slot α → Bool} {l : List (Slot α)} {s : Slot α}
    (h : s ∈ l.dropWhile p) : s ∈ l := (List.dropWhile_sublist p).subset h

/-- lines 83-88 lose nothing: what is emitted plus what stays is what was there -/
theorem drainOld_content (now : Nat) (ws : List (Slot α)) (h : ActiveOk ws) :
    (drainOld now ws).2.flatten ++ content (drainOld now ws).1 = content ws := by
  unfold drainOld
  simp only
  rw [filter_active_content _ (activeOk_of_subset h (fun s hs => mem_of_mem_takeWhile' hs)),
    ← content_append, List.takeWhile_append_dropWhile]

theorem drainAll_content (ws : List (Slot α)) (h : ActiveOk ws) :
    (drainAll ws).2.flatten ++ content (drainAll ws).1 = content ws := by
  unfold drainAll
  simp [filter_active_content ws h]

theorem drain_nonempty (l : List (Slot α)) (h : ActiveOk l) :
    ∀ r ∈ (l.filter (·.active)).map (·.items), r ≠ [] := by
  intro r hr
  obtain ⟨s, hs, rfl⟩ := List.mem_map.mp hr
  rw [List.mem_filter] at hs
  exact (h s hs.1).mp hs.2

theorem drain_from (l : List (Slot α)) :
    ∀ r ∈ (l.filter (·.active)).map (·.items), ∃ s ∈ l, r = s.items := by
  intro r hr
  obtain ⟨s, hs, rfl⟩ := List.mem_map.mp hr
  rw [List.mem_filter] at hs
  exact ⟨s, hs.1, rfl⟩

/-! ### one step: `ActiveOk`, results non-empty, results are subsequences -/

theorem grow_append (c : Cfg) (now : Nat) (ws : List (Slot α)) :
    ∃ ext, grow c now ws = ws ++ ext ∧ Fresh ext := growLoop_append c now _ ws

theorem process_activeOk (c : Cfg) (ws : List (Slot α)) (now : Nat) (e : Elem α) (h : ActiveOk ws) :
    ActiveOk (process c ws now e).1 ∧ ∀ r ∈ (process c ws now e).2, r ≠ [] := by
  have hdrain : ∀ l : List (Slot α), ActiveOk l →
      ActiveOk (drainOld now l).1 ∧ ∀ r ∈ (drainOld now l).2, r ≠ [] := by
    intro l hl
    exact ⟨activeOk_of_subset hl (fun s hs => mem_of_mem_dropWhile' hs),
      drain_nonempty _ (activeOk_of_subset hl (fun s hs => mem_of_mem_takeWhile' hs))⟩
  have hitem : ∀ x, ActiveOk (processItem c ws now x).1 ∧ ∀ r ∈ (processItem c ws now x).2, r ≠ [] := by
    intro x
    obtain ⟨ext, hg, hf⟩ := grow_append c now ws
    unfold processItem
    exact hdrain _ (activeOk_mark now x _ (by rw [hg]; exact activeOk_append_fresh h hf))
  cases e with
  | item x => exact hitem x
  | ts x t => exact hitem x
  | far => exact ⟨activeOk_nil, drain_nonempty ws h⟩
  | term => exact ⟨activeOk_nil, drain_nonempty ws h⟩
  | wm t => exact hdrain ws h
  | flushBatch => exact hdrain ws h

/-- every slot holds a subsequence of `vals` -/
def SubOf (vals : List α) (ws : List (Slot α)) : Prop := ∀ s ∈ ws, s.items.Sublist vals

theorem process_subOf (c : Cfg) (ws : List (Slot α)) (now : Nat) (e : Elem α) (vals : List α)
    (h : SubOf vals ws) :
    SubOf (vals ++ e.value.toList) (process c ws now e).1 ∧
      ∀ r ∈ (process c ws now e).2, r.Sublist (vals ++ e.value.toList) := by
  have hmono : ∀ v, SubOf vals ws → SubOf (vals ++ v) ws :=
    fun v h s hs => (h s hs).trans (List.sublist_append_left _ _)
  have hdrain : ∀ (l : List (Slot α)) (v : List α), SubOf v l →
      SubOf v (drainOld now l).1 ∧ ∀ r ∈ (drainOld now l).2, r.Sublist v := by
    intro l v hl
    refine ⟨fun s hs => hl s (mem_of_mem_dropWhile' hs), ?_⟩
    intro r hr
    obtain ⟨s, hs, rfl⟩ := drain_from _ r hr
    exact hl s (mem_of_mem_takeWhile' hs)
  have hall : ∀ v, SubOf v ws → SubOf v (drainAll ws).1 ∧ ∀ r ∈ (drainAll ws).2, r.Sublist v := by
    intro v hl
    refine ⟨(by intro s hs; cases hs), ?_⟩
    intro r hr
    obtain ⟨s, hs, rfl⟩ := drain_from _ r hr
    exact hl s hs
  have hitem : ∀ x, SubOf (vals ++ [x]) (processItem c ws now x).1 ∧
      ∀ r ∈ (processItem c ws now x).2, r.Sublist (vals ++ [x]) := by
    intro x
    obtain ⟨ext, hg, hf⟩ := grow_append c now ws
    unfold processItem
    apply hdrain
    intro s' hs'
    rcases mem_mark now x _ s' hs' with h1 | ⟨s, h1, rfl, _⟩
    · rw [hg] at h1
      rcases List.mem_append.mp h1 with h1 | h1
      · exact hmono [x] h s' h1
      · rw [(hf s' h1).1]; exact List.nil_sublist _
    · rw [hg] at h1
      simp only [Slot.add]
      rcases List.mem_append.mp h1 with h1 | h1
      · exact List.Sublist.append (h s h1) (List.Sublist.refl _)
      · rw [(hf s h1).1]; simp
  cases e with
  | item x => exact hitem x
  | ts x t => exact hitem x
  | far => simpa [Elem.value, process] using hall vals h
  | term => simpa [Elem.value, process] using hall vals h
  | wm t => simpa [Elem.value, process] using hdrain ws vals h
  | flushBatch => simpa [Elem.value, process] using hdrain ws vals h

/-! ### the time structure of the deque -/

/-- the slots are `[a, a+size), [a+slide, a+slide+size), [a+2·slide, …), …` -/
def ChainFrom (c : Cfg) : Nat → List (Slot α) → Prop
  | _, [] => True
  | a, s :: rest => s.start = a ∧ s.stop = a + c.size ∧ ChainFrom c (a + c.slide) rest

theorem chain_snoc (c : Cfg) : ∀ (ws : List (Slot α)) (a : Nat) (b : Slot α),
    ChainFrom c a ws → ws.getLast? = some b →
    ChainFrom c a (ws ++ [Slot.new (b.start + c.slide) (b.start + c.slide + c.size)]) := by
  intro ws
  induction ws with
  | nil => intro a b _ h; simp at h
  | cons s ws ih =>
    intro a b hc hl
    obtain ⟨h1, h2, h3⟩ := hc
    cases ws with
    | nil =>
      simp at hl; subst hl
      simp [ChainFrom, Slot.new, h1, h2]
    | cons s' ws' =>
      rw [List.getLast?_cons_cons] at hl
      exact ⟨h1, h2, ih _ b h3 hl⟩

theorem chain_start_ge (c : Cfg) : ∀ (ws : List (Slot α)) (a : Nat),
    ChainFrom c a ws → ∀ s ∈ ws, a ≤ s.start := by
  intro ws
  induction ws with
  | nil => intro a _ s h; cases h
  | cons s0 ws ih =>
    intro a hc s hs
    obtain ⟨h1, _, h3⟩ := hc
    rcases List.mem_cons.mp hs with rfl | hs
    · omega
    · have := ih _ h3 s hs; omega

theorem chain_markTake (c : Cfg) (now : Nat) (x : α) : ∀ (ws : List (Slot α)) (a : Nat),
    ChainFrom c a ws → ChainFrom c a (markTake now x ws) := by
  intro ws
  induction ws with
  | nil => intro a h; exact h
  | cons s ws ih =>
    intro a hc
    obtain ⟨h1, h2, h3⟩ := hc
    rw [markTake]
    split
    · exact ⟨h1, h2, ih _ h3⟩
    · exact ⟨h1, h2, h3⟩

theorem chain_mark (c : Cfg) (now : Nat) (x : α) : ∀ (ws : List (Slot α)) (a : Nat),
    ChainFrom c a ws → ChainFrom c a (mark now x ws) := by
  intro ws
  induction ws with
  | nil => intro a h; exact h
  | cons s ws ih =>
    intro a hc
    rw [mark]
    split
    · obtain ⟨h1, h2, h3⟩ := hc; exact ⟨h1, h2, ih _ h3⟩
    · exact chain_markTake c now x _ a hc

/-- dropping the expired prefix keeps a chain whose first start is not in the future
    (needs `slide ≤ size`: the slot after an expired one has already started) -/
theorem chain_dropWhile (c : Cfg) (now : Nat) (hss : c.slide ≤ c.size) : ∀ (ws : List (Slot α)) (a : Nat),
    ChainFrom c a ws → a ≤ now →
    ∃ a', ChainFrom c a' (ws.dropWhile (fun w => w.stop < now)) ∧ a' ≤ now := by
  intro ws
  induction ws with
  | nil => intro a _ ha; exact ⟨a, trivial, ha⟩
  | cons s ws ih =>
    intro a hc ha
    obtain ⟨h1, h2, h3⟩ := hc
    by_cases hs : s.stop < now
    · simp only [List.dropWhile_cons, hs, decide_true, if_true]
      exact ih _ h3 (by omega)
    · simp only [List.dropWhile_cons, hs, decide_false]
      exact ⟨a, ⟨h1, h2, h3⟩, ha⟩

/-- The `while` loop (lines 55-62) with enough fuel, on a non-empty chain: afterwards the back slot
    does not start before `now`. -/
theorem growLoop_spec (c : Cfg) (now : Nat) (hs : 1 ≤ c.slide) (fuel : Nat) :
    ∀ (ws : List (Slot α)) (a : Nat) (b : Slot α), ChainFrom c a ws → ws.getLast? = some b →
      now - b.start + 1 ≤ fuel →
      ∃ ext b', growLoop c now fuel ws = ws ++ ext ∧ Fresh ext ∧ ChainFrom c a (ws ++ ext) ∧
        (ws ++ ext).getLast? = some b' ∧ now ≤ b'.start := by
  induction fuel with
  | zero => intro ws a b _ _ h; omega
  | succ fuel ih =>
    intro ws a b hc hl hf
    rw [growLoop, hl]
    simp only
    by_cases hb : b.start < now
    · simp only [hb, if_true]
      have hc' := chain_snoc c ws a b hc hl
      obtain ⟨ext, b', h1, h2, h3, h4, h5⟩ := ih (ws ++ [Slot.new (b.start + c.slide) (b.start + c.slide + c.size)])
        a (Slot.new (b.start + c.slide) (b.start + c.slide + c.size)) hc' (by simp)
        (by simp only [Slot.new]; omega)
      refine ⟨Slot.new (b.start + c.slide) (b.start + c.slide + c.size) :: ext, b', by simp [h1], ?_, ?_, ?_, h5⟩
      · intro s hs
        rcases List.mem_cons.mp hs with rfl | hs
        · simp [Slot.new]
        · exact h2 s hs
      · simpa using h3
      · simpa using h4
    · simp only [hb, if_false]
      exact ⟨[], b, by simp, (by intro s h; cases h), by simpa using hc, by simpa using hl, by omega⟩

/-- the `while` loop from any chain that does not start in the future -/
theorem grow_spec (c : Cfg) (now : Nat) (hs : 1 ≤ c.slide) (ws : List (Slot α)) (a : Nat)
    (hc : ChainFrom c a ws) (ha : a ≤ now) :
    ∃ ext b' a', grow c now ws = ws ++ ext ∧ Fresh ext ∧ ChainFrom c a' (ws ++ ext) ∧ a' ≤ now ∧
      (ws ++ ext).getLast? = some b' ∧ now ≤ b'.start := by
  cases hl : ws.getLast? with
  | none =>
    have hnil : ws = [] := by simpa using hl
    subst hnil
    have hc0 : ChainFrom c now [(Slot.new now (now + c.size) : Slot α)] := by simp [ChainFrom, Slot.new]
    obtain ⟨ext, b', h1, h2, h3, h4, h5⟩ := growLoop_spec c now hs (now + 1) _ now (Slot.new now (now + c.size)) hc0 rfl
      (by simp only [Slot.new]; omega)
    refine ⟨Slot.new now (now + c.size) :: ext, b', now, ?_, ?_, by simpa using h3, Nat.le_refl _, by simpa using h4, h5⟩
    · unfold grow; rw [growLoop]; simp [h1]
    · intro s hs
      rcases List.mem_cons.mp hs with rfl | hs
      · simp [Slot.new]
      · exact h2 s hs
  | some b =>
    obtain ⟨ext, b', h1, h2, h3, h4, h5⟩ := growLoop_spec c now hs (now + 2) ws a b hc hl (by omega)
    exact ⟨ext, b', a, h1, h2, h3, ha, h4, h5⟩

/-- The fuel `now + 2` of `grow` is enough: on every chain that does not start in the future the loop
    stops because its condition `back.start < now` is false (cited in Model/ProcTimeWindow.lean). -/
theorem grow_fuel_enough (c : Cfg) (now : Nat) (hs : 1 ≤ c.slide) (ws : List (Slot α)) (a : Nat)
    (hc : ChainFrom c a ws) (ha : a ≤ now) :
    ∃ b, (grow c now ws).getLast? = some b ∧ ¬ b.start < now := by
  obtain ⟨ext, b', _, hg, _, _, _, hl, hb⟩ := grow_spec c now hs ws a hc ha
  exact ⟨b', by rw [hg]; exact hl, by omega⟩

/-! ### the representation invariant -/

/-- Invariant of the deque at the clock reading `t` of the last `process` call: the slots form a
    chain whose first slot has started, `active` marks the non-empty slots, and only slots that
    have started hold elements. -/
structure Inv (c : Cfg) (ws : List (Slot α)) (t : Nat) : Prop where
  chain : ∃ a, ChainFrom c a ws ∧ a ≤ t
  active : ActiveOk ws
  seen : ∀ s ∈ ws, s.items ≠ [] → s.start ≤ t

theorem inv_init (c : Cfg) (t : Nat) : Inv c ([] : List (Slot α)) t :=
  ⟨⟨0, trivial, Nat.zero_le _⟩, activeOk_nil, by intro s h; cases h⟩

theorem drainOld_inv (c : Cfg) (hss : c.slide ≤ c.size) (ws : List (Slot α)) (t now : Nat)
    (inv : Inv c ws t) (ht : t ≤ now) : Inv c (drainOld now ws).1 now := by
  obtain ⟨a, hc, ha⟩ := inv.chain
  refine ⟨chain_dropWhile c now hss ws a hc (by omega),
    activeOk_of_subset inv.active (fun s hs => mem_of_mem_dropWhile' hs), ?_⟩
  intro s hs hi
  have := inv.seen s (mem_of_mem_dropWhile' hs) hi
  omega

/-- the deque after the `while` loop and the marking (before line 83) -/
theorem mark_grow_inv (c : Cfg) (hs : 1 ≤ c.slide) (ws : List (Slot α)) (t now : Nat) (x : α)
    (inv : Inv c ws t) (ht : t ≤ now) : Inv c (mark now x (grow c now ws)) now := by
  obtain ⟨a, hc, ha⟩ := inv.chain
  obtain ⟨ext, b', a', hg, hf, hc', ha', _, _⟩ := grow_spec c now hs ws a hc (by omega)
  rw [hg]
  refine ⟨⟨a', chain_mark c now x _ a' hc', ha'⟩,
    activeOk_mark now x _ (activeOk_append_fresh inv.active hf), ?_⟩
  intro s' hs' hi
  rcases mem_mark now x _ s' hs' with h1 | ⟨s, _, rfl, h2⟩
  · rcases List.mem_append.mp h1 with h1 | h1
    · have := inv.seen s' h1 hi; omega
    · exact absurd (hf s' h1).1 hi
  · exact h2

theorem process_inv (c : Cfg) (hs : 1 ≤ c.slide) (hss : c.slide ≤ c.size) (ws : List (Slot α))
    (t now : Nat) (e : Elem α) (inv : Inv c ws t) (ht : t ≤ now) : Inv c (process c ws now e).1 now := by
  have hitem : ∀ x, Inv c (processItem c ws now x).1 now := fun x =>
    drainOld_inv c hss _ now now (mark_grow_inv c hs ws t now x inv ht) (Nat.le_refl _)
  cases e with
  | item x => exact hitem x
  | ts x tt => exact hitem x
  | far => exact inv_init c now
  | term => exact inv_init c now
  | wm tt => exact drainOld_inv c hss ws t now inv ht
  | flushBatch => exact drainOld_inv c hss ws t now inv ht

/-! ### tumbling windows: the new element lands behind everything stored -/

theorem content_eq_nil (l : List (Slot α)) (h : ∀ s ∈ l, s.items = []) : content l = [] := by
  induction l with
  | nil => rfl
  | cons s l ih => simp [h s (by simp), ih (fun s hs => h s (by simp [hs]))]

theorem markTake_future (c : Cfg) (now : Nat) (x : α) (rest : List (Slot α)) (a : Nat)
    (hc : ChainFrom c a rest) (ha : now < a) : markTake now x rest = rest := by
  cases rest with
  | nil => rfl
  | cons s r =>
    obtain ⟨h1, _, _⟩ := hc
    have : ¬ s.start ≤ now := by omega
    simp [markTake, this]

theorem content_future (c : Cfg) (now : Nat) (rest : List (Slot α)) (a : Nat)
    (hc : ChainFrom c a rest) (ha : now < a) (hseen : ∀ s ∈ rest, s.items ≠ [] → s.start ≤ now) :
    content rest = [] := by
  apply content_eq_nil
  intro s hs
  cases hi : s.items with
  | nil => rfl
  | cons y ys =>
    have h1 := hseen s hs (by simp [hi])
    have h2 := chain_start_ge c rest a hc s hs
    omega

theorem mark_content_tumbling (c : Cfg) (hsz : 1 ≤ c.size) (hts : c.slide = c.size) (now : Nat) (x : α) :
    ∀ (W : List (Slot α)) (a : Nat) (b : Slot α), ChainFrom c a W → a ≤ now →
      W.getLast? = some b → now ≤ b.start → (∀ s ∈ W, s.items ≠ [] → s.start ≤ now) →
      content (mark now x W) = content W ++ [x] := by
  intro W
  induction W with
  | nil => intro a b _ _ h; simp at h
  | cons s rest ih =>
    intro a b hc ha hl hb hseen
    obtain ⟨h1, h2, h3⟩ := hc
    rw [mark]
    by_cases hstop : s.stop ≤ now
    · simp only [hstop, if_true, content_cons]
      cases rest with
      | nil =>
        simp at hl; subst hl; omega
      | cons s' r =>
        rw [List.getLast?_cons_cons] at hl
        rw [ih (a + c.slide) b h3 (by omega) hl hb (fun s hs => hseen s (by simp [hs]))]
        simp
    · simp only [hstop, if_false]
      have hstart : s.start ≤ now := by omega
      rw [markTake]
      simp only [hstart, if_true, content_cons, Slot.add]
      rw [markTake_future c now x rest _ h3 (by omega),
        content_future c now rest _ h3 (by omega) (fun s hs => hseen s (by simp [hs]))]
      simp

/-- one `process` call of a tumbling manager conserves the elements *in order* -/
theorem process_content_tumbling (c : Cfg) (hsz : 1 ≤ c.size) (hts : c.slide = c.size)
    (ws : List (Slot α)) (t now : Nat) (e : Elem α) (inv : Inv c ws t) (ht : t ≤ now) :
    (process c ws now e).2.flatten ++ content (process c ws now e).1 = content ws ++ e.value.toList := by
  have hitem : ∀ x, (processItem c ws now x).2.flatten ++ content (processItem c ws now x).1
      = content ws ++ [x] := by
    intro x
    have hs : 1 ≤ c.slide := by omega
    obtain ⟨a, hc, ha⟩ := inv.chain
    obtain ⟨ext, b', a', hg, hf, hc', ha', hl, hb⟩ := grow_spec c now hs ws a hc (by omega)
    unfold processItem
    rw [drainOld_content now _ (mark_grow_inv c hs ws t now x inv ht).active, hg,
      mark_content_tumbling c hsz hts now x _ a' b' hc' ha' hl hb, content_append, content_fresh ext hf]
    · simp
    · intro s hs hi
      rcases List.mem_append.mp hs with h1 | h1
      · have := inv.seen s h1 hi; omega
      · exact absurd (hf s h1).1 hi
  cases e with
  | item x => exact hitem x
  | ts x tt => exact hitem x
  | far => simpa [Elem.value, process] using drainAll_content ws inv.active
  | term => simpa [Elem.value, process] using drainAll_content ws inv.active
  | wm tt => simpa [Elem.value, process] using drainOld_content now ws inv.active
  | flushBatch => simpa [Elem.value, process] using drainOld_content now ws inv.active

/-! ### whole runs -/

theorem runFrom_outputs (c : Cfg) (es : List (Nat × Elem α)) : ∀ (ws : List (Slot α)) (i : Nat),
    (runFrom c ws i es).map (·.2) = outputs c ws es := by
  induction es with
  | nil => intro ws i; rfl
  | cons p es ih =>
    intro ws i; obtain ⟨now, e⟩ := p
    simp [runFrom, outputs, ih, Function.comp_def]

theorem stateAfter_append (c : Cfg) (es es' : List (Nat × Elem α)) : ∀ ws : List (Slot α),
    stateAfter c ws (es ++ es') = stateAfter c (stateAfter c ws es) es' := by
  induction es with
  | nil => intro ws; rfl
  | cons p es ih => intro ws; obtain ⟨now, e⟩ := p; simp [stateAfter, ih]

theorem run_activeOk (c : Cfg) (es : List (Nat × Elem α)) : ∀ ws : List (Slot α), ActiveOk ws →
    ActiveOk (stateAfter c ws es) ∧ ∀ r ∈ outputs c ws es, r ≠ [] := by
  induction es with
  | nil => intro ws h; exact ⟨h, by intro r hr; cases hr⟩
  | cons p es ih =>
    intro ws h; obtain ⟨now, e⟩ := p
    obtain ⟨h1, h2⟩ := process_activeOk c ws now e h
    obtain ⟨h3, h4⟩ := ih _ h1
    refine ⟨h3, ?_⟩
    intro r hr
    simp only [outputs, List.mem_append] at hr
    rcases hr with hr | hr
    · exact h2 r hr
    · exact h4 r hr

theorem run_subOf (c : Cfg) (es : List (Nat × Elem α)) : ∀ (ws : List (Slot α)) (vals : List α),
    SubOf vals ws → ∀ r ∈ outputs c ws es, r.Sublist (vals ++ values es) := by
  induction es with
  | nil => intro ws vals _ r hr; cases hr
  | cons p es ih =>
    intro ws vals h r hr; obtain ⟨now, e⟩ := p
    obtain ⟨h1, h2⟩ := process_subOf c ws now e vals h
    simp only [outputs, List.mem_append] at hr
    rw [values_cons, ← List.append_assoc]
    rcases hr with hr | hr
    · exact (h2 r hr).trans (List.sublist_append_left _ _)
    · exact ih _ _ h1 r hr

/-- tumbling: outputs ++ pending, concatenated, are the input, for every monotone clock -/
theorem run_tumbling (c : Cfg) (hsz : 1 ≤ c.size) (hts : c.slide = c.size) (es : List (Nat × Elem α)) :
    ∀ (ws : List (Slot α)) (t : Nat), Inv c ws t → Mono (t :: clocks es) →
    (outputs c ws es).flatten ++ content (stateAfter c ws es) = content ws ++ values es := by
  induction es with
  | nil => intro ws t _ _; simp [outputs, stateAfter]
  | cons p es ih =>
    intro ws t inv hm; obtain ⟨now, e⟩ := p
    simp only [clocks, List.map_cons, Mono, List.pairwise_cons] at hm
    have ht : t ≤ now := hm.1 now (by simp)
    have inv' := process_inv c (by omega) (by omega) ws t now e inv ht
    have := ih _ now inv' (by simp only [Mono, clocks, List.pairwise_cons]; exact hm.2)
    simp only [outputs, stateAfter, List.flatten_append, List.append_assoc]
    rw [this, ← List.append_assoc, process_content_tumbling c hsz hts ws t now e inv ht, values_cons,
      List.append_assoc]

theorem chain_stop_ge (c : Cfg) : ∀ (ws : List (Slot α)) (a : Nat),
    ChainFrom c a ws → ∀ s ∈ ws, a + c.size ≤ s.stop := by
  intro ws
  induction ws with
  | nil => intro a _ s h; cases h
  | cons s0 ws ih =>
    intro a hc s hs
    obtain ⟨_, h2, h3⟩ := hc
    rcases List.mem_cons.mp hs with rfl | hs
    · omega
    · have := ih _ h3 s hs; omega

/-- the `end`s of a chain are sorted (what `partition_point` needs) -/
theorem chain_stop_sorted (c : Cfg) : ∀ (ws : List (Slot α)) (a : Nat),
    ChainFrom c a ws → (ws.map (·.stop)).Pairwise (· ≤ ·) := by
  intro ws
  induction ws with
  | nil => intro a _; simp
  | cons s ws ih =>
    intro a hc
    obtain ⟨_, h2, h3⟩ := hc
    simp only [List.map_cons, List.pairwise_cons, List.mem_map]
    refine ⟨?_, ih _ h3⟩
    rintro _ ⟨s', hs', rfl⟩
    have := chain_stop_ge c ws _ h3 s' hs'
    omega

theorem run_inv (c : Cfg) (hs : 1 ≤ c.slide) (hss : c.slide ≤ c.size) (es : List (Nat × Elem α)) :
    ∀ (ws : List (Slot α)) (t : Nat), Inv c ws t → Mono (t :: clocks es) →
    ∃ t', Inv c (stateAfter c ws es) t' ∧ t ≤ t' ∧ ∀ u ∈ clocks es, u ≤ t' := by
  induction es with
  | nil => intro ws t inv _; exact ⟨t, inv, Nat.le_refl _, by intro u hu; cases hu⟩
  | cons p es ih =>
    intro ws t inv hm; obtain ⟨now, e⟩ := p
    simp only [clocks, List.map_cons, Mono, List.pairwise_cons] at hm
    have ht : t ≤ now := hm.1 now (by simp)
    obtain ⟨t', h1, h2, h3⟩ := ih _ now (process_inv c hs hss ws t now e inv ht)
      (by simp only [Mono, clocks, List.pairwise_cons]; exact hm.2)
    refine ⟨t', h1, by omega, ?_⟩
    intro u hu
    simp only [clocks, List.map_cons, List.mem_cons] at hu
    rcases hu with rfl | hu
    · exact h2
    · exact h3 u hu

/-! ### sliding windows: how many slots receive an element -/

/-- number of slots `markTake` adds the element to -/
def nTake (now : Nat) : List (Slot α) → Nat
  | [] => 0
  | s :: ws => if s.start ≤ now then nTake now ws + 1 else 0

/-- number of slots `mark` adds the element to -/
def nMark (now : Nat) : List (Slot α) → Nat
  | [] => 0
  | s :: ws => if s.stop ≤ now then nMark now ws else nTake now (s :: ws)

theorem nTake_bound (c : Cfg) (now : Nat) : ∀ (ws : List (Slot α)) (a : Nat), ChainFrom c a ws →
    nTake now ws = 0 ∨ a + (nTake now ws - 1) * c.slide ≤ now := by
  intro ws
  induction ws with
  | nil => intro a _; left; rfl
  | cons s ws ih =>
    intro a hc
    obtain ⟨h1, _, h3⟩ := hc
    rw [nTake]
    by_cases hs : s.start ≤ now
    · simp only [hs, if_true]
      right
      rcases ih _ h3 with h0 | hpos
      · rw [h0]; simp; omega
      · cases hn : nTake now ws with
        | zero => simp; omega
        | succ k =>
          rw [hn] at hpos
          simp only [Nat.add_sub_cancel] at hpos ⊢
          rw [Nat.succ_mul]; omega
    · simp [hs]

theorem nMark_le (c : Cfg) (hs : 1 ≤ c.slide) (now : Nat) : ∀ (ws : List (Slot α)) (a : Nat),
    ChainFrom c a ws → nMark now ws ≤ (c.size + c.slide - 1) / c.slide := by
  intro ws
  induction ws with
  | nil => intro a _; simp [nMark]
  | cons s ws ih =>
    intro a hc
    rw [nMark]
    by_cases hst : s.stop ≤ now
    · simp only [hst, if_true]; exact ih _ hc.2.2
    · simp only [hst, if_false]
      rw [Nat.le_div_iff_mul_le (by omega)]
      rcases nTake_bound c now (s :: ws) a hc with h0 | hpos
      · rw [h0]; simp
      · obtain ⟨h1, h2, _⟩ := hc
        cases hn : nTake now (s :: ws) with
        | zero => simp
        | succ k =>
          rw [hn] at hpos
          simp only [Nat.add_sub_cancel] at hpos
          rw [Nat.succ_mul]; omega

theorem nMark_pos (c : Cfg) (hsz : 1 ≤ c.size) (hss : c.slide ≤ c.size) (now : Nat) :
    ∀ (W : List (Slot α)) (a : Nat) (b : Slot α), ChainFrom c a W → a ≤ now →
      W.getLast? = some b → now ≤ b.start → 1 ≤ nMark now W := by
  intro W
  induction W with
  | nil => intro a b _ _ h; simp at h
  | cons s rest ih =>
    intro a b hc ha hl hb
    obtain ⟨h1, h2, h3⟩ := hc
    rw [nMark]
    by_cases hstop : s.stop ≤ now
    · simp only [hstop, if_true]
      cases rest with
      | nil => simp at hl; subst hl; omega
      | cons s' r =>
        rw [List.getLast?_cons_cons] at hl
        exact ih (a + c.slide) b h3 (by omega) hl hb
    · simp only [hstop, if_false]
      have hstart : s.start ≤ now := by omega
      simp [nTake, hstart]

section count
variable [DecidableEq α]

theorem markTake_count (now : Nat) (x y : α) : ∀ ws : List (Slot α),
    (content (markTake now x ws)).count y = (content ws).count y + nTake now ws * [x].count y := by
  intro ws
  induction ws with
  | nil => simp [markTake, nTake]
  | cons s ws ih =>
    rw [markTake, nTake]
    by_cases hs : s.start ≤ now
    · simp only [hs, if_true, content_cons, Slot.add, List.count_append, ih, Nat.succ_mul]
      omega
    · simp [hs]

theorem mark_count (now : Nat) (x y : α) : ∀ ws : List (Slot α),
    (content (mark now x ws)).count y = (content ws).count y + nMark now ws * [x].count y := by
  intro ws
  induction ws with
  | nil => simp [mark, nMark]
  | cons s ws ih =>
    rw [mark, nMark]
    by_cases hs : s.stop ≤ now
    · simp only [hs, if_true, content_cons, List.count_append, ih]; omega
    · simp only [hs, if_false]; exact markTake_count now x y (s :: ws)

/-- one `process` call: the element is stored in `m` slots, `1 ≤ m ≤ ceil(size/slide)`; nothing else
    changes in the multiset of stored-or-emitted occurrences -/
theorem process_count_sliding (c : Cfg) (hs : 1 ≤ c.slide) (hss : c.slide ≤ c.size)
    (ws : List (Slot α)) (t now : Nat) (e : Elem α) (inv : Inv c ws t) (ht : t ≤ now) (y : α) :
    ∃ m, 1 ≤ m ∧ m ≤ (c.size + c.slide - 1) / c.slide ∧
      ((process c ws now e).2.flatten ++ content (process c ws now e).1).count y
        = (content ws).count y + m * e.value.toList.count y := by
  have hitem : ∀ x, ∃ m, 1 ≤ m ∧ m ≤ (c.size + c.slide - 1) / c.slide ∧
      ((processItem c ws now x).2.flatten ++ content (processItem c ws now x).1).count y
        = (content ws).count y + m * [x].count y := by
    intro x
    obtain ⟨a, hc, ha⟩ := inv.chain
    obtain ⟨ext, b', a', hg, hf, hc', ha', hl, hb⟩ := grow_spec c now hs ws a hc (by omega)
    refine ⟨nMark now (ws ++ ext), nMark_pos c (by omega) hss now _ a' b' hc' ha' hl hb,
      nMark_le c hs now _ a' hc', ?_⟩
    unfold processItem
    rw [drainOld_content now _ (mark_grow_inv c hs ws t now x inv ht).active, hg, mark_count,
      content_append, content_fresh ext hf]
    simp
  have hK : 1 ≤ (c.size + c.slide - 1) / c.slide := by
    rw [Nat.le_div_iff_mul_le (by omega)]; omega
  cases e with
  | item x => exact hitem x
  | ts x tt => exact hitem x
  | far => exact ⟨1, Nat.le_refl _, hK, by simp [Elem.value, process, drainAll_content ws inv.active]⟩
  | term => exact ⟨1, Nat.le_refl _, hK, by simp [Elem.value, process, drainAll_content ws inv.active]⟩
  | wm tt => exact ⟨1, Nat.le_refl _, hK, by simp [Elem.value, process, drainOld_content now ws inv.active]⟩
  | flushBatch => exact ⟨1, Nat.le_refl _, hK, by simp [Elem.value, process, drainOld_content now ws inv.active]⟩

/-- sliding: over a whole run the occurrences of `y` among outputs ++ pending grow by `n` with
    `count y input ≤ n ≤ ceil(size/slide) · count y input` -/
theorem run_sliding (c : Cfg) (hs : 1 ≤ c.slide) (hss : c.slide ≤ c.size) (y : α)
    (es : List (Nat × Elem α)) :
    ∀ (ws : List (Slot α)) (t : Nat), Inv c ws t → Mono (t :: clocks es) →
    ∃ n, ((outputs c ws es).flatten ++ content (stateAfter c ws es)).count y = (content ws).count y + n ∧
      (values es).count y ≤ n ∧ n ≤ (c.size + c.slide - 1) / c.slide * (values es).count y := by
  induction es with
  | nil => intro ws t _ _; exact ⟨0, by simp [outputs, stateAfter], by simp, by simp⟩
  | cons p es ih =>
    intro ws t inv hm; obtain ⟨now, e⟩ := p
    simp only [clocks, List.map_cons, Mono, List.pairwise_cons] at hm
    have ht : t ≤ now := hm.1 now (by simp)
    have inv' := process_inv c hs hss ws t now e inv ht
    obtain ⟨n', hn1, hn2, hn3⟩ := ih _ now inv' (by simp only [Mono, clocks, List.pairwise_cons]; exact hm.2)
    obtain ⟨m, hm1, hm2, hm3⟩ := process_count_sliding c hs hss ws t now e inv ht y
    refine ⟨m * e.value.toList.count y + n', ?_, ?_, ?_⟩
    · simp only [outputs, stateAfter, List.flatten_append, List.append_assoc, List.count_append] at hn1 hm3 ⊢
      omega
    · rw [values_cons, List.count_append]; dsimp only
      have : e.value.toList.count y ≤ m * e.value.toList.count y := Nat.le_mul_of_pos_left _ hm1
      omega
    · rw [values_cons, List.count_append, Nat.mul_add]; dsimp only
      have : m * e.value.toList.count y ≤ (c.size + c.slide - 1) / c.slide * e.value.toList.count y :=
        Nat.mul_le_mul_right _ hm2
      omega

end count

end Noir.ProcTimeWindow
